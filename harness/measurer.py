"""Independent geometric measurer for the annotation properties (C03, C04, C11; reused by C05).

It MEASURES, it never judges: distances, angles and torsions are computed with plain numpy
(brute-force O(n^2), no KD-tree, no code from /repo) and every decision quantity is reported
 * in natural units (Angstrom / degrees),
 * as an integer in micro-units (what TLC sees),
 * with a three-valued flag per threshold: "in" / "near" (within 1e-6) / "out" ("na" = atoms missing),
 * with its margin = distance to the nearest threshold.
Thresholds and donor / acceptor / edge / class tables are NOT defined here and are NOT read from
the repository: they are exported from specs/Annot.tla by specs/Gen_Annot.tla (`constants()`).

Public API
----------
    K = measurer.constants()                 # dict exported from the TLA+ module (cached per process)
    M = measurer.measure(structure3d, K=None, model=None)

`structure3d` is duck-typed: `.residues`, each with `.atoms` (objects with .name .x .y .z),
`.one_letter_name`, `.label`, `.auth`, `.model`.  An atom of a residue = the FIRST atom carrying
that name (the Structure3D is the input; alternative locations are the reader's business).

measure() returns a dict:
  residues     list of dict(idx, model, letter, label, auth, has_centroid, has_normal, has_glyco,
                            centroid, normal)            (idx = position in structure3d.residues)
  stack_pairs  per residue pair (i < j in structure order, both with a centroid, centroid distance
               <= STACK_PREFILTER): dict(i, j, dist, nn, off_code, off_weak, dot, flags..., margins...)
  contacts     per donor-acceptor atom pair of different residues with distance <= CONTACT_PREFILTER:
               dict(i, j, a, b, dist, ang1, ang2, flags, margins, kind in {"base","ribose","phosphate"},
               and for base->phosphate/ribose contacts the class torsion)
  pair_torsions  {(i, j): dict(torsion, flag, margin)} cis/trans torsion of every residue pair that
               has a contact (C1'-N1/N9 ... N1/N9-C1')
  margins      list of (kind, where, quantity, value, threshold, margin) for every decision quantity
  min_margin   dict(distance=..., angle=...) smallest margins seen (Angstrom, degrees)
"""
import json
import math

import numpy as np

CONTACT_PREFILTER = 4.5     # Angstrom; generous pre-filter only, the decision threshold is K's
STACK_PREFILTER = 7.0
EPS = 1e-6                  # "near" band, in Angstrom / degrees

_K = None


def constants(scratch=None):
    """Thresholds and tables exported from specs/Annot.tla (runs TLC on Gen_Annot once per process)."""
    global _K
    if _K is not None:
        return _K
    from . import lib
    own = scratch is None
    sc = lib.Scratch("annot-const") if own else scratch
    try:
        out = sc.path("annot-constants.json")
        r = lib.tlc("Gen_Annot", "Empty.cfg", workers=1, env={"OUT_FILE": out}, scratch=sc, xmx="1g",
                    tag="gen-annot")
        if '<<"CONSTANTS"' not in r["out"]:
            raise lib.MachineryError("constants export failed:\n" + r["out"][-2000:])
        with open(out) as f:
            _K = json.load(f)
    finally:
        if own:
            sc.close()
    return _K


def set_constants(K):
    global _K
    _K = K


# ----------------------------------------------------------------------------- three-valued flags

def micro(v):
    return int(round(v * 1e6))


def flag_upper(v, thr):
    """quantity must be <= thr"""
    if abs(v - thr) < EPS:
        return "near"
    return "in" if v < thr else "out"


def flag_window(v, lo, hi):
    """quantity must lie inside (lo, hi)"""
    if abs(v - lo) < EPS or abs(v - hi) < EPS:
        return "near"
    return "in" if lo < v < hi else "out"


def _unit(v):
    n = float(np.linalg.norm(v))
    return None if n < 1e-9 else v / n


def angle_deg(u, v):
    """angle between two vectors in degrees, None if undefined"""
    a, b = _unit(u), _unit(v)
    if a is None or b is None:
        return None
    return math.degrees(math.acos(max(-1.0, min(1.0, float(np.dot(a, b))))))


def torsion_deg(p1, p2, p3, p4):
    """IUPAC torsion angle p1-p2-p3-p4 in degrees in (-180, 180]; None when undefined (collinear)."""
    b1, b2, b3 = p2 - p1, p3 - p2, p4 - p3
    n1, n2 = np.cross(b1, b2), np.cross(b2, b3)
    if np.linalg.norm(b2) < 1e-9 or np.linalg.norm(n1) < 1e-9 or np.linalg.norm(n2) < 1e-9:
        return None
    x = float(np.dot(n1, n2))                               # (b1 x b2) . (b2 x b3)
    y = float(np.linalg.norm(b2) * np.dot(b1, n2))          # |b2| b1 . (b2 x b3)
    return math.degrees(math.atan2(y, x))


# ----------------------------------------------------------------------------- residues

def _first_atoms(residue):
    d = {}
    for a in residue.atoms:
        if a.name not in d:
            d[a.name] = np.array([float(a.x), float(a.y), float(a.z)])
    return d


def _residue_info(idx, r, K):
    L = r.one_letter_name
    atoms = _first_atoms(r)
    known = L in K["letters"]
    info = {"idx": idx, "model": r.model, "letter": L, "label": r.label, "auth": r.auth, "atoms": atoms,
            "centroid": None, "normal": None, "glyco": None, "sugar": atoms.get(K["sugar_atom"])}
    if known:
        pts = [atoms[n] for n in K["base_atoms"][L] if n in atoms]
        if pts:
            info["centroid"] = np.mean(np.array(pts), axis=0)
    tri = K["normal_atoms_purine"] if L in K["purines"] else K["normal_atoms_pyrimidine"]
    if all(n in atoms for n in tri):
        v = np.cross(atoms[tri[1]] - atoms[tri[0]], atoms[tri[2]] - atoms[tri[0]])
        info["normal"] = _unit(v)
    info["glyco"] = atoms.get(K["glycosidic_purine"] if L in K["purines"] else K["glycosidic_other"])
    info["has_centroid"] = info["centroid"] is not None
    info["has_normal"] = info["normal"] is not None
    info["has_glyco"] = info["glyco"] is not None and info["sugar"] is not None
    return info


def _same_identity(r1, r2):
    """The two residue records denote the same residue identity (equal label or equal auth)."""
    return (r1["label"] is not None and r1["label"] == r2["label"]) or \
           (r1["auth"] is not None and r1["auth"] == r2["auth"])


# ----------------------------------------------------------------------------- measure

def measure(structure3d, K=None, model=None):
    K = K or constants()
    U = float(K["micro"])
    hb_d = K["hbond_max_dist"] / U
    hb_lo, hb_hi = K["hbond_angle_lo"] / U, K["hbond_angle_hi"] / U
    ct_b = K["cis_trans_boundary"] / U
    st_d, st_nn, st_off = K["stack_max_dist"] / U, K["stack_max_normal_angle"] / U, K["stack_max_offset_angle"] / U
    bph_d, bph_t = K["bph_max_dist"] / U, K["bph_torsion_boundary"] / U
    rib, pho = set(K["ribose_acceptors"]), set(K["phosphate_acceptors"])

    residues = [_residue_info(i, r, K) for i, r in enumerate(structure3d.residues)
                if model is None or r.model == model]
    margins = []

    def note(kind, where, q, v, thr):
        margins.append((kind, where, q, v, thr, abs(v - thr)))

    # ---------------------------------------------------------------- stacking candidates
    stack_pairs = []
    cen = [r for r in residues if r["has_centroid"]]
    if len(cen) >= 2:
        C = np.array([r["centroid"] for r in cen])
        D = np.sqrt(((C[:, None, :] - C[None, :, :]) ** 2).sum(-1))
        for x in range(len(cen)):
            for y in range(x + 1, len(cen)):
                d = float(D[x, y])
                if d > STACK_PREFILTER:
                    continue
                ri, rj = cen[x], cen[y]
                rec = {"i": ri["idx"], "j": rj["idx"], "dist": d, "dist_flag": flag_upper(d, st_d),
                       "dist_margin": abs(d - st_d), "nn": None, "off_code": None, "off_weak": None, "dot": None,
                       "nn_flag": "na", "off_code_flag": "na", "off_weak_flag": "na", "dot_flag": "na"}
                where = (ri["idx"], rj["idx"])
                note("stack", where, "centroid_distance", d, st_d)
                ni, nj = ri["normal"], rj["normal"]
                if ni is not None and nj is not None:
                    a = angle_deg(ni, nj)
                    nn = min(a, 180.0 - a)
                    v = ri["centroid"] - rj["centroid"]       # from the later residue to the earlier one
                    offs = [angle_deg(v, ni), angle_deg(v, nj)]
                    if offs[0] is None:                       # coincident centroids: undecidable
                        off_code = off_weak = st_off
                    else:
                        off_code = min(offs)
                        off_weak = min(offs + [180.0 - o for o in offs])
                    dot = float(np.dot(ni, nj))
                    rec.update({"nn": nn, "off_code": off_code, "off_weak": off_weak, "dot": dot,
                                "nn_flag": flag_upper(nn, st_nn), "off_code_flag": flag_upper(off_code, st_off),
                                "off_weak_flag": flag_upper(off_weak, st_off),
                                "dot_flag": "near" if abs(dot) < EPS else ("pos" if dot > 0 else "neg"),
                                "nn_margin": abs(nn - st_nn), "off_code_margin": abs(off_code - st_off),
                                "off_weak_margin": abs(off_weak - st_off), "dot_margin": abs(dot)})
                    note("stack", where, "normal_angle", nn, st_nn)
                    note("stack", where, "offset_angle", off_code, st_off)
                    note("stack", where, "offset_angle_either_direction", off_weak, st_off)
                stack_pairs.append(rec)

    # ---------------------------------------------------------------- donor / acceptor atoms
    entries = []   # (residue record, atom name, is_donor, is_base_acceptor, is_ribose_acc, is_phosphate_acc, xyz)
    for r in residues:
        L = r["letter"]
        don = set(K["donors"][L]) if L in K["letters"] else set()
        bacc = set(K["base_acceptors"][L]) if L in K["letters"] else set()
        for name, xyz in r["atoms"].items():
            isd, isb, isr, isp = name in don, name in bacc, name in rib, name in pho
            if isd or isb or isr or isp:
                entries.append((r, name, isd, isb, isr, isp, xyz))
    contacts, pair_torsions = [], {}
    if len(entries) >= 2:
        X = np.array([e[6] for e in entries])
        ridx = np.array([e[0]["idx"] for e in entries])
        isdon = np.array([e[2] for e in entries])
        isacc = np.array([e[3] or e[4] or e[5] for e in entries])
        n = len(entries)
        B = 1024
        raw = []
        for s in range(0, n, B):
            blk = X[s:s + B]
            D = np.sqrt(((blk[:, None, :] - X[None, :, :]) ** 2).sum(-1))
            ii, jj = np.nonzero(D <= CONTACT_PREFILTER)
            for a, b in zip(ii + s, jj):
                if a < b and ridx[a] != ridx[b] and ((isdon[a] and isacc[b]) or (isacc[a] and isdon[b])):
                    raw.append((int(a), int(b), float(D[a - s, b])))
        # degree of every atom in the graph of possible base->phosphate/ribose contacts (<= threshold + eps)
        deg_d, deg_a = {}, {}
        for a, b, d in raw:
            if d >= bph_d + EPS:
                continue
            ea, eb = entries[a], entries[b]
            if _same_identity(ea[0], eb[0]):
                continue
            for (dn, ac) in ((ea, eb), (eb, ea)):
                # only a contact whose donor atom has a class rule can be classified and consume its atoms
                if dn[2] and (ac[4] or ac[5]) and K["bph_rule"].get(dn[0]["letter"], {}).get(dn[1]) is not None:
                    kd, ka = (dn[0]["idx"], dn[1]), (ac[0]["idx"], ac[1])
                    deg_d[kd] = deg_d.get(kd, 0) + 1
                    deg_a[ka] = deg_a.get(ka, 0) + 1
        for a, b, d in raw:
            ea, eb = entries[a], entries[b]
            ri, rj = ea[0], eb[0]                  # a < b in entry order => ri precedes rj in the structure
            v = ea[6] - eb[6]
            a1 = angle_deg(ri["normal"], v) if ri["normal"] is not None else None
            a2 = angle_deg(rj["normal"], v) if rj["normal"] is not None else None
            kind = "phosphate" if (ea[1] in pho or eb[1] in pho) else (
                "ribose" if (ea[1] in rib or eb[1] in rib) else "base")
            rec = {"i": ri["idx"], "j": rj["idx"], "a": ea[1], "b": eb[1], "dist": d, "kind": kind,
                   "dist_flag": flag_upper(d, hb_d), "dist_margin": abs(d - hb_d),
                   "ang1": a1, "ang2": a2,
                   "ang1_flag": "na" if a1 is None else flag_window(a1, hb_lo, hb_hi),
                   "ang2_flag": "na" if a2 is None else flag_window(a2, hb_lo, hb_hi),
                   "same_identity": _same_identity(ri, rj)}
            where = (ri["idx"], ea[1], rj["idx"], eb[1])
            note("contact", where, "distance", d, hb_d)
            for q, av in (("ang1", a1), ("ang2", a2)):
                if av is not None:
                    rec[q + "_margin"] = min(abs(av - hb_lo), abs(av - hb_hi))
                    note("contact", where, q, av, hb_lo if abs(av - hb_lo) < abs(av - hb_hi) else hb_hi)
            # base donor -> phosphate / ribose oxygen: class torsion and isolation degrees
            rec["bph"] = []
            for (dn, ac, side) in ((ea, eb, "ij"), (eb, ea, "ji")):
                if dn[2] and (ac[4] or ac[5]):
                    L = dn[0]["letter"]
                    rule = K["bph_rule"].get(L, {}).get(dn[1])
                    if rule is None:
                        continue            # no class rule for this donor atom (O2'): never a base-phosphate/ribose contact
                    tf, tv = "na", None
                    if rule is not None:
                        if rule[0] == rule[1]:
                            tf = "in"
                        else:
                            at = dn[0]["atoms"]
                            if rule[2] in at and rule[3] in at:
                                tv = torsion_deg(at[rule[2]], at[rule[3]], dn[6], ac[6])
                                if tv is None:
                                    tf = "near"
                                else:
                                    tf = flag_upper(abs(tv), bph_t)
                                    note("bph", where, "class_torsion", abs(tv), bph_t)
                    rec["bph"].append({"dir": side, "donor": dn[1], "acceptor": ac[1],
                                       "acceptor_kind": "phosphate" if ac[5] else "ribose",
                                       "torsion": tv, "torsion_flag": tf,
                                       "dist_flag": flag_upper(d, bph_d),
                                       "deg_donor": deg_d.get((dn[0]["idx"], dn[1]), 0),
                                       "deg_acceptor": deg_a.get((ac[0]["idx"], ac[1]), 0)})
            contacts.append(rec)
            key = (ri["idx"], rj["idx"])
            if key not in pair_torsions:
                if ri["has_glyco"] and rj["has_glyco"]:
                    t = torsion_deg(ri["sugar"], ri["glyco"], rj["glyco"], rj["sugar"])
                    if t is None:
                        pair_torsions[key] = {"torsion": None, "flag": "near", "margin": 0.0}
                    else:
                        pair_torsions[key] = {"torsion": t, "flag": flag_upper(abs(t), ct_b),
                                              "margin": abs(abs(t) - ct_b)}
                        note("pair", key, "cis_trans_torsion", abs(t), ct_b)
                else:
                    pair_torsions[key] = {"torsion": None, "flag": "na", "margin": None}

    dm = [m[5] for m in margins if m[2] in ("distance", "centroid_distance")]
    am = [m[5] for m in margins if m[2] not in ("distance", "centroid_distance")]
    return {"residues": residues, "stack_pairs": stack_pairs, "contacts": contacts,
            "pair_torsions": pair_torsions, "margins": margins,
            "min_margin": {"distance": min(dm) if dm else None, "angle": min(am) if am else None}}
