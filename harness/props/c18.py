"""C18 - torsion angles follow the IUPAC convention in both implementations."""
import json
from concurrent.futures import ThreadPoolExecutor

from .. import lib, torsion as tz

PID = "C18"
TIERS = {
    "quick": dict(
        mc=[("MC_TorsionLattice_q_tertiary.cfg", "tertiary.py as implemented, all 19 683 tuples (p2 at origin)", None, 5),
            ("MC_TorsionLattice_q_v2neg.cfg", "tertiary_v2 AS IMPLEMENTED is exactly the negated cell, all 19 683 tuples", None, 5),
            ("MC_TorsionLattice_q_oracle.cfg", "lemmas about the declarative oracle (reversal, mirror, rotations, translation, gap lemma), all 19 683 tuples", None, 3),
            ("MC_TorsionLattice_q_v2req.cfg", "tertiary_v2 with the REQUIRED m1 = b2 x n1 (slice p1 = (1,0,0))", None, 2),
            ("MC_TorsionLattice_q_v2impl.cfg", "negative control: tertiary_v2 as implemented violates LatticeOctant", "LatticeOctant", 2)],
        gen="Gen_TorsionLattice_q.cfg", dom=(1, "TRUE"), chunks=8, rl=0, phi=1500, corpus=tz.CORPUS_QUICK, aform=tz.AFORM_QUICK),
    "thorough": dict(
        mc=[("MC_TorsionLattice_t_tertiary.cfg", "tertiary.py as implemented, all 531 441 tuples", None, 8),
            ("MC_TorsionLattice_t_v2neg.cfg", "tertiary_v2 AS IMPLEMENTED is exactly the negated cell, all 531 441 tuples", None, 8),
            ("MC_TorsionLattice_t2_tertiary.cfg", "tertiary.py as implemented, coordinates -2..2, p1 = (1,0,0), p2 at origin (15 625 tuples)", None, 3),
            ("MC_TorsionLattice_t2_v2neg.cfg", "tertiary_v2 AS IMPLEMENTED is exactly the negated cell, coordinates -2..2, p1 = (1,0,0), p2 at origin", None, 3),
            ("MC_TorsionLattice_q_oracle.cfg", "lemmas about the declarative oracle, all 19 683 tuples (p2 at origin)", None, 3),
            ("MC_TorsionLattice_t2_oracle.cfg", "lemmas about the declarative oracle, coordinates -2..2, p1 = (1,0,0), p2 at origin", None, 3),
            ("MC_TorsionLattice_t_v2req.cfg", "tertiary_v2 with the REQUIRED m1 = b2 x n1, all 19 683 tuples", None, 3),
            ("MC_TorsionLattice_t_v2impl.cfg", "negative control: tertiary_v2 as implemented violates LatticeOctant", "LatticeOctant", 3)],
        gen="Gen_TorsionLattice_t.cfg", dom=(1, "FALSE"), chunks=16, rl=60000, phi=120000, corpus=tz.CORPUS_THOROUGH,
        aform=tz.AFORM_THOROUGH),
}
T_ACTIONS = ("T_Diff", "T_Normalize", "T_Cross", "T_ReturnZero", "T_Dots", "Atan2", "NextJob")
V_ACTIONS = ("V_Diff", "V_Normals", "V_ReturnNaN", "V_M1", "Atan2", "NextJob")


def domain_check(cases, dom, sc):
    f = sc.path("domain.json")
    cfg = sc.path("Domain_TorsionLattice.cfg")
    with open(f, "w") as fh:
        json.dump({"items": [c["p"] for c in cases]}, fh)
    with open(cfg, "w") as fh:
        fh.write(f"CONSTANT R = {dom[0]}\nCONSTANT P2Origin = {dom[1]}\n")
    r = lib.tlc("Domain_TorsionLattice", cfg, workers=1, env={"TRACE_FILE": f}, scratch=sc, xmx="8g", tag="domain")
    if '<<"DOMAIN", TRUE, %d>>' % len(cases) not in r["out"]:
        raise lib.MachineryError("recorded lattice inputs are not the spec's exhaustive domain:\n" + r["out"][-1500:])


def _mc(args):
    cfg, what, expect, workers, sc = args
    return lib.mc("MC_TorsionLattice", cfg, sc, expect_violation=expect, workers=workers, xmx="6g")


def run(tier):
    import time
    t = TIERS[tier]
    rep = lib.Report(PID, tier, "model_checking")
    t0, phase = time.time(), {}

    def mark(name):
        phase[name] = round(time.time() - t0, 1)
    with lib.Scratch("c18") as sc:
        # design-level model checks run in the background while the real code is recorded
        pool = ThreadPoolExecutor(max_workers=len(t["mc"]))
        futs = [pool.submit(_mc, m + (sc,)) for m in t["mc"]]
        lat = tz.gen_lattice(t["gen"], sc)
        mark("gen")
        rnd = tz.random_lattice(t["rl"], 2, lib.seed()) if t["rl"] else []
        rec_lat = lib.pmap(tz.record_lat, [{k: c[k] for k in ("id", "kind", "p")} for c in lat + rnd])
        mark("record_lat")
        domain_check(rec_lat[:len(lat)], t["dom"], sc)
        mark("domain")
        phis = tz.phi_cases(t["phi"], lib.seed())
        rec_phi = lib.pmap(tz.record_phi, phis)
        files = lib.pmap(tz.record_corpus_file, list(t["corpus"]), chunksize=1)
        rec_tor = [c for f in files for c in f["cases"]]
        rec_af = [tz.aform_case(f) for f in files if f["file"] in t["aform"]]
        stem_files = tz.STEM_FILES_QUICK if tier == "quick" else tz.STEM_FILES_THOROUGH
        rec_stem = [c for cs in lib.pmap(tz.record_stem_file, list(stem_files), chunksize=1) for c in cs]
        allc = rec_lat + rec_phi + rec_tor + rec_af + rec_stem
        mark("record_phi_corpus")
        res = lib.trace_validate("Trace_TorsionLattice", "Trace_TorsionLattice_C18.cfg", allc, sc, xmx="3g",
                                 chunks=t["chunks"])
        rep.add_trace(res, {c["id"]: c for c in allc}, "C18")
        mark("trace")
        for (cfg, what, expect, _w), fu in zip(t["mc"], futs):
            r = fu.result()
            if expect:
                rep.add_mc(r, what, negative_control=True)
            else:
                rep.add_mc(r, what, min_actions=T_ACTIONS if cfg.endswith("tertiary.cfg") else () if cfg.endswith("oracle.cfg") else V_ACTIONS)
        pool.shutdown()
        mark("mc_joined")
        rep.cov["phase_end_s"] = phase
        cov = rep.cov
        cov["exhaustive"] = True
        cov["rule"] = (
            f"every non-degenerate 4-tuple of points with coordinates in -1..1 ("
            + ("p2 at the origin, " if t["dom"][1] == "TRUE" else "")
            + f"{len(lat)} tuples enumerated by TLC Gen_TorsionLattice with their exact cell; completeness re-checked by "
            f"Domain_TorsionLattice) + {len(rnd)} seeded random tuples over -2..2; each through tertiary.py, tertiary_v2.py "
            f"and the harness measurer in original, reversed and mirrored order; {len(rec_phi)} constructed-phi inputs "
            "(1-degree grid x 2 shapes + seeded random phi, bond lengths 0.8-2.5 A, bond angles 20-160 degrees incl. the "
            f"extremes, random rotation + translation up to 100 A); {len(rec_tor)} backbone/chi torsions of "
            f"{len(files)} corpus files through both code paths; {len(rec_af)} per-file A-form chi tables. "
            "Non-trivial = distinct input whose required angle is not a fixed point of negation (0 or pi), i.e. "
            "sign-sensitive.")
        cov["distinct_nontrivial"] = (
            len({json.dumps(c["p"]) for c in lat if c["cell"] not in (0, 8)})
            + len({(c["phi"], tuple(c["len"]), tuple(c["ang"]), c["rs"]) for c in rec_phi if abs(c["phi"]) > 3 and abs(c["phi"]) < 3141589})
            + len({c["id"] for c in rec_tor}))
        cov["lattice_tuples"] = len(lat)
        cov["random_lattice_tuples_radius2"] = len(rnd)
        cov["constructed_phi_cases"] = len(rec_phi)
        cov["corpus_torsions"] = len(rec_tor)
        cov["inter_stem_torsions"] = {"stem_pairs": len(rec_stem),
                                      "types": {t: sum(1 for c in rec_stem if c["fwd"]["type"] == t) for t in tz.STEM_TYPES}}
        cov["corpus_files"] = {f["file"]: {"torsions": len(f["cases"]), "aform_rows_t1": len(f["rows1"]),
                                           "aform_rows_v2": len(f["rows2"]), "residues_skipped_ambiguous_key": f["skipped"]}
                               for f in files}
        cov["function_calls_real_code"] = 6 * (len(rec_lat) + len(rec_phi)) + len(files)
        cov["samples"] = [rec_lat[len(lat) // 3], rec_phi[7], rec_tor[len(rec_tor) // 2],
                          {**rec_af[0], "rows1": rec_af[0]["rows1"][:3], "rows2": rec_af[0]["rows2"][:3]}]
        rep.assumptions += [
            "float -> integer micro-radian rounding (round half even) of results; coordinates of corpus atoms -> milli-A",
            "constructed-phi points are built by the harness in floating point (NeRF-style placement); the construction is "
            "re-measured by the harness measurer, which TLC validates exactly on the lattice (MeasurerLatticeOctant, "
            "ConstructionSelfCheck)",
            "corpus coordinates are those each reader holds (reading itself is C08/C15); the IUPAC value for them comes "
            "from the lattice-validated measurer",
            "open-octant results within Tol of the octant's end directions are accepted (recording resolution 1 micro-radian)",
            "annotator.py's uses of torsion_angle (cis/trans, BPh classes) compare |angle| with 90 degrees only and are "
            "not separately exercised",
        ]
    return rep.finish()


RECORDERS = {"lat": tz.record_lat, "phi": tz.record_phi}


def replay(doc):
    """Re-record the failing case against the current tree and re-validate it."""
    case = doc.get("case")
    if not case:
        print(doc.get("tlc_output_tail", ""))
        return run("quick")
    rep = lib.Report(PID, "quick", "model_checking", evidence=False)
    with lib.Scratch("c18r") as sc:
        if case["kind"] in RECORDERS:
            base = {k: case[k] for k in case if k in ("id", "kind", "p", "phi", "len", "ang", "rs", "move")}
            recs = [RECORDERS[case["kind"]](base)]
        else:
            f = tz.record_corpus_file(case["file"])
            recs = [c for c in f["cases"] + [tz.aform_case(f)] if c["id"] == case["id"]]
            if not recs:
                raise lib.MachineryError(f"case {case['id']} no longer produced from {case['file']}")
        res = lib.trace_validate("Trace_TorsionLattice", "Trace_TorsionLattice_C18.cfg", recs, sc, chunks=1)
        rep.add_trace(res, {c["id"]: c for c in recs}, "C18")
        rep.cov["samples"] = recs[:1]
        rep.cov["distinct_nontrivial"] = len(recs)
    return rep.finish()
