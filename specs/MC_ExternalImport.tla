-------------------------- MODULE MC_ExternalImport --------------------------
(***************************************************************************)
(* Design-level model of rnapolis.adapter AS THE CODE PERFORMS IT, one     *)
(* action per critical step, with the C19 clauses as invariants.           *)
(*                                                                         *)
(* One run explores all three functions (variable `mode`, chosen in Init): *)
(* Mode "label"    unify_classification on every string of LabelSpaces     *)
(*                 (alphabet, max length):  StripN, StripA, TryBR, TryBPh, *)
(*                 TryStack, TryLW (KeyError contained), FallThrough       *)
(* Mode "listing"  parse_fr3d_output / _process_interaction_line on every  *)
(*                 listing of ListingSpaces (abstract line templates):     *)
(*                 SkipLine, ParseLine (strip + split), TooFewParts,       *)
(*                 ParseUnit1, ParseUnit2, Unify, AppendItem, Catch, Eof   *)
(* Mode "dssr"     parse_dssr_output on every abstract document:           *)
(*                 DssrPair, DssrPairsEnd, DssrStackStep, DssrStackEnd     *)
(*                 LwTest = "members"  the required class test             *)
(*                 LwTest = "dir"      as implemented: `lw in dir(Enum)`   *)
(*                                     (negative control: must violate     *)
(*                                     DssrPairsExact)                     *)
(***************************************************************************)
EXTENDS ExternalImport

CONSTANTS Modes,          \* subset of {"label", "listing", "dssr"} explored by this run
          LabelSpaces,    \* set of <<alphabet, maxlen>>: every string over the alphabet up to maxlen
          ListingSpaces,  \* set of [units, tabs, labels, wraps, maxlines]: every listing of such line templates
          DssrSpaces,     \* set of [names, lws, maxpairs, stackkinds, maxstacklen, maxstacks]
          Contained,      \* exception types caught per line by _process_interaction_line
          LwTest          \* "members" (required) | "dir" (as implemented)

VARIABLES mode,  \* which function is being executed
          inp,   \* the input: label | listing | document
          pc,    \* control state
          k,     \* loop index (line / pair / stack)
          j,     \* inner index (position in a stack)
          s,     \* working value: label being normalised | parts of the current line
          res,   \* label mode: the classification returned
          out,   \* listing: appended <<category, line index>>; dssr: [bp, st]
          exc    \* pending exception type ("" = none)
vars == <<mode, inp, pc, k, j, s, res, out, exc>>

ASSUME GrammarSane

SeqsUpTo(S, n) == UNION { [1..m -> S] : m \in 0..n }

\* ------------------------------------------------------------------ label mode
\* str.lower() / str.upper() on the characters that can occur
LowerOf(x) == IF x = "C" THEN "c" ELSE IF x = "T" THEN "t" ELSE IF x = "W" THEN "w" ELSE IF x = "H" THEN "h"
              ELSE IF x = "S" THEN "s" ELSE IF x = "B" THEN "b" ELSE IF x = "P" THEN "p" ELSE IF x = "R" THEN "r" ELSE x
UpperOf(x) == IF x = "c" THEN "C" ELSE IF x = "t" THEN "T" ELSE IF x = "w" THEN "W" ELSE IF x = "h" THEN "H"
              ELSE IF x = "s" THEN "S" ELSE IF x = "n" THEN "N" ELSE IF x = "a" THEN "A" ELSE x

InitLabel == /\ mode = "label" /\ \E sp \in LabelSpaces : \E n \in 0..sp[2] : inp \in [1..n -> sp[1]]
             /\ s = inp /\ pc = "strip_n" /\ res = <<"none", "">>
             /\ k = 0 /\ j = 0 /\ out = <<>> /\ exc = ""

StripN == /\ pc = "strip_n"
          /\ s' = IF s # <<>> /\ s[1] = "n" THEN Tail(s) ELSE s
          /\ pc' = "strip_a" /\ UNCHANGED <<mode, inp, k, j, res, out, exc>>
StripA == /\ pc = "strip_a"
          /\ s' = IF Len(s) >= 3 /\ s[Len(s)] = "a" THEN SubSeq(s, 1, Len(s) - 1) ELSE s
          /\ pc' = "try_br" /\ UNCHANGED <<mode, inp, k, j, res, out, exc>>
TryBR == /\ pc = "try_br"
         /\ IF Len(s) = 3 /\ s[2] = "B" /\ s[3] = "R" /\ s[1] \in Digits
            THEN res' = <<"base-ribose", s[1] \o "BR">> /\ pc' = "done"       \* BR["_d"] exists for every digit
            ELSE pc' = "try_bph" /\ UNCHANGED res
         /\ UNCHANGED <<mode, inp, k, j, s, out, exc>>
TryBPh == /\ pc = "try_bph"
          /\ IF Len(s) = 4 /\ s[2] = "B" /\ s[3] = "P" /\ s[4] = "h" /\ s[1] \in Digits
             THEN res' = <<"base-phosphate", s[1] \o "BPh">> /\ pc' = "done"
             ELSE pc' = "try_stack" /\ UNCHANGED res
          /\ UNCHANGED <<mode, inp, k, j, s, out, exc>>
TryStack == /\ pc = "try_stack"
            /\ IF Len(s) = 3 /\ s[1] = "s" /\ s[2] \in {"3", "5"} /\ s[3] \in {"3", "5"}
               THEN res' = <<"stacking", IF s[2] = "3" /\ s[3] = "3" THEN "downward"
                                         ELSE IF s[2] = "5" /\ s[3] = "5" THEN "upward"
                                         ELSE IF s[2] = "3" /\ s[3] = "5" THEN "outward" ELSE "inward">>
                    /\ pc' = "done"
               ELSE pc' = "try_lw" /\ UNCHANGED res
            /\ UNCHANGED <<mode, inp, k, j, s, out, exc>>
TryLW == /\ pc = "try_lw"
         /\ IF Len(s) = 3 /\ LowerOf(s[1]) \in {"c", "t"}
            THEN LET lw == LowerOf(s[1]) \o UpperOf(s[2]) \o UpperOf(s[3]) IN
                 /\ res' = IF lw \in LWNames THEN <<"base-pair", lw>> ELSE Other    \* KeyError contained
                 /\ pc' = "done"
            ELSE pc' = "fall" /\ UNCHANGED res
         /\ UNCHANGED <<mode, inp, k, j, s, out, exc>>
FallThrough == /\ pc = "fall" /\ res' = Other /\ pc' = "done" /\ UNCHANGED <<mode, inp, k, j, s, out, exc>>

NextLabel == StripN \/ StripA \/ TryBR \/ TryBPh \/ TryStack \/ TryLW \/ FallThrough

LabelMapExact == mode = "label" /\ pc = "done" => res = Classify(inp)
\* the other direction: every label of the language over the model alphabet is reached and recognised
LabelStepsTyped == mode = "label" => pc \in {"strip_n", "strip_a", "try_br", "try_bph", "try_stack", "try_lw", "fall", "done"}

\* ------------------------------------------------------------------ listing mode
McTemplates(sp) == { t \in DataTemplates(sp.wraps) : t.u1 \in sp.units /\ t.u2 \in sp.units
                                                        /\ t.tabs \in sp.tabs /\ t.label \in sp.labels }
                   \cup { t \in OtherTemplates : t.wrap \in sp.wraps }

\* the tab-separated tokens of the raw line, then Python's line.strip(): empty leading/trailing
\* columns vanish together with their tabs (the wrap whitespace goes too)
Tok(kind, v) == [kind |-> kind, v |-> v]
TokEmpty(t)  == t.v = "empty"
RawTokens(t) ==
  IF t.tabs = "spaces"      \* "u1 label u2": one column (all blank if the three pieces are empty)
  THEN << Tok("joined", IF t.u1 = "empty" /\ t.label = "empty" /\ t.u2 = "empty" THEN "empty" ELSE "x") >>
  ELSE IF t.tabs = "two" THEN << Tok("unit", t.u1), Tok("label", t.label) >>
  ELSE IF t.tabs = "three" THEN << Tok("unit", t.u1), Tok("label", t.label), Tok("unit", t.u2) >>
  ELSE << Tok("unit", t.u1), Tok("label", t.label), Tok("unit", t.u2), Tok("extra", "0") >>
RECURSIVE DropLeadingEmpty(_)
DropLeadingEmpty(ts) == IF ts # <<>> /\ TokEmpty(Head(ts)) THEN DropLeadingEmpty(Tail(ts)) ELSE ts
RECURSIVE DropTrailingEmpty(_)
DropTrailingEmpty(ts) == IF ts # <<>> /\ TokEmpty(ts[Len(ts)]) THEN DropTrailingEmpty(SubSeq(ts, 1, Len(ts) - 1)) ELSE ts
StrippedTokens(t) == DropTrailingEmpty(DropLeadingEmpty(RawTokens(t)))

\* parse_unit_id on a token: "" = fine, otherwise the exception type raised
UnitError(tok) == IF tok.kind = "unit" THEN (IF UnitKindOK(tok.v) THEN "" ELSE UnitKindError(tok.v))
                  ELSE IF tok.kind = "joined" THEN "ValueError"     \* "...|1 cWW XXXX|..." : int("1 cWW XXXX") fails
                  ELSE "IndexError"                                 \* a label or "0" has a single field
CatOfToken(tok) == IF tok.kind = "label" THEN LabelKindCat[tok.v] ELSE "other"

InitListing == /\ mode = "listing" /\ \E sp \in ListingSpaces : \E n \in 0..sp.maxlines : inp \in [1..n -> McTemplates(sp)]
               /\ pc = "loop" /\ k = 0 /\ j = 0 /\ s = <<>> /\ res = <<"none", "">> /\ out = <<>> /\ exc = ""

SkipLine == /\ pc = "loop" /\ k < Len(inp)
            /\ (inp[k + 1].shape # "data" \/ StrippedTokens(inp[k + 1]) = <<>>)     \* blank after strip, or '#'
            /\ k' = k + 1 /\ UNCHANGED <<mode, inp, pc, j, s, res, out, exc>>
ParseLine == /\ pc = "loop" /\ k < Len(inp)
             /\ inp[k + 1].shape = "data" /\ StrippedTokens(inp[k + 1]) # <<>>
             /\ k' = k + 1 /\ s' = StrippedTokens(inp[k + 1]) /\ pc' = "split"
             /\ UNCHANGED <<mode, inp, j, res, out, exc>>
TooFewParts == /\ pc = "split" /\ Len(s) < 3 /\ pc' = "loop" /\ UNCHANGED <<mode, inp, k, j, s, res, out, exc>>
ParseUnit1 == /\ pc = "split" /\ Len(s) >= 3
              /\ IF UnitError(s[1]) = "" THEN pc' = "unit2" /\ UNCHANGED exc
                 ELSE pc' = "catch" /\ exc' = UnitError(s[1])
              /\ UNCHANGED <<mode, inp, k, j, s, res, out>>
ParseUnit2 == /\ pc = "unit2"
              /\ IF UnitError(s[3]) = "" THEN pc' = "unify" /\ UNCHANGED exc
                 ELSE pc' = "catch" /\ exc' = UnitError(s[3])
              /\ UNCHANGED <<mode, inp, k, j, s, res, out>>
Unify == /\ pc = "unify" /\ res' = <<CatOfToken(s[2]), "">> /\ pc' = "append"
         /\ UNCHANGED <<mode, inp, k, j, s, out, exc>>
AppendItem == /\ pc = "append" /\ out' = Append(out, <<res[1], k>>) /\ pc' = "loop"
              /\ UNCHANGED <<mode, inp, k, j, s, res, exc>>
Catch == /\ pc = "catch"
         /\ IF exc \in Contained THEN pc' = "loop" /\ exc' = "" ELSE pc' = "raised" /\ UNCHANGED exc
         /\ UNCHANGED <<mode, inp, k, j, s, res, out>>
Eof == /\ pc = "loop" /\ k = Len(inp) /\ pc' = "done" /\ UNCHANGED <<mode, inp, k, j, s, res, out, exc>>

NextListing == SkipLine \/ ParseLine \/ TooFewParts \/ ParseUnit1 \/ ParseUnit2 \/ Unify \/ AppendItem \/ Catch \/ Eof

IsListingDone == mode = "listing" /\ pc = "done"
Fr3dNeverRaises      == mode = "listing" => pc # "raised"
LineYieldsExactlyOne == IsListingDone => \A i \in 1..Len(inp) : TemplateKept(inp[i]) =>
                           Count(out, <<TemplateCat(inp[i]), i>>) = 1 /\ Cardinality({ x \in 1..Len(out) : out[x][2] = i }) = 1
MalformedSkipped     == IsListingDone => \A i \in 1..Len(inp) : ~TemplateKept(inp[i]) => \A x \in 1..Len(out) : out[x][2] # i
UnknownKeptAsOther   == IsListingDone => \A i \in 1..Len(inp) :
                           TemplateKept(inp[i]) /\ LabelKindCat[inp[i].label] = "other" => Count(out, <<"other", i>>) = 1

\* ------------------------------------------------------------------ dssr mode
McPairTemplates(sp)  == { t \in PairTemplates : t.n1 \in sp.names /\ t.n2 \in sp.names /\ t.lw \in sp.lws }
McStackTemplates(sp) == { t \in StackTemplates(sp.maxstacklen) : \A i \in 1..Len(t) : t[i] \in sp.stackkinds }

InitDssr == /\ mode = "dssr"
            /\ \E sp \in DssrSpaces : \E np \in 0..sp.maxpairs : \E ns \in 0..sp.maxstacks :
                  inp \in [pairs : [1..np -> McPairTemplates(sp)], stacks : [1..ns -> McStackTemplates(sp)]]
            /\ pc = "pairs" /\ k = 0 /\ j = 0 /\ s = <<>> /\ res = <<"none", "">>
            /\ out = [bp |-> <<>>, st |-> <<>>] /\ exc = ""

\* match_dssr_lw: "valid" | "none" | "raise"
LwOutcome(kind) ==
  IF kind = "valid" THEN "valid"
  ELSE IF kind = "dunder" /\ LwTest = "dir" THEN "raise"     \* passes `in dir(LeontisWesthof)`, then KeyError
  ELSE "none"

DssrPair == /\ pc = "pairs" /\ k < Len(inp.pairs)
            /\ LET t == inp.pairs[k + 1] IN
               IF LwOutcome(t.lw) = "raise" THEN pc' = "raised" /\ exc' = "KeyError" /\ UNCHANGED <<k, out>>
               ELSE /\ k' = k + 1 /\ UNCHANGED <<pc, exc>>
                    /\ out' = IF NameKindResolves(t.n1) /\ NameKindResolves(t.n2) /\ LwOutcome(t.lw) = "valid"
                              THEN [out EXCEPT !.bp = Append(@, k + 1)] ELSE out
            /\ UNCHANGED <<mode, inp, j, s, res>>
DssrPairsEnd == /\ pc = "pairs" /\ k = Len(inp.pairs) /\ pc' = "stacks" /\ k' = 1 /\ j' = 2
                /\ UNCHANGED <<mode, inp, s, res, out, exc>>
\* names of stack k: nts_long absent -> "".split(",") = [""]: one unresolvable name
NamesOfStack(t) == IF t = <<>> THEN << "empty" >> ELSE t
DssrStackStep == /\ pc = "stacks" /\ k <= Len(inp.stacks) /\ j <= Len(NamesOfStack(inp.stacks[k]))
                 /\ LET nm == NamesOfStack(inp.stacks[k]) IN
                    out' = IF NameKindResolves(nm[j - 1]) /\ NameKindResolves(nm[j])
                           THEN [out EXCEPT !.st = Append(@, <<k, j>>)] ELSE out
                 /\ j' = j + 1 /\ UNCHANGED <<mode, inp, pc, k, s, res, exc>>
DssrStackEnd == /\ pc = "stacks" /\ k <= Len(inp.stacks) /\ j > Len(NamesOfStack(inp.stacks[k]))
                /\ k' = k + 1 /\ j' = 2 /\ UNCHANGED <<mode, inp, pc, s, res, out, exc>>
DssrDone == /\ pc = "stacks" /\ k > Len(inp.stacks) /\ pc' = "done" /\ UNCHANGED <<mode, inp, k, j, s, res, out, exc>>

NextDssr == DssrPair \/ DssrPairsEnd \/ DssrStackStep \/ DssrStackEnd \/ DssrDone

ExpectedBp == LET ks == { i \in 1..Len(inp.pairs) : PairTemplateKept(inp.pairs[i]) } IN
              [x \in 1..Cardinality(ks) |-> CHOOSE i \in ks : Cardinality({ y \in ks : y < i }) = x - 1]
ExpectedSt == UNION { { <<a, b>> : b \in { x \in 2..Len(inp.stacks[a]) :
                                             NameKindResolves(inp.stacks[a][x - 1]) /\ NameKindResolves(inp.stacks[a][x]) } } :
                      a \in 1..Len(inp.stacks) }
DssrPairsExact  == mode = "dssr" => pc # "raised" /\ (pc = "done" => out.bp = ExpectedBp)
RECURSIVE SumSteps(_)
SumSteps(ts) == IF ts = <<>> THEN 0 ELSE StackTemplateSteps(Head(ts)) + SumSteps(Tail(ts))
DssrStacksExact == mode = "dssr" /\ pc = "done" =>
                     RangeOf(out.st) = ExpectedSt /\ Len(out.st) = Cardinality(ExpectedSt)
                     /\ Len(out.st) = SumSteps(inp.stacks)

\* ------------------------------------------------------------------ named configurations (cfg: X <- Name)
FullAlphabet == Alphabet
AllModes     == {"label", "listing", "dssr"}
BothContained == {"ValueError", "IndexError"}
OnlyValueErrorContained == {"ValueError"}
LSp(u, t, l, w, n) == [units |-> u, tabs |-> t, labels |-> l, wraps |-> w, maxlines |-> n]
DSp(nm, lw, mp, sk, sl, ms) == [names |-> nm, lws |-> lw, maxpairs |-> mp, stackkinds |-> sk, maxstacklen |-> sl, maxstacks |-> ms]

QuickLabelSpaces == { <<FullAlphabet, 3>>,
                      <<{"n", "a", "c", "W", "s", "3", "5"}, 5>>,          \* LW + stacking with both decorations
                      <<{"n", "a", "B", "P", "h", "7"}, 5>> }               \* (n7BPha, length 6: thorough)
QuickListingSpaces == { LSp(UnitKinds, TabKinds, LabelKinds, {"none"}, 1),   \* every line template once
                        LSp({"plain", "few4", "nonint", "empty"}, {"three", "two"}, {"lw", "unknown", "empty"}, {"none"}, 2) }
QuickDssrSpaces == { DSp(NameKinds, LwKinds, 1, {"exact"}, 0, 0),            \* every pair template once
                     DSp({"exact"}, {"valid"}, 0, StackNameKinds, 4, 1),     \* every stack up to 4 names
                     DSp({"exact", "wrongnumber"}, {"valid", "lower", "absent", "reverse", "dunder"}, 2,
                         {"exact", "wrongnumber", "empty"}, 3, 1) }

ThoroughLabelSpaces == QuickLabelSpaces \cup
                       { <<FullAlphabet, 4>>,
                         <<{"n", "a", "B", "P", "h", "7"}, 6>>,
                         <<{"c", "T", "W", "h", "s", "n", "a"}, 5>>,
                         <<{"n", "a", "B", "P", "h", "R", "7", "0"}, 6>>,
                         <<{"n", "a", "c", "T", "W", "s", "B", "P", "h", "5"}, 6>> }
ThoroughListingSpaces == QuickListingSpaces \cup
                         { LSp(UnitKinds, TabKinds, LabelKinds, Wraps, 1),
                           LSp({"plain", "icode", "few4", "nonint", "empty"}, {"three", "two", "extra"},
                               {"lw", "stack", "unknown", "empty"}, {"none"}, 2),
                           LSp({"plain", "few4", "nonint"}, {"three", "two"}, {"lw", "bph", "unknown"}, {"none"}, 3) }
ThoroughDssrSpaces == QuickDssrSpaces \cup
                      { DSp({"exact", "absent"}, {"valid", "null", "dunder"}, 2, {"exact", "wrongnumber"}, 2, 2),
                        DSp({"exact", "prefixed", "wrongnumber"}, {"valid", "dotted", "dunder"}, 2, {"exact"}, 0, 0),
                        DSp({"exact"}, {"valid"}, 0, StackNameKinds, 5, 1) }

\* negative controls
AsImplDssrSpaces == { DSp({"exact", "wrongnumber"}, {"valid", "lower", "reverse", "dunder"}, 2, {"exact", "wrongnumber"}, 2, 1) }
UncontainedListingSpaces == { LSp(UnitKinds, TabKinds, {"lw"}, {"none"}, 1) }

\* ------------------------------------------------------------------ dispatch
Init == \/ "label" \in Modes /\ InitLabel
        \/ "listing" \in Modes /\ InitListing
        \/ "dssr" \in Modes /\ InitDssr
\* control states are disjoint between the modes, so the actions can be listed flat (per-action coverage)
Next == \/ StripN \/ StripA \/ TryBR \/ TryBPh \/ TryStack \/ TryLW \/ FallThrough
        \/ SkipLine \/ ParseLine \/ TooFewParts \/ ParseUnit1 \/ ParseUnit2 \/ Unify \/ AppendItem \/ Catch \/ Eof
        \/ DssrPair \/ DssrPairsEnd \/ DssrStackStep \/ DssrStackEnd \/ DssrDone
Spec == Init /\ [][Next]_vars
=============================================================================
