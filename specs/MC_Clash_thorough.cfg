SPECIFICATION Spec
CONSTANT NAtoms = 3
CONSTANT MTypes = {"C", "P", "X"}
CONSTANT MOccs = {100, 0, 101}
CONSTANT MGaps = {100, 150}
CONSTANT MNuc1 = {TRUE}
CONSTANT MLastFixed = TRUE
CONSTANT MMidRes = {1, 2}
CONSTANT OccDefault = "none_only"
CONSTANT ChainFoldReads = "chain_map"
CONSTANT CsvMetadataArg = "file"
CONSTANT MaxRadiusOver = "all"
INVARIANT InvSearchRadiusCovers
INVARIANT InvKDTreeComplete
INVARIANT InvClashSetExact
INVARIANT InvEachPairOnce
INVARIANT InvResidueOfAtom
INVARIANT InvResidueMaxima
INVARIANT InvChainMaxima
INVARIANT InvCsvListsSame
CHECK_DEADLOCK FALSE
