------------------------------ MODULE SecStruct ------------------------------
(***************************************************************************)
(* Secondary structures as matchings on 1..N, their stems (regions), the   *)
(* conflict graph of crossing stems, proper / optimal / greedy-stable      *)
(* level assignments, first-come-first-served, and text filling.           *)
(* Declarative definitions only; the implementation-shaped algorithm model *)
(* that is model-checked against them lives in MC_SecStruct.               *)
(***************************************************************************)
EXTENDS Bracket, TLC

\* ---- matchings -----------------------------------------------------------
RECURSIVE Matchings(_)
Matchings(S) ==
  IF S = {} THEN { {} }
  ELSE LET i == Min(S)  rest == S \ {i} IN
       Matchings(rest) \cup
       UNION { { {<<i, j>>} \cup mm : mm \in Matchings(rest \ {j}) } : j \in rest }

Touched(m) == UNION { {p[1], p[2]} : p \in m }

IsMatching(m, n) ==
  /\ \A p \in m : p[1] \in 1..n /\ p[2] \in 1..n /\ p[1] < p[2]
  /\ \A p \in m : \A q \in m : p # q => {p[1], p[2]} \cap {q[1], q[2]} = {}

\* JSON pair list  <<<<i,j>>, ...>>  ->  set of <<i,j>>
PairSet(ps) == { <<ps[k][1], ps[k][2]>> : k \in 1..Len(ps) }

Partner(m, i) == IF \E p \in m : p[1] = i THEN (CHOOSE p \in m : p[1] = i)[2]
                 ELSE IF \E p \in m : p[2] = i THEN (CHOOSE p \in m : p[2] = i)[1]
                 ELSE 0

\* ---- stems / regions -----------------------------------------------------
\* a stem is a maximal run (i,j),(i+1,j-1),...; region = <<i, j, length>>
StemStart(m, p) == <<p[1] - 1, p[2] + 1>> \notin m
RECURSIVE RunLen(_, _)
RunLen(m, p) == IF <<p[1] + 1, p[2] - 1>> \in m THEN 1 + RunLen(m, <<p[1] + 1, p[2] - 1>>) ELSE 1
Regions(m) == { <<p[1], p[2], RunLen(m, p)>> : p \in { q \in m : StemStart(m, q) } }
RegionPairs(r) == { <<r[1] + t, r[2] - t>> : t \in 0..(r[3] - 1) }
RegionOf(R, p) == CHOOSE r \in R : p \in RegionPairs(r)

CrossR(r, s) == (r[1] < s[1] /\ s[1] < r[2] /\ r[2] < s[2])
             \/ (s[1] < r[1] /\ r[1] < s[2] /\ s[2] < r[2])
Adj(R, r)  == { s \in R : CrossR(r, s) }
MaxOf(S)   == IF S = {} THEN 0 ELSE Max(S)
MaxDeg(R)  == MaxOf({ Cardinality(Adj(R, r)) : r \in R })
Knotted(R) == \E r \in R : Adj(R, r) # {}

RECURSIVE Reach(_, _, _)
Reach(R, frontier, seen) ==
  LET new == (UNION { Adj(R, r) : r \in frontier }) \ seen IN
  IF new = {} THEN seen ELSE Reach(R, new, seen \cup new)
Comp(R, r)    == Reach(R, {r}, {r})
Components(R) == { Comp(R, r) : r \in R }
\* groups of mutually crossing stems = components with more than one stem
KnotComponents(R) == { C \in Components(R) : Cardinality(C) > 1 }

\* ---- level assignments ----------------------------------------------------
Proper(R, f) == \A r \in R : \A s \in R : CrossR(r, s) => f[r] # f[s]

RECURSIVE SumOver(_, _)
SumOver(S, g) == IF S = {} THEN 0 ELSE LET x == CHOOSE y \in S : TRUE IN g[x] + SumOver(S \ {x}, g)

\* objective in nucleotides/2: +len on level 0, -k*len on level k
Weight(r, l) == IF l = 0 THEN r[3] ELSE 0 - l * r[3]
Obj(R, f)    == SumOver(R, [r \in R |-> Weight(r, f[r])])

ProperAssignments(R, maxLevel) == { f \in [R -> 0..maxLevel] : Proper(R, f) }
OptOn(R)  == Max({ Obj(R, f) : f \in ProperAssignments(R, MaxDeg(R)) })
\* optimum decomposes over connected components (lemma L4, checked in MC_SecStruct)
Opt(R)    == SumOver(Components(R), [C \in Components(R) |-> OptOn(C)])
OptimalSet(R) == { f \in ProperAssignments(R, MaxDeg(R)) : Obj(R, f) = OptOn(R) }

\* greedy-stable (Grundy): every stem on the lowest level not taken by a crossing
\* stem of a lower level
Stable(R, f) == /\ Proper(R, f)
                /\ \A r \in R : \A l \in 0..(f[r] - 1) : \E s \in R : CrossR(r, s) /\ f[s] = l
StableSet(C)  == { f \in [C -> 0..MaxDeg(C)] : Stable(C, f) }

\* A necessary condition of optimality that needs no enumeration: inside a conflict component the stems of two
\* levels may trade places (the assignment stays proper, nothing else is affected), so in an optimum no such
\* trade gains anything - the levels of a component are ordered by the total length they carry (lemma L7,
\* model-checked in MC_SecStruct: every optimal assignment has the property).
SwapLevels(f, C, a, b) == [r \in DOMAIN f |-> IF r \in C /\ f[r] = a THEN b ELSE IF r \in C /\ f[r] = b THEN a ELSE f[r]]
NoSwapImproves(R, f) ==
  \A C \in KnotComponents(R) : \A a, b \in { f[r] : r \in C } :
     a < b => Obj(R, SwapLevels(f, C, a, b)) <= Obj(R, f)

\* ---- first come, first served ---------------------------------------------
\* regions in 5'->3' order of their first nucleotide
RECURSIVE SortRegions(_)
SortRegions(R) == IF R = {} THEN <<>>
                  ELSE LET r == CHOOSE x \in R : \A y \in R : x[1] <= y[1] IN <<r>> \o SortRegions(R \ {r})
LowestFree(used) == CHOOSE l \in 0..Cardinality(used) : l \notin used /\ \A k \in 0..(l - 1) : k \in used
RECURSIVE FcfsRun(_, _, _)
FcfsRun(seq, i, f) ==
  IF i > Len(seq) THEN f
  ELSE LET used == { f[seq[j]] : j \in { k \in 1..(i - 1) : CrossR(seq[i], seq[k]) } } IN
       FcfsRun(seq, i + 1, [f EXCEPT ![seq[i]] = LowestFree(used)])
FcfsLevels(R) == FcfsRun(SortRegions(R), 1, [r \in R |-> 0])

\* first-fit colouring of the stems of C taken in the order perm
RECURSIVE GreedyRun(_, _, _)
GreedyRun(perm, i, f) ==
  IF i > Len(perm) THEN f
  ELSE LET used == { f[perm[j]] : j \in { k \in 1..(i - 1) : CrossR(perm[i], perm[k]) } } IN
       GreedyRun(perm, i + 1, [f EXCEPT ![perm[i]] = LowestFree(used)])
Perms(C) == { s \in [1..Cardinality(C) -> C] : \A a \in 1..Cardinality(C) : \A b \in 1..Cardinality(C) : a # b => s[a] # s[b] }
GreedySet(C) == { GreedyRun(perm, 1, [r \in C |-> 0]) : perm \in Perms(C) }

\* ---- text ------------------------------------------------------------------
\* dot-bracket of length n writing every pair of region r with type f[r]+1
Fill(n, R, f) ==
  [ i \in 1..n |->
      IF \E r \in R : \E t \in 0..(r[3] - 1) : r[1] + t = i
        THEN Opening[f[CHOOSE r \in R : \E t \in 0..(r[3] - 1) : r[1] + t = i] + 1]
      ELSE IF \E r \in R : \E t \in 0..(r[3] - 1) : r[2] - t = i
        THEN Closing[f[CHOOSE r \in R : \E t \in 0..(r[3] - 1) : r[2] - t = i] + 1]
      ELSE Dot ]

\* levels read back from a text; meaningful when the text decodes to m
StemUniform(db, R) == \A r \in R : \A p \in RegionPairs(r) : PairLevel(db, p) = LevelOf(db[r[1]])
LevelsOf(db, R)    == [r \in R |-> LevelOf(db[r[1]])]
\* objective computed pair by pair from the text itself
ObjText(db, m)     == SumOver(m, [p \in m |-> IF PairLevel(db, p) = 0 THEN 1 ELSE 0 - PairLevel(db, p)])

=============================================================================
