------------------------------ MODULE AtomTable ------------------------------
(***************************************************************************)
(* Atom tables and what a structure reader owes them (C08, C15).           *)
(*                                                                         *)
(* A file is a sequence of atom LINES.  A line is a record                 *)
(*   m    model number                 het  1 = HETATM                     *)
(*   ch   chain id                     num  residue number (any sign)      *)
(*   ic   insertion code ("" = absent) rn   residue name                   *)
(*   an   atom name                    alt  alternate-location id          *)
(*   occ  occupancy in 1/100, -1 = absent (written as an mmCIF null marker)*)
(*   x y z  coordinates in milli-Angstrom (integers, so every distance     *)
(*          comparison below is exact)                                     *)
(*   lch lnum lrn  mmCIF label identity (lnum = 0: '.', no label)          *)
(*   icn ocn  the mmCIF null marker written for an absent icode/occupancy  *)
(*                                                                         *)
(* A reader ANSWER is a sequence of residues                               *)
(*   [m, ch, num, ic, rn, lab, atoms],  atoms = Seq([an, x, y, z])         *)
(* lab = <<>> or <<chain, number, name>>.                                  *)
(*                                                                         *)
(* Part 1: geometry on integers.  Part 2: the declarative clauses of the   *)
(* property statement (what is Required).  Part 3: the reader pipeline as  *)
(* the code performs it (Dedupe, ClashFilter, SelectModel, Group), with    *)
(* the variant switches that select Required / AsImplemented behaviour.    *)
(* Nothing in parts 1-2 is taken from the implementation.                  *)
(***************************************************************************)
EXTENDS Integers, Sequences, FiniteSets, SequencesExt, FiniteSetsExt, TLC

ClashMilli == 500       \* "two atoms closer than 0.5 A"
BondMilli  == 2400      \* "O3'-P below 2.4 A"
NullMarkers == {"?", "."}

\* ------------------------------------------------------------------ 1. geometry
Abs(a) == IF a < 0 THEN 0 - a ELSE a
Sq(a)  == a * a
\* the box test keeps every product below 2^31 (r <= 3000: 3 * 3000^2 = 2.7e7)
Box(a, b, r)      == Abs(a.x - b.x) <= r /\ Abs(a.y - b.y) <= r /\ Abs(a.z - b.z) <= r
D2(a, b)          == Sq(a.x - b.x) + Sq(a.y - b.y) + Sq(a.z - b.z)
Closer(a, b, r)   == Box(a, b, r) /\ D2(a, b) < r * r
OnSphere(a, b, r) == Box(a, b, r) /\ D2(a, b) = r * r
SamePoint(a, b)   == a.x = b.x /\ a.y = b.y /\ a.z = b.z

\* ------------------------------------------------------------------ identities
ResKey(l)  == <<l.ch, l.num, l.ic, l.rn>>
AtomKey(l) == <<l.ch, l.num, l.ic, l.rn, l.an>>
LabelOf(l) == IF l.lnum = 0 THEN <<>> ELSE <<l.lch, l.lnum, l.lrn>>
Idx(L)     == 1..Len(L)

FirstModel(L)      == L[1].m
Models(L)          == { L[i].m : i \in Idx(L) }
Selected(L, req)   == IF req = 0 THEN FirstModel(L) ELSE req
InModel(L, m)      == { i \in Idx(L) : L[i].m = m }
Copies(L, i)       == { j \in Idx(L) : L[j].m = L[i].m /\ AtomKey(L[j]) = AtomKey(L[i]) }
Known(L, S)        == \A i \in S : L[i].occ >= 0
\* the copies a reader may keep: those of highest occupancy; if an occupancy is unknown, any
Best(L, i)         == LET C == Copies(L, i) IN
                      IF ~Known(L, C) THEN C ELSE { j \in C : \A k \in C : L[k].occ <= L[j].occ }
Partners(L, i)     == { j \in Idx(L) : L[j].m = L[i].m /\ AtomKey(L[j]) # AtomKey(L[i])
                                       /\ Closer(L[i], L[j], ClashMilli) }

(***************************************************************************)
(* The domain on which the statement is unambiguous (false-alarm guards):  *)
(* well-formed blocks, no distance exactly on the 0.5 A sphere, every atom *)
(* clashes with at most one other atom, repeated atoms do not take part in *)
(* clashes, the requested model is present.                                *)
(***************************************************************************)
BlocksOK(L, K(_)) == \A j \in 2..Len(L) : (\E i \in 1..(j - 2) : K(i) = K(j)) => K(j - 1) = K(j)

InDomain(L, req) ==
  /\ Len(L) > 0
  /\ req = 0 \/ req \in Models(L)
  /\ \A i \in Idx(L) : L[i].ic \notin NullMarkers /\ L[i].m >= 1 /\ L[i].occ >= -1
  \* (the rows of a model need not be contiguous: an mmCIF table may alternate between its models)
  \* a residue is one contiguous block; a later, separate block of it may only REPEAT atoms already listed
  \* (an alternate conformer written as a block of its own after the next residue)
  /\ \A j \in 3..Len(L) :
        (\E i \in 1..(j - 2) : /\ L[i].m = L[j].m /\ ResKey(L[i]) = ResKey(L[j])
                               /\ \E q \in (i + 1)..(j - 1) : ResKey(L[q]) # ResKey(L[j]))
        => \E i \in 1..(j - 1) : L[i].m = L[j].m /\ AtomKey(L[i]) = AtomKey(L[j])
  /\ \A i, j \in Idx(L) : (L[i].m = L[j].m /\ ResKey(L[i]) = ResKey(L[j])) => LabelOf(L[i]) = LabelOf(L[j])
  /\ \A i, j \in Idx(L) : (i < j /\ L[i].m = L[j].m /\ AtomKey(L[i]) # AtomKey(L[j]))
                           => ~OnSphere(L[i], L[j], ClashMilli)
  \* an atom clashes with at most one other atom - or it is a link of a clash CHAIN (at most two partners, all
  \* occupancies known and different), on which only "the lower atom of a clashing pair is never kept" is demanded
  /\ \A i \in Idx(L) : \/ Cardinality(Partners(L, i)) <= 1
                        \/ /\ Cardinality(Partners(L, i)) = 2
                           /\ \A j \in Partners(L, i) : L[i].occ >= 0 /\ L[j].occ >= 0 /\ L[i].occ # L[j].occ
  /\ \A i \in Idx(L) : Cardinality(Copies(L, i)) > 1 => Partners(L, i) = {}

\* ------------------------------------------------------------------ 2. clauses (Required)
\* every atom of an answer, with the residue it was reported in
Flat(res) == FlattenSeq([r \in 1..Len(res) |->
               [a \in 1..Len(res[r].atoms) |->
                  [k |-> <<res[r].ch, res[r].num, res[r].ic, res[r].rn, res[r].atoms[a].an>>,
                   x |-> res[r].atoms[a].x, y |-> res[r].atoms[a].y, z |-> res[r].atoms[a].z,
                   r |-> r]]])
KeysOf(res) == LET F == Flat(res) IN { F[n].k : n \in 1..Len(F) }

\* lines of model m that an answered atom can stem from (same identity, same coordinates)
Sources(L, m, o) == { i \in InModel(L, m) : AtomKey(L[i]) = o.k /\ SamePoint(L[i], o) }

NullMarkersAbsent(res) == \A r \in 1..Len(res) : res[r].ic \notin NullMarkers

ModelTagOK(m, res) == \A r \in 1..Len(res) : res[r].m = m

\* NeverAnotherModel / "exactly as written": each answered atom is a line of model m
AllSourced(L, m, res) == LET F == Flat(res) IN \A n \in 1..Len(F) : Sources(L, m, F[n]) # {}
FromOtherModel(L, m, res) ==
  LET F == Flat(res) IN
  \E n \in 1..Len(F) : Sources(L, m, F[n]) = {} /\ \E m2 \in Models(L) \ {m} : Sources(L, m2, F[n]) # {}

\* EveryAtomOnce: no atom identity is answered twice
NoRepeats(res) == LET F == Flat(res) IN \A a, b \in 1..Len(F) : a # b => F[a].k # F[b].k

\* ... and the copy kept is one of highest occupancy
BestCopyKept(L, m, res) ==
  LET F == Flat(res) IN
  \A n \in 1..Len(F) : \E i \in Sources(L, m, F[n]) : i \in Best(L, i)

\* ClashKeepsBest: of two atoms closer than 0.5 A only one, of highest occupancy, is kept
\* (equal occupancies: either one; an unknown occupancy: outside the statement, at least one stays)
ClashKeepsBest(L, m, res) ==
  LET P == KeysOf(res)
      has(i) == AtomKey(L[i]) \in P IN
  \A i \in InModel(L, m) : \A j \in Partners(L, i) :
     IF Cardinality(Partners(L, i)) > 1 \/ Cardinality(Partners(L, j)) > 1
     THEN (L[i].occ < L[j].occ => ~has(i)) /\ (L[j].occ < L[i].occ => ~has(j))      \* a link of a clash chain
     ELSE IF L[i].occ < 0 \/ L[j].occ < 0 THEN has(i) \/ has(j)
     ELSE IF L[i].occ > L[j].occ THEN has(i) /\ ~has(j)
     ELSE IF L[i].occ < L[j].occ THEN has(j) /\ ~has(i)
     ELSE (has(i) /\ ~has(j)) \/ (has(j) /\ ~has(i))

\* every atom of the model that is not in a clash is answered
Complete(L, m, res) ==
  LET P == KeysOf(res) IN \A i \in InModel(L, m) : Partners(L, i) = {} => AtomKey(L[i]) \in P

\* GroupingInFileOrder: residues in the order in which they first appear in the file
FirstOfRes(L, m, P) ==   \* first lines of the residues that have an answered atom
  { i \in InModel(L, m) : AtomKey(L[i]) \in P
       /\ \A j \in InModel(L, m) : (j < i /\ AtomKey(L[j]) \in P) => ResKey(L[j]) # ResKey(L[i]) }
ExpectedResidues(L, m, P) ==
  LET F == SetToSortSeq(FirstOfRes(L, m, P), LAMBDA a, b : a < b) IN [n \in 1..Len(F) |-> ResKey(L[F[n]])]
ResiduesInFileOrder(L, m, res) ==
  [r \in 1..Len(res) |-> <<res[r].ch, res[r].num, res[r].ic, res[r].rn>>] = ExpectedResidues(L, m, KeysOf(res))

\* atoms inside a residue in file order: by first mention of the atom, or by the kept copy
FirstMention(L, m, k) == Min({ i \in InModel(L, m) : AtomKey(L[i]) = k })
AtomsInFileOrder(L, m, res) ==
  LET F == Flat(res) IN
  \/ \A n \in 1..(Len(F) - 1) : F[n].r = F[n + 1].r => FirstMention(L, m, F[n].k) < FirstMention(L, m, F[n + 1].k)
  \/ \A n \in 1..(Len(F) - 1) : F[n].r = F[n + 1].r =>
        \E i \in Sources(L, m, F[n]) : \E j \in Sources(L, m, F[n + 1]) : i < j

\* mmCIF label identity as written (fmt "pdb": no label)
LabelAsWritten(L, m, fmt, res) ==
  \A r \in 1..Len(res) :
     \A i \in InModel(L, m) :
        ResKey(L[i]) = <<res[r].ch, res[r].num, res[r].ic, res[r].rn>>
           => res[r].lab = (IF fmt = "cif" THEN LabelOf(L[i]) ELSE <<>>)

(***************************************************************************)
(* The cascade: name of the first clause that the answer `res` for request *)
(* `req` on file L breaks, or "ok".  Guarded so that later clauses are     *)
(* only evaluated when the earlier ones hold.                              *)
(***************************************************************************)
ModelClause(req)    == IF req = 0 THEN "DefaultIsFirstModel" ELSE "NeverAnotherModel"
CompleteClause(L, req) == IF req = 0 THEN (IF Cardinality(Models(L)) > 1 THEN "DefaultIsFirstModel" ELSE "EveryAtomOnce")
                          ELSE "RequestedModelReturned"

FirstBroken(L, fmt, req, res, checkNull) ==
  LET m == Selected(L, req) IN
  IF checkNull /\ ~NullMarkersAbsent(res)    THEN "NullMarkers"
  ELSE IF ~ModelTagOK(m, res)                THEN ModelClause(req)
  ELSE IF FromOtherModel(L, m, res)          THEN ModelClause(req)
  ELSE IF ~AllSourced(L, m, res)             THEN "AtomsAsWritten"
  ELSE IF ~NoRepeats(res)                    THEN "EveryAtomOnce"
  ELSE IF ~BestCopyKept(L, m, res)           THEN "HighestOccupancyCopy"
  ELSE IF ~ClashKeepsBest(L, m, res)         THEN "ClashKeepsBest"
  ELSE IF ~Complete(L, m, res)               THEN CompleteClause(L, req)
  ELSE IF ~ResiduesInFileOrder(L, m, res)    THEN "GroupingInFileOrder"
  ELSE IF ~AtomsInFileOrder(L, m, res)       THEN "GroupingInFileOrder"
  ELSE IF ~LabelAsWritten(L, m, fmt, res)    THEN "LabelAsWritten"
  ELSE "ok"

\* ------------------------------------------------------------------ 3. the reader pipeline
(***************************************************************************)
(* As the code performs it.  Variant switches (Required value first):      *)
(*   wm      DedupKeyIncludesModel   TRUE  / FALSE  key (label, auth, name) *)
(*   perModel ClashWithinModelOnly   TRUE  / FALSE  one KD-tree for all     *)
(*   nullSafe unknown occupancies are never compared  TRUE / FALSE (raise)  *)
(* The pipeline works on line indices; H is the list of holders.           *)
(***************************************************************************)
KeyW(l, wm) == IF wm THEN <<l.m>> \o AtomKey(l) ELSE AtomKey(l)

\* one iteration of the de-duplication loop for line i
DedupeStep(L, H, i, wm, nullSafe) ==
  LET P == { p \in 1..Len(H) : KeyW(L[H[p]], wm) = KeyW(L[i], wm) } IN
  IF P = {} THEN [err |-> "", h |-> Append(H, i)]
  ELSE LET p == CHOOSE q \in P : TRUE IN
       IF L[i].occ < 0 \/ L[H[p]].occ < 0
       THEN (IF nullSafe THEN [err |-> "", h |-> H] ELSE [err |-> "TypeError", h |-> H])
       ELSE IF L[i].occ > L[H[p]].occ THEN [err |-> "", h |-> [H EXCEPT ![p] = i]]
       ELSE [err |-> "", h |-> H]

RECURSIVE DedupeFrom(_, _, _, _, _)
DedupeFrom(L, H, i, wm, nullSafe) ==
  IF i > Len(L) THEN [err |-> "", h |-> H]
  ELSE LET s == DedupeStep(L, H, i, wm, nullSafe) IN
       IF s.err # "" THEN s ELSE DedupeFrom(L, s.h, i + 1, wm, nullSafe)
Dedupe(L, wm, nullSafe) == DedupeFrom(L, <<>>, 1, wm, nullSafe)

\* the clash filter over the holders: for each close pair p < q with known occupancies,
\* drop q if p is strictly better, else drop p
ClashPairs(L, H, perModel) ==
  { pq \in (1..Len(H)) \X (1..Len(H)) :
       /\ pq[1] < pq[2]
       /\ (perModel => L[H[pq[1]]].m = L[H[pq[2]]].m)
       /\ (Closer(L[H[pq[1]]], L[H[pq[2]]], ClashMilli) \/ OnSphere(L[H[pq[1]]], L[H[pq[2]]], ClashMilli))
       /\ L[H[pq[1]]].occ >= 0 /\ L[H[pq[2]]].occ >= 0 }
ClashDropped(L, H, perModel) ==
  LET CP == ClashPairs(L, H, perModel) IN
  { pq[2] : pq \in { c \in CP : L[H[c[1]]].occ > L[H[c[2]]].occ } }
    \cup { pq[1] : pq \in { c \in CP : ~(L[H[c[1]]].occ > L[H[c[2]]].occ) } }
ClashFilter(L, H, perModel) ==
  LET D == ClashDropped(L, H, perModel) IN SelectSeq([p \in 1..Len(H) |-> <<p, H[p]>>], LAMBDA e : e[1] \notin D)
Kept(L, H, perModel) == LET K == ClashFilter(L, H, perModel) IN [n \in 1..Len(K) |-> K[n][2]]

\* model selection as the code does it: the request if still present, otherwise the first one left
SelectModel(L, A, req) ==
  IF A = <<>> THEN <<>>
  ELSE LET avail == { L[A[n]].m : n \in 1..Len(A) }
           m == IF req # 0 /\ req \in avail THEN req ELSE L[A[1]].m IN
       SelectSeq(A, LAMBDA i : L[i].m = m)

\* grouping of consecutive atoms with equal (label, auth, model)
GroupKey(L, fmt, i) == <<L[i].m, ResKey(L[i]), IF fmt = "cif" THEN LabelOf(L[i]) ELSE <<>> >>
AtomRec(l) == [an |-> l.an, x |-> l.x, y |-> l.y, z |-> l.z]
RECURSIVE GroupFrom(_, _, _, _, _)
GroupFrom(L, fmt, A, n, acc) ==
  IF n > Len(A) THEN acc
  ELSE LET i == A[n]
           new == [m |-> L[i].m, ch |-> L[i].ch, num |-> L[i].num, ic |-> L[i].ic, rn |-> L[i].rn,
                   lab |-> (IF fmt = "cif" THEN LabelOf(L[i]) ELSE <<>>), atoms |-> <<AtomRec(L[i])>>] IN
       IF n > 1 /\ GroupKey(L, fmt, A[n - 1]) = GroupKey(L, fmt, i)
       THEN GroupFrom(L, fmt, A, n + 1,
                      [acc EXCEPT ![Len(acc)].atoms = Append(@, AtomRec(L[i]))])
       ELSE GroupFrom(L, fmt, A, n + 1, Append(acc, new))
Group(L, fmt, A) == GroupFrom(L, fmt, A, 1, <<>>)

\* whole pipeline: [err, kept (line indices of all models), res (answer for request req)]
Pipeline(L, fmt, req, wm, perModel, nullSafe) ==
  LET d == Dedupe(L, wm, nullSafe) IN
  IF d.err # "" THEN [err |-> d.err, kept |-> <<>>, res |-> <<>>]
  ELSE LET A == Kept(L, d.h, perModel) IN
       [err |-> "", kept |-> A, res |-> Group(L, fmt, SelectModel(L, A, req))]

\* the pipeline's clash filter is order-free only if no holder has two clash partners
PipelineDeterministic(L, wm, perModel) ==
  LET d == Dedupe(L, wm, TRUE)
      CP == ClashPairs(L, d.h, perModel) IN
  \A a, b \in CP : a # b => {a[1], a[2]} \cap {b[1], b[2]} = {}

\* ------------------------------------------------------------------ 4. agreement of readers (C15)
(***************************************************************************)
(* A single-model, single-conformer table has one well-defined content:    *)
(* its residues, their atoms, which consecutive residues of a chain are    *)
(* bonded (O3'-P below 2.4 A).  Every reader generation, on either file    *)
(* format, must report exactly that content.                               *)
(***************************************************************************)
Letters == <<"A","B","C","D","E","F","G","H","I","J","K","L","M","N","O","P","Q","R","S","T","U","V","W","X","Y","Z">>
IcodeRank(ic) == IF ic = "" THEN 0
                 ELSE IF \E k \in 1..26 : Letters[k] = ic THEN CHOOSE k \in 1..26 : Letters[k] = ic ELSE 27
ResId(l)  == <<l.ch, l.num, l.ic>>
ResIds(L) == { ResId(L[i]) : i \in Idx(L) }
FirstLine(L, id) == Min({ i \in Idx(L) : ResId(L[i]) = id })
Before(a, b) == a[2] < b[2] \/ (a[2] = b[2] /\ IcodeRank(a[3]) < IcodeRank(b[3]))

\* atom `an` of residue id (C15 tables hold every atom once)
AtomLines(L, id, an) == { i \in Idx(L) : ResId(L[i]) = id /\ L[i].an = an }
Connected(L, a, b) ==
  \E i \in AtomLines(L, a, "O3'") : \E j \in AtomLines(L, b, "P") : Closer(L[i], L[j], BondMilli)
OnBondSphere(L, a, b) ==
  \E i \in AtomLines(L, a, "O3'") : \E j \in AtomLines(L, b, "P") : OnSphere(L[i], L[j], BondMilli)

\* consecutive residues of one chain (numbering order = file order, see AgreeDomain)
Adjacent(L) == { ab \in ResIds(L) \X ResIds(L) :
                   /\ ab[1][1] = ab[2][1] /\ Before(ab[1], ab[2])
                   /\ ~\E c \in ResIds(L) : c[1] = ab[1][1] /\ Before(ab[1], c) /\ Before(c, ab[2]) }

AgreeBase(L) ==
  /\ InDomain(L, 0)
  /\ Cardinality(Models(L)) = 1
  /\ \A i \in Idx(L) : L[i].alt = "" /\ Partners(L, i) = {} /\ IcodeRank(L[i].ic) <= 26
  /\ \A i, j \in Idx(L) : ResId(L[i]) = ResId(L[j]) => L[i].rn = L[j].rn
  /\ \A a, b \in ResIds(L) : (a # b /\ a[1] = b[1]) =>
        /\ (FirstLine(L, a) < FirstLine(L, b)) = Before(a, b)

AgreeDomain(L) == AgreeBase(L) /\ \A i \in Idx(L) : Copies(L, i) = {i}

\* Repeated atom records (same identity, no alternate-location flag, equally occupied): which record a
\* reader keeps is its own business, so on this domain only what the statement says about AGREEMENT is
\* demanded (DupFailing in Trace_AtomTable): the same residues, the same atom names, every reported
\* atom one of the written records, the same answer of every reading on each consecutive pair, |chi| alike.
DupDomain(L) ==
  /\ AgreeBase(L)
  /\ \E i \in Idx(L) : Copies(L, i) # {i}
  /\ \A i \in Idx(L) : L[i].occ >= 0 /\ \A j \in Copies(L, i) : L[j].occ = L[i].occ
  /\ \A ab \in Adjacent(L) : ~OnBondSphere(L, ab[1], ab[2])

RKeys(res)  == { <<res[r].ch, res[r].num, res[r].ic, res[r].rn>> : r \in 1..Len(res) }
AtomSetOf(r) == { r.atoms[a] : a \in 1..Len(r.atoms) }
SeqSet(s)   == { s[n] : n \in 1..Len(s) }

\* SameResidues: exactly the table's residues (chain, number, icode, name), each once
SameResidues(L, res) ==
  LET exp == { ResKey(L[i]) : i \in Idx(L) } IN RKeys(res) = exp /\ Len(res) = Cardinality(exp)

\* SameAtomsAndCoords: every residue holds exactly its atoms, at the written coordinates, each once
SameAtomsAndCoords(L, res) ==
  \A r \in 1..Len(res) :
     /\ AtomSetOf(res[r]) = { AtomRec(L[i]) : i \in { j \in Idx(L) : ResKey(L[j]) =
                                    <<res[r].ch, res[r].num, res[r].ic, res[r].rn>> } }
     /\ Len(res[r].atoms) = Cardinality(AtomSetOf(res[r]))

\* SameConnectivity, residue-level reader: is_connected(a, b) was asked for the pairs `queried`
\* (at least all consecutive ones) and answered yes exactly for `conn`
\* (a pair whose O3'-P distance is exactly 2.4 A may be answered either way by a reader; that all readings
\* answer it alike is demanded separately, BoundaryAgree)
ConnectivityAnswersOK(L, queried, conn) ==
  /\ Adjacent(L) \subseteq queried /\ conn \subseteq queried
  /\ \A q \in queried : OnBondSphere(L, q[1], q[2]) \/ ((q \in conn) = Connected(L, q[1], q[2]))

\* SameConnectivity, table-level reader: the consecutive pairs inside its connected segments
OnSpherePairs(L) == { ab \in Adjacent(L) : OnBondSphere(L, ab[1], ab[2]) }
SegmentPairsOK(L, pairs) ==
  /\ pairs \subseteq Adjacent(L)
  /\ pairs \ OnSpherePairs(L) = { ab \in Adjacent(L) \ OnSpherePairs(L) : Connected(L, ab[1], ab[2]) }
=============================================================================
