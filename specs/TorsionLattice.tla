--------------------------- MODULE TorsionLattice ---------------------------
(***************************************************************************)
(* C18 - torsion (dihedral) angles follow the IUPAC convention.            *)
(*                                                                         *)
(* For four points p1..p4 with bond vectors b1 = p2-p1, b2 = p3-p2,         *)
(* b3 = p4-p3 the IUPAC torsion (clockwise-positive looking from p2 to p3,  *)
(* range (-pi, pi]) is                                                     *)
(*      phi = atan2( |b2| * b1.(b2 x b3) ,  (b1 x b2).(b2 x b3) )            *)
(* For INTEGER points everything that decides the position of phi relative *)
(* to the 8 directions 0, +-pi/4, +-pi/2, +-3pi/4, pi is integer arithmetic:*)
(*      sign(y) = sign(b1.(b2 x b3))          sign(x) = sign((b1xb2).(b2xb3))*)
(*      |y| <=> |x|   iff   (b2.b2) (b1.(b2xb3))^2  <=>  x^2                 *)
(* so TLC classifies every non-degenerate lattice 4-tuple EXACTLY into one  *)
(* of 16 cells: 8 boundary directions and the 8 open octants between them.  *)
(*                                                                         *)
(* Cell index k in -7..8:  even k = the direction k*pi/8 (k/2 quarter-pi),  *)
(*                         odd  k = the open octant ((k-1)*pi/8,(k+1)*pi/8). *)
(* Recorded results of the real code are integers in micro-radians.        *)
(***************************************************************************)
EXTENDS Integers, Sequences, FiniteSets

\* ------------------------------------------------------------------ integer vectors
Sub(a, b)   == <<a[1] - b[1], a[2] - b[2], a[3] - b[3]>>
Dot(a, b)   == a[1] * b[1] + a[2] * b[2] + a[3] * b[3]
Cross(a, b) == <<a[2] * b[3] - a[3] * b[2], a[3] * b[1] - a[1] * b[3], a[1] * b[2] - a[2] * b[1]>>
Zero3       == <<0, 0, 0>>
Sgn(n)      == IF n > 0 THEN 1 ELSE IF n < 0 THEN -1 ELSE 0
Abs(n)      == IF n < 0 THEN -n ELSE n
MinOf(a, b) == IF a < b THEN a ELSE b

B1(p) == Sub(p[2], p[1])
B2(p) == Sub(p[3], p[2])
B3(p) == Sub(p[4], p[3])

\* All integer quantities of a tuple, computed once (LET-bound values are cached by TLC):
\*   y = |b2| * trip,  x = (b1 x b2).(b2 x b3),  a = (b2.b2) trip^2 = y^2,  x2 = x^2
Params(p) ==
  LET b1 == B1(p)  b2 == B2(p)  b3 == B3(p)
      n1 == Cross(b1, b2)  n2 == Cross(b2, b3)
      trip == Dot(b1, n2)  x == Dot(n1, n2)  q2 == Dot(b2, b2) IN
  [n1 |-> n1, n2 |-> n2, trip |-> trip, x |-> x, a |-> q2 * trip * trip, x2 |-> x * x]

\* the torsion is defined iff neither bond angle is 0 or 180 degrees
NonDegP(P)  == P.n1 # Zero3 /\ P.n2 # Zero3
\* cell from sign(x), sign(y), sign(|y|-|x|)   (sx = sy = 0 cannot happen when non-degenerate)
CellOfSigns(sx, sy, c) ==
  IF sy = 0 THEN (IF sx > 0 THEN 0 ELSE 8)
  ELSE IF sx = 0 THEN 4 * sy
  ELSE IF sx > 0 THEN sy * (2 + c)
  ELSE sy * (6 - c)
CellP(P)    == CellOfSigns(Sgn(P.x), Sgn(P.trip), Sgn(P.a - P.x2))

NonDegenerate(p) == NonDegP(Params(p))
Trip(p)      == Params(p).trip                                   \* y = |b2| * Trip
XNum(p)      == Params(p).x                                      \* x
IUPACCell(p) == CellP(Params(p))

Cells      == -7..8
NegCell(k) == IF k = 8 THEN 8 ELSE -k            \* cell of -phi ( -pi is identified with pi )
FixedCell(k) == k = 0 \/ k = 8                   \* phi = -phi  (mod 2 pi)

\* ------------------------------------------------------------------ transformations
Rev(p)   == <<p[4], p[3], p[2], p[1]>>                                   \* reversed point order
MirX(p)  == [i \in 1..4 |-> <<-p[i][1], p[i][2], p[i][3]>>]              \* mirror image (plane x = 0)
RotZ(p)  == [i \in 1..4 |-> <<-p[i][2], p[i][1], p[i][3]>>]              \* proper rotations by 90 degrees
RotX(p)  == [i \in 1..4 |-> <<p[i][1], -p[i][3], p[i][2]>>]
Shift(p, t) == [i \in 1..4 |-> <<p[i][1] + t[1], p[i][2] + t[2], p[i][3] + t[3]>>]

\* ------------------------------------------------------------------ the lattice
Pts(R)        == (-R..R) \X (-R..R) \X (-R..R)
Tuples(R, p2origin) ==
  IF p2origin THEN { <<a, Zero3, c, d>> : a \in Pts(R), c \in Pts(R), d \in Pts(R) }
  ELSE Pts(R) \X Pts(R) \X Pts(R) \X Pts(R)
NonDegTuples(R, p2origin) == { p \in Tuples(R, p2origin) : NonDegenerate(p) }
\* injective code of a lattice tuple (base 2R+1 digits), used by the domain guard
Code(p, R) == LET B == 2 * R + 1
                  d(i, j) == p[i][j] + R IN
              d(1,1) + B * (d(1,2) + B * (d(1,3) + B * (d(2,1) + B * (d(2,2) + B * (d(2,3)
              + B * (d(3,1) + B * (d(3,2) + B * (d(3,3) + B * (d(4,1) + B * (d(4,2) + B * d(4,3)))))))))))

\* ------------------------------------------------------------------ micro-radians
PiU    == 3141593          \* round(1e6 * pi)
TwoPiU == 6283185          \* round(1e6 * 2 pi)
QUSeq  == <<-3141593, -2356194, -1570796, -785398, 0, 785398, 1570796, 2356194, 3141593>>
QU(m)  == QUSeq[m + 5]     \* round(1e6 * m * pi/4), m in -4..4
\* circular distance of two recorded angles
Dist(a, b) == LET d == Abs(a - b) IN MinOf(d, Abs(TwoPiU - d))
InRangeU(v) == -PiU <= v /\ v <= PiU                     \* (-pi, pi] at the recording resolution
\* Gap lemma (integer arithmetic).  For a tuple in an open octant write A = (b2.b2) Trip^2 and
\* X2 = XNum^2 (both >= 1).  tan^2(phi) = A / X2, hence
\*   - distance to the axis directions 0, +-pi/2, pi is at least 1/sqrt(max(A, X2)) rad, i.e. more
\*     than 300 micro-radians when A, X2 <= 10^7  (AxisGapOK; holds on the whole lattice -2..2);
\*   - if X2 \div 10000 < |A - X2| then |tan^2 - 1| > 1e-4 and the distance to the diagonal
\*     directions +-pi/4, +-3pi/4 exceeds 20 micro-radians (FarFromDiagonal).
AxisGapOKP(P)       == P.a <= 10000000 /\ P.x2 <= 10000000
FarFromDiagonalP(P) == (P.x2 \div 10000) < Abs(P.a - P.x2)
AxisGapOK(p)        == AxisGapOKP(Params(p))
FarFromDiagonal(p)  == FarFromDiagonalP(Params(p))
AParam(p)  == Params(p).a
X2Param(p) == Params(p).x2
\* v lies in cell k: on a boundary direction within tol; or strictly inside the open octant,
\* more than tol away from both end directions.  Only when the tuple is not provably far from the
\* diagonal end (far = FALSE) is a value within tol of that diagonal direction tolerated.
IsAxis(m) == m % 2 = 0
InCell(k, v, tol, far) ==
  IF k % 2 = 0 THEN Dist(v, QU(k \div 2)) <= tol
  ELSE LET lo == (k - 1) \div 2  hi == (k + 1) \div 2
           diag == IF IsAxis(lo) THEN hi ELSE lo
           axis == IF IsAxis(lo) THEN lo ELSE hi IN
       \/ QU(lo) + tol < v /\ v < QU(hi) - tol
       \/ ~far /\ QU(lo) < v /\ v < QU(hi) /\ Dist(v, QU(axis)) > tol
       \/ ~far /\ Dist(v, QU(diag)) <= tol

\* degrees used by the chi clauses, in micro-radians
DegU(d) == CASE d = 20 -> 349066 [] d = 30 -> 523599 [] d = 60 -> 1047198 [] d = 65 -> 1134464
             [] d = 100 -> 1745329 [] d = 105 -> 1832596 [] d = 110 -> 1919862 [] d = 120 -> 2094395
             [] d = 160 -> 2792527 [] d = 170 -> 2967060 [] d = 180 -> 3141593

\* ------------------------------------------------------------------ recorded results
\* a result is [err |-> "" | exception type name, nan |-> BOOLEAN, v |-> micro-radians]
Defined(r) == r.err = "" /\ ~r.nan
\* an observation of one implementation on one input: o = original order, r = reversed,
\* m = mirrored
AllDefined(t)  == Defined(t.o) /\ Defined(t.r) /\ Defined(t.m)
AllInRange(t)  == InRangeU(t.o.v) /\ InRangeU(t.r.v) /\ InRangeU(t.m.v)
ReversalKeepsV(t, tol) == Dist(t.r.v, t.o.v) <= tol
MirrorNegatesV(t, tol) == Dist(t.m.v, 0 - t.o.v) <= tol
LatticeOctantV(k, t, tol, far) == InCell(k, t.o.v, tol, far)
ConstructedPhiV(phi, t, tol) == Dist(t.o.v, phi) <= tol
ImplsAgreeV(t, u, tol) == Dist(t.o.v, u.o.v) <= tol
\* the one understood defect: the value is the NEGATED IUPAC angle (and not a fixed point)
NegatedOf(v, w, tol) == Dist(v, 0 - w) <= tol

\* ------------------------------------------------------------------ nucleic-acid torsions (IUPAC-IUB 1983)
\* <<atom name, residue offset>>
TorsionDef ==
  [alpha   |-> << <<"O3'", -1>>, <<"P", 0>>,   <<"O5'", 0>>, <<"C5'", 0>> >>,
   beta    |-> << <<"P", 0>>,    <<"O5'", 0>>, <<"C5'", 0>>, <<"C4'", 0>> >>,
   gamma   |-> << <<"O5'", 0>>,  <<"C5'", 0>>, <<"C4'", 0>>, <<"C3'", 0>> >>,
   delta   |-> << <<"C5'", 0>>,  <<"C4'", 0>>, <<"C3'", 0>>, <<"O3'", 0>> >>,
   epsilon |-> << <<"C4'", 0>>,  <<"C3'", 0>>, <<"O3'", 0>>, <<"P", 1>> >>,
   zeta    |-> << <<"C3'", 0>>,  <<"O3'", 0>>, <<"P", 1>>,   <<"O5'", 1>> >>,
   chiR    |-> << <<"O4'", 0>>,  <<"C1'", 0>>, <<"N9", 0>>,  <<"C4", 0>> >>,      \* purines
   chiY    |-> << <<"O4'", 0>>,  <<"C1'", 0>>, <<"N1", 0>>,  <<"C2", 0>> >>]      \* pyrimidines
TorsionNames == DOMAIN TorsionDef

\* A-form (C3'-endo, anti) windows: delta in [65, 100] degrees, chi in [-180, -120] degrees
\* ("about -160 degrees")
C3EndoDelta(v) == DegU(65) <= v /\ v <= DegU(100)
AFormChi(v)    == -PiU <= v /\ v <= 0 - DegU(120)
=============================================================================
