SPECIFICATION Spec
CONSTANT N = 7
CONSTANT PairlessShortcut = FALSE
INVARIANT ClausesHold
INVARIANT NoDuplicateLoops
CHECK_DEADLOCK FALSE
