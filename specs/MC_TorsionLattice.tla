-------------------------- MODULE MC_TorsionLattice --------------------------
(***************************************************************************)
(* Design-level model of the two torsion functions of rnapolis, step by    *)
(* step as the code performs them, explored for EVERY 4-tuple of lattice    *)
(* points (coordinates in -R..R; p2 at the origin when P2Origin), each one  *)
(* in its original order, reversed and mirrored (jobs 1, 2, 3).             *)
(*                                                                         *)
(*  Impl = "tertiary"  rnapolis.tertiary.calculate_torsion_angle_coords      *)
(*     T_Diff        v1 = p2-p1, v2 = p3-p2, v3 = p4-p3                      *)
(*     T_Normalize   v_i / |v_i|  (a positive scaling: the model keeps the   *)
(*                   integer vectors and the squared lengths q_i)           *)
(*     T_Cross       t1 = v1n x v2n, t2 = v2n x v3n, t3 = v1n * |v2n|         *)
(*     T_ReturnZero  |t1| < 1e-6 or |t2| < 1e-6  ->  0.0  (degenerate input)  *)
(*     T_Dots        x = t1.t2 (clipped to [-1,1]: a no-op, |t1|,|t2| <= 1), *)
(*                   y = t2.t3                                              *)
(*     Atan2         atan2(y, x)                                            *)
(*  Impl = "v2"        rnapolis.tertiary_v2.calculate_torsion_angle           *)
(*     V_Diff, V_Normals (n1 = v1 x v2, n2 = v2 x v3), V_ReturnNaN (collinear),*)
(*     V_M1  m1 = n1 x v2/|v2|   (M1Order = "n1_x_b2", AS IMPLEMENTED) or      *)
(*           m1 = v2/|v2| x n1   (M1Order = "b2_x_n1", the REQUIRED order),   *)
(*           x = n1.n2, y = m1.n2;  Atan2                                   *)
(*                                                                         *)
(* Floating-point quantities are represented exactly: every float the code *)
(* computes is (integer) / (positive product of vector lengths), so its     *)
(* sign is the integer's sign and |y| <=> |x| is  y^2 * wy <=> x^2 * wx     *)
(* with the squared length of v2 as weight on one side.  Hence the cell of  *)
(* atan2(y, x) is computed exactly.                                         *)
(***************************************************************************)
EXTENDS TorsionLattice, TLC

CONSTANTS R,          \* lattice radius
          P2Origin,   \* TRUE: p2 fixed at the origin
          Impl,       \* "tertiary" | "v2" | "oracle" (no implementation steps: only the lemmas about
                      \*  the declarative oracle are evaluated, once per input tuple)
          M1Order,    \* "n1_x_b2" (as implemented in v2) | "b2_x_n1" (required)
          Slice       \* TRUE: only the tuples with p1 = (1,0,0) (fast what-if / negative-control runs)

VARIABLES pts,   \* the input 4-tuple
          job,   \* 1 = as given, 2 = reversed, 3 = mirrored
          pc,
          b,     \* <<v1, v2, v3>>
          q,     \* <<v1.v1, v2.v2, v3.v3>>
          n,     \* <<t1, t2>> resp. <<n1, n2>>
          xy,    \* [x, y, wx, wy]
          out    \* results so far: a cell, or Undef
vars == <<pts, job, pc, b, q, n, xy, out>>

Undef == 99
Input == IF job = 1 THEN pts ELSE IF job = 2 THEN Rev(pts) ELSE MirX(pts)

Init == /\ \E a \in (IF Slice THEN {<<1, 0, 0>>} ELSE Pts(R)), o \in (IF P2Origin THEN {Zero3} ELSE Pts(R)),
              c \in Pts(R), d \in Pts(R) : pts = <<a, o, c, d>>
        /\ job = 1 /\ pc = "start"
        /\ b = <<>> /\ q = <<>> /\ n = <<>> /\ xy = <<>> /\ out = <<>>

\* ------------------------------------------------------------------ tertiary.py
T_Diff ==
  /\ Impl = "tertiary" /\ pc = "start"
  /\ b' = <<Sub(Input[2], Input[1]), Sub(Input[3], Input[2]), Sub(Input[4], Input[3])>>
  /\ pc' = "normalize"
  /\ UNCHANGED <<pts, job, q, n, xy, out>>

T_Normalize ==
  /\ Impl = "tertiary" /\ pc = "normalize"
  /\ q' = <<Dot(b[1], b[1]), Dot(b[2], b[2]), Dot(b[3], b[3])>>   \* zero vectors stay zero
  /\ pc' = "cross"
  /\ UNCHANGED <<pts, job, b, n, xy, out>>

T_Cross ==
  /\ Impl = "tertiary" /\ pc = "cross"
  /\ n' = <<Cross(b[1], b[2]), Cross(b[2], b[3])>>
  /\ pc' = "guard"
  /\ UNCHANGED <<pts, job, b, q, xy, out>>

T_ReturnZero ==
  /\ Impl = "tertiary" /\ pc = "guard"
  /\ (n[1] = Zero3 \/ n[2] = Zero3)
  /\ out' = Append(out, Undef)
  /\ pc' = "next"
  /\ UNCHANGED <<pts, job, b, q, n, xy>>

T_Dots ==
  /\ Impl = "tertiary" /\ pc = "guard"
  /\ n[1] # Zero3 /\ n[2] # Zero3
  \* x = t1.t2 / (|v1| |v2|^2 |v3|),  y = t2.v1 / (|v1| |v2| |v3|)
  /\ xy' = [x |-> Dot(n[1], n[2]), y |-> Dot(n[2], b[1]), wx |-> 1, wy |-> q[2]]
  /\ pc' = "atan2"
  /\ UNCHANGED <<pts, job, b, q, n, out>>

\* ------------------------------------------------------------------ tertiary_v2.py
V_Diff ==
  /\ Impl = "v2" /\ pc = "start"
  /\ b' = <<Sub(Input[2], Input[1]), Sub(Input[3], Input[2]), Sub(Input[4], Input[3])>>
  /\ q' = <<>>
  /\ pc' = "normals"
  /\ UNCHANGED <<pts, job, n, xy, out>>

V_Normals ==
  /\ Impl = "v2" /\ pc = "normals"
  /\ n' = <<Cross(b[1], b[2]), Cross(b[2], b[3])>>
  /\ pc' = "guard"
  /\ UNCHANGED <<pts, job, b, q, xy, out>>

V_ReturnNaN ==
  /\ Impl = "v2" /\ pc = "guard"
  /\ (n[1] = Zero3 \/ n[2] = Zero3)
  /\ out' = Append(out, Undef)
  /\ pc' = "next"
  /\ UNCHANGED <<pts, job, b, q, n, xy>>

V_M1 ==
  /\ Impl = "v2" /\ pc = "guard"
  /\ n[1] # Zero3 /\ n[2] # Zero3
  /\ LET m1 == IF M1Order = "n1_x_b2" THEN Cross(n[1], b[2]) ELSE Cross(b[2], n[1]) IN
     \* x = n1.n2 / (|n1| |n2|),  y = m1.n2 / (|n1| |n2| |v2|)
     xy' = [x |-> Dot(n[1], n[2]), y |-> Dot(m1, n[2]), wx |-> Dot(b[2], b[2]), wy |-> 1]
  /\ pc' = "atan2"
  /\ UNCHANGED <<pts, job, b, q, n, out>>

\* ------------------------------------------------------------------ shared
Atan2 ==
  /\ pc = "atan2"
  /\ out' = Append(out, CellOfSigns(Sgn(xy.x), Sgn(xy.y), Sgn(xy.y * xy.y * xy.wy - xy.x * xy.x * xy.wx)))
  /\ pc' = "next"
  /\ UNCHANGED <<pts, job, b, q, n, xy>>

NextJob ==
  /\ pc = "next"
  /\ IF job < 3 THEN job' = job + 1 /\ pc' = "start" ELSE job' = job /\ pc' = "done"
  /\ UNCHANGED <<pts, b, q, n, xy, out>>

Next == T_Diff \/ T_Normalize \/ T_Cross \/ T_ReturnZero \/ T_Dots
        \/ V_Diff \/ V_Normals \/ V_ReturnNaN \/ V_M1 \/ Atan2 \/ NextJob
Spec == Init /\ [][Next]_vars

\* ------------------------------------------------------------------ clauses as invariants
Done == pc = "done"
TypeOK == /\ job \in 1..3 /\ Len(out) <= 3
          /\ \A i \in 1..Len(out) : out[i] \in Cells \cup {Undef}
\* the function is undefined exactly on degenerate input: degenerate-case handling does not
\* leak into valid inputs
UndefinedIffDegenerate == Done => (out[1] = Undef <=> ~NonDegenerate(pts))
LatticeOctant  == Done /\ NonDegenerate(pts) => out[1] = IUPACCell(pts)
ReversalKeeps  == Done /\ NonDegenerate(pts) => out[2] = out[1]
MirrorNegates  == Done /\ NonDegenerate(pts) => out[3] = NegCell(out[1])
\* what tertiary_v2 does as implemented: exactly the negated IUPAC cell
V2ExactlyNegated == Done /\ NonDegenerate(pts) => out[1] = NegCell(IUPACCell(pts))

\* lemmas about the declarative oracle itself (depend on pts only)
AtInput == pc = "start" /\ job = 1                \* evaluated once per input tuple
OracleReversal    == AtInput /\ NonDegenerate(pts) => NonDegenerate(Rev(pts)) /\ IUPACCell(Rev(pts)) = IUPACCell(pts)
OracleMirror      == AtInput /\ NonDegenerate(pts) => NonDegenerate(MirX(pts)) /\ IUPACCell(MirX(pts)) = NegCell(IUPACCell(pts))
OracleRotation    == AtInput /\ NonDegenerate(pts) => /\ IUPACCell(RotZ(pts)) = IUPACCell(pts)
                                           /\ IUPACCell(RotX(pts)) = IUPACCell(pts)
OracleTranslation == AtInput /\ NonDegenerate(pts) => IUPACCell(Shift(pts, <<1, -2, 3>>)) = IUPACCell(pts)
OracleNeverOrigin == AtInput /\ NonDegenerate(pts) => ~(XNum(pts) = 0 /\ Trip(pts) = 0)
\* the gap lemma's premises hold on the lattice: open-octant tuples keep clear of the axis directions
OracleAxisGap     == AtInput /\ NonDegenerate(pts) => AxisGapOK(pts) /\ (IUPACCell(pts) % 2 = 1 => AParam(pts) >= 1 /\ X2Param(pts) >= 1)
\* every one of the 16 cells is inhabited on the lattice (evaluated once)
ASSUME P2Origin => { IUPACCell(p) : p \in NonDegTuples(1, TRUE) } = Cells
=============================================================================
