-------------------------- MODULE Trace_BpSeqObject --------------------------
(***************************************************************************)
(* Trace validation for C12.  A case is one call HISTORY on real BpSeq      *)
(* objects: after every call the driver logged the method, the receiver,   *)
(* the projected answer, the answer of a fresh copy of the receiver's      *)
(* original text, the receiver's cached optimal notation, the object that  *)
(* was returned, and the projected state (text, pairs dict, sequence) of   *)
(* ALL live objects.  The history is replayed through BpSeqObject!Do (the  *)
(* required, non-aliasing variant); the first step that the specification  *)
(* cannot explain names the failing clause.                                *)
(***************************************************************************)
EXTENDS BpSeqObject, Json, IOUtils

Doc   == JsonDeserialize(IOEnv.TRACE_FILE)
Trace == Doc.cases
VARIABLES idx, cnt
vars == <<idx, cnt>>

ColOfEntries(es) == [k \in 1..Len(es) |-> es[k][3]]
EntriesOK(es, seq) == \A k \in 1..Len(es) : es[k][1] = k /\ es[k][2] = seq[k]
PairSetBoth(ps) == { <<ps[k][1], ps[k][2]>> : k \in 1..Len(ps) }
TextSet(l) == { l[k] : k \in 1..Len(l) }
StemSet(l) == { <<l[k][1], l[k][2], l[k][3], l[k][4]>> : k \in 1..Len(l) }
HpSet(l)   == { <<l[k][1], l[k][2]>> : k \in 1..Len(l) }

\* does the projected answer a equal the model's answer v for this op?
AnswerMatches(op, a, v, seq) ==
  CASE op = "str"      -> Len(a.entries) = Len(seq) /\ EntriesOK(a.entries, seq) /\ ColOfEntries(a.entries) = v
    [] op = "pairs"    -> PairSetBoth(a.pairs) = v /\ Len(a.pairs) = Cardinality(v)
    [] op = "sequence" -> a.seq = seq
    [] op = "dot_bracket" -> a.seq = seq /\ a.db = v
    [] op = "fcfs"     -> a.seq = seq /\ a.db = v
    [] op = "convert_none" -> a.seq = seq /\ a.db = v
    [] op = "all"      -> TextSet(a.list) = v /\ Len(a.list) = Cardinality(v)
    [] op = "elements" -> StemSet(a.stems) = v.stems /\ HpSet(a.hairpins) = v.hairpins
                          /\ Len(a.stems) = Cardinality(v.stems) /\ Len(a.hairpins) = Cardinality(v.hairpins)
    [] op = "without_pseudoknots" -> Len(a.entries) = Len(seq) /\ EntriesOK(a.entries, seq) /\ ColOfEntries(a.entries) = v
    [] op = "without_isolated"    -> Len(a.entries) = Len(seq) /\ EntriesOK(a.entries, seq) /\ ColOfEntries(a.entries) = v

LiveOK(st, live, seq) ==
  /\ Len(live) = Len(st.objs)
  /\ \A o \in 1..Len(live) :
       /\ Len(live[o].entries) = Len(seq) /\ ColOfEntries(live[o].entries) = Col(st, o)
       /\ PairSetBoth(live[o].pairs) = st.objs[o].pairsAttr
SeqsOK(live, seq) == \A o \in 1..Len(live) : live[o].seq = seq /\ EntriesOK(live[o].entries, seq)

\* reconcile which object was returned: identity is not prescribed, only observable answers
\* (model says "self" but the code built a new equal object, or the reverse)
Reconcile(st0, r, e) ==
  LET nold == Len(st0.objs) IN
  IF e.new = r.new THEN r.st
  ELSE IF e.new = nold + 1 /\ r.new <= nold THEN      \* code returned a new object, model returned an old one
       LET col == Col(r.st, r.new)  s2 == NewCells(r.st, col) IN
       [s2 EXCEPT !.objs = Append(@, MkObj(RefsFor(r.st, Len(col)), col))]
  ELSE IF e.new \in 1..nold /\ r.new = nold + 1 /\ Col(r.st, e.new) = r.ans THEN   \* code reused an equal object
       [r.st EXCEPT !.objs = SubSeq(@, 1, nold)]
  ELSE r.st

\* replay: returns <<"ok">> or the verdict of the first unexplained step
RECURSIVE Run(_, _, _)
Run(c, st, t) ==
  IF t > Len(c.events) THEN <<"ok">>
  ELSE
  LET e == c.events[t]  o == e.recv  w == <<e.op, t>> IN
  IF e.op \notin Ops \/ o \notin 1..Len(st.objs) THEN <<"fail", "CallEnabled", w>>
  ELSE IF e.err # "" THEN <<"fail", "NoException", w>>
  ELSE
  LET needs  == e.op \in {"dot_bracket", "elements", "without_pseudoknots", "without_isolated"}
      first  == needs /\ st.objs[o].db = None
      optdb  == IF needs THEN (IF first THEN e.recv_db ELSE st.objs[o].db[1]) ELSE <<>> IN
  IF first /\ ~IsOptimalText(optdb, M(st, o), Len(c.seq)) THEN <<"fail", "OwnNotationOptimal", w>>
  ELSE
  LET r  == Do(st, e.op, o, optdb, FALSE)
      s1 == Reconcile(st, r, e) IN
  IF ~AnswerMatches(e.op, e.ans, r.ans, c.seq) THEN
       <<"fail", IF e.op = "without_pseudoknots" THEN "WithoutPkIsRoundPairs"
                 ELSE IF e.op = "without_isolated" THEN "WithoutIsolatedIsLongStems"
                 ELSE "AnswerStability", w>>
  ELSE IF e.fresh # e.ans THEN <<"fail", "AnswerAsFreshCopy", w>>
  ELSE IF ~(e.new = 0 \/ e.new \in 1..(Len(st.objs) + 1)) \/ (e.new = 0) # (r.new = 0) THEN <<"fail", "ObjectBookkeeping", w>>
  ELSE IF ~LiveOK(s1, e.live, c.seq) THEN <<"fail", "FramePurity", w>>
  ELSE IF ~SeqsOK(e.live, c.seq) THEN <<"fail", "SequenceKept", w>>
  ELSE Run(c, s1, t + 1)

Verdict(c) ==
  LET m == PairSet(c.pairs) IN
  IF ~IsMatching(m, c.n) \/ Len(c.seq) # c.n THEN <<"fail", "InputIsMatching", "harness">>
  ELSE Run(c, InitState(ColOf(m, c.n)), 1)

Init == idx = 0 /\ cnt = [ok |-> 0, deviation |-> 0, fail |-> 0, steps |-> 0]
Next ==
  /\ idx < Len(Trace)
  /\ idx' = idx + 1
  /\ LET c == Trace[idx']  v == Verdict(c) IN
     /\ cnt' = [cnt EXCEPT ![v[1]] = @ + 1, !.steps = @ + Len(c.events)]
     /\ (v[1] = "ok" \/ PrintT(<<"V", c.id>> \o v))
  /\ (idx' < Len(Trace) \/ PrintT(<<"SUMMARY", Len(Trace), cnt'.ok, cnt'.deviation, cnt'.fail, cnt'.steps>>))
Spec == Init /\ [][Next]_vars
=============================================================================
