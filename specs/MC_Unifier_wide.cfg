SPECIFICATION Spec
CONSTANT NFiles = 2
CONSTANT MaxRes = 2
CONSTANT RNs = {"A", "C", "HOH"}
CONSTANT AtomSeqs <- AtomSeqs4
CONSTANT Ids <- Ids3
CONSTANT EmptyWrite = "crash"
INVARIANT InvFunction
INVARIANT InvRefusal
INVARIANT InvEmpty
INVARIANT InvSameShape
INVARIANT InvAtoms
CHECK_DEADLOCK FALSE
