SPECIFICATION Spec
CONSTANT R = 1
CONSTANT P2Origin = TRUE
CONSTANT Impl = "v2"
CONSTANT M1Order = "b2_x_n1"
CONSTANT Slice = FALSE
INVARIANT TypeOK
INVARIANT UndefinedIffDegenerate
INVARIANT LatticeOctant
INVARIANT ReversalKeeps
INVARIANT MirrorNegates
CHECK_DEADLOCK FALSE
