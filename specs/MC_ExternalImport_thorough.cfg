SPECIFICATION Spec
CONSTANT Modes = {"label", "listing", "dssr"}
CONSTANT LabelSpaces <- ThoroughLabelSpaces
CONSTANT ListingSpaces <- ThoroughListingSpaces
CONSTANT DssrSpaces <- ThoroughDssrSpaces
CONSTANT Contained <- BothContained
CONSTANT LwTest = "members"
INVARIANT LabelMapExact
INVARIANT LabelStepsTyped
INVARIANT Fr3dNeverRaises
INVARIANT LineYieldsExactlyOne
INVARIANT MalformedSkipped
INVARIANT UnknownKeptAsOther
INVARIANT DssrPairsExact
INVARIANT DssrStacksExact
CHECK_DEADLOCK FALSE
