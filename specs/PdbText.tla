------------------------------- MODULE PdbText -------------------------------
(***************************************************************************)
(* PDB fixed-column text: the column layout table of ATOM/HETATM, TER and  *)
(* MODEL records, canonical field texts, a line formatter and a line       *)
(* reader written from the PDB format description (not from the code),     *)
(* the record grammar  (MODEL ATOM.. TER.. ENDMDL)+ END  as an acceptor    *)
(* automaton, the value-shape palettes of the input domain, and the        *)
(* declarative clauses of property C09.                                     *)
(* Text is a sequence of 1-character strings.  Coordinates are integer      *)
(* milli-units, occupancy / B-factor integer centi-units.                   *)
(* An atom row is a record                                                  *)
(*   [rec, serial, name, alt, resn, chain, resseq, icode, x, y, z, occ, b, *)
(*    elem, charge, model]                                                  *)
(* with text fields as character sequences (<<>> = absent) and `charge` in  *)
(* the text form of the frame it lives in (PDB: "1+"; mmCIF: "1", "-2").    *)
(***************************************************************************)
EXTENDS Integers, Sequences, FiniteSets, SequencesExt, FiniteSetsExt, TLC

Sp == " "

\* ------------------------------------------------------------------ characters
Digit    == << "0", "1", "2", "3", "4", "5", "6", "7", "8", "9" >>
DigitSet == { Digit[k] : k \in 1..10 }
DigitVal == [c \in DigitSet |-> (CHOOSE k \in 1..10 : Digit[k] = c) - 1]
Upper    == { "A","B","C","D","E","F","G","H","I","J","K","L","M",
              "N","O","P","Q","R","S","T","U","V","W","X","Y","Z" }
Lower    == { "a","b","c","d","e","f","g","h","i","j","k","l","m",
              "n","o","p","q","r","s","t","u","v","w","x","y","z" }
Letters  == Upper \cup Lower

\* ------------------------------------------------------------------ text helpers
Blanks(n)   == [i \in 1..n |-> Sp]
RJust(s, w) == IF Len(s) >= w THEN s ELSE Blanks(w - Len(s)) \o s
LJust(s, w) == IF Len(s) >= w THEN s ELSE s \o Blanks(w - Len(s))
RECURSIVE LStrip(_), RStrip(_)
LStrip(s)   == IF s # <<>> /\ Head(s) = Sp THEN LStrip(Tail(s)) ELSE s
RStrip(s)   == IF s # <<>> /\ Last(s) = Sp THEN RStrip(Front(s)) ELSE s
Strip(s)    == LStrip(RStrip(s))
Take(s, n)  == SubSeq(s, 1, IF Len(s) < n THEN Len(s) ELSE n)
\* columns <<from, to>> of a line (1-based, inclusive); short lines give what is there
Slice(line, cols) == SubSeq(line, cols[1], IF Len(line) < cols[2] THEN Len(line) ELSE cols[2])

RECURSIVE NatText(_)
NatText(n)  == IF n < 10 THEN << Digit[n + 1] >> ELSE NatText(n \div 10) \o << Digit[(n % 10) + 1] >>
Abs(n)      == IF n < 0 THEN 0 - n ELSE n
IntText(n)  == IF n < 0 THEN << "-" >> \o NatText(0 - n) ELSE NatText(n)
Pow10(d)    == IF d = 3 THEN 1000 ELSE IF d = 2 THEN 100 ELSE IF d = 1 THEN 10 ELSE 1
ZeroPad(s, w) == IF Len(s) >= w THEN s ELSE [i \in 1..(w - Len(s)) |-> "0"] \o s
\* n integer units of 10^-d  ->  fixed-point text with exactly d decimals ("%.df")
FixedText(n, d) == (IF n < 0 THEN << "-" >> ELSE <<>>) \o NatText(Abs(n) \div Pow10(d)) \o << "." >>
                   \o ZeroPad(NatText(Abs(n) % Pow10(d)), d)

IsNatText(s) == s # <<>> /\ \A i \in 1..Len(s) : s[i] \in DigitSet
IsIntText(s) == IsNatText(s) \/ (Len(s) > 1 /\ s[1] \in {"-", "+"} /\ IsNatText(Tail(s)))
RECURSIVE NatVal(_)
NatVal(s)    == IF s = <<>> THEN 0 ELSE NatVal(Front(s)) * 10 + DigitVal[Last(s)]
IntVal(s)    == IF s[1] = "-" THEN 0 - NatVal(Tail(s)) ELSE IF s[1] = "+" THEN NatVal(Tail(s)) ELSE NatVal(s)
\* fixed-point text with exactly d decimals
IsFixedText(s, d) ==
  LET u == IF s # <<>> /\ s[1] = "-" THEN Tail(s) ELSE s IN
  /\ Len(u) >= d + 2
  /\ u[Len(u) - d] = "."
  /\ IsNatText(SubSeq(u, 1, Len(u) - d - 1))
  /\ IsNatText(SubSeq(u, Len(u) - d + 1, Len(u)))
FixedVal(s, d) ==
  LET neg == s[1] = "-"
      u   == IF neg THEN Tail(s) ELSE s
      v   == NatVal(SubSeq(u, 1, Len(u) - d - 1)) * Pow10(d) + NatVal(SubSeq(u, Len(u) - d + 1, Len(u))) IN
  IF neg THEN 0 - v ELSE v

\* ------------------------------------------------------------------ the layout table
\* field |-> <<first column, last column, justification>>, PDB format v3.3, ATOM / HETATM
AtomLayout == [ rec    |-> << 1,  6, "left">>,  serial |-> << 7, 11, "right">>,
                name   |-> <<13, 16, "name">>,  alt    |-> <<17, 17, "left">>,
                resn   |-> <<18, 20, "right">>, chain  |-> <<22, 22, "left">>,
                resseq |-> <<23, 26, "right">>, icode  |-> <<27, 27, "left">>,
                x      |-> <<31, 38, "right">>, y      |-> <<39, 46, "right">>,
                z      |-> <<47, 54, "right">>, occ    |-> <<55, 60, "right">>,
                b      |-> <<61, 66, "right">>, elem   |-> <<77, 78, "right">>,
                charge |-> <<79, 80, "right">> ]
AtomFieldSeq == << "rec", "serial", "name", "alt", "resn", "chain", "resseq", "icode",
                   "x", "y", "z", "occ", "b", "elem", "charge" >>
AtomFields   == { AtomFieldSeq[k] : k \in 1..Len(AtomFieldSeq) }
TerLayout    == [ rec    |-> << 1,  6, "left">>,  serial |-> << 7, 11, "right">>,
                  resn   |-> <<18, 20, "right">>, chain  |-> <<22, 22, "left">>,
                  resseq |-> <<23, 26, "right">>, icode  |-> <<27, 27, "left">> ]
TerFieldSeq  == << "rec", "serial", "resn", "chain", "resseq", "icode" >>
ModelLayout  == [ rec |-> <<1, 6, "left">>, serial |-> <<11, 14, "right">> ]
LineWidth    == 80
Width(lay, f) == lay[f][2] - lay[f][1] + 1
\* columns of an ATOM line that belong to no field must be blank
AtomGapCols  == { i \in 1..LineWidth : \A f \in AtomFields : i < AtomLayout[f][1] \/ i > AtomLayout[f][2] }
TerGapCols   == { i \in 1..LineWidth : \A k \in 1..Len(TerFieldSeq) :
                     i < TerLayout[TerFieldSeq[k]][1] \/ i > TerLayout[TerFieldSeq[k]][2] }

KwATOM   == << "A", "T", "O", "M" >>
KwHETATM == << "H", "E", "T", "A", "T", "M" >>
KwTER    == << "T", "E", "R" >>
KwMODEL  == << "M", "O", "D", "E", "L" >>
KwENDMDL == << "E", "N", "D", "M", "D", "L" >>
KwEND    == << "E", "N", "D" >>

\* ------------------------------------------------------------------ charges
\* formal charge q (signed integer, 0 = none) in the two text forms
PdbCharge(q) == IF q = 0 THEN <<>> ELSE NatText(Abs(q)) \o << IF q > 0 THEN "+" ELSE "-" >>
CifCharge(q) == IF q = 0 THEN <<>> ELSE IntText(q)
\* value of a charge text in either form: "", "2-", "1+", "-2", "+1", "1"; -99 = not a charge
ChargeVal(t) ==
  IF t = <<>> THEN 0
  ELSE IF IsIntText(t) THEN IntVal(t)
  ELSE IF Len(t) > 1 /\ Last(t) \in {"+", "-"} /\ IsNatText(Front(t))
       THEN (IF Last(t) = "-" THEN 0 - NatVal(Front(t)) ELSE NatVal(Front(t)))
  ELSE -99

\* ------------------------------------------------------------------ canonical field texts
FieldText(a, f) ==
  CASE f = "rec"    -> a.rec
    [] f = "serial" -> IntText(a.serial)
    [] f = "name"   -> a.name
    [] f = "alt"    -> a.alt
    [] f = "resn"   -> a.resn
    [] f = "chain"  -> a.chain
    [] f = "resseq" -> IntText(a.resseq)
    [] f = "icode"  -> a.icode
    [] f = "x"      -> FixedText(a.x, 3)
    [] f = "y"      -> FixedText(a.y, 3)
    [] f = "z"      -> FixedText(a.z, 3)
    [] f = "occ"    -> FixedText(a.occ, 2)
    [] f = "b"      -> FixedText(a.b, 2)
    [] f = "elem"   -> a.elem
    [] f = "charge" -> a.charge

\* atom-name alignment used by the formatter: a name shorter than four characters that starts
\* with a letter begins in column 14, every other name in column 13
NameField(name) ==
  IF Len(name) < 4 /\ name # <<>> /\ name[1] \in Letters THEN LJust(<<Sp>> \o name, 4) ELSE LJust(name, 4)

Padded(a, f) ==
  LET w == Width(AtomLayout, f)  j == AtomLayout[f][3] IN
  IF j = "name" THEN NameField(a.name)
  ELSE IF j = "right" THEN RJust(FieldText(a, f), w)
  ELSE LJust(FieldText(a, f), w)

\* does the data of the row fit the PDB field widths at all?
FitsWidths(a) == \A f \in AtomFields : Len(FieldText(a, f)) <= Width(AtomLayout, f)

\* the line is assembled from the layout table: blanks up to the field's first column, the padded
\* field, and so on in column order; blanks up to column 80
RECURSIVE BuildLine(_, _, _)
BuildLine(a, k, col) ==
  IF k > Len(AtomFieldSeq) THEN Blanks(LineWidth - col + 1)
  ELSE LET f == AtomFieldSeq[k] IN
       Blanks(AtomLayout[f][1] - col) \o Padded(a, f) \o BuildLine(a, k + 1, AtomLayout[f][2] + 1)
FormatAtom(a) == BuildLine(a, 1, 1)

FormatTer(serial, a) ==
  LJust(<<"T","E","R">> \o Blanks(3) \o RJust(IntText(serial), 5) \o Blanks(6) \o RJust(a.resn, 3) \o <<Sp>>
        \o LJust(a.chain, 1) \o RJust(IntText(a.resseq), 4) \o a.icode, LineWidth)
FormatModel(n) == KwMODEL \o Blanks(5) \o RJust(IntText(n), 4)

\* ---- what the statement demands of a written ATOM / HETATM line (clause Layout80) ----------
\* every field sits in its columns, justified as the layout table says; for the atom name:
\* four-character and digit-leading names start in column 13, names of one-letter elements
\* in column 14 (two-letter element symbols may start in either column)
NameFieldOK(a, fld) ==
  /\ Len(fld) = 4 /\ Strip(fld) = a.name
  /\ Len(a.name) < 4 /\ a.name # <<>> =>
       IF a.name[1] \in DigitSet THEN fld[1] # Sp
       ELSE IF Len(a.elem) = 2 THEN TRUE
       ELSE fld[1] = Sp
FieldOK(a, f, fld) == IF f = "name" THEN NameFieldOK(a, fld) ELSE fld = Padded(a, f)

\* "ok" or the first thing wrong with an ATOM line written for row a
AtomLineBad(line, a) ==
  IF Len(line) # LineWidth THEN "width"
  ELSE IF \E i \in AtomGapCols : line[i] # Sp THEN "gap"
  ELSE LET bad == { k \in 1..Len(AtomFieldSeq) :
                      ~FieldOK(a, AtomFieldSeq[k], Slice(line, AtomLayout[AtomFieldSeq[k]])) } IN
       IF bad = {} THEN "ok" ELSE AtomFieldSeq[Min(bad)]

\* a TER line after row a: 80 columns, fields of a's residue in the TER columns, a right-justified
\* serial number, everything else blank
TerLineBad(line, a) ==
  IF Len(line) # LineWidth THEN "width"
  ELSE IF \E i \in TerGapCols : line[i] # Sp THEN "gap"
  ELSE IF Slice(line, TerLayout.rec) # LJust(KwTER, 6) THEN "rec"
  ELSE IF ~(IsNatText(Strip(Slice(line, TerLayout.serial)))
            /\ Slice(line, TerLayout.serial) = RJust(Strip(Slice(line, TerLayout.serial)), 5)) THEN "serial"
  ELSE IF Slice(line, TerLayout.resn) # RJust(a.resn, 3) THEN "resn"
  ELSE IF Slice(line, TerLayout.chain) # LJust(a.chain, 1) THEN "chain"
  ELSE IF Slice(line, TerLayout.resseq) # RJust(IntText(a.resseq), 4) THEN "resseq"
  ELSE IF Slice(line, TerLayout.icode) # LJust(a.icode, 1) THEN "icode"
  ELSE "ok"

\* ------------------------------------------------------------------ the reader (from the format)
Kind(line) ==
  LET k == Strip(Slice(line, <<1, 6>>)) IN
  IF k = KwATOM \/ k = KwHETATM THEN "ATOM"
  ELSE IF k = KwTER THEN "TER" ELSE IF k = KwMODEL THEN "MODEL"
  ELSE IF k = KwENDMDL THEN "ENDMDL" ELSE IF k = KwEND THEN "END" ELSE "OTHER"
Kinds(lines) == [i \in 1..Len(lines) |-> Kind(lines[i])]

NumOr(s, bad) == IF IsIntText(s) THEN IntVal(s) ELSE bad
FixOr(s, d, bad) == IF IsFixedText(s, d) THEN FixedVal(s, d) ELSE bad
BadNum == -2000000000
ParseAtom(line, model) ==
  LET F(f) == Strip(Slice(line, AtomLayout[f])) IN
  [ rec |-> F("rec"), serial |-> NumOr(F("serial"), BadNum), name |-> F("name"), alt |-> F("alt"),
    resn |-> F("resn"), chain |-> F("chain"), resseq |-> NumOr(F("resseq"), BadNum), icode |-> F("icode"),
    x |-> FixOr(F("x"), 3, BadNum), y |-> FixOr(F("y"), 3, BadNum), z |-> FixOr(F("z"), 3, BadNum),
    occ |-> FixOr(F("occ"), 2, BadNum), b |-> FixOr(F("b"), 2, BadNum),
    elem |-> F("elem"), charge |-> F("charge"), model |-> model ]
ModelSerial(line) == NumOr(Strip(Slice(line, ModelLayout.serial)), BadNum)

\* atoms of a PDB text in file order; a file without MODEL records is model 1
RECURSIVE ReadFrom(_, _, _)
ReadFrom(lines, i, cur) ==
  IF i > Len(lines) THEN <<>>
  ELSE IF Kind(lines[i]) = "MODEL" THEN ReadFrom(lines, i + 1, ModelSerial(lines[i]))
  ELSE IF Kind(lines[i]) = "ATOM" THEN << ParseAtom(lines[i], cur) >> \o ReadFrom(lines, i + 1, cur)
  ELSE ReadFrom(lines, i + 1, cur)
ReadPdbText(lines) == ReadFrom(lines, 1, 1)

\* ------------------------------------------------------------------ record grammar
\* (MODEL ATOM.. [TER] .. ENDMDL)+ END as an acceptor; `strict` additionally demands a TER
\* between the last ATOM of a model and ENDMDL.  An empty table is written as just END.
Delta(st, k, strict) ==
  CASE st = "start"   /\ k = "MODEL"  -> "model"
    [] st = "start"   /\ k = "END"    -> "end"
    [] st = "model"   /\ k = "ATOM"   -> "atoms"
    [] st = "atoms"   /\ k = "ATOM"   -> "atoms"
    [] st = "atoms"   /\ k = "TER"    -> "ter"
    [] st = "atoms"   /\ k = "ENDMDL" -> IF strict THEN "reject" ELSE "between"
    [] st = "ter"     /\ k = "ATOM"   -> "atoms"
    [] st = "ter"     /\ k = "ENDMDL" -> "between"
    [] st = "between" /\ k = "MODEL"  -> "model"
    [] st = "between" /\ k = "END"    -> "end"
    [] OTHER -> "reject"
RECURSIVE RunFrom(_, _, _, _)
RunFrom(ks, i, st, strict) == IF i > Len(ks) THEN st ELSE RunFrom(ks, i + 1, Delta(st, ks[i], strict), strict)
Accepts(ks, strict) == RunFrom(ks, 1, "start", strict) = "end"

\* number of maximal runs of equal model numbers in a table
ModelRuns(rows) == Cardinality({ i \in 1..Len(rows) : i = 1 \/ rows[i].model # rows[i - 1].model })
ChainOf(line)   == Slice(line, AtomLayout.chain)
\* (the operators below take ks = Kinds(lines), computed once per text by the caller)
AtomIdxK(ks)    == { i \in 1..Len(ks) : ks[i] = "ATOM" }
AtomIdx(lines)  == AtomIdxK(Kinds(lines))

\* model number of the enclosing MODEL record for every ATOM line, in file order (model 1 without MODEL)
RECURSIVE ModelsFrom(_, _, _, _)
ModelsFrom(lines, ks, i, cur) ==
  IF i > Len(ks) THEN <<>>
  ELSE IF ks[i] = "MODEL" THEN ModelsFrom(lines, ks, i + 1, ModelSerial(lines[i]))
  ELSE IF ks[i] = "ATOM" THEN <<cur>> \o ModelsFrom(lines, ks, i + 1, cur)
  ELSE ModelsFrom(lines, ks, i + 1, cur)

\* clause ModelBracketing: the record stream is (MODEL ATOM.. ENDMDL)+ END, one MODEL..ENDMDL
\* block per model of the table, numbered as the table says
ModelBracketingK(lines, ks, rows) ==
  /\ Accepts(ks, FALSE)
  /\ Cardinality({ i \in 1..Len(ks) : ks[i] = "MODEL" }) = ModelRuns(rows)
  /\ ModelsFrom(lines, ks, 1, 1) = [i \in 1..Len(rows) |-> rows[i].model]
ModelBracketing(lines, rows) == ModelBracketingK(lines, Kinds(lines), rows)

\* clause TerAfterEveryChain: the record after the last ATOM of every chain (maximal run of ATOM
\* records of one chain id, not interrupted by another record) is a TER
NoTerAfterK(lines, ks) ==
  { i \in AtomIdxK(ks) : ~( i < Len(ks)
                            /\ ( ks[i + 1] = "TER"
                                 \/ (ks[i + 1] = "ATOM" /\ ChainOf(lines[i + 1]) = ChainOf(lines[i])) ) ) }
\* ... and a TER stands only there: it is never followed by an ATOM of the same chain id (which would
\* split one chain in two)
TerInsideChainK(lines, ks) ==
  { i \in 2..(Len(ks) - 1) : ks[i] = "TER" /\ ks[i - 1] = "ATOM" /\ ks[i + 1] = "ATOM"
                               /\ ChainOf(lines[i + 1]) = ChainOf(lines[i - 1]) }
TerAfterEveryChainK(lines, ks) == NoTerAfterK(lines, ks) = {} /\ TerInsideChainK(lines, ks) = {}
TerAfterEveryChain(lines) == TerAfterEveryChainK(lines, Kinds(lines))

\* the defect P8 exactly: the only chains without TER are those ended by ENDMDL + MODEL
\* (last chain of a model that is followed by another model)
OnlyModelChangeLacksTerK(lines, ks) ==
  /\ NoTerAfterK(lines, ks) # {} /\ TerInsideChainK(lines, ks) = {}
  /\ \A i \in NoTerAfterK(lines, ks) : i + 2 <= Len(ks) /\ ks[i + 1] = "ENDMDL" /\ ks[i + 2] = "MODEL"

\* ------------------------------------------------------------------ value shapes (input domain)
\* <<atom name, element>>: 1-4 characters, primes, leading digit, 4 characters starting with a letter,
\* 1- and 2-letter elements
AtomKinds == << << <<"P">>, <<"P">> >>,                   << <<"N","1">>, <<"N">> >>,
                << <<"C","4","'">>, <<"C">> >>,           << <<"O","5","'">>, <<"O">> >>,
                << <<"O","P","1">>, <<"O">> >>,           << <<"H","5","'","'">>, <<"H">> >>,
                << <<"H","O","5","'">>, <<"H">> >>,       << <<"1","H","5","'">>, <<"H">> >>,
                << <<"2","H","2">>, <<"H">> >>,           << <<"C">>, <<"C">> >>,
                << <<"M","G">>, <<"M","G">> >>,           << <<"F","E">>, <<"F","E">> >>,
                << <<"Z","N">>, <<"Z","N">> >>,           << <<"N","A">>, <<"N","A">> >> >>
ChargePal  == << 0, 1, -2, 2, -1 >>
AltPal     == << <<>>, <<"A">>, <<"B">> >>
ICodePal   == << <<>>, <<"A">>, <<"Z">> >>
ResNumPal  == << -12, -1, 0, 1, 42, 999, 1000, 9999 >>
ResNamePal == << <<"A">>, <<"G">>, <<"D","C">>, <<"P","S","U">>, <<"M","G">>, <<"H","O","H">>, <<"5","M","C">>,
                <<"F","E">>, <<"Z","N">>, <<"N","A">> >>
ChainPal   == << <<"A">>, <<"B">>, <<"C">>, <<"a">>, <<"1">>, <<"Z">>, <<>> >>
\* <<>> = a blank chain identifier (column 22 empty): legal in PDB files (MD and modelling output), not
\* representable in mmCIF - tables using it are exercised on the PDB -> PDB path only
RecPal     == << KwATOM, KwHETATM >>
CoordPal   == << -999999, -1, 0, 1, 12345, 999999, 9999999 >>    \* milli-units; 8.3f holds -999.999 .. 9999.999
OccPal     == << 100, 50, 0, 33 >>
BPal       == << 0, 1234, 99999, 5 >>
CoordMin   == -999999
CoordMax   == 9999999
SerialMax  == 99998      \* the TER after the last atom needs serial + 1 <= 99999
ModelMax   == 9999

SeqSet(s) == { s[k] : k \in 1..Len(s) }
\* is the abstract atom q (charge as signed integer) inside the generation domain?
InDomain(q) ==
  /\ <<q.name, q.elem>> \in SeqSet(AtomKinds)
  /\ q.charge \in SeqSet(ChargePal) /\ q.alt \in SeqSet(AltPal) /\ q.icode \in SeqSet(ICodePal)
  /\ q.resseq \in -999..9999 /\ q.resn \in SeqSet(ResNamePal) /\ q.chain \in SeqSet(ChainPal)
  /\ q.rec \in SeqSet(RecPal)
  /\ \A v \in {q.x, q.y, q.z} : v \in CoordMin..CoordMax
  /\ q.occ \in 0..100 /\ q.b \in 0..99999
  /\ q.serial \in 1..SerialMax /\ q.model \in 0..ModelMax

\* the abstract atom as a row of a PDB / mmCIF frame
AsRow(q, fmt) == [q EXCEPT !.charge = IF fmt = "pdb" THEN PdbCharge(q.charge) ELSE CifCharge(q.charge)]

\* ------------------------------------------------------------------ field identity
RowFieldSeq == AtomFieldSeq \o << "model" >>
\* first field on which two rows differ, "ok" if none
RowDiff(r, s) ==
  LET bad == { k \in 1..Len(RowFieldSeq) : r[RowFieldSeq[k]] # s[RowFieldSeq[k]] } IN
  IF bad = {} THEN "ok" ELSE RowFieldSeq[Min(bad)]
\* first <<row, field>> on which two tables of equal length differ, <<0, "ok">> if none
TableDiff(R, S) ==
  LET bad == { i \in 1..Len(R) : RowDiff(R[i], S[i]) # "ok" } IN
  IF bad = {} THEN <<0, "ok">> ELSE <<Min(bad), RowDiff(R[Min(bad)], S[Min(bad)])>>
=============================================================================
