SPECIFICATION Spec
CONSTANT R = 1
CONSTANT P2Origin = TRUE
CONSTANT Impl = "oracle"
CONSTANT M1Order = "n1_x_b2"
CONSTANT Slice = FALSE
INVARIANT OracleReversal
INVARIANT OracleMirror
INVARIANT OracleRotation
INVARIANT OracleTranslation
INVARIANT OracleNeverOrigin
INVARIANT OracleAxisGap
CHECK_DEADLOCK FALSE
