"""C13: solver configuration / fault injection (harness-side fakes) and recording."""
import random

from . import lib, secstruct as ss

CONFIGS = ["highs", "cbc", "none"]
FAULTS = ["ok", "raises", "st0", "stm1", "stm2", "stm3"]
ENTRIES = ["property", "explicit"]
STATUS = {"st0": 0, "stm1": -1, "stm2": -2, "stm3": -3}


def make_fake(kind, fault, log, avail=True, incumbent=True):
    import pulp

    class FakeSolver(pulp.LpSolver):
        name = "FAKE_" + kind.upper()

        def __init__(self):
            super().__init__(msg=False)

        def available(self):
            if kind == "highs":
                log.append(["HighsProbed", bool(avail)])
            return bool(avail)

        def actualSolve(self, lp, **kw):
            log.append(["SolveCalled", kind])
            if fault == "raises":
                log.append(["SolveRaised"])
                raise pulp.PulpSolverError("injected solver failure")
            if fault == "ok":
                st = pulp.PULP_CBC_CMD(msg=False).actualSolve(lp)
                log.append(["SolveReturned", int(st)])
                return st
            if fault == "st0" and incumbent:     # stopped with an incumbent but not proven optimal
                pulp.PULP_CBC_CMD(msg=False).actualSolve(lp)
            st = STATUS[fault]
            lp.assignStatus(st)
            log.append(["SolveReturned", st])
            return st

    return FakeSolver()


def record_call(case):
    """One call under (entry, cfg, fault); pulp is patched for the duration of the call."""
    import pulp
    c = dict(case)
    log = []
    cfg, fault, entry = case["cfg"], case["fault"], case["entry"]
    b = ss._bpseq(case)
    if int(case["sid"][1:]) % 3 == 1:
        # every third structure reaches the library as a dot-bracket TEXT whose levels are not the ones first come
        # first served would choose (each level moved up by one): what was read must not leak into what is answered
        from rnapolis.common import BpSeq, DotBracket
        opening, closing = "([{<ABCDEFGHIJKLMNOPQRSTUVWXY", ")]}>abcdefghijklmnopqrstuvwxy"
        text = b.fcfs.structure
        if all(ch == "." or (ch in opening and opening.index(ch) < 28) or (ch in closing and closing.index(ch) < 28)
               for ch in text):
            up = {**{opening[k]: opening[k + 1] for k in range(28)}, **{closing[k]: closing[k + 1] for k in range(28)}}
            b = BpSeq.from_dotbracket(DotBracket.from_string("".join(case["seq"]), "".join(up.get(ch, ch) for ch in text)))
            c["via"] = "from_dotbracket"
    inc = int(case["sid"][1:]) % 2 == 0      # "not solved" with / without variable values, by structure
    saved = (pulp.HiGHS_CMD, pulp.LpSolverDefault)
    try:
        if entry == "property":
            pulp.HiGHS_CMD = lambda *a, **k: make_fake("highs", fault, log, avail=(cfg == "highs"), incumbent=inc)
            pulp.LpSolverDefault = make_fake("cbc", fault, log, incumbent=inc) if cfg in ("cbc", "highs") else None
            c["result"] = ss._enc(lambda: b.dot_bracket)
        else:
            solver = None if cfg == "none" else make_fake(cfg, fault, log, incumbent=inc)
            c["result"] = ss._enc(lambda: b.convert_to_dot_bracket(solver))
    finally:
        pulp.HiGHS_CMD, pulp.LpSolverDefault = saved
    c["events"] = log
    return c


def structures(count, seed):
    """Knotted structures with small conflict components (so the spec can brute-force optimality)
    plus a few pseudoknot-free ones (the solver must not be consulted)."""
    rng = random.Random(seed * 101 + 7)
    out = []
    k = 0
    fixed = [(8, [[1, 5], [3, 7]]), (12, [[1, 6], [2, 5], [4, 10], [8, 12]]), (6, [[1, 6], [2, 5]]), (5, []),
             (14, [[1, 8], [2, 7], [4, 11], [5, 10], [9, 14]]), (10, [[1, 4], [3, 6], [5, 8], [7, 10]])]
    # many regions (two-digit region indices inside the MILP): a bulged long-range knot enclosing nine hairpins
    # ... and a chain of four stems of which the first and the last two cross (regions 0-3, 1-2, 2-3): the walk of
    # the conflict graph must not depend on the order in which its edges were found
    # ... and an H-type knot A x B, a hairpin C nested in B, a stem D crossing B and C but not A (first come, first
    # served must look at ALL earlier crossing stems, whatever the order of their levels)
    for db in ("(.(." + "(...)" * 9 + ".[.[.).).].]", "((.((.[[.)).{{.]].)).}}", "((..[[..)).((.{{..))........]]...}}."):
        stacks, pairs = {}, []
        for i, ch in enumerate(db, 1):
            if ch in "([{":
                stacks.setdefault(ch, []).append(i)
            elif ch in ")]}":
                pairs.append([stacks[{")": "(", "]": "[", "}": "{"}[ch]].pop(), i])
        fixed.append((len(db), sorted(pairs)))
    for n, pairs in fixed:
        out.append({"sid": f"s{len(out)}", "n": n, "pairs": pairs, "seq": [ss.LETTERS[i % 4] for i in range(n)]})
    # sequence letters beyond ACGU (modified residues, gap placeholders) on two of the fixed structures
    for s in (out[1], out[4]):
        s["seq"] = [("I", "P", "X", "?", "n", "N")[i % 6] if i % 2 == 0 else x for i, x in enumerate(s["seq"])]
    while len(out) < count:
        k += 1
        n = rng.randint(8, 50)
        pkfree = rng.random() < 0.15
        pairs = ss.random_structure(rng, n, ladder=0 if pkfree else rng.choice([0, 2, 3, 4]),
                                    stems=rng.randint(1, 7), maxlen=rng.randint(1, 3))
        if ss.max_component(pairs)[0] > 7:
            continue
        out.append({"sid": f"s{len(out)}", "n": n, "pairs": pairs, "seq": [rng.choice(ss.LETTERS) for _ in range(n)]})
    return out[:count]


def cells(structs):
    cases = []
    for s in structs:
        for e in ENTRIES:
            for cfg in CONFIGS:
                for f in FAULTS:
                    c = dict(s)
                    c.update(id=f"{s['sid']}-{e}-{cfg}-{f}", kind="call", entry=e, cfg=cfg, fault=f)
                    cases.append(c)
    return cases
