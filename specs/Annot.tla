------------------------------- MODULE Annot -------------------------------
(***************************************************************************)
(* Decision logic of the 3D annotation (base pairs, stackings, base-        *)
(* phosphate / base-ribose contacts) of rnapolis, properties C03, C04, C11. *)
(*                                                                         *)
(* TLC has no reals.  This module owns every DECISION: thresholds (named    *)
(* integer constants in micro-units), donor / acceptor / edge tables, the   *)
(* counting of distinct contacts, edge occupation, soundness / completeness *)
(* / uniqueness / ordering clauses, the Saenger table and its laws, the     *)
(* base-phosphate class table and merge rules.  The MEASUREMENT (distances, *)
(* angles, torsions) is done by harness/measurer.py (independent O(n^2)     *)
(* numpy code) which receives the thresholds and tables exported from THIS  *)
(* module (Gen_Annot.tla) and hands every quantity back as an integer in    *)
(* micro-units together with a three-valued flag per threshold:             *)
(*      "in"   strictly inside by more than 1e-6                           *)
(*      "near" within 1e-6 of the threshold (undecided)                    *)
(*      "out"  strictly outside by more than 1e-6                          *)
(*      "na"   not measurable (atoms missing)                              *)
(* Soundness clauses accept in \cup near, completeness clauses demand "in". *)
(*                                                                         *)
(* The tables are a baseline transcription of the tables of the pinned      *)
(* commit of /repo (tertiary.py:29-99, common.py:60-157, annotator.py:      *)
(* 96-152); a later change of the repository's tables shows up as a         *)
(* disagreement of its annotations with these clauses.                      *)
(***************************************************************************)
EXTENDS Integers, Sequences, FiniteSets, TLC

\* ------------------------------------------------------------------ thresholds (micro-units)
Micro               == 1000000
HBondMaxDist        == 4 * Micro          \* donor-acceptor distance, Angstrom
HBondAngleLo        == 50 * Micro         \* contact vector vs base normal, degrees
HBondAngleHi        == 130 * Micro
CisTransBoundary    == 90 * Micro         \* |C1'-N..N-C1' torsion| below => cis
StackMaxDist        == 6 * Micro          \* centroid-centroid distance, Angstrom
StackMaxNormalAngle == 35 * Micro         \* normals from (anti)parallel, degrees
StackMaxOffsetAngle == 45 * Micro         \* centroid vector from a normal, degrees
BphMaxDist          == 4 * Micro          \* base donor - phosphate/ribose oxygen, Angstrom
BphTorsionBoundary  == 90 * Micro
MinContacts         == 2                  \* "at least two distinct donor-acceptor contacts"
NearEps             == 1                  \* 1e-6 in micro-units

Flags == {"in", "near", "out", "na"}
Maybe(f)  == f \in {"in", "near"}          \* soundness reading
Surely(f) == f = "in"                      \* completeness reading

\* a flag must agree with the integer it classifies (guards the harness, rounding slack 2)
CoherentUpper(f, v, thr) ==                \* quantity must be <= thr
  \/ f = "in"   /\ v <= thr
  \/ f = "out"  /\ v >= thr
  \/ f = "near" /\ v >= thr - 2 /\ v <= thr + 2
CoherentWindow(f, v, lo, hi) ==            \* quantity must lie in (lo, hi)
  \/ f = "in"   /\ v >= lo /\ v <= hi
  \/ f = "out"  /\ (v <= lo \/ v >= hi)
  \/ f = "near" /\ ((v >= lo - 2 /\ v <= lo + 2) \/ (v >= hi - 2 /\ v <= hi + 2))

\* ------------------------------------------------------------------ tables
Edges   == {"W", "H", "S"}
CisTrans == {"c", "t"}
Letters == {"A", "G", "C", "U", "T"}
Purines == {"A", "G"}

\* atoms whose centroid is "the base heavy-atom centroid"
BaseAtoms ==
  [A |-> {"N1", "C2", "N3", "C4", "C5", "C6", "N6", "N7", "C8", "N9"},
   G |-> {"N1", "C2", "N2", "N3", "C4", "C5", "C6", "O6", "N7", "C8", "N9"},
   C |-> {"N1", "C2", "O2", "N3", "C4", "N4", "C5", "C6"},
   U |-> {"N1", "C2", "O2", "N3", "C4", "O4", "C5", "C6"},
   T |-> {"N1", "C2", "O2", "N3", "C4", "O4", "C5", "C6", "C7"}]

\* base normal = (p2 - p1) x (p3 - p1), normalised; every letter that is not a purine uses the
\* pyrimidine triple.  Glycosidic atom: N9 for purines, N1 otherwise.
NormalAtomsPurine     == <<"N9", "N7", "N3">>
NormalAtomsPyrimidine == <<"N1", "C4", "O2">>
NormalAtoms(L)    == IF L \in Purines THEN NormalAtomsPurine ELSE NormalAtomsPyrimidine
GlycosidicAtom(L) == IF L \in Purines THEN "N9" ELSE "N1"
SugarAtom         == "C1'"

Donors ==
  [A |-> {"C2", "N6", "C8", "O2'"},
   G |-> {"N1", "N2", "C8", "O2'"},
   C |-> {"N4", "C5", "C6", "O2'"},
   U |-> {"N3", "C5", "C6", "O2'"},
   T |-> {"N3", "C6", "C7"}]

BaseAcceptors ==
  [A |-> {"N1", "N3", "N7"},
   G |-> {"N3", "O6", "N7"},
   C |-> {"O2", "N3"},
   U |-> {"O2", "O4"},
   T |-> {"O2", "O4"}]

RiboseAcceptors    == {"O4'", "O2'"}
PhosphateAcceptors == {"OP1", "OP2", "O5'", "O3'"}
O2Prime            == "O2'"

\* Leontis-Westhof edge(s) an atom lies on
EdgeOf ==
  [A |-> ("N1" :> {"W"}) @@ ("C2" :> {"W", "S"}) @@ ("N3" :> {"S"}) @@ ("N6" :> {"W", "H"})
         @@ ("N7" :> {"H"}) @@ ("C8" :> {"H"}) @@ ("O2'" :> {"S"}),
   G |-> ("N1" :> {"W"}) @@ ("N2" :> {"W", "S"}) @@ ("N3" :> {"S"}) @@ ("O6" :> {"W", "H"})
         @@ ("N7" :> {"H"}) @@ ("C8" :> {"H"}) @@ ("O2'" :> {"S"}),
   C |-> ("O2" :> {"W", "S"}) @@ ("N3" :> {"W"}) @@ ("N4" :> {"W", "H"}) @@ ("C5" :> {"H"})
         @@ ("C6" :> {"H"}) @@ ("O2'" :> {"S"}),
   U |-> ("O2" :> {"W", "S"}) @@ ("N3" :> {"W"}) @@ ("O4" :> {"W", "H"}) @@ ("C5" :> {"H"})
         @@ ("C6" :> {"H"}) @@ ("O2'" :> {"S"}),
   T |-> ("O2" :> {"W", "S"}) @@ ("N3" :> {"W"}) @@ ("O4" :> {"W", "H"}) @@ ("C6" :> {"H"})
         @@ ("C7" :> {"H"})]

IsDonor(L, a)        == L \in Letters /\ a \in Donors[L]
IsBaseAcceptor(L, a) == L \in Letters /\ a \in BaseAcceptors[L]
IsAcceptor(L, a)     == IsBaseAcceptor(L, a) \/ a \in RiboseAcceptors \/ a \in PhosphateAcceptors
EdgesOf(L, a)        == IF L \in Letters /\ a \in DOMAIN EdgeOf[L] THEN EdgeOf[L][a] ELSE {}
\* an atom pair is a donor-acceptor contact when one side donates and the other accepts
DonorAcceptor(L1, a, L2, b) == (IsDonor(L1, a) /\ IsAcceptor(L2, b)) \/ (IsAcceptor(L1, a) /\ IsDonor(L2, b))
\* base-to-base: neither atom belongs to the ribose / phosphate
BaseAtomOf(L, a)     == L \in Letters /\ a \in BaseAtoms[L]

\* ------------------------------------------------------------------ C03: contacts and support
(* A contact record x (measured by the harness, oriented as the residue-pair group <<i, j>>):   *)
(*   a, b     atom names in residue i / residue j                                              *)
(*   d, df    distance, flag vs HBondMaxDist                                                    *)
(*   a1, a1f  angle contact vector / normal of i, flag vs (HBondAngleLo, HBondAngleHi); a2 same *)
ContactCoherent(x) ==
  /\ x.df \in {"in", "near", "out"} /\ CoherentUpper(x.df, x.d, HBondMaxDist)
  /\ (x.a1f = "na" \/ CoherentWindow(x.a1f, x.a1, HBondAngleLo, HBondAngleHi))
  /\ (x.a2f = "na" \/ CoherentWindow(x.a2f, x.a2, HBondAngleLo, HBondAngleHi))

GeomOK(x, strict) ==
  IF strict THEN Surely(x.df) /\ Surely(x.a1f) /\ Surely(x.a2f)
            ELSE Maybe(x.df) /\ Maybe(x.a1f) /\ Maybe(x.a2f)

ViaO2Prime(x) == x.a = O2Prime \/ x.b = O2Prime

\* x supports the class with edges <<e1, e2>> for letters <<L1, L2>>
Supports(L1, L2, x, e1, e2, strict) ==
  /\ DonorAcceptor(L1, x.a, L2, x.b)
  /\ e1 \in EdgesOf(L1, x.a) /\ e2 \in EdgesOf(L2, x.b)
  /\ GeomOK(x, strict)
  /\ (strict => BaseAtomOf(L1, x.a) /\ BaseAtomOf(L2, x.b))   \* completeness: base-to-base only

SupportSet(L1, L2, cs, e1, e2, strict) == { k \in 1..Len(cs) : Supports(L1, L2, cs[k], e1, e2, strict) }
\* number of DISTINCT atom-pair contacts (cs lists every atom pair at most once: ContactsDistinct)
Support(L1, L2, cs, e1, e2, strict) == Cardinality(SupportSet(L1, L2, cs, e1, e2, strict))
\* the implementation's count when every contact through O2' is seen twice (deviation P16)
SupportO2Twice(L1, L2, cs, e1, e2) ==
  LET S == SupportSet(L1, L2, cs, e1, e2, FALSE) IN
  Cardinality(S) + Cardinality({ k \in S : ViaO2Prime(cs[k]) })
ContactsDistinct(cs) == Cardinality({ <<cs[k].a, cs[k].b>> : k \in 1..Len(cs) }) = Len(cs)

\* cis/trans letter from the three-valued flag of |torsion| vs CisTransBoundary
CisTransAgrees(ct, tf) == (tf = "in" /\ ct = "c") \/ (tf = "out" /\ ct = "t") \/ tf = "near"

\* edge occupation by a set P of reported pairs [i, j, ct, e1, e2]
OccupiedBy(P) == { <<p.i, p.e1>> : p \in P } \cup { <<p.j, p.e2>> : p \in P }
\* no <<residue, edge>> used by two reported pairs, given as a sequence ps
EdgeExclusiveSeq(ps) ==
  Cardinality({ <<k, 1>> : k \in 1..Len(ps) } \cup { <<k, 2>> : k \in 1..Len(ps) })
    = Cardinality({ <<ps[k].i, ps[k].e1>> : k \in 1..Len(ps) } \cup { <<ps[k].j, ps[k].e2>> : k \in 1..Len(ps) })

\* ------------------------------------------------------------------ C04: stacking decision
(* A stacking candidate s (file order: residue i precedes residue j in the structure):        *)
(*   d, df     centroid distance vs StackMaxDist                                              *)
(*   nn, nnf   angle of the normals from (anti)parallel  = min(a, 180-a) vs StackMaxNormalAngle*)
(*   oc, ocf   min angle of vector (c_i - c_j) to the two normals (the direction the code     *)
(*             takes: from the later residue to the earlier) vs StackMaxOffsetAngle           *)
(*   ow, owf   min over BOTH directions and both normals (weakest reading)                    *)
(*   dotf      "pos" / "neg" / "near" : sign of the dot product of the normals                *)
StackCoherent(s) ==
  /\ s.df \in {"in", "near", "out"} /\ CoherentUpper(s.df, s.d, StackMaxDist)
  /\ (s.nnf = "na" \/ CoherentUpper(s.nnf, s.nn, StackMaxNormalAngle))
  /\ (s.ocf = "na" \/ CoherentUpper(s.ocf, s.oc, StackMaxOffsetAngle))
  /\ (s.owf = "na" \/ CoherentUpper(s.owf, s.ow, StackMaxOffsetAngle))
  /\ (s.nnf = "na") = (s.ocf = "na") /\ (s.nnf = "na") = (s.owf = "na")
  /\ (s.owf # "na" => s.ow <= s.oc)
  /\ s.dotf \in {"pos", "neg", "near", "na"}

\* weakest reading: qualifies for some direction of the centroid-centroid vector
StackMayQualify(s)  == Maybe(s.df) /\ Maybe(s.nnf) /\ Maybe(s.owf)
\* strongest reading: certainly qualifies, in the direction the implementation takes
StackMustQualify(s) == Surely(s.df) /\ Surely(s.nnf) /\ Surely(s.ocf)
\* qualifies only under the other direction: interpretation-sensitive, never alarmed
StackDirectionOnly(s) == Surely(s.df) /\ Surely(s.nnf) /\ Surely(s.owf) /\ s.ocf = "out"
StackLabelOK(top, dotf) ==
  \/ dotf = "pos"  /\ top \in {"upward", "downward"}
  \/ dotf = "neg"  /\ top \in {"inward", "outward"}
  \/ dotf = "near" /\ top \in {"upward", "downward", "inward", "outward"}
Topologies == {"upward", "downward", "inward", "outward"}

\* ------------------------------------------------------------------ C11: ordering
\* residue sort key = <<chain rank, number, insertion code (code point, 32 when absent)>>
KeyLess(a, b) == \/ a[1] < b[1]
                 \/ a[1] = b[1] /\ a[2] < b[2]
                 \/ a[1] = b[1] /\ a[2] = b[2] /\ a[3] < b[3]
KeyLeq(a, b)  == ~KeyLess(b, a)
PairKeyLeq(a1, a2, b1, b2) == KeyLess(a1, b1) \/ (~KeyLess(b1, a1) /\ KeyLeq(a2, b2))

\* ------------------------------------------------------------------ C11: Saenger table
LwClasses == { <<ct, e1, e2>> : ct \in CisTrans, e1 \in Edges, e2 \in Edges }
LwReverse(lw) == <<lw[1], lw[3], lw[2]>>
SaengerNames == {"I", "II", "III", "IV", "V", "VI", "VII", "VIII", "IX", "X", "XI", "XII", "XIII", "XIV",
                 "XV", "XVI", "XVII", "XVIII", "XIX", "XX", "XXI", "XXII", "XXIII", "XXIV", "XXV", "XXVI",
                 "XXVII", "XXVIII"}
\* <<base1, base2, cis/trans, edge1, edge2, class>>
SaengerEntries ==
  { <<"A","A","t","W","W","I">>,     <<"A","A","t","H","H","II">>,    <<"G","G","t","W","W","III">>,
    <<"G","G","t","S","S","IV">>,    <<"A","A","t","W","H","V">>,     <<"A","A","t","H","W","V">>,
    <<"G","G","c","W","H","VI">>,    <<"G","G","c","H","W","VI">>,    <<"G","G","t","W","H","VII">>,
    <<"G","G","t","H","W","VII">>,   <<"A","G","c","W","W","VIII">>,  <<"G","A","c","W","W","VIII">>,
    <<"A","G","c","H","W","IX">>,    <<"G","A","c","W","H","IX">>,    <<"A","G","t","W","S","X">>,
    <<"G","A","t","S","W","X">>,     <<"A","G","t","H","S","XI">>,    <<"G","A","t","S","H","XI">>,
    <<"U","U","t","W","W","XII">>,   <<"T","T","t","W","W","XII">>,   <<"U","U","c","W","W","XVI">>,
    <<"T","T","c","W","W","XVI">>,   <<"C","U","t","W","W","XVII">>,  <<"U","C","t","W","W","XVII">>,
    <<"C","U","c","W","W","XVIII">>, <<"U","C","c","W","W","XVIII">>, <<"C","G","c","W","W","XIX">>,
    <<"G","C","c","W","W","XIX">>,   <<"A","U","c","W","W","XX">>,    <<"U","A","c","W","W","XX">>,
    <<"A","T","c","W","W","XX">>,    <<"T","A","c","W","W","XX">>,    <<"A","U","t","W","W","XXI">>,
    <<"U","A","t","W","W","XXI">>,   <<"A","T","t","W","W","XXI">>,   <<"T","A","t","W","W","XXI">>,
    <<"C","G","t","W","W","XXII">>,  <<"G","C","t","W","W","XXII">>,  <<"A","U","c","H","W","XXIII">>,
    <<"U","A","c","W","H","XXIII">>, <<"A","T","c","H","W","XXIII">>, <<"T","A","c","W","H","XXIII">>,
    <<"A","U","t","H","W","XXIV">>,  <<"U","A","t","W","H","XXIV">>,  <<"A","T","t","H","W","XXIV">>,
    <<"T","A","t","W","H","XXIV">>,  <<"A","C","t","H","W","XXV">>,   <<"C","A","t","W","H","XXV">>,
    <<"A","C","t","W","W","XXVI">>,  <<"C","A","t","W","W","XXVI">>,  <<"G","U","t","W","W","XXVII">>,
    <<"U","G","t","W","W","XXVII">>, <<"G","T","t","W","W","XXVII">>, <<"T","G","t","W","W","XXVII">>,
    <<"G","U","c","W","W","XXVIII">>, <<"U","G","c","W","W","XXVIII">>, <<"G","T","c","W","W","XXVIII">>,
    <<"T","G","c","W","W","XXVIII">> }
SaengerKey(e)  == <<e[1], e[2], e[3], e[4], e[5]>>
SaengerKeys    == { SaengerKey(e) : e \in SaengerEntries }
SaengerMap     == [ k \in SaengerKeys |-> (CHOOSE e \in SaengerEntries : SaengerKey(e) = k)[6] ]
\* "" = no Saenger class defined
SaengerOf(b1, b2, lw) == LET k == <<b1, b2, lw[1], lw[2], lw[3]>> IN IF k \in SaengerKeys THEN SaengerMap[k] ELSE ""
\* laws of the table (model-checked in MC_Annot, all letters x classes)
SaengerFunctional == \A e, f \in SaengerEntries : SaengerKey(e) = SaengerKey(f) => e = f
SaengerReverseLaw(AllLetters) ==
  \A b1, b2 \in AllLetters : \A lw \in LwClasses : SaengerOf(b1, b2, lw) = SaengerOf(b2, b1, LwReverse(lw))
SaengerNamesOK == \A e \in SaengerEntries : e[6] \in SaengerNames /\ e[1] \in Letters /\ e[2] \in Letters
                                            /\ <<e[3], e[4], e[5]>> \in LwClasses

\* ------------------------------------------------------------------ C11: base-phosphate / base-ribose classes
\* donor atom |-> <<class when the H points cis, class when trans, torsion atoms p1, p2>>
\* (torsion p1-p2-donor-acceptor, |t| < 90 = cis); equal classes = no torsion needed
BphRule ==
  [A |-> ("C2" :> <<2, 2, "", "">>) @@ ("N6" :> <<6, 7, "N1", "C6">>) @@ ("C8" :> <<0, 0, "", "">>),
   G |-> ("N1" :> <<5, 5, "", "">>) @@ ("N2" :> <<1, 3, "N3", "C2">>) @@ ("C8" :> <<0, 0, "", "">>),
   C |-> ("N4" :> <<6, 7, "N3", "C4">>) @@ ("C5" :> <<9, 9, "", "">>) @@ ("C6" :> <<0, 0, "", "">>),
   U |-> ("N3" :> <<5, 5, "", "">>) @@ ("C5" :> <<9, 9, "", "">>) @@ ("C6" :> <<0, 0, "", "">>),
   T |-> ("N3" :> <<5, 5, "", "">>) @@ ("C6" :> <<0, 0, "", "">>) @@ ("C7" :> <<9, 9, "", "">>)]
HasBphRule(L, a) == L \in Letters /\ a \in DOMAIN BphRule[L]
\* classes a contact of donor atom a may carry; tf = flag of |torsion| vs BphTorsionBoundary
BphClassesOf(L, a, tf) ==
  IF ~HasBphRule(L, a) THEN {}
  ELSE LET r == BphRule[L][a] IN
       IF r[1] = r[2] THEN {r[1]}
       ELSE IF tf = "in" THEN {r[1]} ELSE IF tf = "out" THEN {r[2]} ELSE IF tf = "near" THEN {r[1], r[2]} ELSE {}
RawClasses == {0, 1, 2, 3, 5, 6, 7, 9}     \* 4 and 8 only arise by merging
\* merge rules: 3 and 5 together are 4; 7 and 9 together are 8
MergedSet(X) ==
  LET X1 == IF {3, 5} \subseteq X THEN (X \ {3, 5}) \cup {4} ELSE X
  IN  IF {7, 9} \subseteq X1 THEN (X1 \ {7, 9}) \cup {8} ELSE X1
\* a reported class c is implied when some set X of contact classes between the certainly
\* classified (Forced) and the possibly classified (Possible) ones merges to a set containing c
ClassImplied(c, Forced, Possible) ==
  \E X \in SUBSET Possible : Forced \subseteq X /\ X # {} /\ c \in MergedSet(X)
=============================================================================
