--------------------------- MODULE Trace_Pipeline ---------------------------
(***************************************************************************)
(* Trace validation of rnapolis.annotator.main: one TLC state per recorded *)
(* run of the real tool.  c.opts = the options given, c.exists[o] = does   *)
(* the file of option o exist afterwards, c.stdout = the printed lines,    *)
(* c.fb = the entries of the written BPSEQ file, c.j = what the written    *)
(* JSON holds (bpseq entries, strands of the dot-bracket, lines of the     *)
(* extended notation, stems, base pairs by residue name, number of         *)
(* inter-stem rows), c.stems / c.inter = the rows of the two tables,       *)
(* c.names = the name of the nucleotide behind every BPSEQ index, rendered *)
(* by the harness (empty with --find-gaps).  All strings whose letters     *)
(* matter arrive as sequences of one-letter strings.  Every judgement is   *)
(* made here (Pipeline.tla for the option protocol, Bracket / SecStruct /  *)
(* Elements for the content).                                              *)
(***************************************************************************)
EXTENDS Elements, Json, IOUtils

P == INSTANCE Pipeline WITH opts <- {}, pc <- 0, files <- {}, printed <- "", version <- 0, used <- <<>>

Doc   == JsonDeserialize(IOEnv.TRACE_FILE)
Trace == Doc.cases
VARIABLES idx, cnt
vars == <<idx, cnt>>

OptSet(c) == { c.opts[k] : k \in 1..Len(c.opts) }
Has(c, o) == o \in OptSet(c)

\* flatten strands <<header, seq, db>> into the printed lines
RECURSIVE StrandLines(_)
StrandLines(S) == IF S = <<>> THEN <<>> ELSE <<Head(S)[1], Head(S)[2], Head(S)[3]>> \o StrandLines(Tail(S))
RECURSIVE Concat(_, _)
Concat(S, k) == IF S = <<>> THEN <<>> ELSE Head(S)[k] \o Concat(Tail(S), k)

PairsOfEntries(E) == { <<E[k][1], E[k][3]>> : k \in { x \in 1..Len(E) : E[x][3] > E[x][1] } }
LettersOfEntries(E) == [k \in 1..Len(E) |-> E[k][2]] \o <<>>
EntriesOK(E) == /\ \A k \in 1..Len(E) : E[k][1] = k /\ E[k][3] \in 0..Len(E) /\ E[k][3] # k
                /\ \A k \in 1..Len(E) : E[k][3] # 0 => E[E[k][3]][3] = k

\* blocks of three lines of the all-dot-brackets listing
RECURSIVE Blocks(_, _)
Blocks(L, n) == IF Len(L) < 3 * n \/ n = 0 THEN <<>> ELSE <<SubSeq(L, 1, 3 * n)>> \o Blocks(SubSeq(L, 3 * n + 1, Len(L)), n)
DbOfBlock(B, n) == LET R(k) == IF k > n THEN <<>> ELSE B[3 * k] IN
                   LET RECURSIVE Cat(_) Cat(k) == IF k > n THEN <<>> ELSE B[3 * k] \o Cat(k + 1) IN Cat(1)
HeadersOfBlock(B, n) == [k \in 1..(2 * n) |-> IF k % 2 = 1 THEN B[3 * ((k + 1) \div 2) - 2] ELSE B[3 * (k \div 2) - 1]] \o <<>>

Verdict(c) ==
  IF c.err # "" THEN <<"fail", "NoException", c.err>>
  ELSE IF ~(OptSet(c) \subseteq P!Options) \/ ~Has(c, "json") THEN <<"fail", "InputWellFormed", "harness">>
  ELSE LET j == c.j
           m == PairsOfEntries(j.bpseq)
           n == Len(j.bpseq)
           must == P!MustExist(OptSet(c), Len(j.stems), j.ninter)
           badfile == { o \in P!FileOptions : c.exists[o] # (o \in must) } IN
  IF badfile # {} THEN <<"fail", "FilesAsAsked", CHOOSE o \in badfile : TRUE>>
  ELSE IF ~EntriesOK(j.bpseq) THEN <<"fail", "BpseqWellFormed", "json">>
  ELSE IF Has(c, "bpseq") /\ c.fb # j.bpseq THEN <<"fail", "BpseqFileIsJsonBpseq", "">>
  \* the per-strand notation concatenates to the BPSEQ's sequence and matching
  ELSE IF Concat(j.db, 2) # LettersOfEntries(j.bpseq) THEN <<"fail", "NotationEncodesBpseq", "sequence">>
  ELSE IF ~AlphabetOK(Concat(j.db, 3)) \/ ~Decode(Concat(j.db, 3)).balanced
          \/ Decode(Concat(j.db, 3)).pairs # m THEN <<"fail", "NotationEncodesBpseq", "matching">>
  \* what was printed is the notation that was asked for, from the same annotation
  ELSE IF P!Printed(OptSet(c)) = "plain" /\ c.stdout # StrandLines(j.db) THEN <<"fail", "StdoutAsAsked", "plain">>
  ELSE IF P!Printed(OptSet(c)) = "extended" /\ c.stdout # j.ext THEN <<"fail", "StdoutAsAsked", "extended">>
  ELSE IF P!Printed(OptSet(c)) = "all" /\
          LET ns == Len(j.db)  B == Blocks(c.stdout, ns) IN
          ~( /\ ns > 0 /\ Len(c.stdout) = 3 * ns * Len(B) /\ Len(B) >= 1
             /\ \A b \in 1..Len(B) : /\ HeadersOfBlock(B[b], ns) = HeadersOfBlock(StrandLines(j.db), ns)
                                     /\ AlphabetOK(DbOfBlock(B[b], ns)) /\ Decode(DbOfBlock(B[b], ns)).balanced
                                     /\ Decode(DbOfBlock(B[b], ns)).pairs = m
             /\ \A a, b \in 1..Len(B) : a # b => B[a] # B[b]
             /\ \E b \in 1..Len(B) : B[b] = StrandLines(j.db) )
       THEN <<"fail", "StdoutAsAsked", "all">>
  \* stems: the maximal stacked runs of the matching
  ELSE IF { <<s[1], s[2], s[3], s[4]>> : s \in { j.stems[k] : k \in 1..Len(j.stems) } } # ExpectedStems(m)
          \/ Cardinality(ExpectedStems(m)) # Len(j.stems) THEN <<"fail", "StemsAreMaximalRuns", "json">>
  ELSE IF Has(c, "stems-csv") /\ Len(j.stems) > 0 /\ Len(c.names) = n /\
          c.stems # [k \in 1..Len(j.stems) |->
                       <<k - 1, c.names[j.stems[k][1]], c.names[j.stems[k][2]], c.names[j.stems[k][3]],
                         c.names[j.stems[k][4]], j.stems[k][5], j.stems[k][6]>>] \o <<>>
       THEN <<"fail", "StemsTableMatches", "stems-csv">>
  ELSE IF Has(c, "inter-stem-csv") /\ j.ninter > 0 /\ c.inter # j.ninter THEN <<"fail", "InterStemTableMatches", "rows">>
  \* every pair of the BPSEQ is one of the reported base pairs
  ELSE IF Len(c.names) = n /\ \E p \in m : ~\E k \in 1..Len(j.pairs) :
             {j.pairs[k][1], j.pairs[k][2]} = {c.names[p[1]], c.names[p[2]]}
       THEN <<"fail", "PairsAreReportedBasePairs", "json">>
  ELSE <<"ok">>

Init == idx = 0 /\ cnt = [ok |-> 0, deviation |-> 0, fail |-> 0]
Next ==
  /\ idx < Len(Trace)
  /\ idx' = idx + 1
  /\ LET c == Trace[idx']  v == Verdict(c) IN
     /\ cnt' = [cnt EXCEPT ![v[1]] = @ + 1]
     /\ (v[1] = "ok" \/ PrintT(<<"V", c.id>> \o v))
  /\ (idx' < Len(Trace) \/ PrintT(<<"SUMMARY", Len(Trace), cnt'.ok, cnt'.deviation, cnt'.fail>>))
Spec == Init /\ [][Next]_vars
=============================================================================
