SPECIFICATION Spec
CONSTANT R = 1
CONSTANT P2Origin = FALSE
CONSTANT Impl = "v2"
CONSTANT M1Order = "n1_x_b2"
CONSTANT Slice = FALSE
INVARIANT TypeOK
INVARIANT UndefinedIffDegenerate
INVARIANT V2ExactlyNegated
INVARIANT ReversalKeeps
INVARIANT MirrorNegates
CHECK_DEADLOCK FALSE
