"""Case generation, materialisation and recording for C20 (mmCIF item editing).

Own mmCIF emitter and own minimal CIF 1.1 tokenizer (nothing from the repository or from the
`mmcif` package is used to build inputs or to read outputs), callers of the public API
(`transformer.copy_from_to`, `transformer.replace_value`, `transformer.main`) and projection of
the results to JSON.  No judgement happens here: every verdict is TLC's (Trace_CifEdit)."""
import hashlib
import io
import json
import os
import random
import sys
import contextlib

from . import lib

# ----------------------------------------------------------------------------- emitter

RESERVED_PREFIX = ("data_", "save_", "loop_", "global_", "stop_")


def _bare_ok(v):
    if v == "" or any(ch.isspace() for ch in v):
        return False
    if v[0] in "_#$'\"[];":
        return False
    low = v.lower()
    if any(low.startswith(p) for p in RESERVED_PREFIX):
        return False
    return True


def emit_value(v, prefer="'"):
    """-> (text, is_block).  '?' and '.' are the mmCIF null markers and are written bare."""
    if "\n" in v:
        return "\n;" + v + "\n;\n", True
    if _bare_ok(v):
        return v, False
    other = '"' if prefer == "'" else "'"
    for q in (prefer, other):
        if q not in v:
            return q + v + q, False
    return "\n;" + v + "\n;\n", True


def emit(doc, style=0):
    """Serialise a concrete document {block, cats:[{name, attrs, rows}]}.
    style bits: 1 = prefer double quotes, 2 = one-row categories as loops too,
    4 = one value per line in loops, 8 = comments and blank lines between categories."""
    prefer = '"' if style & 1 else "'"
    out = [f"data_{doc['block']}\n"]
    for cat in doc["cats"]:
        out.append("# category " + cat["name"] + "\n\n" if style & 8 else "#\n")
        names = [f"_{cat['name']}.{a}" for a in cat["attrs"]]
        if len(cat["rows"]) == 1 and not (style & 2):
            w = max(len(n) for n in names) + 2
            for n, v in zip(names, cat["rows"][0]):
                t, blk = emit_value(v, prefer)
                out.append(n.ljust(w) + t + ("" if blk else "\n"))
        else:
            out.append("loop_\n")
            out += [n + "\n" for n in names]
            for row in cat["rows"]:
                line = []
                for v in row:
                    t, blk = emit_value(v, prefer)
                    if blk:
                        line.append(t)
                    else:
                        line.append(t + ("\n" if style & 4 else " "))
                s = "".join(line)
                out.append(s if s.endswith("\n") else s.rstrip(" ") + "\n")
    out.append("#\n")
    return "".join(out)


# ----------------------------------------------------------------------------- tokenizer

class CifSyntaxError(Exception):
    pass


def tokenize(text):
    """Minimal CIF 1.1 lexer -> list of (kind, value); kind in name|value|loop|data|reserved.
    Quoted strings end at a quote followed by white space / end of line; a ';' in column 1 opens a
    text field that ends at the next line starting with ';'; '#' at token start is a comment."""
    toks = []
    lines = text.split("\n")
    i, n = 0, len(lines)
    while i < n:
        line = lines[i].rstrip("\r")
        pos = 0
        if line.startswith(";"):
            buf = [line[1:]]
            i += 1
            while i < n and not lines[i].startswith(";"):
                buf.append(lines[i].rstrip("\r"))
                i += 1
            if i >= n:
                raise CifSyntaxError("unterminated text field")
            toks.append(("value", "\n".join(buf)))
            line = lines[i].rstrip("\r")
            pos = 1
        L = len(line)
        while pos < L:
            ch = line[pos]
            if ch in " \t":
                pos += 1
                continue
            if ch == "#":
                break
            if ch in "'\"":
                j = pos + 1
                while True:
                    j = line.find(ch, j)
                    if j < 0:
                        raise CifSyntaxError("unterminated quoted string")
                    if j + 1 >= L or line[j + 1] in " \t":
                        break
                    j += 1
                toks.append(("value", line[pos + 1:j]))
                pos = j + 1
                continue
            j = pos
            while j < L and line[j] not in " \t":
                j += 1
            w = line[pos:j]
            low = w.lower()
            if w[0] == "_":
                toks.append(("name", w))
            elif low == "loop_":
                toks.append(("loop", w))
            elif low.startswith("data_"):
                toks.append(("data", w[5:]))
            elif low.startswith("save_") or low == "global_" or low == "stop_":
                toks.append(("reserved", w))
            else:
                toks.append(("value", w))
            pos = j
        i += 1
    return toks


def _split_name(w):
    if "." not in w:
        raise CifSyntaxError("item name without category: " + w)
    c, a = w[1:].split(".", 1)
    return c, a


def parse(text):
    """-> {"nblocks": n, "block": name of first block, "cats": categories of the FIRST block}.
    Consecutive key-value items of one category form a one-row category."""
    toks = tokenize(text)
    blocks = []
    cur = None
    i, n = 0, len(toks)
    while i < n:
        kind, val = toks[i]
        if kind == "data":
            cur = {"block": val, "cats": []}
            blocks.append(cur)
            i += 1
        elif kind == "reserved":
            raise CifSyntaxError("unsupported construct " + val)
        elif cur is None:
            raise CifSyntaxError("content before data_ header")
        elif kind == "name":
            if i + 1 >= n or toks[i + 1][0] != "value":
                raise CifSyntaxError("item without value: " + val)
            c, a = _split_name(val)
            if cur["cats"] and cur["cats"][-1]["name"] == c and cur["cats"][-1].get("_kv"):
                cur["cats"][-1]["attrs"].append(a)
                cur["cats"][-1]["rows"][0].append(toks[i + 1][1])
            else:
                cur["cats"].append({"name": c, "attrs": [a], "rows": [[toks[i + 1][1]]], "_kv": True})
            i += 2
        elif kind == "loop":
            i += 1
            names = []
            while i < n and toks[i][0] == "name":
                names.append(_split_name(toks[i][1]))
                i += 1
            vals = []
            while i < n and toks[i][0] == "value":
                vals.append(toks[i][1])
                i += 1
            if not names or len({c for c, _ in names}) != 1:
                raise CifSyntaxError("loop without / with mixed item names")
            k = len(names)
            if not vals or len(vals) % k:
                raise CifSyntaxError(f"loop {names[0][0]}: {len(vals)} values for {k} items")
            cur["cats"].append({"name": names[0][0], "attrs": [a for _, a in names],
                                "rows": [vals[r:r + k] for r in range(0, len(vals), k)]})
        else:
            raise CifSyntaxError("stray value " + repr(val[:30]))
    for b in blocks:
        for c in b["cats"]:
            c.pop("_kv", None)
    if not blocks:
        return {"nblocks": 0, "block": "", "cats": []}
    # the categories of later data blocks follow under the name "<block>::<category>": to the property they
    # are simply other categories of the file (the functions edit the first block only)
    cats = list(blocks[0]["cats"])
    for b in blocks[1:]:
        cats += [dict(c, name=b["block"] + "::" + c["name"]) for c in b["cats"]]
    return {"nblocks": len(blocks), "block": blocks[0]["block"], "cats": cats}


def whole(doc):
    """The document as the spec sees it: first block's categories + those of doc["extra"] blocks (prefixed)."""
    cats = list(doc["cats"])
    for b in doc.get("extra", []):
        cats += [dict(c, name=b["block"] + "::" + c["name"]) for c in b["cats"]]
    return {"nblocks": 1 + len(doc.get("extra", [])), "block": doc["block"], "cats": cats}


def emit_all(doc, style=0):
    return emit(doc, style) + "".join(emit(b, style) for b in doc.get("extra", []))


def textrep(t):
    """A text as the trace spec sees it: two texts are identical iff their records are equal."""
    b = t.encode("utf-8", "surrogatepass")
    return {"len": len(b), "sha": hashlib.sha256(b).hexdigest(), "head": t[:2000]}


# ----------------------------------------------------------------------------- case sources

def gen_cases(cfg, scratch):
    """spec -> code: TLC enumerates the bounded domain (Gen_CifEdit)."""
    out = scratch.path("gen-cifedit.ndjson")
    r = lib.tlc("Gen_CifEdit", cfg, workers=1, env={"OUT_FILE": out, "MODE": "gen"}, scratch=scratch,
                xmx="6g", tag="gen")
    if not r["ok"] or not os.path.exists(out) or "GENERATED" not in r["out"]:
        raise lib.MachineryError("Gen_CifEdit failed:\n" + r["out"][-2000:])
    cases = []
    with open(out) as f:
        for line in f:
            d = json.loads(line)
            cases.append({"op": d["op"], "in": d["in"]})
    os.remove(out)
    cases.sort(key=lambda c: json.dumps(c, sort_keys=True))
    for k, c in enumerate(cases):
        c["id"] = f"g{k:05d}"
        c["src"] = "gen"
        c["style"] = k % 16
    return cases


def domain_check(cases, cfg, scratch):
    """Exhaustiveness guard, decided by TLC: the recorded gen inputs are exactly the domain."""
    f = scratch.path("domain-cifedit.json")
    with open(f, "w") as fh:
        json.dump({"items": [{"op": c["op"], "in": c["in"]} for c in cases]}, fh)
    r = lib.tlc("Gen_CifEdit", cfg, workers=1, env={"TRACE_FILE": f, "MODE": "domain"}, scratch=scratch,
                xmx="6g", tag="domain")
    os.remove(f)
    if '<<"DOMAIN", TRUE, %d>>' % len(cases) not in r["out"]:
        raise lib.MachineryError("recorded inputs are not the spec's domain:\n" + r["out"][-1500:])
    return True


CAT_POOL = ["atom_site", "entity", "struct_asym", "cell", "pdbx_x", "chem_comp", "pdbx_PDB_X"]
# mmCIF data names are written in mixed case in real files (pdbx_PDB_ins_code, Cartn_x, B_iso_or_equiv)
ATTR_POOL = ["id", "label_asym_id", "auth_asym_id", "type", "name", "value", "details", "x", "seq_id",
             "pdbx_PDB_ins_code", "Cartn_x", "B_iso_or_equiv", "group_PDB"]
VALUE_POOL = ["A", "B", "C", "AA", "a", "b", "A-2", "B-2", "1", "2", "10", "1.50", "0010", "-3.25", "x y", "two  spaces",
              "it's", "O5'", 'N"1', "it's a \"q\" w", "say 'hi' now", "line1\nline2", "; not a block", "_underscore",
              "data_like", "loop_", "#hash", "a#b", "$dollar", "[bracket]", "?", ".", "?x", "..", "N/A",
              "(2'-5')", "trailing'", "'leading", "long " + "w" * 90, "", "wrapped after a blank \nand continued",
              "  indented line  \n  second line"]     # (blanks at the very END of a text value are dropped by the mmcif reader)
ALPHA_POOL = "ABCDEFGHIJKLMNOPQRSTUVWXYZabcdefghijklmnopqrstuvwxyz0123456789!\"#$%&'()*+,-./:;<=>?@[\\]^_`{|}~"


def random_cases(count, seed):
    """Seeded random multi-category documents beyond the enumerated bounds (up to 4 categories,
    5 items, 6 rows, wide value palette) with random operations incl. absent names."""
    rng = random.Random(seed * 1000003 + 20)
    cases = []
    for k in range(count):
        ncat = rng.randint(1, 4)
        cats = []
        for name in rng.sample(CAT_POOL, ncat):
            attrs = rng.sample(ATTR_POOL, rng.randint(1, 5))
            nrows = rng.choice([1, 1, 2, 3, 4, 6])
            pal = rng.sample(VALUE_POOL, rng.randint(2, 6))
            rows = [[rng.choice(pal) for _ in attrs] for _ in range(nrows)]
            cats.append({"name": name, "attrs": attrs, "rows": rows})
        doc = {"block": rng.choice(["r1", "4GQJ", "x_y"]), "nblocks": 1, "cats": cats}
        if rng.random() < 0.25:
            # further data blocks (e.g. a ligand dictionary after the model); a later block may even carry a
            # category of the same name as the one being edited - it is not the first block's category
            doc["extra"] = []
            for bname in rng.sample(["comp_LIG", "second", "r2"], rng.randint(1, 2)):
                ecats = []
                for name in rng.sample(CAT_POOL, rng.randint(1, 2)):
                    attrs = rng.sample(ATTR_POOL, rng.randint(1, 3))
                    ecats.append({"name": name, "attrs": attrs,
                                  "rows": [[rng.choice(VALUE_POOL) for _ in attrs] for _ in range(rng.choice([1, 2, 3]))]})
                doc["extra"].append({"block": bname, "cats": ecats})
        tgt = rng.choice(cats)
        cat = tgt["name"] if rng.random() < 0.9 else rng.choice([c for c in CAT_POOL + ["nope"] if c not in
                                                                 [x["name"] for x in cats]])
        frm = rng.choice(tgt["attrs"]) if rng.random() < 0.85 else "absent_item"
        if rng.random() < 0.5:
            to = rng.choice(tgt["attrs"]) if rng.random() < 0.6 else rng.choice(["new_item", "zz"])
            op = {"kind": "copy", "cat": cat, "from": frm, "to": to, "alpha": []}
        else:
            need = len({v for row in tgt["rows"] for v in row}) + rng.randint(0, 3)
            if rng.random() < 0.08:
                # fewer letters than the column has distinct values: the operation must be refused
                need = max(1, len({row[tgt["attrs"].index(frm)] for row in tgt["rows"]}) - 1) if frm in tgt["attrs"] else 1
            mode = rng.random()
            if mode < 0.4:
                alpha = list(ALPHA_POOL[:max(need, 1)])
            elif mode < 0.8:
                alpha = rng.sample(ALPHA_POOL, max(need, 1))
            else:
                # an alphabet that LOOKS like a range ("X-Z", "0-3"): its second letter is the dash, nothing else
                alpha = list(rng.choice(["X-Z", "A-D9", "a-c", "0-3", "B-A"]))
                alpha += [ch for ch in ALPHA_POOL if ch not in alpha][:max(0, need - len(alpha))]
            op = {"kind": "replace", "cat": cat, "from": frm, "to": frm, "alpha": alpha}
        cases.append({"id": f"r{k:05d}", "src": "random", "op": op, "in": doc, "style": rng.randrange(16)})
    return cases


CORPUS_OPS = [
    {"kind": "copy", "cat": "atom_site", "from": "label_asym_id", "to": "auth_asym_id", "alpha": []},
    {"kind": "replace", "cat": "atom_site", "from": "auth_asym_id", "to": "auth_asym_id", "alpha": list(ALPHA_POOL)},
    {"kind": "copy", "cat": "atom_site", "from": "auth_seq_id", "to": "verif_new_item", "alpha": []},
    {"kind": "replace", "cat": "atom_site", "from": "label_comp_id", "to": "label_comp_id",
     "alpha": list(ALPHA_POOL[::-1])},
    {"kind": "copy", "cat": "no_such_category", "from": "label_asym_id", "to": "auth_asym_id", "alpha": []},
    {"kind": "replace", "cat": "atom_site", "from": "no_such_item", "to": "no_such_item", "alpha": list("ABCD")},
]


def _distinct_values(path, op):
    """number of distinct values of the operation's column (case generation only: a replace
    whose alphabet is too short for the file is outside the statement and is not generated)."""
    with open(path) as f:
        doc = parse(f.read())
    for c in doc["cats"]:
        if c["name"] == op["cat"] and op["from"] in c["attrs"]:
            i = c["attrs"].index(op["from"])
            return len({r[i] for r in c["rows"]})
    return 0


def corpus_cases(max_bytes, nops):
    """Corpus .cif files of the repository's tests (read in place), a few operations each."""
    d = os.path.join(lib.REPO, "tests")
    cases = []
    for name in sorted(os.listdir(d)):
        p = os.path.join(d, name)
        if not name.endswith(".cif") or os.path.getsize(p) > max_bytes:
            continue
        # large files are costly to validate (both documents go to TLC): the two everyday operations only
        n_ops = 2 if os.path.getsize(p) == 0 or os.path.getsize(p) > 250_000 else nops
        for k, op in enumerate(CORPUS_OPS[:n_ops]):
            if op["kind"] == "replace" and _distinct_values(p, op) > len(op["alpha"]):
                continue
            cases.append({"id": f"c{len(cases):03d}", "src": "corpus", "file": name, "op": op})   # short ids: TLC wraps long lines
    return cases


# ----------------------------------------------------------------------------- recording

def _errname(e):
    return type(e).__name__


def _project_doc(text):
    try:
        return True, parse(text)
    except CifSyntaxError:
        return False, {"nblocks": 0, "block": "", "cats": []}


def _mapping(m):
    out = []
    for k, v in m.items():
        out.append([k if isinstance(k, str) else f"<{type(k).__name__}>",
                    v if isinstance(v, str) else f"<{type(v).__name__}>"])
    return out


def call_lib(text, op):
    from rnapolis import transformer
    rec = {"err": "", "ret": "none", "text": textrep(""), "mapping": [], "parsed": False,
           "doc": {"nblocks": 0, "block": "", "cats": []}}
    try:
        with contextlib.redirect_stdout(io.StringIO()), contextlib.redirect_stderr(io.StringIO()):
            if op["kind"] == "copy":
                r = transformer.copy_from_to(text, op["cat"], op["from"], op["to"])
            else:
                r = transformer.replace_value(text, op["cat"], op["to"], "".join(op["alpha"]))
    except Exception as e:  # the code raising is data; the spec decides
        rec["err"] = _errname(e)
        return rec, None
    out = None
    if isinstance(r, str):
        rec["ret"], out = "str", r
    elif isinstance(r, tuple) and len(r) == 2 and isinstance(r[0], str) and isinstance(r[1], dict):
        rec["ret"], out = "pair", r[0]
        rec["mapping"] = _mapping(r[1])
    else:
        rec["ret"] = type(r).__name__
    if out is not None:
        rec["text"] = textrep(out)
        rec["parsed"], rec["doc"] = _project_doc(out)
    return rec, out


def call_cli(text, op, workdir, tag, inplace=False):
    """transformer.main with argv, on a real input file; returns what it did.
    inplace: the output path is the input path (the tool is asked to edit the file where it is)."""
    from rnapolis import transformer
    inp = os.path.join(workdir, f"in-{tag}.cif")
    outp = inp if inplace else os.path.join(workdir, f"out-{tag}.cif")
    with open(inp, "w", newline="") as f:
        f.write(text)
    if not inplace and os.path.exists(outp):
        os.remove(outp)
    argv = ["transformer", inp, outp, "--category", op["cat"]]
    if op["kind"] == "copy":
        argv += ["--copy-from", op["from"], "--copy-to", op["to"]]
    else:
        argv += ["--replace", op["to"], "--values=" + "".join(op["alpha"])]
    rec = {"err": "", "written": False, "text": textrep("")}
    old = sys.argv
    sys.argv = argv
    try:
        with contextlib.redirect_stdout(io.StringIO()), contextlib.redirect_stderr(io.StringIO()):
            transformer.main()
    except SystemExit as e:
        rec["err"] = "SystemExit" if e.code not in (0, None) else ""
    except Exception as e:
        rec["err"] = _errname(e)
    finally:
        sys.argv = old
    if os.path.exists(outp):
        rec["written"] = True
        with open(outp, newline="") as f:
            rec["text"] = textrep(f.read())
        os.remove(outp)
    if not inplace:
        os.remove(inp)
    return rec, textrep(inp)


_WORK = {"dir": None}


def _workdir():
    """per-process scratch below the run's lib.Scratch directory (set by the driver)."""
    base = _WORK["dir"]
    d = os.path.join(base, f"p{os.getpid()}")
    os.makedirs(d, exist_ok=True)
    return d


def set_workdir(path):
    _WORK["dir"] = path


def record(case):
    """One input -> two trace cases: <id>-lib and <id>-cli."""
    op = case["op"]
    if case["src"] == "corpus":
        with open(os.path.join(lib.REPO, "tests", case["file"])) as f:    # text mode, as a tool reading the file would
            text = f.read()
        ok, doc = _project_doc(text)
        if not ok:
            raise lib.MachineryError(f"harness tokenizer cannot read corpus file {case['file']}")
    else:
        text = emit_all(case["in"], case.get("style", 0))
        doc = whole(case["in"])
        back = parse(text)
        if back != doc:
            raise lib.MachineryError(f"emitter/tokenizer self-check failed for case {case['id']}")
    librec, _ = call_lib(text, op)
    clirec, pathrep = call_cli(text, op, _workdir(), case["id"].replace("/", "_"))
    base = {"src": case["src"], "op": op}
    if case["src"] == "corpus":
        base["file"] = case["file"]
    else:
        base["style"] = case.get("style", 0)
    libcase = dict(base, id=case["id"] + "-lib", kind="lib", intext=textrep(text), lib=librec)
    libcase["in"] = doc
    if case["src"] != "corpus" and case["in"].get("extra"):
        libcase["raw"] = case["in"]          # the generator's document (several data blocks), for replay
    clicase = dict(base, id=case["id"] + "-cli", kind="cli", path=pathrep,
                   lib={"err": librec["err"], "text": librec["text"]}, cli=clirec)
    if case["src"] != "corpus":
        clicase["in"] = doc      # kept for replay only (not read by the CLI clauses)
        if case["in"].get("extra"):
            clicase["raw"] = case["in"]
    # the same invocation with the output path equal to the input path (editing a file where it is)
    clirec2, pathrep2 = call_cli(text, op, _workdir(), case["id"].replace("/", "_") + "-ip", inplace=True)
    ipcase = dict(clicase, id=case["id"] + "-cli-inplace", path=pathrep2, cli=clirec2, inplace=True)
    return [libcase, clicase, ipcase]


def is_edit(case):
    """Statistics only (non-triviality rule): category and source item are present."""
    doc, op = case["in"], case["op"]
    return any(c["name"] == op["cat"] and op["from"] in c["attrs"] for c in doc["cats"])
