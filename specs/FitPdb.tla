------------------------------- MODULE FitPdb -------------------------------
(***************************************************************************)
(* Fitting an atom table to the PDB limits (property C10).  Declarative    *)
(* definitions only: the limits, feasibility, and the clauses a fitted     *)
(* table must satisfy relative to its input.  The limits are constants so  *)
(* that the same definitions serve the scaled model check (MC_FitPdb) and  *)
(* the validation of recorded results with the real limits                 *)
(* (99 999 / 9 999 / 62, Trace_FitPdb).                                    *)
(* A table is a sequence of atom rows as in PdbText; chain ids may have    *)
(* any length, residue numbers and serials any size.                       *)
(***************************************************************************)
EXTENDS PdbText

CONSTANTS MaxSerial,   \* largest atom serial number a PDB file can hold
          MaxRes,      \* largest residue number
          ChainIds     \* sequence of the one-character chain identifiers available, in assignment order

Idx(T)       == 1..Len(T)
ChainSet(T)  == { T[i].chain : i \in Idx(T) }
ResKey(a)    == <<a.resseq, a.icode>>
ResId(a)     == <<a.chain, a.resseq, a.icode>>
RowsOf(T, ch) == { i \in Idx(T) : T[i].chain = ch }
ResSet(T, ch) == { ResKey(T[i]) : i \in RowsOf(T, ch) }
MaxOfSet(S)  == IF S = {} THEN 0 ELSE Max(S)
MaxResPerChain(T) == MaxOfSet({ Cardinality(ResSet(T, ch)) : ch \in ChainSet(T) })
\* a TER record follows every maximal run of rows of one chain and takes a serial number
ChainChanges(T) == Cardinality({ i \in 2..Len(T) : T[i].chain # T[i - 1].chain })
ChainRuns(T)    == IF T = <<>> THEN 0 ELSE ChainChanges(T) + 1

\* ---- the limits -------------------------------------------------------------
\* "serial <= 99999, one-character chain ids, residue numbers <= 9999"
Fits(T) == \A i \in Idx(T) : T[i].serial <= MaxSerial /\ Len(T[i].chain) = 1 /\ T[i].resseq <= MaxRes
AlreadyFits(T) == Fits(T)

\* ---- feasibility --------------------------------------------------------------
\* closed forms; MC_FitPdb checks them against the literal existence statements
\* a fit exists (serials distinct, chains and residues renamed one-to-one)
ExistsFit(T) ==
  /\ Len(T) <= MaxSerial
  /\ Cardinality(ChainSet(T)) <= Len(ChainIds)
  /\ MaxResPerChain(T) <= MaxRes
\* a fit exists that also leaves a serial number for the TER after every chain run
MustFit(T) ==
  /\ Len(T) + ChainRuns(T) <= MaxSerial
  /\ Cardinality(ChainSet(T)) <= Len(ChainIds)
  /\ MaxResPerChain(T) <= MaxRes

\* ---- clauses on a returned table ------------------------------------------------
PayloadSeq == << "rec", "name", "alt", "resn", "x", "y", "z", "occ", "b", "elem", "model" >>
\* first payload field that differs between two rows ("ok" if none); charges compare by value
PayloadDiff(a, b) ==
  LET bad == { k \in 1..Len(PayloadSeq) : a[PayloadSeq[k]] # b[PayloadSeq[k]] } IN
  IF bad # {} THEN PayloadSeq[Min(bad)]
  ELSE IF ChargeVal(a.charge) # ChargeVal(b.charge) THEN "charge" ELSE "ok"

\* atoms keep their order, names, coordinates and all other fields
OrderAndFieldsKept(T, out) ==
  /\ Len(out) = Len(T)
  /\ \A i \in Idx(T) : PayloadDiff(T[i], out[i]) = "ok"

\* chains and residues are renamed by a one-to-one mapping that preserves grouping
ChainsBijective(T, out)   == \A i, j \in Idx(T) : (T[i].chain = T[j].chain) <=> (out[i].chain = out[j].chain)
ResiduesBijective(T, out) == \A i, j \in Idx(T) : (ResId(T[i]) = ResId(T[j])) <=> (ResId(out[i]) = ResId(out[j]))
RenamingBijective(T, out) == Len(out) = Len(T) /\ ChainsBijective(T, out) /\ ResiduesBijective(T, out)

\* atoms stay individually identifiable
SerialsDistinct(out) == \A i, j \in Idx(out) : i # j => out[i].serial # out[j].serial

\* a table that already fits is returned unchanged
Unchanged(T, out) ==
  /\ Len(out) = Len(T)
  /\ \A i \in Idx(T) : RowDiff(T[i], out[i]) = "ok"
=============================================================================
