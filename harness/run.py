"""Entry point: ./check <ID> [--tier quick|thorough] [--replay path]"""
import argparse
import importlib
import json
import os
import sys
import traceback

from . import lib


def main():
    ap = argparse.ArgumentParser()
    ap.add_argument("pid")
    ap.add_argument("--tier", default=os.environ.get("VERIF_TIER", "quick"), choices=["quick", "thorough"])
    ap.add_argument("--replay", default=None)
    a = ap.parse_args()
    pid = a.pid.upper()
    try:
        mod = importlib.import_module(f"harness.props.{pid.lower()}")
    except ModuleNotFoundError:
        print(f"unknown property {pid}", file=sys.stderr)
        return 2
    try:
        lib.use_repo()
        if a.replay:
            with open(a.replay) as f:
                doc = json.load(f)
            return mod.replay(doc)
        return mod.run(a.tier)
    except lib.MachineryError as e:
        print(f"MACHINERY-FAILURE property={pid}: {e}", file=sys.stderr)
        return 2
    except Exception:
        traceback.print_exc()
        print(f"MACHINERY-FAILURE property={pid}: harness exception", file=sys.stderr)
        return 2


if __name__ == "__main__":
    sys.exit(main())
