---------------------------- MODULE Gen_AtomTable ----------------------------
(***************************************************************************)
(* Generation mode (spec -> code): TLC enumerates EVERY well-formed file   *)
(* of up to MaxLines lines over the value palette of MC_AtomTable - the    *)
(* very files the design-level model reads - and writes them as NDJSON;    *)
(* the harness emits each as PDB and as mmCIF and runs the real readers.   *)
(***************************************************************************)
EXTENDS AtomPalette, Json, IOUtils

CONSTANT MaxLines

RECURSIVE FilesOfLen(_)
FilesOfLen(n) ==
  IF n = 0 THEN { <<>> }
  ELSE { Append(f, a) : f \in FilesOfLen(n - 1),
                        a \in Palette }

\* models ascend, residues are contiguous blocks
Shaped(f) == /\ \A i \in 1..(Len(f) - 1) : f[i].m <= f[i + 1].m
             /\ BlocksOK(f, LAMBDA i : <<f[i].m, ResKey(f[i])>>)
AllFiles == { f \in UNION { FilesOfLen(n) : n \in 1..MaxLines } : Shaped(f) /\ InDomain(f, 0) }

ASSUME ndJsonSerialize(IOEnv.OUT_FILE, SetToSeq({ [lines |-> f] : f \in AllFiles }))
ASSUME PrintT(<<"GENERATED", Cardinality(AllFiles)>>)
=============================================================================
