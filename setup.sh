#!/bin/sh
# Run once after a fresh restore, offline: verify the tool chain and parse every TLA+ module.
# Builds nothing outside /verif.
cd "$(dirname "$0")" || exit 2
set -e
command -v java >/dev/null
test -f /opt/veriftools/tla/tla2tools.jar
test -x /venv/bin/python
mkdir -p out evidence
cd specs
fail=0
for f in *.tla; do
  if ! java -cp /opt/veriftools/tla/tla2tools.jar:/opt/veriftools/tla/CommunityModules-deps.jar tla2sany.SANY "$f" >/tmp/verif-sany.$$ 2>&1; then
    echo "SANY failed: $f"; tail -20 /tmp/verif-sany.$$; fail=1
  elif grep -q -E "^\*\*\* Errors|Fatal errors|Could not find module" /tmp/verif-sany.$$; then
    echo "SANY errors: $f"; grep -A5 -E "^\*\*\* Errors|Fatal errors|Could not find module" /tmp/verif-sany.$$ | head -20; fail=1
  fi
done
rm -f /tmp/verif-sany.$$
cd ..
PYTHONHASHSEED=0 /venv/bin/python -c "
import sys; sys.path.insert(0, '.')
from harness import lib
lib.use_repo()
import rnapolis.common, pulp
assert pulp.PULP_CBC_CMD().available(), 'CBC missing'
print('setup ok: rnapolis from', rnapolis.common.__file__)
" 2>&1 | grep -v "^WARNING"
exit $fail
