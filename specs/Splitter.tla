------------------------------ MODULE Splitter ------------------------------
(***************************************************************************)
(* rnapolis.splitter.main (command-line tool `splitter`): one multi-model  *)
(* PDB / mmCIF file becomes one file per model.  Beyond the listed         *)
(* properties (growth item of DESIGN 10.7).  What is INSIDE a written file *)
(* (every atom field) is the business of C09 (its `split:*` paths) and of  *)
(* C10 (fitting); this module states the tool's PROTOCOL:                  *)
(*   section 1 - the function: which files a run must leave behind, under  *)
(*               which names, holding which atom lines in which order, and *)
(*               the exit status;                                          *)
(*   section 2 - the tool's own steps as a state machine (one action per   *)
(*               step of main(): CheckExists, Parse, CheckEmpty,           *)
(*               CheckFormat, MakeDir, WriteModel per group in ascending   *)
(*               model order, Finish), checked by TLC on every small world *)
(*               against the function of section 1.                        *)
(* An atom line is abstracted to <<model, key>>: the key is the identity   *)
(* the harness plants into the x coordinate.                               *)
(***************************************************************************)
EXTENDS Integers, Sequences, FiniteSets, TLC

\* ------------------------------------------------------------------ 1. the function
\* the --format values a user may type; the tool upper-cases them
Upper == [o \in {"keep", "KEEP", "Keep", "PDB", "pdb", "Pdb", "mmCIF", "MMCIF", "mmcif", "cif", "xyz", ""} |->
            CASE o \in {"keep", "KEEP", "Keep"} -> "KEEP"
              [] o \in {"PDB", "pdb", "Pdb"} -> "PDB"
              [] o \in {"mmCIF", "MMCIF", "mmcif"} -> "MMCIF"
              [] o = "cif" -> "CIF"
              [] o = "xyz" -> "XYZ"
              [] OTHER -> ""]
FormatOptions == DOMAIN Upper
ValidOption(o) == o \in FormatOptions /\ Upper[o] \in {"KEEP", "PDB", "MMCIF"}
\* the format of the outputs: "PDB" or "mmCIF" (the input's own with keep)
OutFormat(infmt, o) == IF Upper[o] = "KEEP" THEN infmt ELSE IF Upper[o] = "PDB" THEN "PDB" ELSE "mmCIF"

ModelsOf(rows) == { rows[k][1] : k \in 1..Len(rows) }
RowsOf(rows, m) == SelectSeq(rows, LAMBDA r : r[1] = m)      \* the model's lines, in the order of the input

\* exit status: 1 = refusal (missing / unreadable input, unknown format), 0 otherwise - an input without atoms
\* ends the run with a warning BEFORE the format is looked at
ExpectedExit(exists, readable, rows, o) ==
  IF ~exists \/ ~readable THEN 1 ELSE IF rows = <<>> THEN 0 ELSE IF ~ValidOption(o) THEN 1 ELSE 0

\* does the run reach the writing loop at all
Writes(exists, readable, rows, o) == exists /\ readable /\ rows # <<>> /\ ValidOption(o)

\* the models that get a file: all of them - except, when PDB is written, those that do not fit the format
\* (fits[m]; the tool reports them and goes on)
WrittenModels(infmt, rows, o, fits) ==
  { m \in ModelsOf(rows) : OutFormat(infmt, o) = "PDB" => fits[m] }

\* what the output directory must hold afterwards: model |-> its lines
ExpectedFiles(exists, readable, infmt, rows, o, fits) ==
  IF ~Writes(exists, readable, rows, o) THEN <<>>
  ELSE [m \in WrittenModels(infmt, rows, o, fits) |-> RowsOf(rows, m)]

\* file name of model m: <base>_model_<m>.pdb / .cif (base = the input's name without its last extension)
FileName(base, m, fmt) == base \o "_model_" \o ToString(m) \o (IF fmt = "PDB" THEN ".pdb" ELSE ".cif")

\* ------------------------------------------------------------------ 2. the tool's steps
CONSTANTS MaxModel, MaxRows, Opts
VARIABLES exists, readable, infmt, rows, opt, fits,      \* the world (never changes)
          pc, exit, dir, files, queue, reported
world == <<exists, readable, infmt, rows, opt, fits>>
vars == <<world, pc, exit, dir, files, queue, reported>>

Models == 0..MaxModel
RowSeqs == UNION { [1..n -> Models] : n \in 0..MaxRows }
\* keys are the positions: row k is <<model, k>>
Keyed(s) == [k \in 1..Len(s) |-> <<s[k], k>>] \o <<>>

RECURSIVE SortedSeq(_)
SortedSeq(S) == IF S = {} THEN <<>>
                ELSE LET m == CHOOSE x \in S : \A y \in S : x <= y IN <<m>> \o SortedSeq(S \ {m})

Init == /\ exists \in BOOLEAN /\ readable \in BOOLEAN
        /\ infmt \in {"PDB", "mmCIF"}
        /\ \E s \in RowSeqs : rows = Keyed(s)
        /\ opt \in Opts
        /\ fits \in [Models -> BOOLEAN]
        /\ (infmt = "PDB" => \A m \in Models : fits[m])      \* what was read from PDB fits PDB
        /\ pc = "CheckExists" /\ exit = -1 /\ dir = FALSE /\ files = <<>> /\ queue = <<>> /\ reported = {}

Stop(code) == pc' = "Done" /\ exit' = code /\ UNCHANGED <<world, dir, files, queue, reported>>
Goto(l) == pc' = l /\ UNCHANGED <<world, exit, dir, files, queue, reported>>

CheckExists == pc = "CheckExists" /\ IF exists THEN Goto("Parse") ELSE Stop(1)
Parse       == pc = "Parse" /\ IF readable THEN Goto("CheckEmpty") ELSE Stop(1)
CheckEmpty  == pc = "CheckEmpty" /\ IF rows = <<>> THEN Stop(0) ELSE Goto("CheckFormat")
CheckFormat == pc = "CheckFormat" /\ IF ValidOption(opt) THEN Goto("MakeDir") ELSE Stop(1)
MakeDir     == /\ pc = "MakeDir" /\ dir' = TRUE /\ pc' = "WriteModel"
               /\ queue' = SortedSeq(ModelsOf(rows))          \* groupby: ascending model numbers
               /\ UNCHANGED <<world, exit, files, reported>>
WriteModel  == /\ pc = "WriteModel" /\ queue # <<>>
               /\ LET m == Head(queue) IN
                  IF OutFormat(infmt, opt) = "PDB" /\ ~fits[m]
                  THEN reported' = reported \cup {m} /\ files' = files          \* "Skipping model."
                  ELSE files' = (m :> RowsOf(rows, m)) @@ files /\ reported' = reported
               /\ queue' = Tail(queue)
               /\ UNCHANGED <<world, pc, exit, dir>>
Finish      == pc = "WriteModel" /\ queue = <<>> /\ Stop(0)

Next == CheckExists \/ Parse \/ CheckEmpty \/ CheckFormat \/ MakeDir \/ WriteModel \/ Finish
Spec == Init /\ [][Next]_vars

Done == pc = "Done"
\* the steps compute the function of section 1
InvExit  == Done => exit = ExpectedExit(exists, readable, rows, opt)
InvFiles == Done => files = ExpectedFiles(exists, readable, infmt, rows, opt, fits)
\* a refusal leaves nothing behind - not even the output directory
InvRefusalLeavesNothing == (Done /\ exit = 1) => (~dir /\ files = <<>>)
\* the written files partition the input: every line of a written model is in exactly one file, in input order,
\* and no file holds a line of another model
InvPartition ==
  Done => /\ \A m \in DOMAIN files : \A k \in 1..Len(files[m]) : files[m][k][1] = m
          /\ \A k \in 1..Len(rows) : rows[k][1] \in DOMAIN files =>
               Cardinality({ p \in UNION { {m} \X (1..Len(files[m])) : m \in DOMAIN files } :
                             files[p[1]][p[2]] = rows[k] }) = 1
          /\ \A m \in DOMAIN files : \A a, b \in 1..Len(files[m]) : a < b => files[m][a][2] < files[m][b][2]
\* a skipped model is reported, and only models that do not fit are skipped
InvSkipReported == Done /\ exit = 0 /\ rows # <<>> => /\ reported = ModelsOf(rows) \ DOMAIN files
                                                       /\ \A m \in reported : ~fits[m]
\* a file once written is never touched again
FilesOnlyGrow == [][\A m \in DOMAIN files : m \in DOMAIN files' /\ files'[m] = files[m]]_vars

\* NEGATIVE CONTROL (a design weakness, no defect against any listed property): a run that skipped a model
\* still exits 0 - the exit status does not tell a complete split from a partial one
InvExitTellsCompleteness == (Done /\ exit = 0 /\ rows # <<>>) => DOMAIN files = ModelsOf(rows)
=============================================================================
