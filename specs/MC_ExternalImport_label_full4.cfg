SPECIFICATION Spec
CONSTANT Mode = "label"
CONSTANT McAlphabet = {"c", "t", "C", "T", "W", "H", "S", "w", "h", "s", "n", "a", "B", "P", "R", "0", "1", "2", "3", "4", "5", "6", "7", "8", "9"}
CONSTANT McMaxLen = 4
CONSTANT McUnitKinds = {"plain"}
CONSTANT McTabKinds = {"three"}
CONSTANT McLabelKinds = {"lw"}
CONSTANT McWraps = {"none"}
CONSTANT MaxLines = 0
CONSTANT Contained = {"ValueError", "IndexError"}
CONSTANT McNameKinds = {"exact"}
CONSTANT McLwKinds = {"valid"}
CONSTANT MaxPairs = 0
CONSTANT McStackKinds = {"exact"}
CONSTANT MaxStackLen = 0
CONSTANT MaxStacks = 0
CONSTANT LwTest = "members"
INVARIANT LabelMapExact
INVARIANT LabelStepsTyped
CHECK_DEADLOCK FALSE
