SPECIFICATION Spec
CONSTANT Assignment = "AsImplemented"
CONSTANT MaxChain = 3
INVARIANT CleanIsFunction
INVARIANT SameMembers
INVARIANT OffPathArtefactsSame
INVARIANT HashOrderArtefactsAre
INVARIANT Lemmas
CHECK_DEADLOCK FALSE
