--------------------------- MODULE Domain_PoaSolver ---------------------------
(* Exhaustiveness guard of the fault enumeration: for every structure id, the recorded cases
   cover exactly the product Entries x Configs x Faults, each cell once. *)
EXTENDS PoaSolver, FiniteSets, Json, IOUtils
Doc   == JsonDeserialize(IOEnv.TRACE_FILE)
Items == Doc.items
Sids  == { Items[k].sid : k \in 1..Len(Items) }
Of(sid) == { k \in 1..Len(Items) : Items[k].sid = sid }
DomainOK == \A sid \in Sids :
   /\ { <<Items[k].entry, Items[k].cfg, Items[k].fault>> : k \in Of(sid) } = Entries \X Configs \X Faults
   /\ Cardinality(Of(sid)) = Cardinality(Entries \X Configs \X Faults)
ASSUME PrintT(<<"DOMAIN", DomainOK, Len(Items), Cardinality(Sids)>>)
=============================================================================
