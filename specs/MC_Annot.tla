------------------------------ MODULE MC_Annot ------------------------------
(***************************************************************************)
(* Design-level model of the annotator's decision procedures AS THE CODE    *)
(* PERFORMS THEM (annotator.py), explored exhaustively over a small world,  *)
(* with the clauses of Annot.tla as invariants.                             *)
(*                                                                         *)
(* Part = "pairs"  find_pairs, lines 310-360: hydrogen bonds are turned into *)
(*     labels <<i, j, e1, e2>> (CollectLabel: a label with d distinct        *)
(*     contacts, o of them through O2'), counted (Counter), visited in       *)
(*     most_common() order with ties in ANY order (GreedyTake / GreedySkip), *)
(*     skipped below 2 bonds or when an edge is occupied.                    *)
(*     The cis/trans letter is a function of the residue pair, so it never   *)
(*     distinguishes two labels of one pair and is left out of the world.    *)
(*     O2Twice = TRUE is the implementation (O2' is entered into the KD-tree *)
(*     twice, annotator.py:191-206, so a contact through it is seen twice);  *)
(*     O2Twice = FALSE is what the statement requires.                       *)
(* Part = "stack"  find_stackings, lines 431-477: every unordered candidate  *)
(*     pair is scanned once (ScanPair) with a three-valued measurement; a    *)
(*     "near" flag lets the code's float comparison go either way.           *)
(* Part = "bph"   merge_and_clean_bph_br, lines 155-177, as list surgery on   *)
(*     an ordered set (ClassifyBph, MergeBph35, MergeBph79, KeepFirst).       *)
(* Laws of the Saenger table are checked in every part (state-independent). *)
(***************************************************************************)
EXTENDS Annot

CONSTANTS Part,        \* "pairs" | "stack" | "bph"
          NRes,        \* residues in the small world
          MaxLabels,   \* distinct candidate labels
          MaxCount,    \* distinct contacts per label 1..MaxCount
          MaxO2,       \* of which through O2' (0..MaxO2)
          O2Twice,     \* TRUE = as implemented
          StackFlagsFull  \* stack: "full" = every flag combination per candidate, "mid" / "few" = reduced palettes

VARIABLES pc,
          labels,      \* pairs: label index -> <<d, o>> (distinct contacts, of which via O2')
          todo, reported, occupied,
          cand, emitted,      \* stack: candidate flags per pair, emitted <<lower, upper, topology>>
          order,              \* stack: rank of each residue in <<chain, number, icode>> order
          raw, oset           \* bph: set of raw classes, ordered set as a sequence

vars == <<pc, labels, todo, reported, occupied, cand, emitted, order, raw, oset>>

Res == 1..NRes
EdgeSeq == <<"W", "H", "S">>
\* all labels <<i, j, e1, e2>>, i < j, in a fixed order: label k of 1..NLab
AllPairSeq == << <<1, 2>>, <<1, 3>>, <<2, 3>>, <<1, 4>>, <<2, 4>>, <<3, 4>> >>   \* prefix-closed for NRes = 2, 3, 4
NPairs    == (NRes * (NRes - 1)) \div 2
NLab      == NPairs * 9
LabelSeq  == [k \in 1..NLab |-> << AllPairSeq[((k - 1) \div 9) + 1][1], AllPairSeq[((k - 1) \div 9) + 1][2],
                                   EdgeSeq[(((k - 1) \div 3) % 3) + 1], EdgeSeq[((k - 1) % 3) + 1] >>]
HasS(l)   == l[3] = "S" \/ l[4] = "S"

\* the implementation's Counter value of a label
Count(v)  == IF O2Twice THEN v[1] + v[2] ELSE v[1]

\* ------------------------------------------------------------------ pairs
InitPairs ==
  /\ pc = "collect" /\ labels = << >> /\ todo = {} /\ reported = {} /\ occupied = {}
  /\ cand = << >> /\ emitted = {} /\ order = << >> /\ raw = {} /\ oset = << >>

Present == DOMAIN labels
\* labels are collected in increasing index order (the order of collection is irrelevant to the Counter)
CollectLabel ==
  /\ pc = "collect" /\ Cardinality(Present) < MaxLabels
  /\ \E k \in 1..NLab : \E d \in 1..MaxCount : \E o \in 0..MaxO2 :
        /\ \A m \in Present : m < k
        /\ o <= d /\ (o > 0 => HasS(LabelSeq[k]))
        /\ labels' = [m \in Present \cup {k} |-> IF m = k THEN <<d, o>> ELSE labels[m]]
  /\ UNCHANGED <<pc, todo, reported, occupied, cand, emitted, order, raw, oset>>

StartGreedy ==
  /\ pc = "collect" /\ pc' = "greedy" /\ todo' = Present
  /\ UNCHANGED <<labels, reported, occupied, cand, emitted, order, raw, oset>>

\* most_common(): descending count, ties in any order
IsNext(k) == k \in todo /\ \A m \in todo : Count(labels[m]) <= Count(labels[k])
Free(k)   == <<LabelSeq[k][1], LabelSeq[k][3]>> \notin occupied /\ <<LabelSeq[k][2], LabelSeq[k][4]>> \notin occupied

GreedyTake ==
  /\ pc = "greedy"
  /\ \E k \in todo : /\ IsNext(k) /\ Count(labels[k]) >= MinContacts /\ Free(k)
                     /\ reported' = reported \cup {k}
                     /\ occupied' = occupied \cup {<<LabelSeq[k][1], LabelSeq[k][3]>>, <<LabelSeq[k][2], LabelSeq[k][4]>>}
                     /\ todo' = todo \ {k}
  /\ UNCHANGED <<pc, labels, cand, emitted, order, raw, oset>>

GreedySkip ==
  /\ pc = "greedy"
  /\ \E k \in todo : /\ IsNext(k) /\ (Count(labels[k]) < MinContacts \/ ~Free(k))
                     /\ todo' = todo \ {k}
  /\ UNCHANGED <<pc, labels, reported, occupied, cand, emitted, order, raw, oset>>

GreedyDone ==
  /\ pc = "greedy" /\ todo = {} /\ pc' = "done"
  /\ UNCHANGED <<labels, todo, reported, occupied, cand, emitted, order, raw, oset>>

AsPair(k) == [i |-> LabelSeq[k][1], j |-> LabelSeq[k][2], e1 |-> LabelSeq[k][3], e2 |-> LabelSeq[k][4]]
\* invariants (pairs)
EdgeExclusive ==
  Part = "pairs" =>
    /\ \A k, m \in reported : k # m =>
          {<<AsPair(k).i, AsPair(k).e1>>, <<AsPair(k).j, AsPair(k).e2>>}
            \cap {<<AsPair(m).i, AsPair(m).e1>>, <<AsPair(m).j, AsPair(m).e2>>} = {}
    /\ occupied = OccupiedBy({ AsPair(k) : k \in reported })
\* every label with >= 2 base-to-base contacts (d - o: not through O2') is reported or blocked
PairMaximal ==
  (Part = "pairs" /\ pc = "done") =>
    \A k \in Present : labels[k][1] - labels[k][2] >= MinContacts =>
        \/ k \in reported
        \/ <<AsPair(k).i, AsPair(k).e1>> \in occupied
        \/ <<AsPair(k).j, AsPair(k).e2>> \in occupied
\* every reported pair rests on >= 2 DISTINCT contacts
PairSound == Part = "pairs" => \A k \in reported : labels[k][1] >= MinContacts

\* ------------------------------------------------------------------ stack
PairsOfRes == { p \in Res \X Res : p[1] < p[2] }        \* file order: p[1] precedes p[2]
Q3 == {"in", "near", "out"}
\* abstract measurement of one candidate: every flag of Annot!StackCoherent; ow <= oc
FullFlags == { f \in [df : Q3, nnf : Q3, ocf : Q3, owf : Q3, dotf : {"pos", "neg"}] :
               (f.ocf = "in" => f.owf = "in") /\ (f.ocf = "near" => f.owf \in {"in", "near"}) }
\* reduced palette for the larger world: qualifies / too far / undecided distance, both dot signs
FewFlags  == { f \in FullFlags : f.nnf = "in" /\ f.ocf = "in" }
\* medium palette: no "near" on the angles
MidFlags  == { f \in FullFlags : f.nnf \in {"in", "out"} /\ f.ocf \in {"in", "out"} /\ f.owf \in {"in", "out"} }
CandFlags == IF StackFlagsFull = "full" THEN FullFlags ELSE IF StackFlagsFull = "mid" THEN MidFlags ELSE FewFlags
Perms == { p \in [Res -> Res] : \A a, b \in Res : a # b => p[a] # p[b] }

InitStack ==
  /\ pc = "scan" /\ cand \in [PairsOfRes -> CandFlags] /\ order \in Perms
  /\ todo = PairsOfRes /\ emitted = {}
  /\ labels = << >> /\ reported = {} /\ occupied = {} /\ raw = {} /\ oset = << >>

\* a float comparison against a threshold: decided when the flag is decided, either way when "near"
Passes(f) == IF f = "in" THEN {TRUE} ELSE IF f = "out" THEN {FALSE} ELSE {TRUE, FALSE}

ScanPair ==
  /\ pc = "scan"
  /\ \E p \in todo : LET f == cand[p] IN
       \E a \in Passes(f.df) : \E b \in Passes(f.nnf) : \E o \in Passes(f.ocf) :
          /\ todo' = todo \ {p}
          /\ IF a /\ b /\ o
             THEN LET same == f.dotf = "pos"
                      lowfirst == order[p[1]] < order[p[2]]
                      e == IF lowfirst THEN <<p[1], p[2], IF same THEN "upward" ELSE "inward">>
                                       ELSE <<p[2], p[1], IF same THEN "downward" ELSE "outward">>
                  IN emitted' = emitted \cup {e}
             ELSE emitted' = emitted
  /\ UNCHANGED <<pc, labels, reported, occupied, cand, order, raw, oset>>

ScanDone ==
  /\ pc = "scan" /\ todo = {} /\ pc' = "done"
  /\ UNCHANGED <<labels, todo, reported, occupied, cand, emitted, order, raw, oset>>

AsCand(p) == [df |-> cand[p].df, nnf |-> cand[p].nnf, ocf |-> cand[p].ocf, owf |-> cand[p].owf]
FilePair(e) == IF e[1] < e[2] THEN <<e[1], e[2]>> ELSE <<e[2], e[1]>>
StackSound    == Part = "stack" => \A e \in emitted : StackMayQualify(AsCand(FilePair(e)))
StackLabel    == Part = "stack" => \A e \in emitted : StackLabelOK(e[3], cand[FilePair(e)].dotf)
StackOrdered  == Part = "stack" => \A e \in emitted : order[e[1]] < order[e[2]]
StackOnce     == Part = "stack" => \A e, f \in emitted : {e[1], e[2]} = {f[1], f[2]} => e = f
StackComplete == (Part = "stack" /\ pc = "done") =>
                   \A p \in PairsOfRes : StackMustQualify(AsCand(p)) => \E e \in emitted : FilePair(e) = p

\* ------------------------------------------------------------------ bph
InitBph ==
  /\ pc = "classify" /\ raw = {} /\ oset = << >>
  /\ labels = << >> /\ todo = {} /\ reported = {} /\ occupied = {} /\ cand = << >> /\ emitted = {} /\ order = << >>

\* classified contacts of one <<donor residue, acceptor residue>> arrive sorted ascending; the ordered
\* set keeps first occurrences
ClassifyBph ==
  /\ pc = "classify"
  /\ \E k \in RawClasses : /\ \A m \in raw : m < k
                           /\ raw' = raw \cup {k} /\ oset' = Append(oset, k)
  /\ UNCHANGED <<pc, labels, todo, reported, occupied, cand, emitted, order>>
EndClassify ==
  /\ pc = "classify" /\ raw # {} /\ pc' = "merge35"
  /\ UNCHANGED <<labels, todo, reported, occupied, cand, emitted, order, raw, oset>>

Without(s, x) == SelectSeq(s, LAMBDA y : y # x)
Has(s, x)     == \E k \in 1..Len(s) : s[k] = x
MergeBph35 ==
  /\ pc = "merge35" /\ pc' = "merge79"
  /\ oset' = IF Has(oset, 3) /\ Has(oset, 5) THEN Append(Without(Without(oset, 3), 5), 4) ELSE oset
  /\ UNCHANGED <<labels, todo, reported, occupied, cand, emitted, order, raw>>
MergeBph79 ==
  /\ pc = "merge79" /\ pc' = "first"
  /\ oset' = IF Has(oset, 7) /\ Has(oset, 9) THEN Append(Without(Without(oset, 7), 9), 8) ELSE oset
  /\ UNCHANGED <<labels, todo, reported, occupied, cand, emitted, order, raw>>
KeepFirst ==
  /\ pc = "first" /\ pc' = "done"
  /\ oset' = IF Len(oset) > 1 THEN <<oset[1]>> ELSE oset
  /\ UNCHANGED <<labels, todo, reported, occupied, cand, emitted, order, raw>>

\* the list surgery computes the declarative merged set, then keeps one class of it
MergeMatches  == (Part = "bph" /\ pc = "first") => { oset[k] : k \in 1..Len(oset) } = MergedSet(raw)
OneClass      == (Part = "bph" /\ pc = "done") => Len(oset) = 1
ClassImpliedInv == (Part = "bph" /\ pc = "done") => ClassImplied(oset[1], raw, raw)
NeverUnmerged == (Part = "bph" /\ pc = "done") =>
                   /\ ({3, 5} \subseteq raw => oset[1] \notin {3, 5})
                   /\ ({7, 9} \subseteq raw => oset[1] \notin {7, 9})

\* ------------------------------------------------------------------ laws of the tables
AllLetters == Letters \cup {"N", "?"}
TableLaws ==
  /\ SaengerFunctional /\ SaengerNamesOK /\ SaengerReverseLaw(AllLetters)
  /\ \A lw \in LwClasses : LwReverse(LwReverse(lw)) = lw /\ LwReverse(lw) \in LwClasses
  /\ \A L \in Letters : /\ DOMAIN EdgeOf[L] \subseteq Donors[L] \cup BaseAcceptors[L] \cup {O2Prime}
                        /\ Donors[L] \cap BaseAcceptors[L] = {}
                        /\ DOMAIN BphRule[L] = Donors[L] \ {O2Prime}
                        /\ (Donors[L] \cup BaseAcceptors[L]) \ {O2Prime} \subseteq BaseAtoms[L]
                        /\ \A a \in DOMAIN EdgeOf[L] : EdgeOf[L][a] # {} /\ EdgeOf[L][a] \subseteq Edges
  /\ \A X \in SUBSET RawClasses : X # {} => MergedSet(X) # {} /\ ~({3, 5} \subseteq MergedSet(X))
                                           /\ ~({7, 9} \subseteq MergedSet(X))

\* ------------------------------------------------------------------ composition
Init == IF Part = "pairs" THEN InitPairs ELSE IF Part = "stack" THEN InitStack ELSE InitBph
Next == \/ CollectLabel \/ StartGreedy \/ GreedyTake \/ GreedySkip \/ GreedyDone
        \/ ScanPair \/ ScanDone
        \/ ClassifyBph \/ EndClassify \/ MergeBph35 \/ MergeBph79 \/ KeepFirst
Spec == Init /\ [][Next]_vars
=============================================================================
