SPECIFICATION Spec
CONSTANT MaxLines = 5
CONSTANT KeyIds = {1, 2, 3, 4, 5, 6}
CONSTANT PointIds = {1, 2, 3, 5, 6}
CONSTANT V2SortUsesIcode = TRUE
CONSTANT V2BondMilli = 2400
INVARIANT SameResiduesInv
INVARIANT SameAtomsAndCoordsInv
INVARIANT SameConnectivityInv
INVARIANT ReadersAgree
CHECK_DEADLOCK FALSE
