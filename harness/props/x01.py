"""X01 - beyond the listed properties: rnapolis.unifier (command-line tool `unifier`) makes a set of
files comparable atom by atom.  Statement: specs/Unifier.tla; the tool's steps: MC_Unifier; recorded
runs of the real tool: Trace_Unifier."""
from .. import lib, atomtable as at, unifier as un

PID = "X01"
TIERS = {
    "quick":    dict(mc=["MC_Unifier_quick.cfg", "MC_Unifier_three.cfg"], cases=400),
    "thorough": dict(mc=["MC_Unifier_quick.cfg", "MC_Unifier_three.cfg", "MC_Unifier_four.cfg", "MC_Unifier_wide.cfg"],
                     cases=6000),
}
ACTIONS = ("Load", "CheckCount", "CheckNames", "Mark", "RemoveMarked", "Count", "Unify", "Write")
NEG = [("MC_Unifier_neg_atomnames.cfg", "InvSameAtomNames",
        "design observation: atom COUNTS are compared, not names - files missing different atoms of a nucleotide keep it"),
       ("MC_Unifier_neg_empty.cfg", "InvNeverCrashes",
        "design observation: when every position differs the tool ends in an exception instead of writing nothing")]


def _validate(rep, rec, sc, table):
    res = lib.trace_validate("Trace_Unifier", "Trace_Unifier.cfg", rec, sc, extra_doc={"table": table})
    skipped = [v[0] for v in res["verdicts"] if v[1] == "skip"]
    res["verdicts"] = [v for v in res["verdicts"] if v[1] != "skip"]
    rep.add_trace(res, {c["id"]: c for c in rec}, "X01")
    return skipped, res.get("extra", [0, 0])


def run(tier):
    t = TIERS[tier]
    rep = lib.Report(PID, tier, "model_checking")
    with lib.Scratch(PID.lower()) as sc:
        at.set_tmpdir(sc.path("files"))
        from concurrent.futures import ThreadPoolExecutor
        pool = ThreadPoolExecutor(max_workers=4)
        jobs = [pool.submit(lib.mc, "MC_Unifier", cfg, sc, workers=max(2, lib.NCPU // 4)) for cfg in t["mc"]]
        negs = [(why, pool.submit(lib.mc, "MC_Unifier", cfg, sc, expect_violation=inv, workers=2)) for cfg, inv, why in NEG]
        cases = un.cases(t["cases"], lib.seed())
        rec = lib.pmap(un.record, cases)
        table = un.component_tables()
        skipped, extra = _validate(rep, rec, sc, table)
        for j in jobs:
            rep.add_mc(j.result(), "the tool's own steps (load, compare with the first file, delete marked positions, count and "
                                   "overwrite identifiers, write) on every small world compute the function of Unifier.tla; "
                                   "InvFunction, InvRefusal, InvEmpty, InvSameShape, InvAtoms", min_actions=ACTIONS)
        for why, j in negs:
            rep.add_mc(j.result(), why, negative_control=True)
        pool.shutdown()
        cov = rep.cov
        cov["exhaustive"] = False
        refused = sum(1 for c in rec if c["exit"] == 1)
        cov["rule"] = (f"{len(cases)} file sets (3 fixed + seeded): 2-4 files of 1-5 nucleotides in PDB / mmCIF, presented "
                       "differently (chain, numbering, insertion codes, two chains, legacy atom names, hydrogens, foreign "
                       "atoms, missing atoms, non-nucleotide residues, shuffled residue blocks and atom order, purine-only "
                       "files), some not comparable (one more nucleotide, one other name); --format keep / PDB / mmCIF; "
                       "unifier.main run in-process, outputs read back by the harness's tokenizers; x carries the identity "
                       "of each atom line.  Non-trivial = distinct comparable file set with at least one removed position or "
                       "one overwritten identifier.")
        import json
        def nontrivial(c):
            return c["exit"] == 0 and any(len(o["res"]) < sum(1 for r in f["res"] if r["rn"] in un.HEAVY)
                                          or [(r["ch"], r["num"], r["ic"]) for r in o["res"]] !=
                                          [(r["ch"], r["num"], r["ic"]) for r in f["res"] if r["rn"] in un.HEAVY][:len(o["res"])]
                                          for o, f in zip(c["outs"], c["files"]))
        cov["distinct_nontrivial"] = len({json.dumps(c["files"], sort_keys=True) for c in rec if nontrivial(c)})
        cov["refusals_recorded"] = refused
        cov["cases_skipped_outside_domain"] = len(skipped)
        cov["samples"] = [rec[0]]
        rep.assumptions += [
            "the harness's emitters write the abstract files faithfully (checked for C08/C15 by the emitter round trip); "
            "the x coordinate (milli-Angstrom) identifies each atom line in the outputs",
            "scope (InDomain): single-character chains, residue ids once per file, no nucleotide with both spellings of one "
            "atom, at least one surviving position; a run in which no position survives ends in an exception as implemented "
            "(negative control MC_Unifier_neg_empty) and is skipped",
            "in mmCIF outputs the author's atom name (auth_atom_id) is read where the loop has one: the tool renames that "
            "column only, label_atom_id keeps the legacy spelling (design observation, not judged)",
            "this area lies beyond the 20 listed properties: it is not claimed in MANIFEST.json",
        ]
        if len(skipped) > len(cases) // 4:
            raise lib.MachineryError(f"{len(skipped)} of {len(cases)} generated file sets fall outside the spec's domain")
    return rep.finish()


def replay(doc):
    case = doc.get("case")
    if not case:
        print(doc.get("tlc_output_tail", ""))
        return run("quick")
    rep = lib.Report(PID, "quick", "model_checking", evidence=False)
    with lib.Scratch("x01r") as sc:
        at.set_tmpdir(sc.path("files"))
        rec = un.record({k: case[k] for k in ("id", "kind", "opt", "files")})
        res = lib.trace_validate("Trace_Unifier", "Trace_Unifier.cfg", [rec], sc, chunks=1,
                                 extra_doc={"table": un.component_tables()})
        res["verdicts"] = [v for v in res["verdicts"] if v[1] != "skip"]
        rep.add_trace(res, {rec["id"]: rec}, "X01")
        rep.cov["samples"] = [rec]
        rep.cov["distinct_nontrivial"] = 1
    return rep.finish()
