SPECIFICATION Spec
CONSTANT Mode = "dssr"
CONSTANT McAlphabet = {"c"}
CONSTANT McMaxLen = 0
CONSTANT McUnitKinds = {"plain"}
CONSTANT McTabKinds = {"three"}
CONSTANT McLabelKinds = {"lw"}
CONSTANT McWraps = {"none"}
CONSTANT MaxLines = 0
CONSTANT Contained = {"ValueError", "IndexError"}
CONSTANT McNameKinds = {"exact", "prefixed", "wrongnumber", "wrongchain", "lowername", "nochain", "labelnumber", "noslash", "extraicode", "empty", "absent"}
CONSTANT McLwKinds = {"valid", "lower", "dotted", "dashes", "empty", "absent", "null", "reverse", "name", "dunder"}
CONSTANT MaxPairs = 1
CONSTANT McStackKinds = {"exact", "prefixed", "wrongnumber", "empty"}
CONSTANT MaxStackLen = 4
CONSTANT MaxStacks = 0
CONSTANT LwTest = "members"
INVARIANT DssrPairsExact
INVARIANT DssrStacksExact
CHECK_DEADLOCK FALSE
