---------------------------- MODULE Trace_Elements ----------------------------
(* Trace validation for C07: the element lists the real code returned (BpSeq.elements, and
   the lines printed by motif_extractor.main) against the declarative clauses of Elements. *)
EXTENDS Elements, Json, IOUtils

Doc   == JsonDeserialize(IOEnv.TRACE_FILE)
Trace == Doc.cases
VARIABLES idx, cnt
vars == <<idx, cnt>>

Verdict(c) ==
  LET m == PairSet(c.pairs) IN
  IF ~IsMatching(m, c.n) \/ Len(c.seq) # c.n THEN <<"fail", "InputIsMatching", "harness">>
  ELSE IF c.el.err # "" THEN <<"fail", "NoException", c.source>>
  ELSE IF c.db.err # "" THEN <<"fail", "NoException", "dot_bracket">>
  ELSE IF Len(c.db.db) # c.n \/ ~AlphabetOK(c.db.db) THEN <<"fail", "DotBracketLossless", "dot_bracket">>
  ELSE IF Decode(c.db.db).pairs # m THEN <<"fail", "DotBracketLossless", "dot_bracket">>
  ELSE LET f == ElementsFail(m, c.n, c.seq, c.db.db, c.el) IN
       IF f = "ok" THEN <<"ok">>
       ELSE IF f = "UnpairedCoveredOnce" /\ PairlessHasNoElements(m, c.n, c.el)
            THEN <<"deviation", "PairlessHasNoElements", c.source>>
       ELSE <<"fail", f, c.source>>

Init == idx = 0 /\ cnt = [ok |-> 0, deviation |-> 0, fail |-> 0]
Next ==
  /\ idx < Len(Trace)
  /\ idx' = idx + 1
  /\ LET c == Trace[idx']  v == Verdict(c) IN
     /\ cnt' = [cnt EXCEPT ![v[1]] = @ + 1]
     /\ (v[1] = "ok" \/ PrintT(<<"V", c.id>> \o v))
  /\ (idx' < Len(Trace) \/ PrintT(<<"SUMMARY", Len(Trace), cnt'.ok, cnt'.deviation, cnt'.fail>>))
Spec == Init /\ [][Next]_vars
=============================================================================
