----------------------------- MODULE Trace_Clash -----------------------------
(***************************************************************************)
(* Trace validation for C17 (rnapolis.clashfinder).  One TLC state per     *)
(* recorded case; a case is what the real code returned / printed for one  *)
(* input; every judgement is made here.                                    *)
(*                                                                         *)
(*  kind "pal": atoms on the point palette (integer coordinate x, 0.01 A,  *)
(*              on one line); distances are decided exactly by TLC.        *)
(*  kind "geo": arbitrary coordinates; c.close = every atom pair nearer    *)
(*              than Cutoff with its distance in micro-A as measured by    *)
(*              the independent O(n^2) measurer, trusted up to GeoTol.     *)
(*       both:  c.results = for each option combination tried, what        *)
(*              find_clashes returned: err, list of <<ri, ai, rj, aj, sum>>*)
(*  kind "cli": clashfinder.main run on a file: c.lib = the list main got  *)
(*              from find_clashes (in order), c.printed = parsed stdout    *)
(*              (chain blocks > residue blocks > atom lines)               *)
(*  kind "csv": main run with --csv: c.rows = parsed CSV, c.printed_atoms  *)
(*              = the atom clashes printed on stdout                       *)
(***************************************************************************)
EXTENDS Clash, Json, IOUtils, TLC

CONSTANT GeoTol      \* micro-A: measured distances within GeoTol of a threshold are not judged

Doc   == JsonDeserialize(IOEnv.TRACE_FILE)
Trace == Doc.cases

VARIABLES idx, cnt
vars == <<idx, cnt>>

Abs(v) == IF v < 0 THEN 0 - v ELSE v
StructOf(c) == [atoms |-> c.atoms, res |-> c.res]
NA(c) == Len(c.atoms)
NR(c) == Len(c.res)

CloseOf(c) ==
  IF c.kind = "pal"
  THEN { <<p[1], p[2], Abs(c.atoms[p[1]].x - c.atoms[p[2]].x) * UM>> :
           p \in { q \in (1..NA(c)) \X (1..NA(c)) :
                     q[1] < q[2] /\ Abs(c.atoms[q[1]].x - c.atoms[q[2]].x) <= Cutoff } }
  ELSE { <<t[1], t[2], t[3]>> : t \in SeqRange(c.close) }
TolOf(c) == IF c.kind = "pal" THEN 0 ELSE GeoTol

InputWellFormed(c) ==
  /\ \A i \in 1..NA(c) : c.atoms[i].r \in 1..NR(c) /\ c.atoms[i].occ \in 0..100
  /\ c.kind = "pal" \/ \A t \in SeqRange(c.close) : t[1] \in 1..NA(c) /\ t[2] \in 1..NA(c) /\ t[1] < t[2] /\ t[3] >= 0

\* ---------------------------------------------------------------- library results
EntryKnown(c, e) == e[1] \in 1..NR(c) /\ e[3] \in 1..NR(c) /\ e[2] \in 1..NA(c) /\ e[4] \in 1..NA(c)

\* first failing clause of one result R = [o, err, list] under an occupancy mode, or <<"ok">>
ResultFail(c, close, mode, R) ==
  LET S == StructOf(c)  L == R.list IN
  IF R.err # "" THEN <<"NoException", R.err>>
  ELSE IF \E e \in SeqRange(L) : ~EntryKnown(c, e) THEN <<"ListedAtomsKnown", "">>
  ELSE IF \E e \in SeqRange(L) : S.atoms[e[2]].r # e[1] \/ S.atoms[e[4]].r # e[3] THEN <<"ResidueOfAtom", "">>
  ELSE IF ~EachPairOnce(L) THEN <<"EachPairOnce", "">>
  ELSE IF ~(MustList(S, close, TolOf(c), R.o, mode) \subseteq ListedPairs(L)) THEN <<"ClashSetExact", "missing">>
  ELSE IF ~(ListedPairs(L) \subseteq MayList(S, close, TolOf(c), R.o, mode)) THEN <<"ClashSetExact", "extra">>
  ELSE <<"ok">>

LibFail(c, mode) ==
  LET close == CloseOf(c)
      bad == { k \in 1..Len(c.results) : ResultFail(c, close, mode, c.results[k])[1] # "ok" } IN
  IF bad = {} THEN <<"ok">>
  ELSE LET k == CHOOSE x \in bad : \A y \in bad : x <= y
           f == ResultFail(c, close, mode, c.results[k]) IN <<f[1], <<k, f[2]>>>>

HasZeroOccupancy(c) == \E i \in 1..NA(c) : c.atoms[i].hasocc /\ c.atoms[i].occ = 0

\* Named deviation ZeroOccupancyCountedAsFull: `(occupancy or 1.0)` - an occupancy of exactly 0.0
\* counts as 1.0.  Explains a case exactly when EVERY result of the case is what the definition
\* gives with that (and only that) change.
LibVerdict(c) ==
  IF ~InputWellFormed(c) THEN <<"fail", "InputWellFormed", "harness">>
  ELSE LET f == LibFail(c, "required") IN
       IF f[1] = "ok" THEN <<"ok">>
       ELSE IF f[1] = "ClashSetExact" /\ HasZeroOccupancy(c) /\ LibFail(c, "falsy_is_full")[1] = "ok"
            THEN <<"deviation", "ZeroOccupancyCountedAsFull", f[2]>>
       ELSE <<"fail", f[1], f[2]>>

\* ---------------------------------------------------------------- command line output
\* The parsed stdout of main, flattened by the line structure (indentation = nesting):
\*   c.chains    = Seq of <<ci, cj, max>>            "Clashes found in chain / between chains"
\*   c.residues  = Seq of <<b, ri, rj, max>>          b  = index of the enclosing chain line
\*   c.atomlines = Seq of <<rb, ai, aj, sum>>         rb = index of the enclosing residue line
\* residue / atom indices refer to the structure as main read it (0 = name not found there)
EntryOfLine(c, t) == LET rb == c.residues[t[1]] IN <<rb[2], t[2], rb[3], t[3], t[4]>>
PrintedEntries(c) == [k \in 1..Len(c.atomlines) |-> EntryOfLine(c, c.atomlines[k])]
Count(s, e) == Cardinality({ k \in 1..Len(s) : s[k] = e })
SameBag(s, t) == /\ Len(s) = Len(t)
                 /\ \A e \in SeqRange(s) \cup SeqRange(t) : Count(s, e) = Count(t, e)

PrintedParsed(c) ==
  /\ c.unparsed = 0
  /\ \A k \in 1..Len(c.residues) : c.residues[k][1] \in 1..Len(c.chains)
                                   /\ c.residues[k][2] \in 1..NR(c) /\ c.residues[k][3] \in 1..NR(c)
  /\ \A k \in 1..Len(c.atomlines) : c.atomlines[k][1] \in 1..Len(c.residues)
                                    /\ c.atomlines[k][2] \in 1..NA(c) /\ c.atomlines[k][3] \in 1..NA(c)
PrintedGrouping(c) ==
  /\ \A k \in 1..Len(c.atomlines) : LET e == EntryOfLine(c, c.atomlines[k]) IN
        c.atoms[e[2]].r = e[1] /\ c.atoms[e[4]].r = e[3]
  /\ \A k \in 1..Len(c.residues) : LET rb == c.residues[k]  cb == c.chains[rb[1]] IN
        \* (a heading names an unordered pair of chains: "A and B" may hold residues of B and A)
        \/ c.res[rb[2]].chain = cb[1] /\ c.res[rb[3]].chain = cb[2]
        \/ c.res[rb[2]].chain = cb[2] /\ c.res[rb[3]].chain = cb[1]
  /\ \A k1 \in 1..Len(c.chains) : \A k2 \in 1..Len(c.chains) :
        k1 # k2 => <<c.chains[k1][1], c.chains[k1][2]>> # <<c.chains[k2][1], c.chains[k2][2]>>
  /\ \A k1 \in 1..Len(c.residues) : \A k2 \in 1..Len(c.residues) :
        k1 # k2 => <<c.residues[k1][2], c.residues[k1][3]>> # <<c.residues[k2][2], c.residues[k2][3]>>
SumsUnderResidue(c, rb) == { c.atomlines[k][4] : k \in { x \in 1..Len(c.atomlines) : c.atomlines[x][1] = rb } }
SumsUnderChain(c, b) == UNION { SumsUnderResidue(c, rb) : rb \in { x \in 1..Len(c.residues) : c.residues[x][1] = b } }
ResidueMaxima(c) == \A rb \in 1..Len(c.residues) :
                       SumsUnderResidue(c, rb) # {} /\ c.residues[rb][4] = MaxOf(SumsUnderResidue(c, rb))
ChainMaxima(c) == \A b \in 1..Len(c.chains) :
                       SumsUnderChain(c, b) # {} /\ c.chains[b][3] = MaxOf(SumsUnderChain(c, b))

\* Named deviation ChainMaxIsLastClash: main refreshes max_occupancy_chains from
\* max_occupancy_residues.get(<chain key>, 0.0), which is always 0.0, so the value printed for a
\* chain pair is the occupancy sum of the LAST clash of that chain pair in the order main received
\* them from find_clashes - not the maximum.
LastOfChain(c, ck) == LET ks == { k \in 1..Len(c.lib) : ChainKey(StructOf(c), c.lib[k]) = ck } IN
                      c.lib[CHOOSE k \in ks : \A y \in ks : y <= k]
ChainMaxIsLastClash(c) ==
  \A b \in 1..Len(c.chains) :
     LET ck == <<c.chains[b][1], c.chains[b][2]>> IN
     /\ \E k \in 1..Len(c.lib) : ChainKey(StructOf(c), c.lib[k]) = ck
     /\ c.chains[b][3] = LastOfChain(c, ck)[5]

CliVerdict(c) ==
  IF c.err # "" THEN <<"fail", "NoException", c.err>>
  ELSE IF \E e \in SeqRange(c.lib) : ~EntryKnown(c, e) THEN <<"fail", "ListedAtomsKnown", "harness">>
  ELSE IF ~PrintedParsed(c) THEN <<"fail", "PrintedParsed", "stdout">>
  ELSE IF ~SameBag(PrintedEntries(c), c.lib) THEN <<"fail", "PrintedListsSame", "stdout">>
  ELSE IF ~PrintedGrouping(c) THEN <<"fail", "PrintedGrouping", "stdout">>
  ELSE IF ~ResidueMaxima(c) THEN <<"fail", "ResidueMaxima", "stdout">>
  ELSE IF ChainMaxima(c) THEN <<"ok">>
  ELSE IF ChainMaxIsLastClash(c) THEN <<"deviation", "ChainMaxIsLastClash", "stdout">>
  ELSE <<"fail", "ChainMaxima", "stdout">>

\* ---------------------------------------------------------------- --csv
\* c.rows / c.printed_atoms = Seq of <<ri, ai, rj, aj, sum>> (indices in the structure as read);
\* with no clash at all the tool writes no file, which lists the same (empty) set.
\* Named deviation CsvMetadataReadFromPath: the --csv branch calls read_metadata(args.input, ...)
\* with the path string where an open file is expected: AttributeError after the report has been
\* printed, and no CSV file.
CsvVerdict(c) ==
  IF c.err = "" THEN
       IF \E e \in SeqRange(c.rows) \cup SeqRange(c.printed_atoms) : ~EntryKnown(c, e)
       THEN <<"fail", "PrintedParsed", "csv">>
       ELSE IF c.csv_exists /\ ~c.header_ok THEN <<"fail", "CsvHeader", "csv">>
       ELSE IF c.csv_exists /\ SameBag(c.rows, c.printed_atoms) THEN <<"ok">>
       ELSE IF ~c.csv_exists /\ c.printed_atoms = <<>> THEN <<"ok">>
       ELSE <<"fail", "CsvListsSame", "csv">>
  ELSE IF c.err = "AttributeError" /\ ~c.csv_exists /\ c.printed_atoms # <<>>
       THEN <<"deviation", "CsvMetadataReadFromPath", "csv">>
  ELSE <<"fail", "NoException", c.err>>

\* ---------------------------------------------------------------- --csv, residues that print alike
\* Two different residues may print the same name (symmetry mates that keep the author chain id): the report
\* and the CSV then cannot be mapped back to atoms, but they still list the same NUMBER of clashes as the
\* library returned (c.nlib), each pair once: c.nprinted report lines, c.ncsv CSV rows.
CsvCountVerdict(c) ==
  IF c.err # "" THEN <<"fail", "NoException", c.err>>
  ELSE IF c.nprinted # c.nlib THEN <<"fail", "PrintedListsSame", "count">>
  ELSE IF c.nlib > 0 /\ ~c.csv_exists THEN <<"fail", "CsvListsSame", "no file">>
  ELSE IF c.csv_exists /\ c.ncsv # c.nlib THEN <<"fail", "CsvListsSame", "count">>
  ELSE <<"ok">>

\* ---------------------------------------------------------------- dispatch
Verdict(c) == IF c.kind \in {"pal", "geo"} THEN LibVerdict(c)
              ELSE IF c.kind = "cli" THEN CliVerdict(c)
              ELSE IF c.kind = "csvcount" THEN CsvCountVerdict(c)
              ELSE CsvVerdict(c)
Evaluations(c) == IF c.kind \in {"pal", "geo"} THEN Len(c.results) ELSE 1

Init == idx = 0 /\ cnt = [ok |-> 0, deviation |-> 0, fail |-> 0, evals |-> 0]

Next ==
  /\ idx < Len(Trace)
  /\ idx' = idx + 1
  /\ LET c == Trace[idx']  v == Verdict(c) IN
     /\ cnt' = [cnt EXCEPT ![v[1]] = @ + 1, !.evals = @ + Evaluations(c)]
     /\ (v[1] = "ok" \/ PrintT(<<"V", c.id>> \o v))
  /\ (idx' < Len(Trace) \/ PrintT(<<"SUMMARY", Len(Trace), cnt'.ok, cnt'.deviation, cnt'.fail, cnt'.evals>>))

Spec == Init /\ [][Next]_vars
=============================================================================
