"""Area Pipeline (growth beyond the listed properties): runs of rnapolis.annotator.main with option sets,
projection of everything one run wrote.  The harness never judges: TLC does (specs/Trace_Pipeline.tla)."""
import contextlib
import csv
import io
import json
import os
import shutil
import sys
import warnings

from . import lib, annot

FILES_QUICK = ["1A1T_1_B.cif", "1E7K_1_C.cif", "4qln.pdb", "1ehz-assembly-1.cif", "488d.pdb", "6RS3.cif", "2HY9.cif"]
FILE_OPTS = {"csv": "--csv", "json": "--json", "bpseq": "--bpseq", "pml": "--pml", "inter-stem-csv": "--inter-stem-csv",
             "stems-csv": "--stems-csv"}
OPTION_SETS = [
    ["json"],
    ["json", "extended"],
    ["json", "all-dot-brackets"],
    ["json", "extended", "all-dot-brackets", "bpseq"],
    ["json", "csv", "bpseq", "pml", "inter-stem-csv", "stems-csv"],
    ["json", "find-gaps", "stems-csv", "bpseq"],
    ["json", "all-dot-brackets", "stems-csv", "inter-stem-csv"],
]


def cases(files):
    out = []
    for f in files:
        if not os.path.exists(os.path.join(lib.REPO, "tests", f)):
            continue
        for k, opts in enumerate(OPTION_SETS):
            out.append({"id": f"{f}-o{k}", "file": f, "opts": opts})
    return out


def _chars(s):
    return list(s)


def _entries(text):
    out = []
    for line in text.splitlines():
        t = line.split()
        if len(t) == 3:
            out.append([int(t[0]), t[1], int(t[2])])
    return out


def _strands(text):
    lines = text.splitlines()
    return [[_chars(lines[k]), _chars(lines[k + 1]), _chars(lines[k + 2])] for k in range(0, len(lines) - 2, 3)]


def record(case, workroot):
    warnings.simplefilter("ignore")
    annot.quiet()
    c = {"id": case["id"], "file": case["file"], "opts": list(case["opts"]), "err": ""}
    d = os.path.join(workroot, f"pl-{os.getpid()}-{case['id']}")
    shutil.rmtree(d, ignore_errors=True)
    os.makedirs(d)
    paths = {o: os.path.join(d, "out." + o.replace("-", "_")) for o in FILE_OPTS}
    argv = ["annotator", os.path.join(lib.REPO, "tests", case["file"])]
    for o in case["opts"]:
        if o in FILE_OPTS:
            argv += [FILE_OPTS[o], paths[o]]
        else:
            argv.append("--" + o)
    from rnapolis import annotator
    so = io.StringIO()
    old, cwd = sys.argv, os.getcwd()
    sys.argv = argv
    try:
        os.chdir(d)
        with contextlib.redirect_stdout(so), contextlib.redirect_stderr(io.StringIO()):
            annotator.main()
    except SystemExit as e:
        c["err"] = "" if e.code in (0, None) else f"SystemExit({e.code})"
    except Exception as e:
        c["err"] = type(e).__name__
    finally:
        sys.argv = old
        os.chdir(cwd)
    c["exists"] = {o: os.path.exists(p) for o, p in paths.items()}
    c["stdout"] = [_chars(x) for x in so.getvalue().splitlines()]
    c["fb"], c["stems"], c["inter"], c["names"] = [], [], 0, []
    c["j"] = {"bpseq": [], "db": [], "ext": [], "stems": [], "pairs": [], "ninter": 0}
    try:
        if c["exists"]["bpseq"]:
            with open(paths["bpseq"]) as f:
                c["fb"] = _entries(f.read())
        if c["exists"]["json"]:
            with open(paths["json"]) as f:
                j = json.load(f)
            nm = lambda nt: annot.full_name(nt.get("label"), nt.get("auth"))
            c["j"] = {"bpseq": _entries(j["bpseq"]), "db": _strands(j["dotBracket"]),
                      "ext": [_chars(x) for x in j["extendedDotBracket"].splitlines()],
                      "stems": [[s["strand5p"]["first"], s["strand5p"]["last"], s["strand3p"]["first"], s["strand3p"]["last"],
                                 s["strand5p"]["sequence"], s["strand3p"]["sequence"]] for s in j["stems"]],
                      "pairs": [[nm(b["nt1"]), nm(b["nt2"]), b["lw"]] for b in j["baseInteractions"]["basePairs"]],
                      "ninter": len(j.get("interStemParameters") or [])}
        if c["exists"]["stems-csv"]:
            with open(paths["stems-csv"], newline="") as f:
                rows = list(csv.DictReader(f))
            c["stems"] = [[int(r["stem_idx"]), r["strand5p_first_nt_id"], r["strand5p_last_nt_id"], r["strand3p_first_nt_id"],
                           r["strand3p_last_nt_id"], r["strand5p_sequence"], r["strand3p_sequence"]] for r in rows]
        if c["exists"]["inter-stem-csv"]:
            with open(paths["inter-stem-csv"], newline="") as f:
                c["inter"] = len(list(csv.DictReader(f)))
        if "find-gaps" not in case["opts"]:
            # the nucleotide behind every BPSEQ index: nucleotides of the first model in file order (what that order
            # and the reader's residues are is the business of C06 / C08)
            from rnapolis.parser import read_3d_structure
            from rnapolis.util import handle_input_file
            s3 = read_3d_structure(handle_input_file(os.path.join(lib.REPO, "tests", case["file"])), None)
            c["names"] = [annot.full_name(_asdict(r.label), _asdict(r.auth)) for r in s3.residues if r.is_nucleotide]
    except Exception as e:       # an unreadable artefact is an answer of the tool
        c["err"] = "Unreadable" + type(e).__name__
    shutil.rmtree(d, ignore_errors=True)
    return c


def _asdict(x):
    if x is None:
        return None
    return {k: getattr(x, k) for k in x.__dataclass_fields__}
