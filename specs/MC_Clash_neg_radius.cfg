SPECIFICATION Spec
CONSTANT NAtoms = 3
CONSTANT MTypes = {"P"}
CONSTANT MOccs = {100}
CONSTANT MGaps = {100}
CONSTANT MNuc1 = {TRUE}
CONSTANT MLastFixed = FALSE
CONSTANT MMidRes = {2}
CONSTANT OccDefault = "none_only"
CONSTANT ChainFoldReads = "chain_map"
CONSTANT CsvMetadataArg = "file"
CONSTANT MaxRadiusOver = "carbon"
INVARIANT InvKDTreeComplete
CHECK_DEADLOCK FALSE
