SPECIFICATION Spec
CONSTANT MaxLines = 4
CONSTANT KeyIds = {1, 2, 3, 4, 5}
CONSTANT PointIds = {1, 2, 3, 4}
CONSTANT V2SortUsesIcode = TRUE
CONSTANT V2BondMilli = 2415
INVARIANT ReadersAgree
CHECK_DEADLOCK FALSE
