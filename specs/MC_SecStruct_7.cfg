SPECIFICATION Spec
CONSTANT N = 7
INVARIANT ScanMatchesDeclarative
INVARIANT Lossless
INVARIANT MilpOptimal
INVARIANT FcfsStable
INVARIANT PermStable
INVARIANT L1
INVARIANT L2
INVARIANT L4
INVARIANT L5
INVARIANT L6
CHECK_DEADLOCK FALSE
