"""Case generation and recording for the secondary-structure family (C01 C02 C07 C16).
Materialise abstract cases as BpSeq objects, call the public API, project the answers.
No judgement happens here."""
import json
import os
import random

from . import lib

OPEN = "([{<ABCDEFGHIJKLMNOPQRSTUVWXYZ"
CLOSE = ")]}>abcdefghijklmnopqrstuvwxyz"
LETTERS = "ACGU"
ODD_LETTERS = "?NnXTt"      # placeholders the library itself writes ('?' for a residue missing at a chain break), IUPAC N, DNA


def _sequence(rng, n):
    """A sequence over ACGU; every seventh one also carries letters beyond them."""
    odd = rng.random() < 1 / 7
    return [rng.choice(ODD_LETTERS) if odd and rng.random() < 0.2 else rng.choice(LETTERS) for _ in range(n)]


def gen_matchings(maxn, scratch):
    """spec -> code: TLC enumerates every matching on 1..n, n <= maxn (Gen_SecStruct)."""
    out = scratch.path(f"matchings-{maxn}.ndjson")
    cfg = scratch.path(f"Gen_SecStruct_{maxn}.cfg")
    with open(cfg, "w") as f:
        f.write(f"CONSTANT MaxN = {maxn}\n")
    r = lib.tlc("Gen_SecStruct", cfg, workers=1, env={"OUT_FILE": out}, scratch=scratch, xmx="6g", tag="gen")
    if not r["ok"] or not os.path.exists(out):
        raise lib.MachineryError("Gen_SecStruct failed:\n" + r["out"][-2000:])
    cases = []
    with open(out) as f:
        for k, line in enumerate(f):
            d = json.loads(line)
            pairs = sorted([list(p) for p in d["pairs"]])
            cases.append({"id": f"m{d['n']}-{k}", "kind": "bp", "n": d["n"], "pairs": pairs})
    os.remove(out)
    cases.sort(key=lambda c: (c["n"], c["pairs"]))
    for k, c in enumerate(cases):
        c["id"] = f"m{c['n']}-{k}"
        c["seq"] = [LETTERS[(i * 7 + k) % 4] for i in range(c["n"])]
    return cases


def random_structure(rng, n, *, ladder=0, stems=None, maxlen=4):
    """Random matching on 1..n: an optional ladder of `ladder` mutually crossing stems
    (needs exactly `ladder` levels) plus random further stems wherever room is left."""
    free = [True] * (n + 2)
    free[0] = free[n + 1] = False
    pairs = []

    def place(i, j, ln):
        for t in range(ln):
            a, b = i + t, j - t
            if a >= b or not (1 <= a <= n and 1 <= b <= n) or not free[a] or not free[b] or a == b:
                return False
        if i + ln - 1 >= j - ln + 1:
            return False
        for t in range(ln):
            free[i + t] = free[j - t] = False
            pairs.append([i + t, j - t])
        return True

    if ladder:
        # a_1 < ... < a_k < b_1 < ... < b_k, pairs (a_t, b_t), each stem of length 1..2
        width = max(1, min(2, (n // (2 * ladder))))
        start = rng.randint(1, max(1, n - 2 * ladder * width + 1))
        for t in range(ladder):
            ln = rng.randint(1, width)
            a = start + t * width
            b = start + ladder * width + t * width + (width - 1)
            place(a, b, ln)
    k = stems if stems is not None else rng.randint(0, max(1, n // 5))
    tries = 0
    while k > 0 and tries < 50 * (k + 1):
        tries += 1
        i = rng.randint(1, n)
        j = rng.randint(1, n)
        if i > j:
            i, j = j, i
        if j - i < 1:
            continue
        ln = rng.randint(1, maxlen)
        if place(i, j, ln):
            k -= 1
    return sorted(pairs)


def random_cases(count, seed, *, nmin=10, nmax=120, tag="r", ladders=True, stems=None, maxlen=4):
    rng = random.Random(seed)
    cases = []
    for k in range(count):
        n = rng.randint(nmin, nmax)
        ladder = 0
        if ladders and rng.random() < 0.4:
            ladder = rng.randint(2, min(30, n // 2))
            if k % 25 == 0 and n >= 60:
                ladder = 30
        pairs = random_structure(rng, n, ladder=ladder, stems=stems, maxlen=maxlen)
        if max_component(pairs)[0] > 30:   # could need more than 30 levels: outside the statement
            pairs = random_structure(rng, n, ladder=0, stems=stems, maxlen=maxlen)
            if max_component(pairs)[0] > 30:
                pairs = []
        cases.append({"id": f"{tag}{seed}-{k}", "kind": "bp", "n": n, "pairs": pairs,
                      "seq": _sequence(rng, n)})
    return cases


def stem_family_cases(scratch, maxk, lens, mincross, stars, tag="s"):
    """spec -> code, stem level: TLC (Gen_StemFamily) enumerates every arrangement (chord diagram) of
    2..maxk stems with >= mincross crossing stem pairs x every choice of stem lengths from `lens`,
    plus the star structures (one stem crossed by M + 1 others, three levels needed)."""
    out = scratch.path(f"stemfamily-{tag}.ndjson")
    cfg = scratch.path(f"Gen_StemFamily_{tag}.cfg")
    fmt = lambda xs: "{" + ", ".join(str(x) for x in sorted(xs)) + "}"
    with open(cfg, "w") as f:
        f.write(f"CONSTANT MaxK = {maxk}\nCONSTANT Lens = {fmt(lens)}\nCONSTANT MinCross = {mincross}\n"
                f"CONSTANT Stars = {fmt(stars)}\n")
    r = lib.tlc("Gen_StemFamily", cfg, workers=1, env={"OUT_FILE": out}, scratch=scratch, xmx="6g", tag="gensf")
    if not r["ok"] or not os.path.exists(out):
        raise lib.MachineryError("Gen_StemFamily failed:\n" + r["out"][-2000:])
    cases = []
    with open(out) as f:
        for line in f:
            d = json.loads(line)
            cases.append({"kind": "bp", "n": d["n"], "pairs": sorted([list(p) for p in d["pairs"]]),
                          "fam": d["fam"], "arr": d["arr"], "lens": d["lens"], "opt_limit": 40})
    os.remove(out)
    if f'<<"GENERATED", {len(cases)}>>' not in r["out"]:
        raise lib.MachineryError("Gen_StemFamily: number of exported structures differs from the spec's count")
    cases.sort(key=lambda c: (c["fam"], len(c["arr"]), c["arr"], c["lens"]))
    for k, c in enumerate(cases):
        c["id"] = f"{tag}{len(c['arr'])}-{k}"
        c["seq"] = [LETTERS[(i * 5 + k) % 4] for i in range(c["n"])]
    return cases


def knotted_cases(count, seed, *, max_comp=7, tag="k"):
    """Random multi-stem knotted structures whose conflict components stay small enough for the
    spec's brute-force optimum (the spec re-decides feasibility itself)."""
    rng = random.Random(seed * 7919 + 13)
    cases = []
    k = 0
    while len(cases) < count:
        k += 1
        n = rng.randint(12, 60)
        pairs = random_structure(rng, n, ladder=rng.choice([0, 0, 2, 3, 4]), stems=rng.randint(3, 9),
                                 maxlen=rng.randint(1, 4))
        cases.append({"id": f"{tag}{seed}-{k}", "kind": "bp", "n": n, "pairs": pairs,
                      "seq": _sequence(rng, n)})
    return cases


LONG_CLIQUES = ([3, 3, 3, 3, 3], [3, 3, 3, 3, 3, 3, 3], [4, 3, 3, 3, 5, 3], [3, 4, 3, 4, 3, 4, 3, 4])


def clique_cases(tag="q", lens_list=None):
    """Ladders of 6 and 7 mutually crossing stems (letter brackets beyond the four symbol pairs) whose lengths
    are NOT in descending 5'-3' order: first come first served and the optimum differ in the letter levels only."""
    cases = []
    for k, lens in enumerate(lens_list or ([6, 5, 4, 3, 1, 2], [6, 5, 4, 3, 2, 1], [1, 2, 3, 4, 5, 6], [3, 3, 3, 3, 1, 2],
                                           [2, 2, 2, 2, 2, 1, 3], [7, 6, 5, 4, 3, 1, 2])):
        starts5, pos = [], 1
        for ln in lens:
            starts5.append(pos)
            pos += ln + 1
        pos += 2
        pairs = []
        for t, ln in enumerate(lens):
            for u in range(ln):
                pairs.append([starts5[t] + u, pos + ln - 1 - u])
            pos += ln + 1
        n = pos
        cases.append({"id": f"{tag}-{k}", "kind": "bp", "n": n, "pairs": sorted(pairs),
                      "seq": [LETTERS[i % 4] for i in range(n)]})
    return cases


# ------------------------------------------------------------------ recording (real code)

def _bpseq(case):
    from rnapolis.common import BpSeq, Entry
    partner = {}
    for i, j in case["pairs"]:
        partner[i] = j
        partner[j] = i
    return BpSeq([Entry(i, case["seq"][i - 1], partner.get(i, 0)) for i in range(1, case["n"] + 1)])


def _enc(fn):
    try:
        d = fn()
        return {"err": "", "seq": list(d.sequence), "db": list(d.structure)}
    except Exception as e:  # the error path is logged too
        return {"err": type(e).__name__, "seq": [], "db": []}


def stems_of(pairs):
    """Harness-side stem scan, used ONLY to decide which API calls are affordable (the
    enumeration behind all_dot_brackets is factorial in the size of a conflict component)."""
    ps = sorted(map(tuple, pairs))
    have = set(ps)
    return [(i, j) for (i, j) in ps if (i - 1, j + 1) not in have]


def max_component(pairs):
    st = stems_of(pairs)
    parent = list(range(len(st)))

    def find(x):
        while parent[x] != x:
            parent[x] = parent[parent[x]]
            x = parent[x]
        return x
    for a in range(len(st)):
        for b in range(a + 1, len(st)):
            (i, j), (p, q) = st[a], st[b]
            if i < p < j < q or p < i < q < j:
                parent[find(a)] = find(b)
    size = {}
    for a in range(len(st)):
        size[find(a)] = size.get(find(a), 0) + 1
    big = sorted(size.values(), reverse=True)
    perms = 1
    for x in big:
        for y in range(2, x + 1):
            perms *= y
    return (big[0] if big else 0), perms


def record_bp(case, want=("optimal", "fcfs", "all", "text"), all_limit=7, opt_limit=10, perm_limit=1000):
    """Call the public API of one BpSeq object and project the answers."""
    import pulp
    c = dict(case)
    b = _bpseq(case)
    mc, perms = max_component(case["pairs"])
    # the MILP behind dot_bracket is exponential in the size of a clique of crossing stems
    c["optimal_called"] = bool(mc <= case.get("opt_limit", opt_limit))
    c["optimal"] = _enc(lambda: b.dot_bracket) if c["optimal_called"] else {"err": "", "seq": [], "db": []}
    c["fcfs"] = _enc(lambda: b.fcfs)
    c["all_called"] = bool("all" in want and mc <= all_limit and perms <= perm_limit)
    if c["all_called"]:
        try:
            c["all"] = {"err": "", "list": [_enc(lambda d=d: d) for d in b.all_dot_brackets]}
        except Exception as e:
            c["all"] = {"err": type(e).__name__, "list": []}
    else:
        c["all"] = {"err": "", "list": []}
    if "explicit" in want:
        b2 = _bpseq(case)
        c["explicit"] = _enc(lambda: b2.convert_to_dot_bracket(pulp.PULP_CBC_CMD(msg=False)))
    if "text" in want:
        try:
            from rnapolis.common import BpSeq
            text = str(b)
            entries = []
            for line in text.splitlines():
                f = line.split()
                entries.append([int(f[0]), f[1], int(f[2])])
            rb = BpSeq.from_string(text)
            c["text"] = {"err": "", "entries": entries,
                         "reparsed": [[e.index_, e.sequence, e.pair] for e in rb.entries],
                         "equal": bool(rb == b)}
        except Exception as e:
            c["text"] = {"err": type(e).__name__, "entries": [], "reparsed": [], "equal": False}
    return c


def record_db(case):
    """Converse direction: text -> DotBracket -> BpSeq -> text."""
    from rnapolis.common import BpSeq, DotBracket
    c = dict(case)
    c.update({"err": "", "dbpairs": [], "entries": [], "back": {"err": "", "seq": [], "db": []},
              "wopk": {"err": "", "seq": [], "db": []}})
    try:
        d = DotBracket.from_string("".join(case["seq"]), "".join(case["db"]))
        c["dbpairs"] = [list(p) for p in d.pairs]
        b = BpSeq.from_dotbracket(d)
        c["entries"] = [[e.index_, e.sequence, e.pair] for e in b.entries]
    except Exception as e:
        c["err"] = type(e).__name__
        return c
    mc, _ = max_component([[i + 1, j + 1] for i, j in c["dbpairs"]])
    c["back_via"] = "dot_bracket" if mc <= 10 else "fcfs"
    c["back"] = _enc(lambda: b.dot_bracket) if mc <= 10 else _enc(lambda: b.fcfs)
    c["wopk"] = _enc(lambda: d.without_pseudoknots())
    return c


def record_ms(case):
    from rnapolis.common import MultiStrandDotBracket
    c = dict(case)
    c.update({"err": "", "strands": [], "sequence": [], "structure": [], "pairs": []})
    text = ""
    for k, s in enumerate(case["instrands"]):
        if case["headers"]:
            text += f">strand_{k}\n"
        text += "".join(s["sequence"]) + "\n" + "".join(s["structure"]) + "\n"
    try:
        m = MultiStrandDotBracket.from_string(text)
        c["strands"] = [{"first": s.first, "last": s.last, "sequence": list(s.sequence),
                         "structure": list(s.structure)} for s in m.strands]
        c["sequence"] = list(m.sequence)
        c["structure"] = list(m.structure)
        c["pairs"] = [list(p) for p in m.pairs]
    except Exception as e:
        c["err"] = type(e).__name__
    return c


MAPPING_FILES_QUICK = ["1ehz-assembly-1.cif", "4qln.pdb", "1JJP.cif"]
MAPPING_FILES_THOROUGH = MAPPING_FILES_QUICK + ["8btk_B7.cif", "488d.pdb", "1E7K_1_C.cif", "4WTI_1_T-P.cif", "2HY9.cif"]


def record_mapping_all(name):
    """all_dot_brackets through the 3D->2D mapping of a corpus structure.  Two cases per file:
      <name>-map  : the list Mapping2D3D.all_dot_brackets renders (strand texts concatenated per entry),
      <name>-bp   : BpSeq.all_dot_brackets of the mapping's own BPSEQ object, asked AFTER the mapping rendered its
                    list (a shared, cached list must not have been edited by the rendering)."""
    from rnapolis import annotator, parser
    from rnapolis.tertiary import Mapping2D3D
    with open(os.path.join(lib.REPO, "tests", name)) as f:
        s3 = parser.read_3d_structure(f)
    bi = annotator.extract_base_interactions(s3)
    m = Mapping2D3D(s3, bi.basePairs, bi.stackings, False)
    out = []
    try:
        rendered, err = list(m.all_dot_brackets), ""
    except Exception as e:
        rendered, err = [], type(e).__name__
    b = m.bpseq
    n = len(b.entries)
    pairs = sorted([i, j] for i, j in b.pairs.items() if i < j)
    base = {"kind": "bp", "n": n, "pairs": pairs, "seq": [e.sequence for e in b.entries], "optimal_called": True,
            "all_called": True, "optimal": _enc(lambda: b.dot_bracket), "fcfs": _enc(lambda: b.fcfs)}
    texts = []
    for t in rendered:
        lines = t.split("\n")
        seq = "".join(lines[k] for k in range(1, len(lines), 3))
        db = "".join(lines[k] for k in range(2, len(lines), 3))
        texts.append({"err": "", "seq": list(seq), "db": list(db)})
    out.append(dict(base, id=f"xmap-{name}-map", all={"err": err, "list": texts}))
    try:
        lst = {"err": "", "list": [_enc(lambda d=d: d) for d in b.all_dot_brackets]}
    except Exception as e:
        lst = {"err": type(e).__name__, "list": []}
    out.append(dict(base, id=f"xmap-{name}-bp", all=lst))
    return out


def _rec_bp_c01(case):
    return record_bp(case, want=("all", "text"))


def _rec_bp_c02(case):
    return record_bp(case, want=("explicit",))


def _rec_bp_c16(case):
    return record_bp(case, want=("all",))


# ------------------------------------------------------------------ dot-bracket text cases

def balanced_strings(maxlen, types):
    """Every balanced dot-bracket text over `types` bracket types up to length maxlen in which
    brackets of one type are properly nested (crossing between types allowed)."""
    out = []

    def rec(prefix, opens):
        if len(prefix) <= maxlen and all(o == 0 for o in opens):
            out.append("".join(prefix))
        if len(prefix) == maxlen:
            return
        remaining = maxlen - len(prefix)
        if sum(opens) > remaining:
            return
        prefix.append(".")
        rec(prefix, opens)
        prefix.pop()
        for t in range(types):
            if sum(opens) + 1 <= remaining - 1:
                prefix.append(OPEN[t])
                opens[t] += 1
                rec(prefix, opens)
                opens[t] -= 1
                prefix.pop()
            if opens[t] > 0:
                prefix.append(CLOSE[t])
                opens[t] -= 1
                rec(prefix, opens)
                opens[t] += 1
                prefix.pop()

    rec([], [0] * types)
    return out


def db_cases_exhaustive(maxlen, types):
    cases = []
    for k, s in enumerate(balanced_strings(maxlen, types)):
        cases.append({"id": f"d{types}x{maxlen}-{k}", "kind": "db", "db": list(s),
                      "seq": [LETTERS[(i + k) % 4] for i in range(len(s))]})
    return cases


def db_cases_type_pairs():
    """Every bracket type alone and every ordered pair of types, nested and crossing, with unpaired positions
    inside every pair (the decoder keeps one stack per type: a slip that concerns one type, or one type next to
    another, is invisible to strings that use the first few types only)."""
    cases = []
    for t in range(30):
        cases.append({"id": f"dt{t}", "kind": "db", "db": list("." + OPEN[t] + "..." + CLOSE[t] + ".")})
        cases.append({"id": f"dtt{t}", "kind": "db", "db": list(OPEN[t] + "." + OPEN[t] + ".." + CLOSE[t] + "." + CLOSE[t])})
        for u in range(30):
            if u == t:
                continue
            cases.append({"id": f"dx{t}-{u}", "kind": "db",
                          "db": list("." + OPEN[t] + "." + OPEN[u] + ".." + CLOSE[t] + "." + CLOSE[u] + ".")})
            cases.append({"id": f"dn{t}-{u}", "kind": "db",
                          "db": list(OPEN[t] + ".." + OPEN[u] + "." + CLOSE[u] + "." + CLOSE[t])})
    for k, c in enumerate(cases):
        c["seq"] = [LETTERS[(i + k) % 4] for i in range(len(c["db"]))]
    return cases


def db_cases_random(count, seed, *, nmax=100):
    """Random balanced strings over all 30 types (random matchings written with random types;
    within a type the pairs are non-crossing so the stack decoder is unambiguous)."""
    rng = random.Random(seed * 31 + 5)
    cases = []
    for k in range(count):
        n = rng.randint(2, nmax)
        pairs = random_structure(rng, n, ladder=rng.choice([0, 2, 5, 12, 30]) if n >= 60 else 0, maxlen=3)
        # assign types greedily in random vertex order with a random offset -> proper, spread over types
        order = list(range(len(pairs)))
        rng.shuffle(order)
        typ = {}
        for a in order:
            i, j = pairs[a]
            used = set()
            for b, t in typ.items():
                p, q = pairs[b]
                if (i < p < j < q) or (p < i < q < j):
                    used.add(t)
            cand = [t for t in range(30) if t not in used]
            typ[a] = rng.choice(cand[:max(1, rng.randint(1, 6))])
        s = ["."] * n
        for a, (i, j) in enumerate(pairs):
            s[i - 1] = OPEN[typ[a]]
            s[j - 1] = CLOSE[typ[a]]
        cases.append({"id": f"dr{seed}-{k}", "kind": "db", "db": s,
                      "seq": _sequence(rng, n)})
    return cases


def ms_cases(count, seed):
    rng = random.Random(seed * 17 + 3)
    cases = []
    for k in range(count):
        n = rng.randint(2, 40)
        pairs = random_structure(rng, n, maxlen=3)
        s = ["."] * n
        # nested/crossing written through FCFS-like greedy types
        typ = []
        for a, (i, j) in enumerate(pairs):
            used = {typ[b] for b, (p, q) in enumerate(pairs[:a]) if (i < p < j < q) or (p < i < q < j)}
            typ.append(min(t for t in range(30) if t not in used))
        # every fourth case starts its bracket types further up the alphabet (so that "<" ">" and the letter
        # brackets occur) ...
        base = rng.choice([1, 2, 3, 4, 26]) if k % 4 == 3 else 0
        base = min(base, 29 - max(typ)) if typ else 0
        for a, (i, j) in enumerate(pairs):
            s[i - 1], s[j - 1] = OPEN[typ[a] + base], CLOSE[typ[a] + base]
        seq = [rng.choice("ACGUacgun") for _ in range(n)]
        ncuts = rng.randint(0, min(3, n - 1))
        cuts = sorted(rng.sample(range(1, n), ncuts))
        closers = [j - 1 for _, j in pairs if 1 <= j - 1 < n]
        if k % 2 == 1 and closers and ncuts:
            # ... and every second case cuts right in front of a closing bracket: a strand whose structure line
            # BEGINS with a closing bracket (">" is also the header marker of the multi-strand text)
            cuts = sorted(set(cuts[:-1]) | {rng.choice(closers)})
        bounds = [0] + cuts + [n]
        strands = [{"sequence": seq[a:b], "structure": s[a:b]} for a, b in zip(bounds, bounds[1:])]
        cases.append({"id": f"ms{seed}-{k}", "kind": "ms", "instrands": strands, "headers": bool(k % 2)})
    return cases


# ------------------------------------------------------------------ elements (C07)

def _strand(s):
    return {"first": s.first, "last": s.last, "sequence": list(s.sequence), "structure": list(s.structure)}


def record_elements(case):
    c = dict(case)
    c["source"] = "BpSeq.elements"
    b = _bpseq(case)
    d = _enc(lambda: b.dot_bracket)
    c["db"] = {"err": d["err"], "db": d["db"]}
    try:
        stems, singles, hairpins, loops = b.elements
        c["el"] = {"err": "",
                   "stems": [{"s5": _strand(s.strand5p), "s3": _strand(s.strand3p)} for s in stems],
                   "singles": [{"strand": _strand(s.strand), "is5p": bool(s.is5p), "is3p": bool(s.is3p)} for s in singles],
                   "hairpins": [{"strand": _strand(h.strand)} for h in hairpins],
                   "loops": [{"strands": [_strand(s) for s in lp.strands]} for lp in loops]}
    except Exception as e:
        c["el"] = {"err": type(e).__name__, "stems": [], "singles": [], "hairpins": [], "loops": []}
    return c


def record_elements_cli(case):
    """Bind the CLI: motif_extractor.main --bpseq <file>; parse what it prints."""
    import contextlib
    import io
    import sys
    import tempfile
    from rnapolis import motif_extractor
    c = dict(case)
    c["id"] = case["id"] + "-cli" + "".join("+" + o[9:12] for o in case.get("opts", []))
    c["opts"] = list(case.get("opts", []))
    c["source"] = "motif_extractor.main"
    b = _bpseq(case)
    el = {"err": "", "stems": [], "singles": [], "hairpins": [], "loops": []}
    c["db"] = {"err": "", "db": []}
    # every third structure reaches the tool as a dot-bracket file (two or three lines) whose levels are not the ones
    # the library would choose (each level moved up by one): the tool prints ITS notation of the structure and
    # decomposes that
    import zlib
    dbn = zlib.crc32(str(case["id"]).encode()) % 3 == 1
    text = str(b) + "\n"
    if dbn:
        opening, closing = "([{<ABCDEFGHIJKLMNOPQRSTUVWXY", ")]}>abcdefghijklmnopqrstuvwxy"
        own = b.fcfs.structure
        if all(ch == "." or (ch in opening and opening.index(ch) < 28) or (ch in closing and closing.index(ch) < 28) for ch in own):
            up = {**{opening[k]: opening[k + 1] for k in range(28)}, **{closing[k]: closing[k + 1] for k in range(28)}}
            text = (">verif\n" if len(own) % 2 else "") + "".join(case["seq"]) + "\n" + "".join(up.get(ch, ch) for ch in own) + "\n"
        else:
            dbn = False
    c["input"] = "dbn" if dbn else "bpseq"
    with tempfile.NamedTemporaryFile("w", suffix=".dbn" if dbn else ".bpseq", delete=True) as f:
        f.write(text)
        f.flush()
        argv, buf = sys.argv, io.StringIO()
        try:
            sys.argv = ["motif_extractor", "--dbn" if dbn else "--bpseq", f.name] + list(case.get("opts", []))
            with contextlib.redirect_stdout(buf):
                motif_extractor.main()
        except BaseException as e:
            el["err"] = type(e).__name__
        finally:
            sys.argv = argv
    lines = buf.getvalue().splitlines()

    def strands(fields):
        out = []
        for k in range(0, len(fields), 4):
            out.append({"first": int(fields[k]), "last": int(fields[k + 1]),
                        "sequence": list(fields[k + 2]), "structure": list(fields[k + 3])})
        return out
    if el["err"] == "":
        try:
            if len(lines) >= 3 and lines[0].startswith("Full dot-bracket"):
                c["db"]["db"] = list(lines[2])
            for line in lines[3:]:
                f = line.split()
                if f[0] == "Stem":
                    s = strands(f[1:])
                    el["stems"].append({"s5": s[0], "s3": s[1]})
                elif f[0].startswith("SingleStrand"):
                    el["singles"].append({"strand": strands(f[1:])[0], "is5p": "5p" in f[0], "is3p": "3p" in f[0]})
                elif f[0] == "Hairpin":
                    el["hairpins"].append({"strand": strands(f[1:])[0]})
                elif f[0] == "Loop":
                    el["loops"].append({"strands": strands(f[1:])})
        except Exception as e:
            el["err"] = "Unparsable:" + type(e).__name__
    c["el"] = el
    return c
