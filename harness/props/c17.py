"""C17 - Clash detection equals the pairwise van-der-Waals definition."""
import json
import os
import random
from concurrent.futures import ThreadPoolExecutor

from .. import clash, lib

PID = "C17"
TIERS = {
    # pair: sample size of the TLC-enumerated pair family (None = all); multi: random palette configs;
    # geo: corpus windows (count, residues per window); cli: runs of clashfinder.main
    "quick":    dict(mc="MC_Clash_quick.cfg", pair=600, multi=300, geo=(8, 10), cli=(180, 6)),
    "thorough": dict(mc="MC_Clash_thorough.cfg", pair=None, multi=6000, geo=(60, 45), cli=(1500, 12)),
}
NEG = [("MC_Clash_neg_zeroocc.cfg", "InvClashSetExact", "AsImplemented occupancy default `(occupancy or 1.0)`: fails ClashSetExact"),
       ("MC_Clash_neg_chainfold.cfg", "InvChainMaxima", "AsImplemented chain fold reads the residue map: fails ChainMaxima"),
       ("MC_Clash_neg_csvpath.cfg", "InvCsvListsSame", "AsImplemented --csv passes the path to read_metadata: fails CsvListsSame"),
       ("MC_Clash_neg_radius.cfg", "InvKDTreeComplete", "sanity control: KD-tree radius from the carbon radius only loses P-P clashes")]
ALL32 = list(range(32))
_SCRATCH_DIR = None


def _rec_cli(case):
    return clash.record_cli(case, _SCRATCH_DIR)


def _cost(r):
    return (len(r.get("close", [])) + len(r.get("atoms", [])) ** 2 // 8 + 1) * len(r.get("results", [1]))


def _deal(recs, chunks):
    """order the records so that the contiguous slices lib.trace_validate makes carry similar work"""
    srt = sorted(recs, key=_cost, reverse=True)
    return [r for c in range(chunks) for r in srt[c::chunks]]


def build_cases(t, palette, pairs, seed):
    rng = random.Random(seed * 1000003 + 17)
    cutoff = palette["cutoff"] / 100
    lib_cases, dropped = [], 0
    # ---- pair family (TLC-enumerated), sampled in quick
    idx = list(range(len(pairs)))
    if t["pair"] is not None and t["pair"] < len(idx):
        zero = [k for k in idx if pairs[k]["cls"] == "zero"]
        idx = sorted(set(rng.sample(idx, t["pair"])) | set(rng.sample(zero, min(len(zero), t["pair"] // 10))))
    for k in idx:
        c = pairs[k]
        if c["cls"] in ("at", "mpat") and not clash.at_reading_agrees(c["ta"], c["tb"], c["d"], palette):
            dropped += 1
            continue
        ab = clash.pair_to_abstract(c, k)
        lib_cases.append({"id": f"pair-{k}", "kind": "pal", "st": clash.materialise(ab, k), "opts": ALL32,
                          "src": {"ab": ab, "shuffle": k}})
    # ---- multi family (random composition of the exported palettes)
    for k in range(t["multi"]):
        ab = clash.multi_abstract(rng, palette)
        lib_cases.append({"id": f"multi-{seed}-{k}", "kind": "pal", "st": clash.materialise(ab, k), "opts": ALL32,
                          "src": {"ab": ab, "shuffle": k}})
    # ---- crowds: twenty atoms within about 2 A (more neighbours inside the search radius than real structures have)
    for k in range(3):
        ab = clash.crowd_abstract(rng, palette)
        lib_cases.append({"id": f"crowd-{seed}-{k}", "kind": "pal", "st": clash.materialise(ab, k), "opts": ALL32,
                          "src": {"ab": ab, "shuffle": k}})
    # ---- corpus windows, squashed / jittered
    sources = clash.corpus_sources(rng, t["geo"][0], t["geo"][1])
    for k, src in enumerate(sources):
        lib_cases.append({"id": f"geo-{seed}-{k}-{src['file']}", "kind": "geo", "st": clash.corpus_struct(src, palette),
                          "opts": ALL32, "cutoff": cutoff, "src": {"corpus": src}})
    # ---- clashfinder.main on files
    cli_cases = []
    ncli, win = t["cli"]
    k = 0
    while len(cli_cases) < ncli:
        k += 1
        # ignore-occupancy often (the sums then differ), the restrictive filters less often
        opt = sum(1 << b for b, p in enumerate((0.7, 0.3, 0.35, 0.1, 0.5)) if rng.random() < p)
        if k % 2 == 0:
            src = clash.corpus_sources(rng, 1, win, scales=(0.7, 0.8, 0.9))[0]
            if " " in "".join(r["chain"] for r in clash.read_corpus(os.path.join(lib.REPO, "tests", src["file"]))):
                continue
            st, s = clash.corpus_struct(src, palette), {"corpus": src}
        else:
            ab = clash.multi_abstract(rng, palette, dense=(k % 4 == 1))
            if ab["res"][1]["nuc"] and k % 3 != 0:
                ab["res"][1]["lig"] = True      # the tool is often run on files with nucleotide ligands
            st, s = clash.materialise(ab, k), {"ab": ab, "shuffle": k}
            names = [(a["r"], a["name"]) for a in st["atoms"]]
            if len(set(names)) != len(names):
                continue        # repeated atom name in one residue: the READER would merge them (C08's subject)
        fmt = "cif"
        twin = any(r.get("label_chain") for r in st["res"])     # only mmCIF can tell the two mates apart
        if not twin and rng.random() < 0.5:      # PDB cannot express an absent occupancy: write it as full there
            st2 = {"res": st["res"], "atoms": [dict(a, occ=100 if a["occ"] is None else a["occ"]) for a in st["atoms"]]}
            if clash.can_pdb(st2):
                st, fmt = st2, "pdb"
        cli_cases.append({"id": f"main-{seed}-{k}", "st": st, "fmt": fmt, "opt": opt, "cutoff": cutoff, "src": s})
    # ---- symmetry mates: residue 2 is a shifted copy of residue 1 with the same author identity (only the label
    # chain differs), so two different clashes print exactly alike; report, CSV and library must agree on the count
    for k in range(max(6, ncli // 12)):
        ab = clash.multi_abstract(rng, palette, dense=True)
        for tt in ab["test"]:
            tt["r"] = 1
        ab["res"][1]["nuc"] = ab["res"][0]["nuc"]
        ab["res"][1]["twin"] = True
        ab["res"][1]["lig"] = ab["res"][1]["ins"] = False
        st = clash.materialise(ab, k)
        names = [(a["r"], a["name"]) for a in st["atoms"]]
        if len(set(names)) != len(names):
            continue
        cli_cases.append({"id": f"mates-{seed}-{k}", "st": st, "fmt": "cif", "opt": 1 + (16 if k % 2 else 0),
                          "cutoff": cutoff, "src": {"ab": ab, "shuffle": k}})
    return lib_cases, cli_cases, dropped


def _nontrivial(rec):
    lists = {json.dumps(sorted(r["list"])) for r in rec["results"]}
    return len(lists) >= 2


def run(tier):
    global _SCRATCH_DIR
    t = TIERS[tier]
    rep = lib.Report(PID, tier, "model_checking")
    with lib.Scratch(PID.lower()) as sc:
        _SCRATCH_DIR = sc.dir
        import time
        t0, phase = time.time(), {}
        pairs, palette = clash.gen(sc)
        phase["gen"] = round(time.time() - t0, 1)
        lib_cases, cli_cases, dropped = build_cases(t, palette, pairs, lib.seed())
        phase["build"] = round(time.time() - t0, 1)
        recs = lib.pmap(clash.record_lib, lib_cases)
        phase["record_lib"] = round(time.time() - t0, 1)
        trios = lib.pmap(_rec_cli, cli_cases)
        cli_recs = [r for trio in trios for r in trio]
        unusable = sum(1 for trio in trios if not trio)
        if unusable > len(cli_cases) // 4:
            raise lib.MachineryError(f"{unusable} of {len(cli_cases)} CLI inputs have ambiguous printed names")
        phase["record_cli"] = round(time.time() - t0, 1)
        allr = recs + cli_recs
        chunks = max(1, min(lib.NCPU, len(allr) // 20))
        dealt = _deal(allr, chunks)
        with ThreadPoolExecutor(max_workers=6) as ex:
            f_mc = ex.submit(lib.mc, "MC_Clash", t["mc"], sc, timeout=3000)
            f_neg = [ex.submit(lib.mc, "MC_Clash", cfg, sc, expect_violation=inv, workers=2, timeout=3000, xmx="2g")
                     for cfg, inv, _ in NEG]
            def _timed_trace():
                r0 = lib.trace_validate("Trace_Clash", "Trace_Clash.cfg", dealt, sc, chunks=chunks, timeout=3000)
                phase["trace_validation_alone"] = round(time.time() - t0 - phase["record_cli"], 1)
                return r0
            f_tr = ex.submit(_timed_trace)
            r = f_mc.result()
            negs = [f.result() for f in f_neg]
            res = f_tr.result()
        phase["tlc"] = round(time.time() - t0, 1)
        rep.cov["phase_end_s"] = phase
        rep.add_mc(r, "find_clashes (collect, KD-tree query, filter cascade over pairs in any order) and main's "
                      "aggregation fold / report / --csv for every 3-atom configuration x 32 options; clauses as invariants",
                   min_actions=("CollectResidue", "TooFew", "QueryPairs", "ExaminePair", "ExamineDone", "AddClash", "Report"))
        for (cfg, inv, what), rn in zip(NEG, negs):
            rep.add_mc(rn, what, negative_control=True)
        rep.add_trace(res, {c["id"]: c for c in allr}, "C17")
        cov = rep.cov
        nres = sum(len(c.get("results", [1])) for c in allr)
        cov["evaluations"] = nres
        cov["option_results_validated"] = nres
        cov["exhaustive"] = False     # the pair family is complete in thorough, the other families are sampled
        cov["pair_family_complete"] = t["pair"] is None
        cov["pair_family_size"] = len(pairs)
        cov["pair_boundary_cases_not_decided_by_statement"] = dropped
        cov["cases_by_kind"] = {k: sum(1 for c in allr if c["id"].startswith(k)) for k in ("pair", "multi", "geo", "main")}
        cov["listed_clashes_total"] = sum(len(r["list"]) for c in allr for r in c.get("results", []))
        cov["cli_inputs_unusable_ambiguous_names"] = unusable
        cov["cli_runs_with_clashes"] = sum(1 for c in cli_recs if c["kind"] == "cli" and c["atomlines"])
        cov["cli_runs_with_two_different_sums_in_a_chain_pair"] = sum(
            1 for c in cli_recs if c["kind"] == "cli" and any(
                len({a[3] for a in c["atomlines"] if c["residues"][a[0] - 1][0] == b + 1}) > 1 for b in range(len(c["chains"]))))
        seen = set()
        for c in recs:
            if _nontrivial(c):
                seen.add(json.dumps([c["atoms"], c["res"], c["close"]], sort_keys=True))
        cov["distinct_nontrivial"] = len(seen)
        cov["rule"] = (
            f"spec->code: Gen_Clash (TLC) enumerates the pair family ({len(pairs)} two-atom configurations: 15 type pairs x "
            "distance classes just inside / at / just outside the radius sum, strict and MolProbity x residue relation x "
            "nucleotide flags x same/different name x 12 occupancy pairs); "
            + ("all of them" if t["pair"] is None else f"a seeded sample of {t['pair']}") +
            f" + {t['multi']} seeded random 3-5 atom configurations composed from the spec-exported palettes "
            f"+ {t['geo'][0]} windows of corpus structures (/repo/tests) squashed/jittered with palette occupancies; every one "
            f"run through find_clashes with all 32 option combinations; + {len(cli_cases)} runs of clashfinder.main (stdout) "
            "and as many with --csv, on PDB and mmCIF files. Non-trivial = distinct structure whose 32 clash lists are not all "
            "equal (at least one clash exists and at least one option changes the answer).")
        pick = [c for c in recs if c["id"].startswith("multi") and _nontrivial(c)][:1] + \
               [c for c in cli_recs if c["kind"] == "cli" and c["atomlines"]][:1] + \
               [c for c in cli_recs if c["kind"] == "csv" and c["printed_atoms"]][:1]
        cov["samples"] = [_brief(c) for c in pick] or [_brief(recs[0])]
        rep.assumptions += [
            "atoms are typed by the first character of their name (Atom has no element field); single-atom ion residues of "
            "the corpus are left out",
            "Residue3D.is_nucleotide is part of find_clashes' input and is recorded from the input objects",
            "an absent occupancy counts as 1 (baseline transcription of the code's default)",
            "palette cases: coordinates are integer multiples of 0.01 A on one axis, written with 3 decimals; a distance "
            "exactly on a threshold is only generated against the atom at the origin and only where the decimal reading and "
            "the exact comparison of the binary doubles agree (C-P boundary cases are not decided by the statement)",
            "non-palette cases: distances from the independent O(n^2) numpy measurer, pairs within 2e-6 A of a threshold are "
            "not judged; the measurer's list of pairs nearer than 3 A is trusted to be complete",
            "main is run in-process (argv, captured stdout); the list main receives from find_clashes is observed by a "
            "harness-side wrapper on the module attribute; stdout / CSV are parsed by harness regexes",
        ]
    return rep.finish()


def _brief(c):
    d = {k: v for k, v in c.items() if k not in ("close", "results", "src")}
    if "results" in c:
        d["results"] = [r for r in c["results"] if r["list"]][:2]
        d["n_results"] = len(c["results"])
    if "close" in c:
        d["n_close"] = len(c["close"])
    if len(d.get("atoms", [])) > 12:
        d["atoms"] = d["atoms"][:12] + ["..."]
    return d


def replay(doc):
    """Re-record the failing case against the current tree and re-validate it."""
    global _SCRATCH_DIR
    case = doc.get("case")
    if not case:
        print(doc.get("tlc_output_tail", ""))
        return run("quick")
    rep = lib.Report(PID, "quick", "model_checking", evidence=False)
    with lib.Scratch("c17r") as sc:
        _SCRATCH_DIR = sc.dir
        _, palette = clash.gen(sc)
        src = case["src"]
        st = clash.materialise(src["ab"], src["shuffle"]) if "ab" in src else clash.corpus_struct(src["corpus"], palette)
        cutoff = palette["cutoff"] / 100
        if case["id"].startswith(("main", "mates")):
            base = case["id"].rsplit("/", 1)[0]
            trio = clash.record_cli({"id": base, "st": st, "fmt": src["fmt"], "opt": src["opt"], "cutoff": cutoff,
                                     "src": {k: v for k, v in src.items() if k not in ("fmt", "opt")}}, sc.dir)
            rec = [r for r in trio if r["id"] == case["id"]][0]
        else:
            rec = clash.record_lib({"id": case["id"], "kind": case["kind"], "st": st, "cutoff": cutoff,
                                    "opts": [clash.OPTIONS.index(r["o"]) for r in case["results"]], "src": src})
        res = lib.trace_validate("Trace_Clash", "Trace_Clash.cfg", [rec], sc, chunks=1)
        rep.add_trace(res, {rec["id"]: rec}, "C17")
        rep.cov["samples"] = [_brief(rec)]
        rep.cov["distinct_nontrivial"] = 1
    return rep.finish()
