SPECIFICATION Spec
CONSTANT Family = "C01"
CONSTANT MaxBFStems = 7
CONSTANT MaxBFSpace = 100000
CHECK_DEADLOCK FALSE
