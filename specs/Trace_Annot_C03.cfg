SPECIFICATION Spec
CONSTANT Family = "C03"
CHECK_DEADLOCK FALSE
