---------------------------- MODULE Trace_FitPdb ----------------------------
(***************************************************************************)
(* Trace validation for C10 with the REAL limits (cfg: MaxSerial = 99999,  *)
(* MaxRes = 9999, ChainIds <- RealChainIds = 62 identifiers).  One TLC     *)
(* state per recorded call; predicates are evaluated on the logged table,  *)
(* nothing is enumerated.                                                  *)
(*                                                                         *)
(* kind "small": the whole projected tables are logged                     *)
(*   inp   frame parsed from the harness-emitted mmCIF / PDB text          *)
(*   can   result of can_write_pdb(inp) (canerr = exception name)          *)
(*   err   exception name of fit_to_pdb(inp) ("" = a table was returned)   *)
(*   same  the returned object is the input object                         *)
(*   out   the returned table;  werr / back: write_pdb(out) read back      *)
(* kind "split": the same through splitter.main --format PDB on a one-     *)
(*   model file (err = "ToolReportedError" + errclass when the tool        *)
(*   printed an error and wrote nothing)                                   *)
(* kind "big": tables too large to log (> 9999 residues, > 99999 atoms):   *)
(*   the harness logs column summaries (counts of distinct values and of   *)
(*   distinct <<old, new>> pairs, extrema, digests of the payload columns) *)
(*   and the clauses are evaluated on those numbers.                       *)
(***************************************************************************)
EXTENDS FitPdb, Json, IOUtils

Doc   == JsonDeserialize(IOEnv.TRACE_FILE)
Trace == Doc.cases

VARIABLES idx, cnt
vars == <<idx, cnt>>

UpperSeq == << "A","B","C","D","E","F","G","H","I","J","K","L","M","N","O","P","Q","R","S","T","U","V","W","X","Y","Z" >>
LowerSeq == << "a","b","c","d","e","f","g","h","i","j","k","l","m","n","o","p","q","r","s","t","u","v","w","x","y","z" >>
\* "more than 62 chains": upper-case, lower-case, digits
RealChainIds == [i \in 1..62 |-> IF i <= 26 THEN <<UpperSeq[i]>> ELSE IF i <= 52 THEN <<LowerSeq[i - 26]>> ELSE <<Digit[i - 52]>>]

\* ------------------------------------------------------------------ small tables
IdDiff(a, b) == IF a.serial # b.serial THEN "serial" ELSE IF a.chain # b.chain THEN "chain"
                ELSE IF a.resseq # b.resseq THEN "resseq" ELSE IF a.icode # b.icode THEN "icode" ELSE "ok"
\* written as PDB and read back to the same structure
ReadBackDiff(out, back) ==
  IF Len(back) # Len(out) THEN "rows"
  ELSE LET bad == { i \in 1..Len(out) : IdDiff(out[i], back[i]) # "ok" \/ PayloadDiff(out[i], back[i]) # "ok" } IN
       IF bad = {} THEN "ok"
       ELSE LET i == Min(bad) IN IF IdDiff(out[i], back[i]) # "ok" THEN IdDiff(out[i], back[i]) ELSE PayloadDiff(out[i], back[i])

FirstPayloadDiff(T, out) ==
  LET bad == { i \in 1..Len(T) : PayloadDiff(T[i], out[i]) # "ok" } IN
  IF bad = {} THEN "ok" ELSE PayloadDiff(T[Min(bad)], out[Min(bad)])

\* the code reaches the insertion-code test exactly when the frame is mmCIF-derived, does not fit,
\* and passes the first two feasibility tests (atoms + chains, number of chains)
ReachesIcodeTest(c, T) ==
  /\ c.fmt = "cif" /\ ~AlreadyFits(T)
  /\ Len(T) + Cardinality(ChainSet(T)) <= MaxSerial
  /\ Cardinality(ChainSet(T)) <= Len(ChainIds)

Returned(c, T) ==
  LET out == c.out IN
  IF AlreadyFits(T) THEN
       \* "returned unchanged": equal content (object identity is logged but not demanded)
       \* through the splitter the table comes back as PDB text: the same atoms, identifiers and fields in the PDB
       \* vocabulary (no label_* items, charge compared by value)
       IF c.kind = "split"
       THEN (IF Len(out) = Len(T) /\ \A i \in Idx(T) : IdDiff(T[i], out[i]) = "ok" /\ PayloadDiff(T[i], out[i]) = "ok"
             THEN <<"ok">> ELSE <<"fail", "IdentityWhenFits", "changed">>)
       ELSE IF ~Unchanged(T, out) THEN <<"fail", "IdentityWhenFits", "changed">>
       ELSE <<"ok">>
  ELSE IF ~Fits(out) THEN
       <<"fail", "FitsOrValueError",
         IF \E i \in Idx(out) : out[i].serial > MaxSerial THEN "serial"
         ELSE IF \E i \in Idx(out) : Len(out[i].chain) # 1 THEN "chain" ELSE "resseq">>
  ELSE IF Len(out) # Len(T) THEN <<"fail", "OrderAndFieldsKept", "rows">>
  ELSE IF FirstPayloadDiff(T, out) # "ok" THEN <<"fail", "OrderAndFieldsKept", FirstPayloadDiff(T, out)>>
  ELSE IF ~ChainsBijective(T, out) THEN <<"fail", "RenamingBijective", "chains">>
  ELSE IF ~ResiduesBijective(T, out) THEN <<"fail", "RenamingBijective", "residues">>
  ELSE IF ~SerialsDistinct(out) THEN <<"fail", "SerialsDistinct", "serial">>
  ELSE <<"ok">>

Small(c) ==
  LET T == c.inp IN
  IF c.canerr # "" THEN <<"fail", "CanWriteNoException", c.canerr>>
  ELSE IF c.kind = "small" /\ c.can # AlreadyFits(T) THEN <<"fail", "CanWriteExact", IF c.can THEN "true" ELSE "false">>
  ELSE IF c.err = "" THEN
       LET r == Returned(c, T) IN
       IF r[1] # "ok" THEN r
       ELSE IF c.werr # "" THEN <<"fail", "WriteReadBack", c.werr>>
       ELSE IF ReadBackDiff(c.out, c.back) # "ok" THEN <<"fail", "WriteReadBack", ReadBackDiff(c.out, c.back)>>
       ELSE <<"ok">>
  ELSE IF c.err = "ValueError" THEN
       IF AlreadyFits(T) THEN <<"fail", "IdentityWhenFits", "refused">>
       ELSE IF MustFit(T) THEN <<"fail", "FitsOrValueError", "refused-feasible">>
       ELSE <<"ok">>
  \* P9 exactly: categorical fillna("") on the insertion-code column raises TypeError as soon as the
  \* third feasibility test is reached (the tool swallows it and reports "Cannot setitem on a Categorical")
  ELSE IF ReachesIcodeTest(c, T)
          /\ \/ c.kind = "small" /\ c.err = "TypeError"
             \/ c.kind = "split" /\ c.err = "ToolReportedError" /\ c.errclass = "categorical-setitem"
       THEN <<"deviation", "CifFitRaisesTypeError", c.err>>
  ELSE <<"fail", "FitsOrValueError", c.err>>

\* ------------------------------------------------------------------ big tables (summaries)
BigAlreadyFits(s) == s.in_max_serial <= MaxSerial /\ s.in_max_chain_len = 1 /\ s.in_min_chain_len = 1 /\ s.in_max_resseq <= MaxRes
BigMustFit(s)     == s.n + s.runs <= MaxSerial /\ s.chains <= Len(ChainIds) /\ s.max_res_per_chain <= MaxRes
BigReaches(c, s)  == c.fmt = "cif" /\ ~BigAlreadyFits(s) /\ s.n + s.chains <= MaxSerial /\ s.chains <= Len(ChainIds)

Big(c) ==
  LET s == c.stats IN
  IF c.canerr # "" THEN <<"fail", "CanWriteNoException", c.canerr>>
  ELSE IF c.can # BigAlreadyFits(s) THEN <<"fail", "CanWriteExact", "big">>
  ELSE IF c.err = "" THEN
       IF BigAlreadyFits(s) THEN (IF s.out_n = s.n /\ s.payload_out = s.payload_in /\ s.ids_out = s.ids_in
                                  THEN <<"ok">> ELSE <<"fail", "IdentityWhenFits", "changed">>)
       ELSE IF ~(s.out_max_serial <= MaxSerial /\ s.out_max_chain_len = 1 /\ s.out_min_chain_len = 1
                 /\ s.out_max_resseq <= MaxRes) THEN <<"fail", "FitsOrValueError", "limits">>
       ELSE IF s.out_n # s.n THEN <<"fail", "OrderAndFieldsKept", "rows">>
       ELSE IF s.payload_out # s.payload_in THEN <<"fail", "OrderAndFieldsKept", "payload-digest">>
       \* a relation is a bijection iff #pairs = #left values = #right values
       ELSE IF ~(s.chain_pairs = s.chains /\ s.chain_pairs = s.out_chains) THEN <<"fail", "RenamingBijective", "chains">>
       ELSE IF ~(s.res_pairs = s.residues /\ s.res_pairs = s.out_residues) THEN <<"fail", "RenamingBijective", "residues">>
       ELSE IF s.out_serial_distinct # s.n THEN <<"fail", "SerialsDistinct", "serial">>
       ELSE IF c.werr # "" THEN <<"fail", "WriteReadBack", c.werr>>
       \* read back: every field but occupancy / B by digest; those two to 0.01 (the PDB text carries two decimals)
       ELSE IF s.back_n # s.n \/ s.payload_back # s.payload_out_rb \/ s.ids_back # s.ids_out THEN <<"fail", "WriteReadBack", "digest">>
       ELSE IF s.back_ob_maxdiff > 1 THEN <<"fail", "WriteReadBack", "occupancy-or-B">>
       ELSE <<"ok">>
  ELSE IF c.err = "ValueError" THEN
       IF BigAlreadyFits(s) THEN <<"fail", "IdentityWhenFits", "refused">>
       ELSE IF BigMustFit(s) THEN <<"fail", "FitsOrValueError", "refused-feasible">>
       ELSE <<"ok">>
  ELSE IF BigReaches(c, s) /\ c.err = "TypeError" THEN <<"deviation", "CifFitRaisesTypeError", c.err>>
  ELSE <<"fail", "FitsOrValueError", c.err>>

Verdict(c) == IF c.kind = "big" THEN Big(c) ELSE Small(c)

\* which outcome class did the case exercise (for the coverage summary)
Init == idx = 0 /\ cnt = [ok |-> 0, deviation |-> 0, fail |-> 0, refused |-> 0]

Next ==
  /\ idx < Len(Trace)
  /\ idx' = idx + 1
  /\ LET c == Trace[idx']  v == Verdict(c) IN
     /\ cnt' = [cnt EXCEPT ![v[1]] = @ + 1, !.refused = @ + (IF c.err = "ValueError" THEN 1 ELSE 0)]
     /\ (v[1] = "ok" \/ PrintT(<<"V", c.id>> \o v))
  /\ (idx' < Len(Trace) \/ PrintT(<<"SUMMARY", Len(Trace), cnt'.ok, cnt'.deviation, cnt'.fail, cnt'.refused>>))

Spec == Init /\ [][Next]_vars
=============================================================================
