SPECIFICATION Spec
CONSTANT NFiles = 3
CONSTANT MaxRes = 1
CONSTANT RNs = {"A", "C", "HOH"}
CONSTANT AtomSeqs <- AtomSeqs3
CONSTANT Ids <- Ids3
CONSTANT EmptyWrite = "crash"
INVARIANT InvFunction
INVARIANT InvRefusal
INVARIANT InvEmpty
INVARIANT InvSameShape
INVARIANT InvAtoms
CHECK_DEADLOCK FALSE
