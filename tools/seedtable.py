#!/usr/bin/env python3
"""Regenerate seeded/README.md: one row per seeded breaking change (from seeded/*/meta.json and notes.md)."""
import json
import os
import re

HERE = os.path.dirname(os.path.dirname(os.path.abspath(__file__)))
rows = []
for sid in sorted(os.listdir(os.path.join(HERE, "seeded"))):
    d = os.path.join(HERE, "seeded", sid)
    mp = os.path.join(d, "meta.json")
    if not os.path.isfile(mp):
        continue
    m = json.load(open(mp))
    title = ""
    np_ = os.path.join(d, "notes.md")
    if os.path.exists(np_):
        for line in open(np_):
            if line.startswith("#"):
                title = re.sub(r"^#+\s*", "", line.strip())
                title = re.sub(r"^(C\d\d\s*)?[Cc]hange[- ]?\d\s*[:\-–—]*\s*", "", title)
                break
    runs = m["ran"].get("earlier_checks", []) + m["ran"].get("checks", [])
    first = next((c for c in runs if c["pid"] == m["breaks_property"]), None)
    last = m["ran"]["checks"][0]
    c = m["confirmed"]
    det_now = ", ".join(c["detected_by"]) or "NOT DETECTED"
    at_first = "yes" if first and first["exit"] == 1 and first["violations"] > 0 else "no"
    clause = ""
    for l in last.get("first_lines", []):
        mm = re.search(r"\((?:[^()]*?): ((?:fail|deviation):\w+)\)", l)
        if mm:
            clause = mm.group(1)
            break
    rows.append((sid, m["breaks_property"], title[:110], "yes" if c["demo_fails_with_change_passes_without"] else "NO",
                 "yes" if c["baseline_tests_still_pass"] else ("?" if c["baseline_tests_still_pass"] is None else "NO"),
                 at_first, det_now, clause))
with open(os.path.join(HERE, "seeded", "README.md"), "w") as f:
    f.write("# Seeded breaking changes\n\nEach directory holds `patch.diff` (the change), `demo.py` (exits 0 on the unchanged tree, "
            "non-zero with the change; select the tree with `RNAPOLIS_SRC`), `notes.md` (what / why it looks innocent / what it "
            "needs to manifest / commands) and `meta.json` (what was run to confirm it: `tools/seed.py`). The changes were written "
            "by fresh sub-agents that saw only the property record and a scratch worktree of the repository - nothing from /verif. "
            "None is ever committed to /repo.\n\n'caught at first try' = the quick check as it was when the change arrived; 'caught "
            "now' = the quick check at the commit that wrote this file (checks were strengthened where a change slipped through; see "
            "DESIGN.md 11.4-11.6).\n\n")
    f.write("| seed | property | change | demo confirms | 45 tests pass | caught at first try | caught now | first verdict |\n|---|---|---|---|---|---|---|---|\n")
    for r in rows:
        f.write("| " + " | ".join(r) + " |\n")
    n = len(rows)
    f.write(f"\n{n} changes; caught at first try: {sum(1 for r in rows if r[5] == 'yes')}; caught now: "
            f"{sum(1 for r in rows if r[6] != 'NOT DETECTED')}.\n")
print(f"{len(rows)} seeds")
