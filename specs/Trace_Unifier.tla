---------------------------- MODULE Trace_Unifier ----------------------------
(***************************************************************************)
(* Trace validation of rnapolis.unifier.main.  One TLC state per recorded  *)
(* run of the real tool: c.files = the abstract view of the input files    *)
(* (written to disk by the harness's own emitters), c.opt = the --format   *)
(* option, c.exit = 0 (returned) | 1 (SystemExit(1)) | 2 (exception c.err),*)
(* c.outs[f] = what the tool wrote for file f, read back by the harness's  *)
(* own tokenizers (present, fmt, res).  Doc.table = the heavy atoms and    *)
(* alternative names found in the repository's component_*.csv files.      *)
(* Every judgement is made here, against Unifier.tla.                      *)
(***************************************************************************)
EXTENDS Unifier, Json, IOUtils

Doc   == JsonDeserialize(IOEnv.TRACE_FILE)
Trace == Doc.cases

VARIABLES idx, cnt
vars == <<idx, cnt>>

\* the component tables the tool reads are the ones this specification was written against
TableOK ==
  /\ \A rn \in Nucleotides : Doc.table[rn].heavy = Heavy(rn)
  /\ \A rn \in Nucleotides : \A p \in SeqRange(Doc.table[rn].alt) :
        p[1] = p[2] \/ <<p[1], p[2]>> \in AltPairs \/ p[2] \notin HeavySet(rn)
  /\ \A q \in AltPairs : \A rn \in Nucleotides : \E p \in SeqRange(Doc.table[rn].alt) : <<p[1], p[2]>> = q

InDomain(c) ==
  /\ Len(c.files) >= 1
  /\ \A f \in 1..Len(c.files) : FileOK(c.files[f])
  /\ \A f, g \in 1..Len(c.files) : f # g =>
        \A m \in 1..Len(c.files[f].res) : \A n \in 1..Len(c.files[g].res) :
           \A a \in SeqRange(c.files[f].res[m].atoms) : \A b \in SeqRange(c.files[g].res[n].atoms) : a.k # b.k
  /\ c.opt \in {"keep", "PDB", "mmCIF"}
  \* at least one nucleotide in the first file (the tool indexes it); a run in which no position
  \* survives ends in an exception as implemented (MC_Unifier, InvEmpty) and is not judged here
  /\ Len(Lists(c.files)[1]) > 0
  /\ Comparable(Lists(c.files)) => KeptPositions(Lists(c.files)) # <<>>

WantFmt(c, f) == IF c.opt = "keep" THEN c.files[f].fmt ELSE IF c.opt = "PDB" THEN "pdb" ELSE "cif"
Keys(atoms)  == Force([n \in 1..Len(atoms) |-> atoms[n].k])
NameOf(atoms, k) == (CHOOSE a \in SeqRange(atoms) : a.k = k).an

\* first failing clause for the output of file f, or "ok"
OutFailing(c, R, f) ==
  LET O == c.outs[f]  E == Expected(R, f) IN
  IF ~O.present THEN "OutputPerInput"
  ELSE IF O.fmt # WantFmt(c, f) THEN "OutputFormat"
  ELSE IF Len(O.res) # Len(E) THEN "DifferingResiduesRemoved"
  ELSE IF \E j \in 1..Len(E) : O.res[j].rn # E[j].rn THEN "NamesKept"
  ELSE IF \E j \in 1..Len(E) : IdOf(O.res[j]) # IdOf(E[j]) THEN "IdentifiersUnified"
  ELSE IF \E j \in 1..Len(E) : SeqRange(Keys(O.res[j].atoms)) # SeqRange(Keys(E[j].atoms))
                               \/ Len(O.res[j].atoms) # Len(E[j].atoms) THEN "OnlyStandardHeavyAtoms"
  ELSE IF \E j \in 1..Len(E) : \E a \in SeqRange(O.res[j].atoms) : a.an # NameOf(E[j].atoms, a.k)
       THEN "RenamedToStandard"
  ELSE IF \E j \in 1..Len(E) : Keys(O.res[j].atoms) # Keys(E[j].atoms) THEN "CanonicalAtomOrder"
  ELSE "ok"

Verdict(c) ==
  IF ~InDomain(c) THEN <<"skip">>
  ELSE IF ~TableOK THEN <<"fail", "ComponentTableChanged", "">>
  ELSE LET R == Lists(c.files) IN
  IF ~Comparable(R)
  THEN IF c.exit = 1 /\ \A f \in 1..Len(c.outs) : ~c.outs[f].present THEN <<"ok">>
       ELSE <<"fail", "RefusesIncomparable", c.err>>
  ELSE IF c.exit # 0 THEN <<"fail", "NoException", c.err>>
  ELSE LET bad == { f \in 1..Len(c.files) : OutFailing(c, R, f) # "ok" } IN
       IF bad = {} /\ Len(c.outs) = Len(c.files) THEN <<"ok">>
       ELSE IF Len(c.outs) # Len(c.files) THEN <<"fail", "OutputPerInput", "">>
       ELSE LET f == CHOOSE x \in bad : \A y \in bad : x <= y IN <<"fail", OutFailing(c, R, f), c.files[f].fmt>>

Init == idx = 0 /\ cnt = [ok |-> 0, deviation |-> 0, fail |-> 0, skip |-> 0, refused |-> 0]

Next ==
  /\ idx < Len(Trace)
  /\ idx' = idx + 1
  /\ LET c == Trace[idx']  v == Verdict(c)
         kind == IF v[1] = "skip" THEN "ok" ELSE v[1] IN
     /\ cnt' = [cnt EXCEPT ![kind] = @ + 1,
                           !.skip = @ + (IF v[1] = "skip" THEN 1 ELSE 0),
                           !.refused = @ + (IF v[1] = "ok" /\ c.exit = 1 THEN 1 ELSE 0)]
     /\ (v[1] = "ok" \/ PrintT(<<"V", c.id>> \o v))
  /\ (idx' < Len(Trace) \/ PrintT(<<"SUMMARY", Len(Trace), cnt'.ok, cnt'.deviation, cnt'.fail, cnt'.skip, cnt'.refused>>))

Spec == Init /\ [][Next]_vars
=============================================================================
