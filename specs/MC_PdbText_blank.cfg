SPECIFICATION Spec
CONSTANT TerOnModelChange = TRUE
CONSTANT CifChargeVerbatim = FALSE
CONSTANT ShapeLevel = 0
CONSTANT TerChainPadded = TRUE
CONSTANT BlankSecondChain = TRUE
CONSTANT MaxAtoms = 4
INVARIANT InvDomain
INVARIANT InvReadBack
INVARIANT InvLayout80
INVARIANT InvModelBracketing
INVARIANT InvTerAfterEveryChain
INVARIANT InvStrictGrammar
INVARIANT InvFieldIdentity
CHECK_DEADLOCK FALSE
