----------------------------- MODULE Metareader -----------------------------
(***************************************************************************)
(* rnapolis.metareader (command-line tool `metareader`, functions          *)
(* read_metadata / list_metadata): categories of an mmCIF file as JSON     *)
(* and CSV.  Beyond the listed properties (growth item of DESIGN 10.7).    *)
(*   section 1 - the function: what a run prints and writes;               *)
(*   section 2 - main() step by step (ParseArgs, Open, List | Read per     *)
(*               asked category, Print, WriteCsv per key), checked by TLC  *)
(*               on every small world against section 1.                   *)
(* A document is a sequence of categories [name, attrs, rows]; values are  *)
(* compared as texts - nothing is interpreted, '?' and '.' stay as they    *)
(* are written.                                                            *)
(***************************************************************************)
EXTENDS Integers, Sequences, FiniteSets, TLC

\* ------------------------------------------------------------------ 1. the function
SeqToSet(s) == { s[k] : k \in 1..Len(s) }
\* the category names of the (first) data block, in file order
Names(doc) == [k \in 1..Len(doc) |-> doc[k].name] \o <<>>
Has(doc, c) == \E k \in 1..Len(doc) : doc[k].name = c
Cat(doc, c) == doc[CHOOSE k \in 1..Len(doc) : doc[k].name = c]
\* a row as the sequence of <<item, value>> in the order of the category's items
RowPairs(cat, r) == [a \in 1..Len(cat.attrs) |-> <<cat.attrs[a], cat.rows[r][a]>>] \o <<>>
\* the rows of category c; a category the file does not have is an empty list, never an error
RowsOfCat(doc, c) == IF Has(doc, c) THEN LET cat == Cat(doc, c) IN [r \in 1..Len(cat.rows) |-> RowPairs(cat, r)] \o <<>>
                     ELSE <<>>
\* what the tool is asked for: the default category comes first and STAYS when -c is given (argparse appends
\* to the default list), then the -c values in command-line order
Asked(given) == <<"struct">> \o given
\* keys of the result: the asked names without repetitions, in order of first mention
RECURSIVE Dedup(_)
Dedup(s) == IF s = <<>> THEN <<>>
            ELSE LET d == Dedup(SubSeq(s, 1, Len(s) - 1)) IN
                 IF s[Len(s)] \in SeqToSet(d) THEN d ELSE Append(d, s[Len(s)])
Keys(given) == Dedup(Asked(given))
Result(doc, given) == [k \in 1..Len(Keys(given)) |-> <<Keys(given)[k], RowsOfCat(doc, Keys(given)[k])>>] \o <<>>
\* CSV files: one per key when a directory is given and the tool is not listing
CsvNames(given, list, csvdir) == IF list \/ ~csvdir THEN {} ELSE SeqToSet(Keys(given))
\* a CSV file: header = the items (none for an absent category), one line per row
CsvHeader(doc, c) == IF Has(doc, c) THEN Cat(doc, c).attrs ELSE <<>>
CsvRows(doc, c) == IF Has(doc, c) THEN Cat(doc, c).rows ELSE <<>>

\* ------------------------------------------------------------------ 2. the tool's steps
CONSTANTS CatNames, MaxGiven
VARIABLES present, given, list, csvdir,               \* the world: which categories the file has, the options
          pc, asked, result, todo, printed, csvs
world == <<present, given, list, csvdir>>
vars == <<world, pc, asked, result, todo, printed, csvs>>

\* in the small model a category is just present or not; its content is its name
DocOf(P) == LET s == CHOOSE q \in [1..Cardinality(P) -> P] : \A a, b \in 1..Cardinality(P) : a # b => q[a] # q[b]
            IN [k \in 1..Cardinality(P) |-> [name |-> s[k], attrs |-> <<"id">>, rows |-> <<<<s[k]>>>>]] \o <<>>

Init == /\ present \in SUBSET CatNames
        /\ given \in UNION { [1..n -> CatNames \cup {"nope"}] : n \in 0..MaxGiven }
        /\ list \in BOOLEAN /\ csvdir \in BOOLEAN
        /\ pc = "ParseArgs" /\ asked = <<>> /\ result = <<>> /\ todo = <<>> /\ printed = "" /\ csvs = {}

ParseArgs == /\ pc = "ParseArgs" /\ asked' = <<"struct">> \o given /\ pc' = "Open"
             /\ UNCHANGED <<world, result, todo, printed, csvs>>
Open == /\ pc = "Open" /\ pc' = (IF list THEN "List" ELSE "Read") /\ todo' = asked
        /\ UNCHANGED <<world, asked, result, printed, csvs>>
ListNames == /\ pc = "List" /\ printed' = "names" /\ pc' = "Done"
             /\ UNCHANGED <<world, asked, result, todo, csvs>>
\* the dict comprehension: a key mentioned again overwrites its own value, its position stays
ReadOne == /\ pc = "Read" /\ todo # <<>>
           /\ LET c == Head(todo)  v == <<c, RowsOfCat(DocOf(present), c)>> IN
              result' = IF \E k \in 1..Len(result) : result[k][1] = c
                        THEN [k \in 1..Len(result) |-> IF result[k][1] = c THEN v ELSE result[k]] \o <<>>
                        ELSE Append(result, v)
           /\ todo' = Tail(todo)
           /\ UNCHANGED <<world, pc, asked, printed, csvs>>
PrintJson == /\ pc = "Read" /\ todo = <<>> /\ printed' = "json"
         /\ pc' = (IF csvdir THEN "Csv" ELSE "Done") /\ todo' = [k \in 1..Len(result) |-> result[k][1]] \o <<>>
         /\ UNCHANGED <<world, asked, result, csvs>>
WriteCsv == /\ pc = "Csv" /\ todo # <<>> /\ csvs' = csvs \cup {Head(todo)} /\ todo' = Tail(todo)
            /\ UNCHANGED <<world, pc, asked, result, printed>>
CsvDone == /\ pc = "Csv" /\ todo = <<>> /\ pc' = "Done"
           /\ UNCHANGED <<world, asked, result, todo, printed, csvs>>

Next == ParseArgs \/ Open \/ ListNames \/ ReadOne \/ PrintJson \/ WriteCsv \/ CsvDone
Spec == Init /\ [][Next]_vars

Done == pc = "Done"
InvResult == (Done /\ ~list) => result = Result(DocOf(present), given)
InvPrinted == Done => printed = (IF list THEN "names" ELSE "json")
InvCsv == Done => csvs = CsvNames(given, list, csvdir)
InvListingWritesNothing == (Done /\ list) => (csvs = {} /\ result = <<>>)
InvAbsentIsEmpty == (Done /\ ~list) => \A k \in 1..Len(result) : (result[k][1] \notin present) => result[k][2] = <<>>
InvKeysDistinct == \A a, b \in 1..Len(result) : a # b => result[a][1] # result[b][1]
\* NEGATIVE CONTROL (design weakness, no defect against a listed property): the default category cannot be
\* deselected - asking for one category returns two
InvOnlyWhatWasGiven == (Done /\ ~list /\ given # <<>>) => { result[k][1] : k \in 1..Len(result) } = SeqToSet(given)
=============================================================================
