SPECIFICATION Spec
CONSTANT Part = "stack"
CONSTANT NRes = 3
CONSTANT MaxLabels = 1
CONSTANT MaxCount = 1
CONSTANT MaxO2 = 0
CONSTANT O2Twice = TRUE
CONSTANT StackFlagsFull = "mid"
INVARIANT StackSound
INVARIANT StackLabel
INVARIANT StackOrdered
INVARIANT StackOnce
INVARIANT StackComplete
CHECK_DEADLOCK FALSE
