--------------------------- MODULE Trace_RfamLock ---------------------------
(***************************************************************************)
(* code -> spec: event logs of the real rnapolis.rfam_folder workers       *)
(* (harness/rfamlock.py: recording lock, stub ensure_cm / cmsearch)        *)
(* replayed as behaviours of RfamLock (Variant "Required").  Every logged  *)
(* event is one spec action with its worker bound; all runs of the file    *)
(* are explored from one initial state each (variable tr).  A log the      *)
(* specification cannot follow ends in a state without successor: TLC      *)
(* reports the deadlock with tr (which run) and l (which event).  A run    *)
(* is accepted by the step Accept, enabled only when the whole log is      *)
(* consumed, every worker is terminal, the model says the lock is free and *)
(* the real lock was found free.                                           *)
(***************************************************************************)
EXTENDS Integers, Sequences, FiniteSets, TLC, Json, IOUtils

Doc == JsonDeserialize(IOEnv.TRACE_FILE)
Runs == Doc.cases

VARIABLES fails, pc, holder, cmReady, main, next, printed, tr, l, acc
N == Doc.nmax
R == INSTANCE RfamLock WITH Variant <- "Required"
tvars == <<fails, pc, holder, cmReady, main, next, printed, tr, l, acc>>

Log(k) == Runs[k].events
Used(k) == 1..Runs[k].n            \* the workers of run k; the others never move

TInit == /\ tr \in 1..Len(Runs) /\ l = 1 /\ acc = FALSE
         /\ fails = { Runs[tr].fails[j] : j \in 1..Len(Runs[tr].fails) }
         /\ pc = [t \in 1..N |-> IF t \in Used(tr) THEN "queued" ELSE "done"]
         /\ holder = 0 /\ cmReady = FALSE /\ main = "collect" /\ next = 1 /\ printed = <<>>

IsEvent(name) == l <= Len(Log(tr)) /\ Log(tr)[l].ev = name /\ l' = l + 1 /\ UNCHANGED <<tr, acc>>
T == Log(tr)[l].t

\* the log has no event for the pool picking an entry up: the first Acquire of a worker includes its Start
TAcquire    == IsEvent("Acquire") /\ (R!Acquire(T) \/ R!StartAcquire(T))
TEnsureOk   == IsEvent("EnsureOk") /\ R!EnsureOk(T)
TEnsureFail == IsEvent("EnsureFail") /\ R!EnsureFail(T)
TRelease    == IsEvent("Release") /\ (R!Release(T) \/ R!ReleaseUnwind(T))
TReturn     == IsEvent("Return") /\ R!Search(T)
\* the worker's exception reaches its caller: no state change, but it must be a worker that failed
TRaise      == IsEvent("Raise") /\ pc[T] = "raised" /\ UNCHANGED <<fails, pc, holder, cmReady, main, next, printed>>
\* "Starved" (a worker waited for the lock until the harness gave up) is no action of the specification
Accept == /\ l = Len(Log(tr)) + 1 /\ ~acc /\ acc' = TRUE
          \* every worker ended - or was never picked up because the main thread had already met a failing
          \* earlier entry (executor.map cancels the pending entries when it re-raises)
          /\ \A t \in Used(tr) : \/ R!Terminal(t)
                                  \/ (pc[t] = "queued" /\ Runs[tr].mode = "main" /\ \E f \in fails : f < t)
          /\ holder = 0 /\ ~Runs[tr].locked
          /\ (Runs[tr].mode = "main" =>
                /\ Runs[tr].printed = [k \in 1..Len(Runs[tr].printed) |-> k]
                /\ (fails = {} => Len(Runs[tr].printed) = Runs[tr].n /\ Runs[tr].outcome = "ok")
                /\ (fails # {} => /\ Runs[tr].outcome = "raised"
                                   /\ Len(Runs[tr].printed) + 1 = CHOOSE f \in fails : \A g \in fails : f <= g))
          /\ PrintT(<<"ACCEPTED", Runs[tr].id>>)
          /\ UNCHANGED <<fails, pc, holder, cmReady, main, next, printed, tr, l>>
Stay == acc /\ UNCHANGED tvars

TNext == TAcquire \/ TEnsureOk \/ TEnsureFail \/ TRelease \/ TReturn \/ TRaise \/ Accept \/ Stay
TSpec == TInit /\ [][TNext]_tvars

\* the specification's invariants, evaluated at every step of every real run
MutualExclusion == R!MutualExclusion
HolderIsInside == R!HolderIsInside
InsideHolds == R!InsideHolds
SearchNeedsModel == \A t \in Used(tr) : pc[t] \in {"search"} => cmReady
=============================================================================
