SPECIFICATION Spec
CONSTANT NFiles = 2
CONSTANT MaxRes = 1
CONSTANT RNs = {"A"}
CONSTANT AtomSeqs <- AtomSeqsN
CONSTANT Ids <- Ids1
CONSTANT EmptyWrite = "crash"
INVARIANT InvSameAtomNames
CHECK_DEADLOCK FALSE
