"""Area Splitter (growth beyond the listed properties): generator of multi-model files, recorder of
rnapolis.splitter.main, projection of what the run left behind.  The harness never judges: TLC does
(specs/Trace_Splitter.tla against specs/Splitter.tla)."""
import contextlib
import io
import os
import random
import re
import shutil
import sys
import warnings

from . import lib, atomtable as at

OPTS = ["keep", "keep", "Keep", "PDB", "pdb", "mmCIF", "mmcif", "MMCIF", "cif", "xyz", ""]
BASES = ["in", "1abc", "model.v2", "a_model_1", "x y"]
CHAINS62 = list("ABCDEFGHIJKLMNOPQRSTUVWXYZabcdefghijklmnopqrstuvwxyz0123456789")
NAMES = ["P", "C1'", "N1", "C2", "O2'", "N9"]


def _res(ch, num, rn="G", ic=""):
    return {"ch": ch, "num": num, "ic": ic, "rn": rn, "het": 0, "lch": ch, "lnum": max(num, 1), "icn": "?", "ocn": "?"}


def gen_case(rng, cid):
    """One input file: 1-4 models (numbers not necessarily 1.., not necessarily ascending in the file, models may
    come in several blocks in mmCIF), 1-3 residues each; in mmCIF some models carry two-letter chain names (they
    fit PDB after renaming) or 63 chains (they do not fit)."""
    infmt = rng.choice(["PDB", "mmCIF"])
    kind = rng.choices(["plain", "missing", "unreadable", "empty"], [20, 1, 1, 1])[0]
    nm = rng.choice([1, 2, 2, 3, 4])
    scheme = rng.random()
    if scheme < 0.4:
        models = list(range(1, nm + 1))
    elif scheme < 0.5:
        models = list(range(0, nm))
    else:
        models = rng.sample([1, 2, 3, 5, 9, 10, 11, 20, 100, 999], nm)       # 10 sorts before 9 as text
        if rng.random() < 0.5:
            models.sort()
    blocks = [(m, None) for m in models]
    if infmt == "mmCIF" and nm >= 2 and rng.random() < 0.25:
        blocks.append((models[0], "again"))          # a model continued after another one
    lines, k, nofit = [], 0, []
    for m, again in blocks:
        shape = "plain"
        if infmt == "mmCIF" and again is None:
            shape = rng.choices(["plain", "longchain", "manychains"], [6, 2, 1])[0]
        if shape == "manychains":
            nofit.append(m)
            chains = CHAINS62 + ["AA"]
            for c, ch in enumerate(chains):
                k += 1
                lines.append(at._line(m, _res(ch, 1), "P", (k, 3000 * c, 0)))
            continue
        nres = rng.choice([1, 2, 3])
        ch = "AA" if shape == "longchain" else rng.choice(["A", "B", "x"])
        for r in range(nres):
            num = (50 if again else 0) + r + rng.choice([1, 1, -3])
            res = _res(ch, num, rn=rng.choice("ACGU"))
            for j, an in enumerate(rng.sample(NAMES, rng.choice([1, 2, 3]))):
                k += 1
                lines.append(at._line(m, res, an, (k, 1500 * j + 40 * r, 7000 * r)))
    return {"id": cid, "kind": kind, "infmt": infmt, "opt": rng.choice(OPTS), "base": rng.choice(BASES),
            "lines": [] if kind == "empty" else lines, "nofit": nofit, "stale": rng.random() < 0.2}


def cases(count, seed):
    rng = random.Random(f"{seed}/splitter")
    return [gen_case(rng, f"s{n}") for n in range(count)]


_SKIP = re.compile(r"Error fitting model (-?\d+) ")


def _read(path):
    """(format, [[model, key]...]) of a written file, by the harness's own tokenizers."""
    with open(path) as fh:
        text = fh.read()
    try:
        if any(l.startswith("_atom_site.") for l in text.splitlines()):
            rows = text.splitlines()
            k = 0
            while not rows[k].startswith("_atom_site."):
                k += 1
            if len(at._cif_tokens(rows[k])) == 2:
                # a category with one row is written as item-value pairs, not as a loop
                d = {}
                while k < len(rows) and rows[k].startswith("_atom_site."):
                    tok = at._cif_tokens(rows[k])
                    d[tok[0][len("_atom_site."):]] = tok[1]
                    k += 1
                return "mmCIF", [[int(d["pdbx_PDB_model_num"]), at._dec_milli(d["Cartn_x"])]]
            cols = []
            while rows[k].startswith("_atom_site."):
                cols.append(rows[k].strip()[len("_atom_site."):])
                k += 1
            out = []
            while k < len(rows) and rows[k].strip() and not rows[k].startswith(("#", "_", "loop_")):
                d = dict(zip(cols, at._cif_tokens(rows[k])))
                out.append([int(d["pdbx_PDB_model_num"]), at._dec_milli(d["Cartn_x"])])
                k += 1
            return "mmCIF", out
        return "PDB", [[ln["m"], ln["x"]] for ln in at.tokenize_pdb(text)]
    except Exception as e:          # an unreadable output is an answer of the tool
        return "unreadable:" + type(e).__name__, []


def record(case):
    warnings.simplefilter("ignore")
    import logging
    logging.disable(logging.CRITICAL)
    c = {"id": case["id"], "kind": case["kind"], "infmt": case["infmt"], "opt": case["opt"], "base": case["base"],
         "rows": [[ln["m"], ln["x"]] for ln in case["lines"]], "nofit": case["nofit"],
         "exists": case["kind"] != "missing", "readable": case["kind"] != "unreadable", "stale": case["stale"]}
    root = os.path.join(at._TMPDIR, f"spl-{os.getpid()}-{case['id']}")
    shutil.rmtree(root, ignore_errors=True)
    os.makedirs(os.path.join(root, "in"))
    src = os.path.join(root, "in", case["base"] + (".pdb" if case["infmt"] == "PDB" else ".cif"))
    if case["kind"] == "unreadable":
        text = "data_X\nloop_\n_atom_site.id\n_atom_site.Cartn_x\n1 2 3\n'unterminated\n"     # mmCIF the reader rejects
    elif case["kind"] == "empty":
        text = "HEADER    NOTHING\nEND\n" if case["infmt"] == "PDB" else "data_EMPTY\n#\n"
    else:
        text = at.emit("pdb" if case["infmt"] == "PDB" else "cif", case["lines"])
    if case["kind"] != "missing":
        with open(src, "w") as fh:
            fh.write(text)
    outdir = os.path.join(root, "out")
    if case["stale"] and case["kind"] == "plain":
        # environment action: the directory exists already and holds a file of an earlier run under another name
        os.makedirs(outdir)
        with open(os.path.join(outdir, "other_model_1.pdb"), "w") as fh:
            fh.write("END\n")
    from rnapolis import splitter
    c["exit"], c["err"] = 0, ""
    old = sys.argv
    sys.argv = ["splitter", "--output", outdir] + (["--format", case["opt"]] if case["opt"] != "keep" or case["stale"] else []) + [src]
    se = io.StringIO()
    try:
        with contextlib.redirect_stdout(io.StringIO()), contextlib.redirect_stderr(se):
            splitter.main()
    except SystemExit as e:
        c["exit"] = 1 if e.code == 1 else (0 if e.code in (0, None) else 2)
        c["err"] = "" if c["exit"] < 2 else f"SystemExit({e.code})"
    except Exception as e:
        c["exit"], c["err"] = 2, type(e).__name__
    finally:
        sys.argv = old
    c["reported"] = sorted({int(m) for m in _SKIP.findall(se.getvalue())})
    c["toolerr"] = 1 if "Error writing file" in se.getvalue() else 0
    c["dir"] = os.path.isdir(outdir)
    files = []
    for name in sorted(os.listdir(outdir)) if c["dir"] else []:
        if case["stale"] and name == "other_model_1.pdb":
            continue
        fmt, rows = _read(os.path.join(outdir, name))
        files.append({"name": name, "fmt": fmt, "rows": rows})
    c["files"] = files
    shutil.rmtree(root, ignore_errors=True)
    return c
