"""C08 - Structure reading preserves atoms, residue identity and the requested model."""
import json
import os
from concurrent.futures import ThreadPoolExecutor

from .. import lib, atomtable as at

PID = "C08"
TIERS = {
    # mc: Required-variant runs of the design model; tables: seeded generated tables;
    # gen: (MaxLines, KeyIds) of the exhaustive TLC-enumerated small tables; corpus: (files, windows, residues)
    "quick":    dict(mc=["MC_AtomTable_quick.cfg", "MC_AtomTable_null.cfg"], tables=300, gen=(2, "{1, 3}"),
                     corpus=(5, 1, 2)),
    "thorough": dict(mc=["MC_AtomTable_thorough.cfg", "MC_AtomTable_deep.cfg", "MC_AtomTable_null.cfg",
                         "MC_AtomTable_nullwide.cfg"], tables=4000, gen=(3, "{1, 3}"), corpus=(11, 2, 3)),
}
NEG = [("MC_AtomTable_neg_dedup.cfg", "RequestedModelReturned",
        "de-duplication key without the model (as implemented): a requested second model is not returned"),
       ("MC_AtomTable_neg_clash.cfg", "CompleteInv",
        "clash filter over the atoms of all models (as implemented): an atom is lost to an atom of another model"),
       ("MC_AtomTable_neg_occq.cfg", "NullMarkersInv", "occupancy '?' (as implemented): the reader raises ValueError"),
       ("MC_AtomTable_neg_occdot.cfg", "NullMarkersInv",
        "occupancy '.' on a repeated atom (as implemented): None is compared, TypeError"),
       ("MC_AtomTable_neg_icdot.cfg", "NullMarkersInv", "insertion code '.' (as implemented): kept as a literal '.'")]
ACTIONS = ("SeeModel", "SeeAtom", "Eof", "DedupeLoop", "ClashFilterStep", "SelectModelStep", "GroupStep")
WHAT = {"MC_AtomTable_quick.cfg": "reader machine over every well-formed file of <= 3 lines, 2 models, 2 residues",
        "MC_AtomTable_thorough.cfg": "reader machine over every well-formed file of <= 3 lines, 2 models, 3 atom identities",
        "MC_AtomTable_deep.cfg": "reader machine over every well-formed file of <= 4 lines (clause cascade as invariant)",
        "MC_AtomTable_null.cfg": "reader machine over files with absent icodes/occupancies written as '?' or '.'",
        "MC_AtomTable_nullwide.cfg": "null-marker palette with residues 2 and 2A (clause cascade as invariant)"}


def gen_small_tables(maxlines, keyids, sc):
    """spec -> code: TLC enumerates every well-formed file over the design model's palette."""
    out = sc.path("gen-atomtable.ndjson")
    cfg = sc.path("Gen_AtomTable.cfg")
    with open(cfg, "w") as f:
        f.write(f"CONSTANT MaxLines = {maxlines}\nCONSTANT ModelNums = {{1, 2}}\nCONSTANT KeyIds = {keyids}\n"
                "CONSTANT Occs = {40, 60}\nCONSTANT PointIds = {1, 2, 4}\nCONSTANT IcNulls = {\"?\"}\n"
                "CONSTANT OcNulls = {\"?\"}\n")
    r = lib.tlc("Gen_AtomTable", cfg, workers=1, env={"OUT_FILE": out}, scratch=sc, xmx="6g", tag="gen")
    if not r["ok"] or not os.path.exists(out):
        raise lib.MachineryError("Gen_AtomTable failed:\n" + r["out"][-2000:])
    tables = []
    with open(out) as f:
        for line in f:
            tables.append(json.loads(line)["lines"])
    os.remove(out)
    if f'<<"GENERATED", {len(tables)}>>' not in r["out"]:
        raise lib.MachineryError("Gen_AtomTable: number of exported tables differs from the spec's count")
    tables.sort(key=lambda ls: json.dumps(ls, sort_keys=True))
    return [{"tid": f"x{maxlines}-{k}", "layout": "exhaustive", "feats": [], "icn": "?", "ocn": "?", "lines": ls}
            for k, ls in enumerate(tables)]


def _nontrivial(t):
    f = at.table_features(t["lines"])
    return f["models"] > 1 or f["repeated_keys"] > 0 or f["absent_occ"] > 0 or t["icn"] == "." \
        or any(x.startswith("clash") or x.startswith("miss") for x in t["feats"])


def validate(rep, cases, sc, what, batch=8000):
    """Trace validation in batches (bounded JSON size per TLC process); 'skip' lines are informative."""
    skipped = []
    for k in range(0, len(cases), batch):
        part = cases[k:k + batch]
        res = lib.trace_validate("Trace_AtomTable", "Trace_AtomTable_C08.cfg", part, sc)
        skipped += [v[0] for v in res["verdicts"] if v[1] == "skip"]
        res["verdicts"] = [v for v in res["verdicts"] if v[1] != "skip"]
        rep.add_trace(res, {c["id"]: c for c in part}, what)
    return skipped


def run(tier):
    t = TIERS[tier]
    rep = lib.Report(PID, tier, "model_checking")
    with lib.Scratch(PID.lower()) as sc:
        at.set_tmpdir(sc.path("files"))
        pool = ThreadPoolExecutor(max_workers=4)
        share = max(2, lib.NCPU // 2)
        mc_jobs = [(cfg, pool.submit(lib.mc, "MC_AtomTable", cfg, sc, workers=share)) for cfg in t["mc"]]
        neg_jobs = [(cfg, inv, why, pool.submit(lib.mc, "MC_AtomTable", cfg, sc, expect_violation=inv, workers=2))
                    for cfg, inv, why in NEG]

        # spec -> code: exhaustive small tables from TLC; seeded feature tables; corpus-derived tables
        import time
        t0 = time.time()
        phase = {}
        small = gen_small_tables(t["gen"][0], t["gen"][1], sc)
        phase["gen_s"] = round(time.time() - t0, 1)
        tables = at.gen_tables(t["tables"], lib.seed())
        nfiles, nwin, nres = t["corpus"]
        corpus = at.corpus_tables(at.CORPUS_C08[:nfiles], nwin, nres, lib.seed())
        emitted = at.check_emitters(small + tables + corpus)    # machinery guard (own tokenizers read the emitters back)
        cases = at.c08_cases(small + tables + corpus)
        t1 = time.time()
        rec = lib.pmap(at.record_c08, cases)
        phase["record_s"] = round(time.time() - t1, 1)
        t1 = time.time()
        skipped = validate(rep, rec, sc, "C08")
        phase["validate_s"] = round(time.time() - t1, 1)
        bad_skip = [i for i in skipped if not i.startswith("corpus-")]
        if bad_skip:
            raise lib.MachineryError(f"generated tables outside the spec's domain (generator defect): {bad_skip[:5]}")

        for cfg, job in mc_jobs:
            rep.add_mc(job.result(), WHAT[cfg] + "; clauses of AtomTable as invariants", min_actions=ACTIONS)
        for cfg, inv, why, job in neg_jobs:
            rep.add_mc(job.result(), why, negative_control=True)
        pool.shutdown()
        phase["total_s"] = round(time.time() - t0, 1)
        rep.cov["phase_wall_s"] = phase

        cov = rep.cov
        allt = small + tables + corpus
        cov["exhaustive"] = True
        cov["rule"] = (f"(a) every well-formed file of <= {t['gen'][0]} lines over the design model's palette (TLC "
                       f"Gen_AtomTable, {len(small)} tables, exhaustive); (b) {len(tables)} seeded tables cycling through "
                       f"{len(at.LAYOUTS)} model layouts x {len(at.ATOM_FEATURES)} atom features (+ null-marker classes); "
                       f"(c) {len(corpus)} corpus-derived tables (residue windows re-emitted, models duplicated / renumbered). "
                       "Each table is written as PDB and as mmCIF by the harness's own emitters and read by "
                       "read_3d_structure for the default and every present model and by parse_pdb / parse_cif. "
                       "Non-trivial = distinct table with >= 2 models, a repeated atom / alternate location, a pair of atoms "
                       "placed within 0.7 A, or an absent value written as a null marker.")
        cov["distinct_nontrivial"] = len({json.dumps(x["lines"], sort_keys=True) for x in allt if _nontrivial(x)})
        cov["tables"] = {"exhaustive_small": len(small), "generated": len(tables), "corpus": len(corpus)}
        cov["cases_skipped_outside_domain"] = len(skipped)
        cov["emitter_roundtrips_checked"] = emitted
        cov["layouts"] = {lay: sum(1 for x in tables if x["layout"] == lay) for lay in at.LAYOUTS}
        cov["features"] = {f: sum(1 for x in tables if f in x["feats"]) for f in at.ATOM_FEATURES + at.NULL_FEATURES}
        byid = {c["id"]: c for c in rec}
        pick = [c for c in rec if c["id"].startswith("g") and c["kind"] == "read"][:2] + \
               [c for c in rec if c["id"].startswith("x")][-1:]
        cov["samples"] = pick
        rep.assumptions += [
            "the harness's PDB and mmCIF emitters write the abstract table faithfully (fixed columns per wwPDB 3.3; "
            "one atom_site loop); coordinates are written with exactly three decimals and read back as milli-Angstrom "
            "integers by rounding",
            "domain guards decided by the spec (InDomain): no distance exactly on the 0.5 A sphere, every atom has at most "
            "one clash partner, repeated atoms are not clash partners, the requested model is present; cases outside are "
            "skipped and counted",
            "occupancy ties and clashes with an unknown occupancy are accepted either way (outside the statement)",
        ]
    return rep.finish()


def replay(doc):
    case = doc.get("case")
    if not case:
        print(doc.get("tlc_output_tail", ""))
        return run("quick")
    rep = lib.Report(PID, "quick", "model_checking", evidence=False)
    with lib.Scratch("c08r") as sc:
        at.set_tmpdir(sc.path("files"))
        base = {k: case[k] for k in ("id", "kind", "fmt", "req", "lines", "colseed", "serial0", "terhet") if k in case}
        rec = at.record_c08(base)
        res = lib.trace_validate("Trace_AtomTable", "Trace_AtomTable_C08.cfg", [rec], sc, chunks=1)
        res["verdicts"] = [v for v in res["verdicts"] if v[1] != "skip"]
        rep.add_trace(res, {rec["id"]: rec}, "C08")
        rep.cov["samples"] = [rec]
        rep.cov["distinct_nontrivial"] = 1
    return rep.finish()
