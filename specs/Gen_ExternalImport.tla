-------------------------- MODULE Gen_ExternalImport --------------------------
(* Generation mode (spec -> code): TLC enumerates the abstract template domains of
   ExternalImport - every FR3D line template, every DSSR pair template, every stack
   template up to GenStackLen names - each with the outcome the specification expects,
   and writes them as NDJSON.  The harness materialises them as text; the trace spec
   judges the raw text and cross-checks the template's expectation (TemplateAgrees). *)
EXTENDS ExternalImport, Json, IOUtils
CONSTANTS GenWraps, GenStackLen

LineCases  == { [kind |-> "line", t |-> t, kept |-> TemplateKept(t), cat |-> TemplateCat(t)] :
                  t \in DataTemplates(GenWraps) \cup OtherTemplates }
PairCases  == { [kind |-> "pair", t |-> t, kept |-> PairTemplateKept(t)] : t \in PairTemplates }
StackCases == { [kind |-> "stack", t |-> t, steps |-> StackTemplateSteps(t)] : t \in StackTemplates(GenStackLen) }

ASSUME ndJsonSerialize(IOEnv.OUT_FILE, SetToSeq(LineCases) \o SetToSeq(PairCases) \o SetToSeq(StackCases))
ASSUME PrintT(<<"GENERATED", Cardinality(LineCases), Cardinality(PairCases), Cardinality(StackCases)>>)
=============================================================================
