"""C04 - Stacking annotation equals its geometric definition."""
from .. import annot, lib, measurer

PID = "C04"


def run(tier):
    rep = lib.Report(PID, tier, "exploration")
    with lib.Scratch("c04") as sc:
        measurer.constants(sc)
        annot.run_mcs(rep, sc, [
            ("MC_Annot_stack2.cfg", "find_stackings scan of one candidate pair over every three-valued flag combination "
                                    "(near = float comparison may go either way), both residue orders; clauses as invariants",
             None, ("ScanPair", "ScanDone")),
            ("MC_Annot_stack3.cfg" if tier == "quick" else "MC_Annot_stack3_T.cfg",
             "find_stackings scan of three residues in every chain/number order (quick: 6, thorough: 36 flag "
             "combinations per candidate): once, ordered, sound, complete", None, ("ScanPair", "ScanDone")),
        ])
        recipes = annot.usable_recipes(tier) + annot.probe_recipes("C04", tier)
        cases = lib.pmap(annot.record_c04, recipes)
        res, info = annot.validate("C04", cases, sc)
        by_id = {c["id"]: c for c in cases}
        rep.add_trace(res, by_id, "C04")
        cov = rep.cov
        sens = sum(v[0] for v in info.values())
        must = sum(v[1] for v in info.values())
        near = sum(v[2] for v in info.values())
        cov["interpretation_sensitive"] = sens
        cov["candidates_certainly_qualifying"] = must
        cov["candidates_undecided_near_threshold"] = near
        cov["candidates_measured"] = sum(len(c["stk"]) for c in cases)
        cov["stackings_reported"] = sum(len(c["stacks"]) for c in cases)
        cov["structures"] = sorted({c["recipe"]["file"] for c in cases})
        cov["exhaustive"] = False
        cov["rule"] = ("corpus structures from tests/ (%d files; thorough: all non-empty files, reader models 1-3), each as read, "
                       "rigidly moved, jittered (sigma 0.02/0.1/0.3 A), thinned of residues / atoms, squashed, residue order "
                       "shuffled, and as a two-model structure; plus threshold probes (two stacked residues of a corpus "
                       "structure, one moved rigidly so that the centroid distance / normal angle / offset angle sits at "
                       "its threshold +- delta). Every residue pair with centroid distance <= 7 A is measured. A case "
                       "(structure variant) is non-trivial when the code reports >= 1 stacking AND the spec finds >= 1 "
                       "candidate that certainly qualifies; distinct = distinct recipe ids." % len(cov["structures"]))
        cov["distinct_nontrivial"] = len({c["id"] for c in cases if c["stacks"] and info.get(c["id"], [0, 0, 0])[1] > 0})
        big = [c for c in cases if c["stacks"]]
        if big:
            s = min(big, key=lambda c: len(c["stk"]))
            cov["samples"] = [{"id": s["id"], "recipe": s["recipe"], "model": s["model"], "stk": s["stk"][:6],
                               "stacks": s["stacks"][:6], "info": info.get(s["id"])}]
        else:
            cov["samples"] = [{"id": cases[0]["id"]}]
        rep.assumptions += [
            "distances/angles are measured by harness/measurer.py (independent numpy code); TLC sees integers in "
            "micro-units and a three-valued flag per threshold and re-checks their coherence (MeasureCoherent)",
            "thresholds and atom tables come from specs/Annot.tla via Gen_Annot (never from /repo)",
            "base normal and base centroid follow the definitions stated in Annot.tla (three-atom normal, mean of base "
            "heavy atoms); an atom of a residue is the first atom carrying the name",
            "direction of the centroid-centroid vector: weakest reading for soundness, the code's direction for "
            "completeness (DESIGN C04); direction-only candidates are counted as interpretation_sensitive",
        ]
    return rep.finish()


def replay(doc):
    case = doc.get("case")
    if not case:
        print(doc.get("tlc_output_tail", ""))
        return run("quick")
    rep = lib.Report(PID, "quick", "exploration", evidence=False)
    with lib.Scratch("c04r") as sc:
        measurer.constants(sc)
        rec = annot.record_c04(case["recipe"])
        res, info = annot.validate("C04", [rec], sc)
        rep.add_trace(res, {rec["id"]: rec}, "C04")
        rep.cov["samples"] = [{"id": rec["id"], "recipe": rec["recipe"]}]
        rep.cov["distinct_nontrivial"] = 1
    return rep.finish()
