SPECIFICATION Spec
CONSTANT TerOnModelChange = FALSE
CONSTANT CifChargeVerbatim = FALSE
CONSTANT ShapeLevel = 0
CONSTANT TerChainPadded = TRUE
CONSTANT BlankSecondChain = FALSE
CONSTANT MaxAtoms = 3
INVARIANT InvDomain
INVARIANT InvReadBack
INVARIANT InvLayout80
INVARIANT InvModelBracketing
INVARIANT InvDeviationExact
INVARIANT InvFieldIdentity
CHECK_DEADLOCK FALSE
