"""C15 - Both reader generations and both file formats agree on structure content."""
import json

from .. import lib, atomtable as at

PID = "C15"
TIERS = {
    "quick":    dict(mc="MC_ReadersAgree_quick.cfg", tables=300, dups=48, corpus=(4, 4)),
    "thorough": dict(mc="MC_ReadersAgree_thorough.cfg", tables=5000, dups=600, corpus=(9, 8)),
}
ACTIONS = ("WriteLine", "Close", "V1Read", "V1Connect", "V2GroupBy", "V2SortChain", "V2SegmentStep", "V2Flush")
# seeded design variants (not defects of the code): they show that ReadersAgree is not vacuous
NEG = [("MC_ReadersAgree_neg_sort.cfg", "ReadersAgree",
        "seeded variant: the table-level reader's chain sort ignores the insertion code"),
       ("MC_ReadersAgree_neg_bond.cfg", "ReadersAgree",
        "seeded variant: the table-level reader's O3'-P threshold drifts to 2.415 A")]


def validate(rep, cases, sc, what, batch=3000):
    """Trace validation in batches; returns the skipped ids and the number of |chi| comparisons decided."""
    skipped, chi = [], 0
    for k in range(0, len(cases), batch):
        part = cases[k:k + batch]
        res = lib.trace_validate("Trace_AtomTable", "Trace_AtomTable_C15.cfg", part, sc)
        skipped += [v[0] for v in res["verdicts"] if v[1] == "skip"]
        res["verdicts"] = [v for v in res["verdicts"] if v[1] != "skip"]
        rep.add_trace(res, {c["id"]: c for c in part}, what)
        extra = res.get("extra", [0, 0])
        chi += extra[1] if len(extra) > 1 else 0
    return skipped, chi


def run(tier):
    t = TIERS[tier]
    rep = lib.Report(PID, tier, "model_checking")
    with lib.Scratch(PID.lower()) as sc:
        at.set_tmpdir(sc.path("files"))
        from concurrent.futures import ThreadPoolExecutor
        pool = ThreadPoolExecutor(max_workers=3)
        job = pool.submit(lib.mc, "MC_ReadersAgree", t["mc"], sc, workers=max(2, lib.NCPU // 4))
        neg_jobs = [(why, pool.submit(lib.mc, "MC_ReadersAgree", cfg, sc, expect_violation=inv, workers=2))
                    for cfg, inv, why in NEG]
        tables = at.c15_tables(t["tables"], lib.seed())
        dups = at.c15_dup_tables(t["dups"], lib.seed())
        corpus = at.c15_corpus_tables(at.CORPUS_C15[:t["corpus"][0]], t["corpus"][1], lib.seed())
        emitted = at.check_emitters(tables + dups + corpus)    # machinery guard (own tokenizers read the emitters back)
        cases = at.c15_cases(tables + dups + corpus)
        import time
        t0 = time.time()
        rec = lib.pmap(at.record_c15, cases)
        t1 = time.time()
        skipped, chi = validate(rep, rec, sc, "C15")
        rep.cov["phase_wall_s"] = {"record_s": round(t1 - t0, 1), "validate_s": round(time.time() - t1, 1)}
        bad_skip = [i for i in skipped if not i.startswith("corpus-")]
        if bad_skip:
            raise lib.MachineryError(f"generated tables outside the spec's domain (generator defect): {bad_skip[:5]}")
        if chi < len(tables) // 2:
            raise lib.MachineryError(f"only {chi} |chi| comparisons were decided (vacuous SameChiMagnitude)")
        rep.add_mc(job.result(), "both reader generations, action by action, on every single-model single-conformer file over "
                                 "a backbone palette (O3'/P at 1.6 A, 2.41 A, far); clauses SameResidues, SameAtomsAndCoords, "
                                 "SameConnectivity, ReadersAgree as invariants", min_actions=ACTIONS)
        for why, j in neg_jobs:
            rep.add_mc(j.result(), why, negative_control=True)
        pool.shutdown()
        cov = rep.cov
        cov["exhaustive"] = False
        cov["rule"] = (f"{len(tables)} seeded single-model, single-conformer nucleotide backbones (1-2 chains, 2-5 residues "
                       f"per chain, ascending numbers with insertion-code successors and gaps, hetero tails) whose consecutive "
                       f"residues are joined by the link classes {sorted(at.LINKS)} (O3'-P at 1.600 / 2.390 / 2.399 A = bonded, "
                       "2.401 / 2.410 / 2.500 / 7.0 A = broken, P or O3' missing), null-marker classes for icode / occupancy; "
                       f"+ {len(corpus)} windows of single-conformer corpus structures.  Each table is written as PDB and as "
                       "mmCIF by the harness's emitters and read by read_3d_structure and by parse_*_atoms + Structure "
                       "(4 readings).  Non-trivial = distinct table with at least one bonded and one non-bonded consecutive pair.")
        def mixed(x):
            ls = x.get("links", [])
            return any(k.startswith("bond") for k in ls) and any(not k.startswith("bond") for k in ls)
        cov["distinct_nontrivial"] = len({json.dumps(x["lines"], sort_keys=True) for x in tables if mixed(x)})
        cov["chi_magnitudes_compared"] = chi
        cov["repeated_record_tables"] = len(dups)
        cov["cases_skipped_outside_domain"] = len(skipped)
        cov["emitter_roundtrips_checked"] = emitted
        cov["link_classes"] = {k: sum(1 for x in tables if k in x["links"]) for k in at.LINKS}
        s = dict(rec[0])
        s["lines"] = s["lines"][:12]
        for r in s["reads"]:
            r["res"], r["queried"] = r["res"][:1], r["queried"][:2]
        cov["samples"] = [s]
        rep.assumptions += [
            "the harness's PDB and mmCIF emitters write the abstract table faithfully; coordinates are read back as "
            "milli-Angstrom integers by rounding, |chi| as micro-radians (tolerance 10)",
            "scope (decided by the spec, AgreeDomain): one model, no alternate locations, every atom once, no two atoms within "
            "0.5 A, no O3'-P distance exactly 2.4 A, residue numbers ascending within a chain in file order; cases outside "
            "are skipped and counted; tables with REPEATED atom records (equally occupied, no alternate-location flag) "
            "form a second domain (DupDomain) on which only agreement is demanded - the same residues and atom names, "
            "every reported atom one of the written records, the same connectivity answer of all four readings on each "
            "consecutive pair, |chi| alike - since which record a reader keeps is not fixed by the statement",
            "only |chi| is compared: the sign convention of tertiary_v2 belongs to property C18",
            "residue order is not compared (the table-level reader sorts residues); connectivity of the residue-level "
            "reader is queried for every ordered pair of residues of a chain",
        ]
    return rep.finish()


def replay(doc):
    case = doc.get("case")
    if not case:
        print(doc.get("tlc_output_tail", ""))
        return run("quick")
    rep = lib.Report(PID, "quick", "model_checking", evidence=False)
    with lib.Scratch("c15r") as sc:
        at.set_tmpdir(sc.path("files"))
        rec = at.record_c15({k: case[k] for k in ("id", "kind", "fmts", "lines", "serial0") if k in case})
        res = lib.trace_validate("Trace_AtomTable", "Trace_AtomTable_C15.cfg", [rec], sc, chunks=1)
        res["verdicts"] = [v for v in res["verdicts"] if v[1] != "skip"]
        rep.add_trace(res, {rec["id"]: rec}, "C15")
        rep.cov["samples"] = [rec]
        rep.cov["distinct_nontrivial"] = 1
    return rep.finish()
