------------------------ MODULE Domain_TorsionLattice ------------------------
(* Exhaustiveness guard: the lattice inputs of the recorded cases are exactly the spec's
   enumeration domain (every non-degenerate tuple, each once).  A harness that silently
   skips or repeats cases is caught here, by TLC, not by the harness. *)
EXTENDS TorsionLattice, Json, IOUtils, TLC
CONSTANTS R, P2Origin
Doc   == JsonDeserialize(IOEnv.TRACE_FILE)
Items == Doc.items
ToPts(p) == <<<<p[1][1], p[1][2], p[1][3]>>, <<p[2][1], p[2][2], p[2][3]>>,
              <<p[3][1], p[3][2], p[3][3]>>, <<p[4][1], p[4][2], p[4][3]>>>>
Dom   == NonDegTuples(R, P2Origin)
InLattice(p) == \A i \in 1..4, j \in 1..3 : p[i][j] \in -R..R
DomainOK ==
  /\ \A k \in 1..Len(Items) : InLattice(Items[k])
  /\ { Code(ToPts(Items[k]), R) : k \in 1..Len(Items) } = { Code(p, R) : p \in Dom }
  /\ Len(Items) = Cardinality(Dom)
ASSUME PrintT(<<"DOMAIN", DomainOK, Len(Items)>>)
=============================================================================
