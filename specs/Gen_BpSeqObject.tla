--------------------------- MODULE Gen_BpSeqObject ---------------------------
(* spec -> code: every call history of exactly Depth steps that the Required model of
   BpSeqObject enables (receiver must exist; derived objects may themselves be called),
   for each palette structure.  Written as NDJSON for the harness to replay on real objects. *)
EXTENDS BpSeqObject, Json, IOUtils
CONSTANTS N, Depth, MaxObjs
Palette == << {<<1, 8>>, <<2, 7>>, <<4, 5>>}, {<<1, 6>>, <<2, 5>>, <<4, 8>>}, {<<1, 5>>, <<3, 7>>, <<6, 8>>},
              {<<1, 4>>, <<5, 8>>}, {<<1, 8>>, <<2, 7>>, <<3, 6>>}, {} >>
SomeOpt(st, o) == LET m == M(st, o)  R == Regions(m) IN Fill(Len0(st, o), R, CHOOSE f \in OptimalSet(R) : TRUE)
RECURSIVE Hist(_, _)
Hist(st, d) ==
  IF d = 0 THEN { <<>> }
  ELSE UNION { UNION { { << [recv |-> o, op |-> op] >> \o h :
                           h \in Hist(Do(st, op, o, SomeOpt(st, o), FALSE).st, d - 1) }
                       : op \in { x \in Ops : x \in {"without_pseudoknots", "without_isolated"} => Len(st.objs) < MaxObjs } }
               : o \in 1..Len(st.objs) }
Cases == UNION { { [struct |-> k, pairs |-> SetToSeq(Palette[k]), n |-> N, calls |-> h] :
                   h \in Hist(InitState(ColOf(Palette[k], N)), Depth) } : k \in 1..Len(Palette) }
ASSUME ndJsonSerialize(IOEnv.OUT_FILE, SetToSeq(Cases))
ASSUME PrintT(<<"GENERATED", Cardinality(Cases)>>)
=============================================================================
