--------------------------- MODULE Trace_PoaSolver ---------------------------
(* Trace validation for C13.  A case = one call of BpSeq.dot_bracket (entry "property") or
   convert_to_dot_bracket(solver) (entry "explicit") under an injected solver configuration and
   fault; the fakes log HighsProbed / SolveCalled / SolveReturned / SolveRaised, the driver logs
   the returned text or the exception type.  The events are replayed through PoaSolver's
   transition function; the text clauses come from SecStruct. *)
EXTENDS SecStruct, PoaSolver, Json, IOUtils

Doc   == JsonDeserialize(IOEnv.TRACE_FILE)
Trace == Doc.cases
VARIABLES idx, cnt
vars == <<idx, cnt>>

RECURSIVE Pow(_, _)
Pow(b, e) == IF e = 0 THEN 1 ELSE b * Pow(b, e - 1)
Feasible(C) == Cardinality(C) <= 7 /\ Pow(MaxDeg(C) + 1, Cardinality(C)) <= 100000

Lossless(c, m, e) ==
  /\ e.seq = c.seq /\ Len(e.db) = c.n /\ AlphabetOK(e.db)
  /\ LET d == Decode(e.db) IN d.balanced /\ d.pairs = m /\ NoCrossSameType(e.db, m)

Verdict(c) ==
  LET m == PairSet(c.pairs) IN
  IF ~IsMatching(m, c.n) \/ c.cfg \notin Configs \/ c.fault \notin Faults \/ c.entry \notin Entries
    THEN <<"fail", "InputWellFormed", "harness">>
  ELSE
  LET R == Regions(m)   kn == Knotted(R)
      req  == Replay(c.entry, c.cfg, kn, c.events, FALSE)
      impl == Replay(c.entry, c.cfg, kn, c.events, TRUE)
      want == RequiredResult(c.cfg, c.fault, kn) IN
  IF c.events # ExpectedEvents(c.entry, c.cfg, c.fault, kn) THEN
       \* the solver was consulted when it must not be, not consulted when it must, or asked twice
       <<"fail", "EventsAsExpected", c.entry>>
  ELSE IF c.result.err # "" THEN
       IF c.result.err = "TypeError" /\ impl.pc = "done" /\ impl.result = "TypeError" /\ want = "fcfs"
       THEN <<"deviation", "FallbackCallsCachedValue", c.entry>>
       ELSE <<"fail", "NeverRaises", c.result.err>>
  ELSE IF req.pc # "done" \/ req.result # want THEN <<"fail", "AutomatonRejects", c.entry>>
  ELSE IF ~Lossless(c, m, c.result) THEN <<"fail", "ResultLossless", c.entry>>
  ELSE IF want = "fcfs" /\ c.result.db # Fill(c.n, R, FcfsLevels(R)) THEN <<"fail", "NotOptimalImpliesFcfs", c.entry>>
  ELSE IF want = "pkfree" /\ c.result.db # Fill(c.n, R, [r \in R |-> 0]) THEN <<"fail", "PkFreeRoundOnly", c.entry>>
  ELSE IF want = "optimal" /\ (\A C \in KnotComponents(R) : Feasible(C)) /\ ObjText(c.result.db, m) # Opt(R)
       THEN <<"fail", "OkImpliesOptimal", c.entry>>
  ELSE <<"ok">>

Init == idx = 0 /\ cnt = [ok |-> 0, deviation |-> 0, fail |-> 0]
Next ==
  /\ idx < Len(Trace)
  /\ idx' = idx + 1
  /\ LET c == Trace[idx']  v == Verdict(c) IN
     /\ cnt' = [cnt EXCEPT ![v[1]] = @ + 1]
     /\ (v[1] = "ok" \/ PrintT(<<"V", c.id>> \o v))
  /\ (idx' < Len(Trace) \/ PrintT(<<"SUMMARY", Len(Trace), cnt'.ok, cnt'.deviation, cnt'.fail>>))
Spec == Init /\ [][Next]_vars

\* exhaustiveness guard for the fault enumeration: every cell of the product was exercised on
\* every structure id listed in Doc.structures
CellsOf(sid) == { <<Trace[k].entry, Trace[k].cfg, Trace[k].fault>> : k \in { x \in 1..Len(Trace) : Trace[x].sid = sid } }
=============================================================================
