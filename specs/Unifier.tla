------------------------------ MODULE Unifier ------------------------------
(***************************************************************************)
(* rnapolis.unifier (command-line tool `unifier`): a set of PDB / mmCIF    *)
(* files holding the same molecule is made comparable atom by atom.        *)
(* Beyond the listed properties (growth item of DESIGN 10.7).              *)
(*                                                                         *)
(* This module is the FUNCTIONAL statement of what the tool must write     *)
(* (section 2) over an abstract view of its inputs (section 1).  The       *)
(* tool's own sequence of steps is modelled in MC_Unifier, which checks    *)
(* that the steps compute this function; Trace_Unifier judges recorded     *)
(* runs of the real tool against it.                                       *)
(***************************************************************************)
EXTENDS Naturals, Integers, Sequences, FiniteSets, SequencesExt, TLC

\* ------------------------------------------------------------------ 1. data
\* A file: [fmt |-> "pdb" | "cif", res |-> sequence of residues in FILE order]
\* A residue: [ch, num, ic, rn, atoms |-> sequence of [an |-> name as written, k |-> identity of the line]]
\* (k is carried by the x coordinate of the line, so every written atom can be traced to its source)

Nucleotides == {"A", "C", "G", "U"}
Backbone == <<"OP3", "P", "OP1", "OP2", "O5'", "C5'", "C4'", "O4'", "C3'", "O3'", "C2'", "O2'", "C1'">>
BaseOf(rn) ==
  CASE rn = "A" -> <<"N9", "C8", "N7", "C5", "C6", "N6", "N1", "C2", "N3", "C4">>
    [] rn = "C" -> <<"N1", "C2", "O2", "N3", "C4", "N4", "C5", "C6">>
    [] rn = "G" -> <<"N9", "C8", "N7", "C5", "C6", "O6", "N1", "C2", "N2", "N3", "C4">>
    [] rn = "U" -> <<"N1", "C2", "O2", "N3", "C4", "O4", "C5", "C6">>
\* the component's heavy atoms in the order of the wwPDB chemical component (committed copy; the harness
\* compares the repository's component_*.csv with it and reports a difference as ComponentTableChanged)
Heavy(rn) == Backbone \o BaseOf(rn)
HeavySet(rn) == { Heavy(rn)[n] : n \in 1..Len(Heavy(rn)) }
\* alternative (legacy) names of heavy atoms
AltPairs == { <<"O3P", "OP3">>, <<"O1P", "OP1">>, <<"O2P", "OP2">>, <<"O5*", "O5'">>, <<"C5*", "C5'">>,
              <<"C4*", "C4'">>, <<"O4*", "O4'">>, <<"C3*", "C3'">>, <<"O3*", "O3'">>, <<"C2*", "C2'">>,
              <<"O2*", "O2'">>, <<"C1*", "C1'">> }
Std(an) == IF \E p \in AltPairs : p[1] = an THEN (CHOOSE p \in AltPairs : p[1] = an)[2] ELSE an
RankIn(rn, name) == CHOOSE n \in 1..Len(Heavy(rn)) : Heavy(rn)[n] = name

\* order in which the table-level structure model lists residues: chain (ASCII), number, insertion
\* code (letters first, blank last) - see AtomTable.tla / MC_ReadersAgree, action V2SortChain
ChainChars == <<"0","1","2","3","4","5","6","7","8","9",
                "A","B","C","D","E","F","G","H","I","J","K","L","M","N","O","P","Q","R","S","T","U","V","W","X","Y","Z",
                "a","b","c","d","e","f","g","h","i","j","k","l","m","n","o","p","q","r","s","t","u","v","w","x","y","z">>
KnownChain(ch) == \E n \in 1..Len(ChainChars) : ChainChars[n] = ch
ChainRank(ch) == CHOOSE n \in 1..Len(ChainChars) : ChainChars[n] = ch
IcLetters == <<"A","B","C","D","E","F","G","H","I","J","K","L","M","N","O","P","Q","R","S","T","U","V","W","X","Y","Z">>
KnownIc(ic) == ic = "" \/ \E n \in 1..26 : IcLetters[n] = ic
IcRank(ic) == IF ic = "" THEN 27 ELSE CHOOSE n \in 1..26 : IcLetters[n] = ic
IdOf(r) == <<r.ch, r.num, r.ic>>
ResLess(a, b) ==
  \/ ChainRank(a.ch) < ChainRank(b.ch)
  \/ a.ch = b.ch /\ a.num < b.num
  \/ a.ch = b.ch /\ a.num = b.num /\ IcRank(a.ic) < IcRank(b.ic)

SeqRange(s) == { s[n] : n \in 1..Len(s) }
\* TLC keeps [n \in 1..k |-> e] as an unevaluated function and re-evaluates e at every application;
\* concatenation with the empty sequence turns it into an evaluated tuple (same value)
Force(s) == s \o <<>>

\* the domain on which the statement below is unambiguous
FileOK(F) ==
  /\ F.fmt \in {"pdb", "cif"}
  /\ Len(F.res) > 0
  /\ \A n \in 1..Len(F.res) :
       LET r == F.res[n] IN
       /\ KnownChain(r.ch) /\ KnownIc(r.ic) /\ r.num \in -999..9999
       /\ Len(r.atoms) > 0
       \* residue names that are fragments of "ACGU" without being a nucleotide are out of scope
       /\ r.rn \notin {"", "AC", "CG", "GU", "ACG", "CGU", "ACGU"}
       \* one line per standard name (legacy and standard spelling of one atom never both present)
       /\ \A a, b \in 1..Len(r.atoms) : a # b => Std(r.atoms[a].an) # Std(r.atoms[b].an)
  /\ \A m, n \in 1..Len(F.res) : m # n => IdOf(F.res[m]) # IdOf(F.res[n])
  /\ \A m, n \in 1..Len(F.res) : \A a \in 1..Len(F.res[m].atoms) : \A b \in 1..Len(F.res[n].atoms) :
        (m # n \/ a # b) => F.res[m].atoms[a].k # F.res[n].atoms[b].k

\* ------------------------------------------------------------------ 2. the function
\* (identifiers are unique within a file: the n-th residue is the one with n-1 residues before it)
Sorted(F) ==
  LET S == SeqRange(F.res) IN
  Force([n \in 1..Len(F.res) |-> CHOOSE r \in S : Cardinality({ q \in S : ResLess(q, r) }) = n - 1])

\* a nucleotide reduced to its standard heavy atoms, renamed and in component order
Kept(rn, atoms) == SelectSeq(Force([n \in 1..Len(atoms) |-> [an |-> Std(atoms[n].an), k |-> atoms[n].k]]),
                             LAMBDA a : a.an \in HeavySet(rn))
\* (standard names are unique within a residue: walk the component's names and pick the atom that has each)
Canonical(rn, atoms) ==
  LET K == Kept(rn, atoms)
      present == SelectSeq(Heavy(rn), LAMBDA name : \E a \in SeqRange(K) : a.an = name) IN
  Force([n \in 1..Len(present) |-> CHOOSE a \in SeqRange(K) : a.an = present[n]])
Norm(r) == [r EXCEPT !.atoms = Canonical(r.rn, r.atoms)]
NucleotidesOf(F) ==
  LET S == SelectSeq(Sorted(F), LAMBDA r : r.rn \in Nucleotides) IN Force([n \in 1..Len(S) |-> Norm(S[n])])

\* Fs: the sequence of files in argument order; R: their nucleotide lists
Lists(Fs) == Force([f \in 1..Len(Fs) |-> NucleotidesOf(Fs[f])])

\* the tool refuses (exit status 1, nothing written) unless every file lists as many nucleotides as the
\* first one, with the same names position by position
Comparable(R) ==
  \A f \in 1..Len(R) : /\ Len(R[f]) = Len(R[1])
                       /\ \A i \in 1..Len(R[1]) : R[f][i].rn = R[1][i].rn

\* positions at which some file holds another NUMBER of atoms than the first file: removed everywhere
Differing(R) == { i \in 1..Len(R[1]) : \E f \in 1..Len(R) : Len(R[f][i].atoms) # Len(R[1][i].atoms) }
KeptPositions(R) == LET D == Differing(R) IN SelectSeq(Force([i \in 1..Len(R[1]) |-> i]), LAMBDA i : i \notin D)

\* identifiers: the most common (chain, number, insertion code) at a position; of equally common ones
\* the one met first in argument order
Votes(R, i, id) == Cardinality({ f \in 1..Len(R) : IdOf(R[f][i]) = id })
Majority(R, i) ==
  LET best == { f \in 1..Len(R) : \A g \in 1..Len(R) : Votes(R, i, IdOf(R[g][i])) <= Votes(R, i, IdOf(R[f][i])) }
      first == CHOOSE f \in best : \A g \in best : f <= g
  IN IdOf(R[first][i])

\* what is written for file f
Expected(R, f) ==
  LET K == KeptPositions(R) IN
  Force([j \in 1..Len(K) |->
     LET r == R[f][K[j]]  id == Majority(R, K[j]) IN
     [ch |-> id[1], num |-> id[2], ic |-> id[3], rn |-> r.rn, atoms |-> r.atoms]])

\* ------------------------------------------------------------------ 3. what unification achieves
\* (consequences of section 2; MC_Unifier checks them on the tool's own steps)
SameShape(O) ==        \* O: sequence of written residue lists
  \A f, g \in 1..Len(O) :
     /\ Len(O[f]) = Len(O[g])
     /\ \A j \in 1..Len(O[f]) : /\ O[f][j].rn = O[g][j].rn
                                /\ IdOf(O[f][j]) = IdOf(O[g][j])
                                /\ Len(O[f][j].atoms) = Len(O[g][j].atoms)
\* NOT achieved by the tool as designed (atom COUNTS are compared, not atom names): two files that miss
\* different atoms of one nucleotide keep it, with different atoms at equal positions (negative control)
SameAtomNames(O) ==
  \A f, g \in 1..Len(O) : \A j \in 1..Len(O[f]) :
     Len(O[g]) >= j => [n \in 1..Len(O[f][j].atoms) |-> O[f][j].atoms[n].an]
                       = [n \in 1..Len(O[g][j].atoms) |-> O[g][j].atoms[n].an]
=============================================================================
