---- MODULE TB ----
EXTENDS PdbText, Json, IOUtils
Doc   == JsonDeserialize(IOEnv.TRACE_FILE)
Trace == Doc.cases
Rows == Trace[1].frames[1].rows
L == Trace[1].texts[1].lines
N == 300
T0 == TRUE
T1 == \A n \in 1..N : \A k \in 1..Len(Rows) : Len(FormatAtom([Rows[k] EXCEPT !.serial = n])) = 80
T2 == \A n \in 1..N : \A k \in 1..Len(Rows) : AtomLineBad(L[2], [Rows[k] EXCEPT !.serial = n]) # "zz"
T3 == \A n \in 1..N : \A k \in 1..Len(Rows) : Len(FixedText(Rows[k].x + n, 3)) > 1
T4 == \A n \in 1..N : \A k \in 1..Len(L) : Kind(L[k]) # "zz" \/ n = 0
ASSUME PrintT(<<"T2", T2>>)
====
