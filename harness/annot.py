"""Area `Annot` (C03, C04, C11): corpus, perturbations, recorders and projections.

No judgement here.  A *recipe* (file, reader model, variant, parameter, seed, analysed model)
deterministically yields a Structure3D; the real annotator is called through its public API;
the independent measurer (harness/measurer.py) measures; both are projected into small JSON
values (1-based residue indices, integers in micro-units, three-valued flags, 1-character
strings) for specs/Trace_Annot.tla, which decides every clause.
"""
import csv
import gzip
import io
import json
import logging
import math
import os
import random
import string

import numpy as np

from . import lib, measurer

QUICK_FILES = ["1ehz-assembly-1.cif", "488d.pdb", "1E7K_1_C.cif", "2HY9.cif", "1A1T_1_B.cif", "4WTI_1_T-P.cif", "4qln.pdb", "6RS3.cif"]
SIGMAS = (0.02, 0.1, 0.3)
_cache = {}


def quiet():
    logging.disable(logging.CRITICAL)
    np.seterr(all="ignore")


# ----------------------------------------------------------------------------- corpus

def corpus_files():
    d = os.path.join(lib.REPO, "tests")
    out = []
    for n in sorted(os.listdir(d)):
        p = os.path.join(d, n)
        if n.endswith((".cif", ".pdb", ".cif.gz")) and os.path.getsize(p) > 0:
            out.append(n)
    return out


def _text(name):
    p = os.path.join(lib.REPO, "tests", name)
    if name.endswith(".gz"):
        with gzip.open(p, "rt") as f:
            return f.read()
    with open(p) as f:
        return f.read()


def n_models(name):
    """Number of models declared by the file (text scan; only used to pick reader models)."""
    t = _text(name)
    if name.replace(".gz", "").endswith(".pdb"):
        return max(1, sum(1 for ln in t.splitlines() if ln.startswith("MODEL ")))
    # mmCIF: distinct values of pdbx_PDB_model_num are not trivial to scan; ask the reader per model instead
    return 0


def load(name, read_model=None):
    """Structure3D of a corpus file through the public reader (cached per process)."""
    key = (name, read_model)
    if key in _cache:
        return _cache[key]
    from rnapolis.parser import read_3d_structure
    quiet()
    with lib.Scratch("annot-load") as sc:
        suffix = ".pdb" if name.replace(".gz", "").endswith(".pdb") else ".cif"
        path = sc.path("in" + suffix)
        with open(path, "w") as f:
            f.write(_text(name))
        with open(path) as f:
            s = read_3d_structure(f, read_model)
    _cache[key] = s
    return s


# ----------------------------------------------------------------------------- perturbations

def _rebuild(structure, fn_xyz=None, keep_res=None, keep_atom=None, model=None, relabel=None):
    """New Structure3D from the public dataclasses; coordinates mapped by fn_xyz(np.array n x 3);
    relabel(ri, r) -> (label, auth) gives a residue (and its atoms) another identity."""
    from rnapolis.tertiary import Atom, Residue3D, Structure3D
    residues = []
    allxyz = np.array([[a.x, a.y, a.z] for r in structure.residues for a in r.atoms], dtype=float).reshape(-1, 3)
    if fn_xyz is not None and len(allxyz):
        allxyz = fn_xyz(allxyz)
    k = 0
    for ri, r in enumerate(structure.residues):
        atoms = []
        for ai, a in enumerate(r.atoms):
            x, y, z = (float(v) for v in allxyz[k])
            k += 1
            if keep_atom is not None and not keep_atom(ri, ai, a):
                continue
            lab, au = (a.label, a.auth) if relabel is None else relabel(ri, r)
            atoms.append(Atom(a.entity_id, lab, au, a.model if model is None else model, a.name, x, y, z,
                              a.occupancy))
        if keep_res is not None and not keep_res(ri, r):
            continue
        if not atoms:
            continue
        lab, au = (r.label, r.auth) if relabel is None else relabel(ri, r)
        residues.append(Residue3D(lab, au, r.model if model is None else model, r.one_letter_name,
                                  tuple(atoms)))
    return Structure3D(residues)


PHOSPHATE_GROUP = ("P", "OP1", "OP2", "OP3", "O1P", "O2P", "O3P")


def _is_backbone(name):
    """sugar-phosphate backbone atom (everything primed except C1', and the phosphate group)"""
    return name in PHOSPHATE_GROUP or (name.endswith("'") and name != "C1'")


def code_view(recipe, structure):
    """The Structure3D handed to the code under test.  It is the measured structure itself except for
    variant "splitres", where the records of some residues are not contiguous: their phosphate group
    arrives as a second Residue3D with the same identity at the end of the list (this is what the reader
    produces for a file that lists a residue's atoms in two blocks).  Measurement and indexing use the
    merged view - a residue is what its identity says."""
    if recipe["variant"] != "splitres":
        return structure, []
    from rnapolis.tertiary import Residue3D, Structure3D
    rng = random.Random(f"{lib.seed()}|{recipe['file']}|splitres|{recipe.get('seed', 0)}")
    main, tail, split = [], [], []
    for k, r in enumerate(structure.residues):
        ph = tuple(a for a in r.atoms if a.name in PHOSPHATE_GROUP)
        rest = tuple(a for a in r.atoms if a.name not in PHOSPHATE_GROUP)
        if ph and rest and rng.random() < recipe.get("param", 0.3):
            main.append(Residue3D(r.label, r.auth, r.model, r.one_letter_name, rest))
            tail.append(Residue3D(r.label, r.auth, r.model, r.one_letter_name, ph))
            split.append(k + 1)
        else:
            main.append(r)
    return Structure3D(main + tail), split


def _rotation(rng):
    q, _ = np.linalg.qr(np.array([[rng.gauss(0, 1) for _ in range(3)] for _ in range(3)]))
    if np.linalg.det(q) < 0:
        q[:, 0] = -q[:, 0]
    return q


def build(recipe):
    """recipe -> (Structure3D, analysed model or None)"""
    base = load(recipe["file"], recipe.get("read_model"))
    v, p = recipe["variant"], recipe.get("param", 0)
    rng = random.Random(f"{lib.seed()}|{recipe['file']}|{recipe.get('read_model')}|{v}|{p}|{recipe.get('seed', 0)}")
    if v == "orig":
        return base, recipe.get("ann_model")
    if v == "rigid":
        rot = _rotation(rng)
        t = np.array([rng.uniform(-100, 100) for _ in range(3)])
        return _rebuild(base, lambda X: X @ rot.T + t), recipe.get("ann_model")
    if v == "jitter":
        nrng = np.random.default_rng(rng.getrandbits(32))
        return _rebuild(base, lambda X: X + nrng.normal(0.0, p, X.shape)), recipe.get("ann_model")
    if v == "thinres":
        drop = {i for i in range(len(base.residues)) if rng.random() < p}
        return _rebuild(base, keep_res=lambda ri, r: ri not in drop), recipe.get("ann_model")
    if v == "thinatoms":
        drop = {(ri, ai) for ri, r in enumerate(base.residues) for ai in range(len(r.atoms)) if rng.random() < p}
        return _rebuild(base, keep_atom=lambda ri, ai, a: (ri, ai) not in drop), recipe.get("ann_model")
    if v == "splitres":
        return base, recipe.get("ann_model")      # the code sees code_view(): some residues in two blocks
    if v == "baseonly":
        # some residues lose their whole sugar-phosphate backbone (base heavy atoms and C1' stay)
        drop = {i for i in range(len(base.residues)) if rng.random() < p}
        return _rebuild(base, keep_atom=lambda ri, ai, a: not (ri in drop and _is_backbone(a.name))), \
            recipe.get("ann_model")
    if v == "zeroocc":
        # the base atoms of some residues carry occupancy 0.00 (built but not observed): geometry is geometry
        from rnapolis.tertiary import Atom, Residue3D, Structure3D
        pick = {i for i in range(len(base.residues)) if rng.random() < p}
        out = []
        for ri, r in enumerate(base.residues):
            if ri in pick:
                atoms = tuple(Atom(a.entity_id, a.label, a.auth, a.model, a.name, a.x, a.y, a.z,
                                   a.occupancy if _is_backbone(a.name) or a.name == "C1'" else 0.0) for a in r.atoms)
                r = Residue3D(r.label, r.auth, r.model, r.one_letter_name, atoms)
            out.append(r)
        return Structure3D(out), recipe.get("ann_model")
    if v == "longchain":
        # the alphabetically first chain gets a longer name ("A" -> "A-2", as assemblies do): "A-2" < "B"
        from rnapolis.common import ResidueAuth, ResidueLabel
        names = sorted({r.auth.chain for r in base.residues if r.auth is not None})
        if len(names) < 2:
            return base, recipe.get("ann_model")
        first = names[0]
        # (an assembly file may already hold a chain "A-2": the new name must be new, or two residues share one identity)
        longer = next(first + sfx for sfx in ("-2", "-3", "-4", "-5", "-9", "-2x") if first + sfx not in names)

        def ren(ri, r):
            au = r.auth
            if au is not None and au.chain == first:
                au = ResidueAuth(longer, au.number, au.icode, au.name)
            return (r.label, au)
        return _rebuild(base, relabel=ren), recipe.get("ann_model")
    if v == "prefixchains":
        # every chain gets a five-character name; the names agree in their first four characters ("AA-10", "AA-11",
        # ... as copies of an assembly are named) and keep the order of the original names
        from rnapolis.common import ResidueAuth
        names = sorted({r.auth.chain for r in base.residues if r.auth is not None})
        new = {ch: f"AA-1{k}" for k, ch in enumerate(names[:10])}
        return _rebuild(base, relabel=lambda ri, r: (r.label, None if r.auth is None else ResidueAuth(
            new.get(r.auth.chain, r.auth.chain), r.auth.number, r.auth.icode, r.auth.name))), recipe.get("ann_model")
    if v == "icode":
        # order-preserving renumbering with insertion codes: residue k+1 becomes k^A for some k
        from rnapolis.common import ResidueAuth
        rs, ren, k = base.residues, {}, 0
        while k + 1 < len(rs):
            a, b = rs[k], rs[k + 1]
            if (a.auth is not None and b.auth is not None and a.auth.chain == b.auth.chain and not a.auth.icode
                    and not b.auth.icode and b.auth.number == a.auth.number + 1 and a.model == b.model
                    and rng.random() < p):
                ren[k + 1] = ResidueAuth(b.auth.chain, a.auth.number, "A", b.auth.name)
                k += 2
            else:
                k += 1
        return _rebuild(base, relabel=lambda ri, r: (r.label, ren.get(ri, r.auth))), recipe.get("ann_model")
    if v == "zeronum":
        # author numbers shifted chain by chain so that a residue inside the chain is numbered 0 (and the ones
        # before it negative); label numbers, where the file has them, stay as they are
        from rnapolis.common import ResidueAuth
        pivots = {}
        for r in base.residues:
            if r.auth is not None:
                pivots.setdefault(r.auth.chain, []).append(r.auth.number)
        pivots = {ch: sorted(set(ns))[min(len(set(ns)) - 1, rng.randint(3, 12))] for ch, ns in pivots.items()}
        return _rebuild(base, relabel=lambda ri, r: (r.label, None if r.auth is None else ResidueAuth(
            r.auth.chain, r.auth.number - pivots[r.auth.chain], r.auth.icode, r.auth.name))), recipe.get("ann_model")
    if v == "noring":
        # some bases lose the ring atoms that (with the amino group) define the base-phosphate class
        drop = {i for i in range(len(base.residues)) if rng.random() < p}
        lost = {"A": ("N1", "C6"), "G": ("N3", "C2"), "C": ("N3", "C4")}
        return _rebuild(base, keep_atom=lambda ri, ai, a: not (
            ri in drop and a.name in lost.get(base.residues[ri].one_letter_name.upper(), ()))), recipe.get("ann_model")
    if v == "twomodel0":
        # as "twomodel", the models numbered 0 and 1 (0 is a model number too); model 0 is analysed
        from rnapolis.tertiary import Structure3D
        nrng = np.random.default_rng(rng.getrandbits(32))
        m1 = _rebuild(base, model=0)
        m2 = _rebuild(base, lambda X: X + nrng.normal(0.0, 0.15, X.shape) + np.array([1.5, 0.0, 0.0]), model=1)
        return Structure3D(list(m1.residues) + list(m2.residues)), 0
    if v == "twomodel":
        # the structure as model 1 plus a jittered, shifted copy as model 2; model p is analysed
        from rnapolis.tertiary import Structure3D
        nrng = np.random.default_rng(rng.getrandbits(32))
        m1 = _rebuild(base, model=1)
        m2 = _rebuild(base, lambda X: X + nrng.normal(0.0, 0.15, X.shape) + np.array([1.5, 0.0, 0.0]), model=2)
        return Structure3D(list(m1.residues) + list(m2.residues)), int(p)
    if v == "squash":
        # coordinates scaled towards the centre: many more candidate contacts, crowded edges
        return _rebuild(base, lambda X: (X - X.mean(axis=0)) * p + X.mean(axis=0)), recipe.get("ann_model")
    if v == "shuffle":
        # residues listed in a random order (file order != chain/number order)
        from rnapolis.tertiary import Structure3D
        rs = list(base.residues)
        rng.shuffle(rs)
        return Structure3D(rs), recipe.get("ann_model")
    if v == "synthbph":
        return _synth_bph(recipe, rng), None
    if v == "probe":
        return _probe(recipe, base), recipe.get("ann_model")
    raise lib.MachineryError(f"unknown variant {v}")


# ----------------------------------------------------------------------------- threshold probes
_mcache = {}


def _measured(recipe, base):
    key = (recipe["file"], recipe.get("read_model"))
    if key not in _mcache:
        _mcache[key] = measurer.measure(base, measurer.constants())
    return _mcache[key]


def _rot(axis, deg):
    a = axis / np.linalg.norm(axis)
    t = math.radians(deg)
    Kx = np.array([[0, -a[2], a[1]], [a[2], 0, -a[0]], [-a[1], a[0], 0]])
    return np.eye(3) + math.sin(t) * Kx + (1 - math.cos(t)) * (Kx @ Kx)


def _two(base, i, j, fn):
    """Structure3D of residues i < j (structure order) with fn applied to the coordinates of residue j"""
    from rnapolis.tertiary import Atom, Residue3D, Structure3D
    ri, rj = base.residues[i], base.residues[j]
    X = fn(np.array([[a.x, a.y, a.z] for a in rj.atoms], dtype=float))
    atoms = tuple(Atom(a.entity_id, a.label, a.auth, a.model, a.name, float(x[0]), float(x[1]), float(x[2]), a.occupancy)
                  for a, x in zip(rj.atoms, X))
    return Structure3D([ri, Residue3D(rj.label, rj.auth, rj.model, rj.one_letter_name, atoms)])


def _bisect(f, lo, hi, n=60):
    flo, fhi = f(lo), f(hi)
    if flo is None or fhi is None or flo * fhi > 0:
        return None
    for _ in range(n):
        mid = 0.5 * (lo + hi)
        fm = f(mid)
        if fm is None:
            return None
        if flo * fm <= 0:
            hi, fhi = mid, fm
        else:
            lo, flo = mid, fm
    return 0.5 * (lo + hi)


def _probe(recipe, base):
    """Two residues of a corpus structure, the second one rigidly moved so that ONE decision quantity sits
    at its threshold + delta (param = "<quantity>:<delta>"; the seed picks the residue pair / contact)."""
    K = measurer.constants()
    U = float(K["micro"])
    M = _measured(recipe, base)
    q, delta = recipe["param"].split(":")
    delta = float(delta)
    k = int(recipe.get("seed", 0))
    R = {r["idx"]: r for r in M["residues"]}
    if q.startswith("stack"):
        cands = [c for c in M["stack_pairs"] if c["dist_flag"] == "in" and c["nn_flag"] == "in" and c["off_code_flag"] == "in"]
        if not cands:
            return base
        c = cands[(k * 7) % len(cands)]
        ri, rj = R[c["i"]], R[c["j"]]
        ci, cj, ni, nj = ri["centroid"], rj["centroid"], ri["normal"], rj["normal"]
        if q == "stackdist":
            target = K["stack_max_dist"] / U + delta
            u = (cj - ci) / np.linalg.norm(cj - ci)
            return _two(base, c["i"], c["j"], lambda X: X + (target - c["dist"]) * u)
        if q == "stacknn":
            target = K["stack_max_normal_angle"] / U + delta
            A = measurer.angle_deg(ni, nj)
            w = np.cross(ni, nj)
            if np.linalg.norm(w) < 1e-6:
                w = np.cross(ni, np.array([1.0, 0.0, 0.0]))
            want = target if A <= 90 else 180.0 - target
            Rm = _rot(w, want - A)
            return _two(base, c["i"], c["j"], lambda X: (X - cj) @ Rm.T + cj)
        if q == "stackoff":
            target = K["stack_max_offset_angle"] / U + delta
            v = ci - cj
            d = np.linalg.norm(v)
            offs = [measurer.angle_deg(v, ni), measurer.angle_deg(v, nj)]
            n = ni if offs[0] <= offs[1] else nj
            vh = v / d
            pz = vh - np.dot(vh, n) * n
            if np.linalg.norm(pz) < 1e-6:
                pz = np.cross(n, np.array([1.0, 0.0, 0.0]))
            pz = pz / np.linalg.norm(pz)

            def f(t):
                vv = math.cos(math.radians(t)) * n + math.sin(math.radians(t)) * pz
                return min(measurer.angle_deg(vv, ni), measurer.angle_deg(vv, nj)) - target
            t = _bisect(f, 0.0, 89.0)
            if t is None:
                return _two(base, c["i"], c["j"], lambda X: X)
            vv = math.cos(math.radians(t)) * n + math.sin(math.radians(t)) * pz
            newcj = ci - d * vv
            return _two(base, c["i"], c["j"], lambda X: X + (newcj - cj))
    # base-pair quantities: residue pairs with >= 2 certain base-to-base contacts
    groups = {}
    for c in M["contacts"]:
        if c["kind"] == "base" and c["dist_flag"] == "in" and c["ang1_flag"] == "in" and c["ang2_flag"] == "in":
            groups.setdefault((c["i"], c["j"]), []).append(c)
    keys = sorted(g for g in groups if len(groups[g]) >= 2 and M["pair_torsions"].get(g, {}).get("torsion") is not None)
    if not keys:
        return base
    g = keys[(k * 5) % len(keys)]
    c = groups[g][(k // 2) % len(groups[g])]
    ri, rj = R[g[0]], R[g[1]]
    pa, pb = ri["atoms"][c["a"]], rj["atoms"][c["b"]]
    if q == "hbdist":
        target = K["hbond_max_dist"] / U + delta
        u = (pb - pa) / np.linalg.norm(pb - pa)
        return _two(base, g[0], g[1], lambda X: X + (target - c["dist"]) * u)
    if q in ("hbangle_lo", "hbangle_hi"):
        target = (K["hbond_angle_lo"] if q.endswith("lo") else K["hbond_angle_hi"]) / U + delta
        n = ri["normal"]

        def f(sft):
            return measurer.angle_deg(n, pa - (pb + sft * n)) - target
        sft = _bisect(f, -6.0, 6.0)
        if sft is None:
            return _two(base, g[0], g[1], lambda X: X)
        return _two(base, g[0], g[1], lambda X: X + sft * n)
    if q == "cistrans":
        t0 = M["pair_torsions"][g]["torsion"]
        target = (K["cis_trans_boundary"] / U + delta) * (1.0 if t0 >= 0 else -1.0)
        axis = rj["glyco"] - ri["glyco"]
        if np.linalg.norm(axis) < 1e-6:
            return _two(base, g[0], g[1], lambda X: X)
        out = None
        for sign in (1.0, -1.0):      # rotating j about the N...N axis through N_j shifts the torsion by the angle
            Rm = _rot(axis, sign * (target - t0))
            cand = _two(base, g[0], g[1], lambda X: (X - rj["glyco"]) @ Rm.T + rj["glyco"])
            a = {x.name: np.array([x.x, x.y, x.z]) for x in reversed(cand.residues[1].atoms)}
            t1 = measurer.torsion_deg(ri["sugar"], ri["glyco"], a[K["glycosidic_purine"] if rj["letter"] in K["purines"]
                                                                   else K["glycosidic_other"]], a[K["sugar_atom"]])
            if t1 is not None and abs(t1 - target) < 1e-3:
                out = cand
                break
        return out if out is not None else cand
    raise lib.MachineryError(f"unknown probe {q}")


PROBES = {"C04": [("stackdist", 0.02), ("stacknn", 0.3), ("stackoff", 0.3)],
          "C03": [("hbdist", 0.02), ("hbangle_lo", 0.3), ("hbangle_hi", 0.3), ("cistrans", 0.3)]}


def probe_recipes(family, tier):
    files = QUICK_FILES[1:3] if tier == "quick" else [f for f in corpus_files()]
    seeds = range(3) if tier == "quick" else range(12)
    out = []
    for f in files:
        for q, d in PROBES[family]:
            for sgn in (-1.0, 1.0):
                for k in seeds:
                    out.append({"file": f, "variant": "probe", "param": f"{q}:{sgn * d:+g}", "seed": k})
                # the same quantity much closer to its threshold (a threshold that drifts by a rounded constant,
                # e.g. cos(50 deg) written as 0.64, moves by ~0.2 degrees)
                for k in (range(4) if tier == "quick" else range(6)):
                    out.append({"file": f, "variant": "probe", "param": f"{q}:{sgn * d / 6:+g}", "seed": k})
                # ... and closer still (a quantity computed from coordinates rounded to the input precision moves by
                # a few 1e-4 A / 1e-3 degrees)
                for k in (range(3) if tier == "quick" else range(6)):
                    out.append({"file": f, "variant": "probe", "param": f"{q}:{sgn * d / 60:+g}", "seed": k})
                if tier != "quick":
                    for k in range(3):
                        out.append({"file": f, "variant": "probe", "param": f"{q}:{sgn * d / 20:+g}", "seed": k})
    for r in out:
        r["id"] = "|".join(str(r.get(k, "")) for k in ("file", "read_model", "variant", "param", "seed"))
    return out


TEMPLATES = {"A": "1ehz-assembly-1.cif", "G": "1ehz-assembly-1.cif", "C": "1ehz-assembly-1.cif",
             "U": "1ehz-assembly-1.cif", "T": "2HY9.cif"}


def _template(letter, K):
    """first residue of that letter carrying every base atom, C1' and O2'/O4' where applicable"""
    s = load(TEMPLATES[letter])
    need = set(K["base_atoms"][letter]) | {K["sugar_atom"]}
    for r in s.residues:
        if r.one_letter_name == letter and need <= {a.name for a in r.atoms}:
            return r
    raise lib.MachineryError(f"no template residue for {letter}")


def _synth_bph(recipe, rng):
    """One complete nucleotide plus an artificial acceptor residue whose oxygens are placed at random
    within/around hydrogen-bond distance of the chosen base donor atoms (param = "<letter>:<donor>+<donor>:<p|r>")."""
    from rnapolis.common import ResidueAuth
    from rnapolis.tertiary import Atom, Residue3D, Structure3D
    K = measurer.constants()
    letter, donors, kind = recipe["param"].split(":")
    donors = donors.split("+")
    t = _template(letter, K)
    at = {}
    for a in t.atoms:
        at.setdefault(a.name, np.array([a.x, a.y, a.z]))
    cen = np.mean([at[n] for n in K["base_atoms"][letter] if n in at], axis=0)
    names = ["OP1", "OP2", "O5'", "O3'"] if kind == "p" else ["O2'", "O4'"]
    auth = ResidueAuth("Z", 900, None, "U")
    atoms = []
    for k, d in enumerate(donors):
        out = at[d] - cen
        out = out / np.linalg.norm(out)
        others = [at[o] for o in donors if o != d]
        while True:
            u = np.array([rng.gauss(0, 1) for _ in range(3)])
            u = u / np.linalg.norm(u)
            # roughly outward, and leaning away from the other chosen donor (so that contacts stay separate)
            if float(np.dot(u, out)) > 0.2 and all(float(np.dot(u, at[d] - o)) > 0.0 for o in others):
                break
        r = rng.uniform(2.6, 4.15)
        x, y, z = (float(c) for c in at[d] + r * u)
        atoms.append(Atom(None, None, auth, t.model, names[k], x, y, z, 1.0))
    if kind == "p":
        c = np.mean([[a.x, a.y, a.z] for a in atoms], axis=0) + np.array([0.3, 0.2, 0.1])
        far = cen + 30.0 * (c - cen) / np.linalg.norm(c - cen)
        atoms.insert(0, Atom(None, None, auth, t.model, "P", float(far[0]), float(far[1]), float(far[2]), 1.0))
    acc = Residue3D(None, auth, t.model, "U", tuple(atoms))
    return Structure3D([t, acc])


def synth_bph_recipes(per_subset):
    import itertools
    K = measurer.constants()
    out = []
    for letter in K["letters"]:
        ds = sorted(K["bph_rule"][letter])
        # one, two and (phosphate only: four oxygens) three donors of one base in contact with one nucleotide:
        # the per-pair class list then holds up to three raw classes before merging / cleaning
        subsets = [c for n in (1, 2, 3) for c in itertools.combinations(ds, n)]
        for sub in subsets:
            for kind in ("p", "r"):
                if len(sub) == 3 and kind == "r":
                    continue
                for k in range(per_subset * (4 if len(sub) >= 2 else 1)):
                    out.append({"file": TEMPLATES[letter], "variant": "synthbph",
                                "param": f"{letter}:{'+'.join(sub)}:{kind}", "seed": k})
    for r in out:
        r["id"] = "|".join(str(r.get(k, "")) for k in ("file", "read_model", "variant", "param", "seed"))
    return out


def recipes(tier):
    out = []
    if tier == "quick":
        files = [f for f in QUICK_FILES if f in corpus_files()]
        for f in files:
            out.append({"file": f, "variant": "orig"})
            out.append({"file": f, "variant": "jitter", "param": 0.1, "seed": 1})
            out.append({"file": f, "variant": "squash", "param": 0.93})
            if f in files[:2]:
                out.append({"file": f, "variant": "shuffle", "seed": 1})
            if f == files[0]:
                continue            # the largest quick structure gets four variants only
            out.append({"file": f, "variant": "rigid", "seed": 1})
            out.append({"file": f, "variant": "jitter", "param": 0.02, "seed": 1})
            out.append({"file": f, "variant": "jitter", "param": 0.3, "seed": 1})
            out.append({"file": f, "variant": "thinres", "param": 0.2, "seed": 1})
            out.append({"file": f, "variant": "thinatoms", "param": 0.05, "seed": 1})
            out.append({"file": f, "variant": "baseonly", "param": 0.25, "seed": 1})
            out.append({"file": f, "variant": "icode", "param": 0.3, "seed": 1})
            out.append({"file": f, "variant": "splitres", "param": 0.3, "seed": 1})
            out.append({"file": f, "variant": "zeroocc", "param": 0.25, "seed": 1})
            out.append({"file": f, "variant": "longchain", "param": 0, "seed": 1})
            out.append({"file": f, "variant": "zeronum", "param": 0, "seed": 1})
            out.append({"file": f, "variant": "noring", "param": 0.3, "seed": 1})
            out.append({"file": f, "variant": "prefixchains", "param": 0, "seed": 1})
        out.append({"file": files[2], "variant": "twomodel", "param": 1})
        out.append({"file": files[2], "variant": "twomodel", "param": 2})
        out.append({"file": files[2], "variant": "twomodel0", "param": 0})
        out.append({"file": "2HY9.cif", "read_model": 2, "variant": "orig"})
    else:
        for f in corpus_files():
            out.append({"file": f, "variant": "orig"})
            for m in (2, 3):
                out.append({"file": f, "read_model": m, "variant": "orig"})
            for k in range(3):
                out.append({"file": f, "variant": "rigid", "seed": k})
            for s in SIGMAS:
                for k in range(3):
                    out.append({"file": f, "variant": "jitter", "param": s, "seed": k})
            for k in range(2):
                out.append({"file": f, "variant": "thinres", "param": 0.2, "seed": k})
                out.append({"file": f, "variant": "thinatoms", "param": 0.05, "seed": k})
            out.append({"file": f, "variant": "thinatoms", "param": 0.2, "seed": 7})
            for k in range(2):
                out.append({"file": f, "variant": "baseonly", "param": 0.25, "seed": k})
                out.append({"file": f, "variant": "icode", "param": 0.3, "seed": k})
                out.append({"file": f, "variant": "splitres", "param": 0.3, "seed": k})
                out.append({"file": f, "variant": "zeroocc", "param": 0.25, "seed": k})
            out.append({"file": f, "variant": "longchain", "param": 0, "seed": 0})
            for k in range(2):
                out.append({"file": f, "variant": "zeronum", "param": 0, "seed": k})
                out.append({"file": f, "variant": "noring", "param": 0.3, "seed": k})
            out.append({"file": f, "variant": "prefixchains", "param": 0, "seed": 0})
            for k in range(2):
                out.append({"file": f, "variant": "shuffle", "seed": k})
            for p in (0.9, 0.93, 0.96):
                out.append({"file": f, "variant": "squash", "param": p})
            out.append({"file": f, "variant": "twomodel", "param": 1})
            out.append({"file": f, "variant": "twomodel", "param": 2})
            out.append({"file": f, "variant": "twomodel0", "param": 0})
    for r in out:
        r["id"] = "|".join(str(r.get(k, "")) for k in ("file", "read_model", "variant", "param", "seed"))
    return out


# ----------------------------------------------------------------------------- projection helpers

def _chain(r):
    return r.auth.chain if r.auth is not None else (r.label.chain if r.label is not None else "")


def _number(r):
    return r.auth.number if r.auth is not None else (r.label.number if r.label is not None else 0)


def _icode(r):
    ic = r.auth.icode if r.auth is not None else None
    if ic in (None, "", " ", "?"):
        return 32
    return ord(ic[0])


def full_name(label, auth):
    """Independent rendering of a residue name: chain.name[/]number[^icode] (auth preferred)."""
    if auth is not None:
        chain, name, number, icode = auth["chain"], auth["name"], auth["number"], auth.get("icode")
    elif label is not None:
        chain, name, number, icode = label["chain"], label["name"], label["number"], None
    else:
        return ""
    s = name if chain.isspace() else f"{chain}.{name}"
    if len(name) > 0 and name[-1] in string.digits:
        s += "/"
    s += str(number)
    if icode:
        s += f"^{icode}"
    return s


def _d(obj):
    """ResidueLabel / ResidueAuth dataclass -> dict (or None)"""
    if obj is None:
        return None
    return {k: getattr(obj, k) for k in obj.__dataclass_fields__}


def _flag3(f):
    return f


class Projection:
    """Residue table of one structure + index maps (1-based, TLC style)."""

    def __init__(self, structure, ann_model):
        self.structure = structure
        self.model = ann_model
        rs = structure.residues
        chains = sorted({_chain(r) for r in rs})
        crank = {c: k for k, c in enumerate(chains)}
        lids, aids = {}, {}
        self.res = []
        self.by_key = {}
        for k, r in enumerate(rs):
            lid = 0 if r.label is None else lids.setdefault(r.label, len(lids) + 1)
            aid = 0 if r.auth is None else aids.setdefault(r.auth, len(aids) + 1)
            self.res.append({"m": int(r.model), "lid": lid, "aid": aid, "ch": crank[_chain(r)],
                             "num": int(_number(r)), "ic": _icode(r), "L": r.one_letter_name,
                             "hn": False, "hg": False, "hc": False})
            self.by_key.setdefault((r.label, r.auth), []).append(k + 1)

    def mark(self, M):
        for ri in M["residues"]:
            e = self.res[ri["idx"]]
            e["hn"], e["hg"], e["hc"] = bool(ri["has_normal"]), bool(ri["has_glyco"]), bool(ri["has_centroid"])

    def index(self, nt):
        """1-based index of the interaction participant; prefers the analysed model; 0 = unknown."""
        cands = self.by_key.get((nt.label, nt.auth), [])
        for k in cands:
            if self.model is None or self.res[k - 1]["m"] == self.model:
                return k
        return cands[0] if cands else 0


def _mi(v):
    return 0 if v is None else measurer.micro(v)


# ----------------------------------------------------------------------------- recording

def annotate(structure, ann_model, twice=False):
    from rnapolis.annotator import extract_base_interactions
    quiet()
    try:
        if twice:
            # environment action: the caller has annotated this very object before and emptied the lists it got
            # (they were its to consume) - an annotation must not depend on what became of an earlier answer
            first = extract_base_interactions(structure, ann_model)
            for name in ("basePairs", "stackings", "basePhosphateInteractions", "baseRiboseInteractions", "otherInteractions"):
                lst = getattr(first, name, None)
                if isinstance(lst, list):
                    lst.clear()
        return extract_base_interactions(structure, ann_model), ""
    except Exception as e:  # the error path is data; the spec decides
        return None, type(e).__name__


def record(recipe, family):
    """One recorded case for the given clause family ("C03" | "C04" | "C11")."""
    K = measurer.constants()
    structure, ann_model = build(recipe)
    seen, split = code_view(recipe, structure)
    import zlib
    bi, err = annotate(seen, ann_model, twice=zlib.crc32(str(recipe["id"]).encode()) % 3 == 0)
    M = measurer.measure(structure, K, ann_model)
    P = Projection(structure, ann_model)
    P.mark(M)
    case = {"id": recipe["id"], "kind": "ann", "recipe": recipe, "model": -1 if ann_model is None else int(ann_model),
            "err": err, "res": P.res, "split": split}
    if family == "C04":
        _project_stacking(case, M, P, bi)
    elif family == "C03":
        _project_pairs(case, M, P, bi, K)
    else:
        _project_lists(case, M, P, bi, K)
    return case


def _project_stacking(case, M, P, bi):
    stk, where = [], {}
    for s in M["stack_pairs"]:
        stk.append({"i": s["i"] + 1, "j": s["j"] + 1, "d": _mi(s["dist"]), "df": s["dist_flag"],
                    "nn": _mi(s["nn"]), "nnf": s["nn_flag"], "oc": _mi(s["off_code"]), "ocf": s["off_code_flag"],
                    "ow": _mi(s["off_weak"]), "owf": s["off_weak_flag"], "dotf": s["dot_flag"]})
        where[(s["i"] + 1, s["j"] + 1)] = len(stk)
    case["stk"] = stk
    case["stacks"] = []
    for st in (bi.stackings if bi is not None else []):
        i, j = P.index(st.nt1), P.index(st.nt2)
        case["stacks"].append({"i": i, "j": j, "top": st.topology.value if st.topology is not None else "",
                               "ck": where.get((min(i, j), max(i, j)), 0)})


def _lw(lw):
    return list(lw.value)


def _groups(M, P, K, want):
    """contacts grouped per residue pair (structure order); want(contact) selects"""
    groups, order = {}, []
    for c in M["contacts"]:
        if not want(c):
            continue
        key = (c["i"] + 1, c["j"] + 1)
        if key not in groups:
            groups[key] = []
            order.append(key)
        groups[key].append(c)
    return groups, order


def _project_pairs(case, M, P, bi, K):
    eo = K["edge_of"]

    def has_edge(L, a):
        return L in eo and a in eo[L]

    def want(c):
        return has_edge(P.res[c["i"]]["L"], c["a"]) and has_edge(P.res[c["j"]]["L"], c["b"])
    groups, order = _groups(M, P, K, want)
    con, where = [], {}
    for key in order:
        t = M["pair_torsions"][(key[0] - 1, key[1] - 1)]
        cs = [{"a": c["a"], "b": c["b"], "d": _mi(c["dist"]), "df": c["dist_flag"],
               "a1": _mi(c["ang1"]), "a1f": c["ang1_flag"], "a2": _mi(c["ang2"]), "a2f": c["ang2_flag"]}
              for c in groups[key]]
        con.append({"i": key[0], "j": key[1], "tf": t["flag"], "t": _mi(abs(t["torsion"]) if t["torsion"] is not None else None),
                    "cs": cs})
        where[key] = len(con)
    case["con"] = con
    case["pairs"] = []
    for bp in (bi.basePairs if bi is not None else []):
        i, j = P.index(bp.nt1), P.index(bp.nt2)
        ct, e1, e2 = _lw(bp.lw)
        case["pairs"].append({"i": i, "j": j, "ct": ct, "e1": e1, "e2": e2,
                              "ck": where.get((min(i, j), max(i, j)), 0)})


def _project_lists(case, M, P, bi, K):
    pho, rib = set(K["phosphate_acceptors"]), set(K["ribose_acceptors"])
    # base donor -> phosphate / ribose oxygen contacts, grouped per ORDERED (donor residue, acceptor residue)
    bcon, where = [], {}
    for c in M["contacts"]:
        for b in c["bph"]:
            di, ai = (c["i"] + 1, c["j"] + 1) if b["dir"] == "ij" else (c["j"] + 1, c["i"] + 1)
            key = (di, ai)
            if key not in where:
                bcon.append({"i": di, "j": ai, "cs": []})
                where[key] = len(bcon)
            bcon[where[key] - 1]["cs"].append({"d": b["donor"], "a": b["acceptor"],
                                               "ak": "p" if b["acceptor_kind"] == "phosphate" else "r",
                                               "dist": _mi(c["dist"]), "df": b["dist_flag"], "tf": b["torsion_flag"],
                                               "dd": b["deg_donor"], "da": b["deg_acceptor"]})
    case["bcon"] = bcon
    pairs, stacks, bph, br = [], [], [], []
    mem = []
    if bi is not None:
        for bp in bi.basePairs:
            ct, e1, e2 = _lw(bp.lw)
            pairs.append({"i": P.index(bp.nt1), "j": P.index(bp.nt2), "ct": ct, "e1": e1, "e2": e2,
                          "sa": bp.saenger.value if bp.saenger is not None else ""})
            mem.append([full_name(_d(bp.nt1.label), _d(bp.nt1.auth)), full_name(_d(bp.nt2.label), _d(bp.nt2.auth)),
                        "base pair", bp.lw.value, bp.saenger.value if bp.saenger is not None else ""])
        for st in bi.stackings:
            stacks.append({"i": P.index(st.nt1), "j": P.index(st.nt2),
                           "top": st.topology.value if st.topology is not None else ""})
            mem.append([full_name(_d(st.nt1.label), _d(st.nt1.auth)), full_name(_d(st.nt2.label), _d(st.nt2.auth)),
                        "stacking", st.topology.value if st.topology is not None else "", ""])
        for x in bi.basePhosphateInteractions:
            i, j = P.index(x.nt1), P.index(x.nt2)
            bph.append({"i": i, "j": j, "cls": int(x.bph.value[0]) if x.bph is not None else -1,
                        "ck": where.get((i, j), 0)})
            mem.append([full_name(_d(x.nt1.label), _d(x.nt1.auth)), full_name(_d(x.nt2.label), _d(x.nt2.auth)),
                        "base-phosphate interaction", x.bph.value if x.bph is not None else "", ""])
        for x in bi.baseRiboseInteractions:
            i, j = P.index(x.nt1), P.index(x.nt2)
            br.append({"i": i, "j": j, "cls": int(x.br.value[0]) if x.br is not None else -1,
                       "ck": where.get((i, j), 0)})
            mem.append([full_name(_d(x.nt1.label), _d(x.nt1.auth)), full_name(_d(x.nt2.label), _d(x.nt2.auth)),
                        "base-ribose interaction", x.br.value if x.br is not None else "", ""])
        # the writers are part of the observation points: b-r before b-ph in BaseInteractions, csv order differs
        mem = [m for m in mem if m[2] in ("base pair", "stacking")] + \
              [m for m in mem if m[2] == "base-phosphate interaction"] + \
              [m for m in mem if m[2] == "base-ribose interaction"]
    case.update({"pairs": pairs, "stacks": stacks, "bph": bph, "br": br})
    case["w"] = _writers(bi, mem) if bi is not None else {"err": "", "mem": [], "csv": [], "json": [], "header": []}
    # only the residues that matter are needed by the clauses, but indices must stay valid: keep all


def _writers(bi, mem):
    """write_csv / write_json of the annotation, parsed back into rows"""
    from rnapolis.annotator import write_csv, write_json
    from rnapolis.common import Structure2D
    out = {"err": "", "mem": mem, "csv": [], "json": [], "header": []}
    try:
        s2d = Structure2D(bi, "", "", "", [], [], [], [], [])
        with lib.Scratch("annot-w") as sc:
            pc, pj = sc.path("o.csv"), sc.path("o.json")
            write_csv(pc, s2d)
            write_json(pj, s2d)
            with open(pc, newline="") as f:
                rows = list(csv.reader(f))
            out["header"] = rows[0] if rows else []
            out["csv"] = rows[1:]
            with open(pj) as f:
                doc = json.load(f)
        b = doc["baseInteractions"]

        def nm(nt):
            return full_name(nt.get("label"), nt.get("auth"))
        js = []
        for x in b["basePairs"]:
            js.append([nm(x["nt1"]), nm(x["nt2"]), "base pair", x["lw"], x["saenger"] or ""])
        for x in b["stackings"]:
            js.append([nm(x["nt1"]), nm(x["nt2"]), "stacking", x["topology"] or "", ""])
        for x in b["basePhosphateInteractions"]:
            js.append([nm(x["nt1"]), nm(x["nt2"]), "base-phosphate interaction", x["bph"] or "", ""])
        for x in b["baseRiboseInteractions"]:
            js.append([nm(x["nt1"]), nm(x["nt2"]), "base-ribose interaction", x["br"] or "", ""])
        out["json"] = js
        out["others"] = len(b["otherInteractions"])
    except Exception as e:
        out["err"] = type(e).__name__
    return out


# ----------------------------------------------------------------------------- table cases (C11)

def table_cases():
    """The implementation's Saenger table, LW reverse map and detect_saenger on every combination."""
    from rnapolis.annotator import detect_saenger
    from rnapolis.common import LeontisWesthof, Saenger
    from rnapolis.tertiary import Residue3D
    quiet()
    entries = [[k[0][0], k[0][1]] + list(k[1]) + [v] for k, v in Saenger.table().items()
               if len(k[0]) == 2 and len(k[1]) == 3]
    odd = [[str(k), str(v)] for k, v in Saenger.table().items() if not (len(k[0]) == 2 and len(k[1]) == 3)]
    rev = [list(lw.value) + list(lw.reverse.value) for lw in LeontisWesthof]
    t = {"id": "table", "kind": "table", "entries": entries, "odd": odd, "reverse": rev,
         "names": [s.value for s in Saenger]}
    calls = []
    letters = ["A", "G", "C", "U", "T", "N", "?"]
    stub = {L: Residue3D(None, None, 1, L, ()) for L in letters}
    for b1 in letters:
        for b2 in letters:
            for lw in LeontisWesthof:
                try:
                    s = detect_saenger(stub[b1], stub[b2], lw)
                    r = s.value if s is not None else ""
                except Exception as e:
                    r = "!" + type(e).__name__
                calls.append([b1, b2] + list(lw.value) + [r])
    return [t, {"id": "detect_saenger", "kind": "saenger", "calls": calls}]


def chem_table_case():
    """The implementation's donor / acceptor / edge tables as data (TLC compares them with Annot.tla's)."""
    c = {"id": "chem-tables", "kind": "chem", "err": "", "donors": [], "acceptors": [], "edges": [], "phosphate": [],
         "ribose": []}
    try:
        from rnapolis import tertiary as t
        c["donors"] = [[L, a] for L, v in t.BASE_DONORS.items() for a in v]
        c["acceptors"] = [[L, a] for L, v in t.BASE_ACCEPTORS.items() for a in v]
        c["edges"] = [[L, a, e] for L, v in t.BASE_EDGES.items() for a, es in v.items() for e in es]
        c["phosphate"] = list(t.PHOSPHATE_ACCEPTORS)
        c["ribose"] = list(t.RIBOSE_ACCEPTORS)
    except Exception as e:
        c["err"] = type(e).__name__
    return c


def record_c03(r):
    return record(r, "C03")


def record_c04(r):
    return record(r, "C04")


def record_c11(r):
    return record(r, "C11")


# ----------------------------------------------------------------------------- shared driver

RECORDERS = {"C03": record_c03, "C04": record_c04, "C11": record_c11}


def usable_recipes(tier):
    """recipes whose reader model exists in the file (a missing model silently falls back to the first)"""
    out = []
    for r in recipes(tier):
        m = r.get("read_model")
        if m is not None:
            s = load(r["file"], m)
            if not s.residues or s.residues[0].model != m:
                continue
        out.append(r)
    return out


def split_info(res):
    """separate the spec's evidence counters (<<"V", id, "info", ...>>) from the verdict lines"""
    info = {}
    keep = []
    for v in res["verdicts"]:
        if len(v) >= 2 and v[1] == "info":
            info[v[0]] = list(v[2:])
        else:
            keep.append(v)
    res["verdicts"] = keep
    return info


def run_mcs(rep, sc, runs):
    """runs = [(cfg, what, expect_violation or None, min_actions)], executed concurrently"""
    from concurrent.futures import ThreadPoolExecutor
    workers = max(2, lib.NCPU // max(1, len(runs)))

    def one(r):
        return lib.mc("MC_Annot", r[0], sc, expect_violation=r[2], workers=workers)
    with ThreadPoolExecutor(max_workers=len(runs)) as ex:
        results = list(ex.map(one, runs))
    for r, res in zip(runs, results):
        if r[2] is None:
            rep.add_mc(res, r[1], min_actions=r[3])
        else:
            rep.add_mc(res, r[1], negative_control=True)


def validate(family, cases, sc):
    sizes = [len(json.dumps(c)) for c in cases]
    # one TLC process per ~600 kB of trace (a JVM start costs more than validating small cases)
    chunks = max(1, min(lib.NCPU, len(cases), 1 + sum(sizes) // 600000))
    # balance: largest cases first, dealt round-robin, so that chunks have similar weight
    order = sorted(range(len(cases)), key=lambda k: -sizes[k])
    dealt = [[] for _ in range(chunks)]
    for n, k in enumerate(order):
        dealt[n % chunks].append(cases[k])
    flat = [c for part in dealt for c in part]
    res = lib.trace_validate("Trace_Annot", f"Trace_Annot_{family}.cfg", flat, sc, chunks=chunks)
    info = split_info(res)
    return res, info
