--------------------------- MODULE Trace_Splitter ---------------------------
(***************************************************************************)
(* code -> spec: recorded runs of rnapolis.splitter.main (harness/         *)
(* splitter.py) judged against the function of Splitter.tla section 1.     *)
(* One TLC state per recorded run.                                         *)
(***************************************************************************)
EXTENDS Integers, Sequences, FiniteSets, TLC, Json, IOUtils

Doc == JsonDeserialize(IOEnv.TRACE_FILE)
Trace == Doc.cases

VARIABLES idx, cnt
vars == <<idx, cnt>>

\* the function (section 1 of Splitter.tla); the state machine's constants are not used here
S == INSTANCE Splitter WITH MaxModel <- 0, MaxRows <- 0, Opts <- {},
                            exists <- FALSE, readable <- FALSE, infmt <- "", rows <- <<>>, opt <- "", fits <- <<>>,
                            pc <- "", exit <- 0, dir <- FALSE, files <- <<>>, queue <- <<>>, reported <- {}

Force(s) == s \o <<>>
SeqToSet(s) == { s[k] : k \in 1..Len(s) }

Verdict(c) ==
  LET rows == c.rows
      ms == S!ModelsOf(rows)
      nofit == SeqToSet(c.nofit)
      fits == [m \in ms |-> m \notin nofit]
      known == c.opt \in S!FormatOptions
      out == S!OutFormat(c.infmt, c.opt)
      exp == S!ExpectedFiles(c.exists, c.readable, c.infmt, rows, c.opt, fits)
      names == { c.files[k].name : k \in 1..Len(c.files) }
  IN
  IF ~known THEN <<"fail", "UnknownOptionInTrace", c.opt>>
  ELSE IF c.err # "" THEN <<"fail", "NoException", c.err>>
  ELSE IF c.exit # S!ExpectedExit(c.exists, c.readable, rows, c.opt) THEN <<"fail", "ExitStatus", ToString(c.exit)>>
  ELSE IF c.exit = 1 /\ (c.dir /\ ~c.stale) THEN <<"fail", "RefusalLeavesNothing", "directory made">>
  ELSE IF ~S!Writes(c.exists, c.readable, rows, c.opt) /\ c.files # <<>> THEN <<"fail", "RefusalLeavesNothing", c.files[1].name>>
  ELSE IF c.toolerr # 0 THEN <<"fail", "NoWriteError", "Error writing file">>
  \* one file per written model, under its name, nothing else
  ELSE IF Cardinality(names) # Len(c.files) THEN <<"fail", "FileNames", "twice">>
  ELSE IF names # { S!FileName(c.base, m, out) : m \in DOMAIN exp }
       THEN <<"fail", "FileNames",
              IF \E m \in DOMAIN exp : S!FileName(c.base, m, out) \notin names
              THEN "missing " \o S!FileName(c.base, CHOOSE m \in DOMAIN exp : S!FileName(c.base, m, out) \notin names, out)
              ELSE "unexpected " \o (CHOOSE x \in names : x \notin { S!FileName(c.base, m, out) : m \in DOMAIN exp })>>
  ELSE IF \E k \in 1..Len(c.files) : c.files[k].fmt # out
       THEN <<"fail", "FileFormat", (CHOOSE k \in 1..Len(c.files) : c.files[k].fmt # out)>>
  \* each file holds exactly its model's lines, in input order, under the model's own number
  ELSE IF \E m \in DOMAIN exp : \E k \in 1..Len(c.files) :
            /\ c.files[k].name = S!FileName(c.base, m, out)
            /\ Force([j \in 1..Len(c.files[k].rows) |-> c.files[k].rows[j][2]])
                 # Force([j \in 1..Len(exp[m]) |-> exp[m][j][2]])
       THEN <<"fail", "FileHoldsItsModel", (CHOOSE m \in DOMAIN exp : \E k \in 1..Len(c.files) :
                                              /\ c.files[k].name = S!FileName(c.base, m, out)
                                              /\ Force([j \in 1..Len(c.files[k].rows) |-> c.files[k].rows[j][2]])
                                                   # Force([j \in 1..Len(exp[m]) |-> exp[m][j][2]]))>>
  ELSE IF \E m \in DOMAIN exp : \E k \in 1..Len(c.files) :
            /\ c.files[k].name = S!FileName(c.base, m, out)
            /\ \E j \in 1..Len(c.files[k].rows) : c.files[k].rows[j][1] # m
       THEN <<"fail", "ModelNumberKept", "">>
  \* the models left out are the ones that do not fit, and each is reported
  ELSE IF S!Writes(c.exists, c.readable, rows, c.opt) /\ SeqToSet(c.reported) # ms \ DOMAIN exp
       THEN <<"fail", "SkipReported", "">>
  ELSE <<"ok">>

Init == idx = 0 /\ cnt = [ok |-> 0, deviation |-> 0, fail |-> 0]
Next ==
  /\ idx < Len(Trace)
  /\ idx' = idx + 1
  /\ LET c == Trace[idx']  v == Verdict(c) IN
     /\ cnt' = [cnt EXCEPT ![v[1]] = @ + 1]
     /\ (v[1] = "ok" \/ PrintT(<<"V", c.id>> \o v))
  /\ (idx' < Len(Trace) \/ PrintT(<<"SUMMARY", Len(Trace), cnt'.ok, cnt'.deviation, cnt'.fail>>))
Spec == Init /\ [][Next]_vars
=============================================================================
