SPECIFICATION Spec
CONSTANT CatNames = {"struct", "entity", "cell"}
CONSTANT MaxGiven = 3
INVARIANT InvResult
INVARIANT InvPrinted
INVARIANT InvCsv
INVARIANT InvListingWritesNothing
INVARIANT InvAbsentIsEmpty
INVARIANT InvKeysDistinct
INVARIANT InvOnlyWhatWasGiven
CHECK_DEADLOCK FALSE
