SPECIFICATION Spec
CONSTANT MaxLines = 2
CONSTANT ModelNums = {1}
CONSTANT KeyIds = {1, 4}
CONSTANT Occs <- OccsNull
CONSTANT PointIds = {1, 4}
CONSTANT IcNulls = {"?"}
CONSTANT OcNulls = {"?"}
CONSTANT DedupKeyIncludesModel = TRUE
CONSTANT ClashWithinModelOnly = TRUE
CONSTANT BothNullMarkers = FALSE
INVARIANT NullMarkersInv
CHECK_DEADLOCK FALSE
