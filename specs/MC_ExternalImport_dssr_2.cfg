SPECIFICATION Spec
CONSTANT Mode = "dssr"
CONSTANT McAlphabet = {"c"}
CONSTANT McMaxLen = 0
CONSTANT McUnitKinds = {"plain"}
CONSTANT McTabKinds = {"three"}
CONSTANT McLabelKinds = {"lw"}
CONSTANT McWraps = {"none"}
CONSTANT MaxLines = 0
CONSTANT Contained = {"ValueError", "IndexError"}
CONSTANT McNameKinds = {"exact", "wrongnumber"}
CONSTANT McLwKinds = {"valid", "lower", "absent", "reverse", "dunder"}
CONSTANT MaxPairs = 2
CONSTANT McStackKinds = {"exact", "wrongnumber", "empty"}
CONSTANT MaxStackLen = 3
CONSTANT MaxStacks = 1
CONSTANT LwTest = "members"
INVARIANT DssrPairsExact
INVARIANT DssrStacksExact
CHECK_DEADLOCK FALSE
