---------------------------- MODULE MC_PoaSolver ----------------------------
(***************************************************************************)
(* Fault enumeration at design level: every solver configuration x fault   *)
(* behaviour x entry point x (knotted | pseudoknot-free) structure, the    *)
(* automaton of PoaSolver explored action by action.                       *)
(* FallbackCallsCachedValue = TRUE is the as-implemented variant           *)
(* (`return self.fcfs()` on a cached_property) -> NeverRaises fails.       *)
(***************************************************************************)
EXTENDS PoaSolver
CONSTANT FallbackCallsCachedValue
VARIABLES entry, cfg, fault, knotted, s, events
vars == <<entry, cfg, fault, knotted, s, events>>

Init == /\ entry \in Entries /\ cfg \in Configs /\ fault \in Faults /\ knotted \in BOOLEAN
        /\ s = Start(entry, cfg) /\ events = <<>>

Emit(ev) == s' = OnEvent(s, ev, cfg) /\ events' = Append(events, ev)
Quiet(name) == s' = Silent(s, knotted, FallbackCallsCachedValue) /\ UNCHANGED events

Select             == s.pc = "start" /\ Emit(<<"HighsProbed", cfg = "highs">>) /\ UNCHANGED <<entry, cfg, fault, knotted>>
NoSolverFallback   == s.pc = "selected" /\ s.solver = "none" /\ Quiet("a") /\ UNCHANGED <<entry, cfg, fault, knotted>>
EmptyGraphShortcut == s.pc = "selected" /\ s.solver # "none" /\ ~knotted /\ Quiet("b") /\ UNCHANGED <<entry, cfg, fault, knotted>>
Build              == s.pc = "selected" /\ s.solver # "none" /\ knotted /\ Quiet("c") /\ UNCHANGED <<entry, cfg, fault, knotted>>
SolveCalled        == s.pc = "ready" /\ Emit(<<"SolveCalled", s.solver>>) /\ UNCHANGED <<entry, cfg, fault, knotted>>
SolveReturns       == s.pc = "solving" /\ fault # "raises" /\ Emit(<<"SolveReturned", StatusOf(fault)>>) /\ UNCHANGED <<entry, cfg, fault, knotted>>
SolveRaises        == s.pc = "solving" /\ fault = "raises" /\ Emit(<<"SolveRaised">>) /\ UNCHANGED <<entry, cfg, fault, knotted>>
FallbackFcfs       == s.pc = "fallback" /\ Quiet("d") /\ UNCHANGED <<entry, cfg, fault, knotted>>
ReadBack           == s.pc = "readback" /\ Quiet("e") /\ UNCHANGED <<entry, cfg, fault, knotted>>

Next == Select \/ NoSolverFallback \/ EmptyGraphShortcut \/ Build \/ SolveCalled \/ SolveReturns
        \/ SolveRaises \/ FallbackFcfs \/ ReadBack
Spec == Init /\ [][Next]_vars /\ WF_vars(Next)

Done == s.pc = "done"
NeverRaises           == s.result # "TypeError" /\ s.pc # "reject"
NotOptimalImpliesFcfs == Done /\ knotted /\ (cfg = "none" \/ fault # "ok") => s.result = "fcfs"
OkImpliesOptimal      == Done /\ knotted /\ cfg # "none" /\ fault = "ok" => s.result = "optimal"
ResultAsRequired      == Done => s.result = RequiredResult(cfg, fault, knotted)
SolverOnlyWhenKnotted == ~knotted => \A i \in 1..Len(events) : events[i][1] # "SolveCalled"
EventsAsExpected      == Done => events = ExpectedEvents(entry, cfg, fault, knotted)
\* the stepwise model and the replay function used on real traces agree
ReplayAgrees          == Done => Replay(entry, cfg, knotted, events, FallbackCallsCachedValue) = s
Terminates            == <>Done
=============================================================================
