----------------------------- MODULE Determinism -----------------------------
(***************************************************************************)
(* C14 - outputs are a deterministic function of the input.                *)
(*                                                                         *)
(* rnapolis is sequential; its only "scheduler" is the interpreter's hash  *)
(* seed (PYTHONHASHSEED): iterating a set (or dict) whose elements are     *)
(* hashed through str/bytes hashes yields an order chosen by the seed.     *)
(* This module is the single source of truth for                           *)
(*   - the table of EMISSION POINTS of the annotation pipeline (every      *)
(*     place where a collection is turned into an ordered output or into   *)
(*     an order-dependent choice), named after their source sites;         *)
(*   - the semantics of the ways a point can order its output (Apply:      *)
(*     sorted / list / hashset / greedy, plus bundle for writers), the     *)
(*     static taint analysis (Taint) and the clauses.                      *)
(* MC_Determinism explores the pipeline twice (two fresh processes, the    *)
(* adversary picks the seed); Trace_Determinism judges the recorded        *)
(* observations of the real code.                                          *)
(*                                                                         *)
(* TO ADD AN EMISSION POINT: add one row to PointTable (name, site, the    *)
(* points it reads, how it orders its output) and put its name into Order  *)
(* after the points it reads.  A new `hashset` row that reaches an         *)
(* artefact without an intervening `sorted` row makes MC_Determinism fail  *)
(* SameAcrossRuns for that artefact (and, if the harness observes it, put  *)
(* its abbreviation into harness/determinism.py ABBR).                     *)
(* Line numbers refer to /repo HEAD 7231dda.                               *)
(***************************************************************************)
EXTENDS Naturals, Sequences, FiniteSets, TLC

\* ------------------------------------------------------------------ ordering kinds
\* sorted  : sorted(...) with a total key - forgets the upstream order (canonical)
\* list    : list / dict insertion order / stable sort / set of ints or int tuples (their hashes
\*           do not depend on the seed): the order is a function of the upstream order alone
\* hashset : iteration over a set/dict keyed by objects whose hash goes through str hashes
\*           (or object identity): ANY permutation, chosen by the hash seed
\* greedy  : first-come-first-kept selection under a conflict relation: the MEMBERS kept depend
\*           on the upstream order
\* bundle  : a writer collecting several upstream values into one document in a fixed field order
Kinds == {"sorted", "list", "hashset", "greedy", "bundle"}

\* ------------------------------------------------------------------ the emission points
\* ups = the points whose output this point reads (<<>> = reads the input file / input object).
\* kind = ordering AS IMPLEMENTED in /repo/src/rnapolis.   art = TRUE: the value is an output
\* observed by the harness under this name (trace field "artefact").
P(site, ups, kind, art) == [site |-> site, ups |-> ups, kind |-> kind, art |-> art]

PointTable == [
  \* ---- reading (parser.py)
  read_atoms        |-> P("parser.py:47/255 parse_cif/parse_pdb: atoms in file order", <<>>, "list", FALSE),
  clash_filter      |-> P("parser.py:431-461 filter_clashing_atoms: dict by (label,auth,name), set(range(n)) of ints", <<"read_atoms">>, "list", FALSE),
  residues          |-> P("parser.py:303-365 group_atoms: residues in file order", <<"clash_filter">>, "list", FALSE),
  \* ---- interactions (annotator.py)
  hbond_pairs       |-> P("annotator.py:218 kdtree.query_pairs: set of (int,int)", <<"residues">>, "list", FALSE),
  bph_br_greedy     |-> P("annotator.py:249-287 used_atoms: first contact per atom wins", <<"hbond_pairs">>, "greedy", FALSE),
  base_phosphate    |-> P("annotator.py:373-384 sorted(base_phosphate_pairs) then dict insertion order", <<"bph_br_greedy">>, "sorted", FALSE),
  base_ribose       |-> P("annotator.py:386-397 sorted(base_ribose_pairs) then dict insertion order", <<"bph_br_greedy">>, "sorted", FALSE),
  pair_labels       |-> P("annotator.py:344-345 Counter(labels).most_common(): stable sort by count", <<"hbond_pairs">>, "list", FALSE),
  pair_greedy       |-> P("annotator.py:345-360 occupied edges: first label per edge wins", <<"pair_labels">>, "greedy", FALSE),
  base_pairs        |-> P("annotator.py:363 sorted(base_base_pairs)", <<"pair_greedy">>, "sorted", FALSE),
  stack_pairs       |-> P("annotator.py:431 kdtree.query_pairs: set of (int,int)", <<"residues">>, "list", FALSE),
  stackings         |-> P("annotator.py:472 sorted(pairs)", <<"stack_pairs">>, "sorted", FALSE),
  interactions      |-> P("annotator.py:480-485 BaseInteractions(...)", <<"base_pairs", "stackings", "base_ribose", "base_phosphate">>, "bundle", FALSE),
  \* ---- 3D -> 2D mapping (tertiary.py)
  map_base_pairs    |-> P("tertiary.py:467-489 Mapping2D3D.base_pairs: list, `used` set only for membership", <<"base_pairs">>, "list", FALSE),
  conflict_sets     |-> P("tertiary.py:639-643 matches = defaultdict(set) of BasePair3D (str-hashed)", <<"map_base_pairs">>, "hashset", FALSE),
  conflict_sorted   |-> P("tertiary.py:645-647 sorted(pairs, key=pair_scoring_function): total key", <<"conflict_sets">>, "sorted", FALSE),
  conflict_drop     |-> P("tertiary.py:648 canonical.remove(pairs[-1])", <<"conflict_sorted">>, "greedy", FALSE),
  bpseq             |-> P("tertiary.py:655-693 __generate_bpseq: dict insertion order", <<"conflict_drop">>, "list", TRUE),
  strands           |-> P("tertiary.py:536-558 strands_sequences", <<"residues">>, "list", FALSE),
  ext_dot_bracket   |-> P("tertiary.py:942-972 extended_dot_bracket: rows filled first-come per LeontisWesthof member", <<"map_base_pairs">>, "greedy", TRUE),
  \* ---- BpSeq (common.py)
  stems             |-> P("common.py:509-531 __stems_entries", <<"bpseq">>, "list", FALSE),
  optimal_db        |-> P("common.py:705-815 dot_bracket: MILP, pulp variables sorted by name", <<"stems">>, "list", TRUE),
  fcfs              |-> P("common.py:839-861 fcfs", <<"stems">>, "list", TRUE),
  elem_stops        |-> P("common.py:541-554 stopset -> sorted(stopset)", <<"stems">>, "sorted", FALSE),
  elem_loops        |-> P("common.py:599-637 graph = defaultdict(set) of int indices; `used` only for membership", <<"elem_stops">>, "list", FALSE),
  elements          |-> P("common.py:533-639 BpSeq.elements", <<"elem_loops">>, "list", TRUE),
  adb_graph         |-> P("common.py:867-880 graph = defaultdict(set) of ints; vertices = list(graph.keys())", <<"stems">>, "list", FALSE),
  adb_components    |-> P("common.py:885-908 DFS over sets of ints", <<"adb_graph">>, "list", FALSE),
  adb_unique        |-> P("common.py:911-930 set of frozenset((int,int))", <<"adb_components">>, "list", FALSE),
  all_dot_brackets  |-> P("common.py:933-941 solutions = set() of DotBracket (hash((sequence, structure))) -> list(solutions)", <<"adb_unique">>, "hashset", TRUE),
  \* ---- texts derived by the mapping
  map_dot_bracket   |-> P("tertiary.py:709-721 Mapping2D3D.dot_bracket", <<"optimal_db", "strands">>, "bundle", TRUE),
  map_all_dot_brackets |-> P("tertiary.py:923-940 Mapping2D3D.all_dot_brackets: in the order of BpSeq.all_dot_brackets", <<"all_dot_brackets">>, "list", TRUE),
  inter_stem        |-> P("tertiary.py:1016-1051 calculate_all_inter_stem_parameters: itertools.combinations", <<"elements">>, "list", FALSE),
  structure2d       |-> P("annotator.py:506-516 Structure2D(...)", <<"interactions", "bpseq", "map_dot_bracket", "ext_dot_bracket", "elements", "inter_stem">>, "bundle", FALSE),
  \* ---- what the annotator CLI writes (annotator.py handle_output_arguments)
  cli_json          |-> P("annotator.py:615-618 write_json: orjson.dumps(dataclass)", <<"structure2d">>, "list", TRUE),
  cli_csv           |-> P("annotator.py:621-678 write_csv", <<"interactions">>, "list", TRUE),
  cli_bpseq         |-> P("annotator.py:681-683 write_bpseq", <<"bpseq">>, "list", TRUE),
  cli_stdout        |-> P("annotator.py:745 print(structure2d.dotBracket)", <<"map_dot_bracket">>, "list", TRUE),
  cli_stdout_extended |-> P("annotator.py:739-740 print(structure2d.extendedDotBracket)", <<"ext_dot_bracket">>, "list", TRUE),
  cli_stdout_all    |-> P("annotator.py:741-743 for dot_bracket in dot_brackets: print", <<"map_all_dot_brackets">>, "list", TRUE),
  cli_graphviz      |-> P("common.py:641-696 BpSeq.graphviz: dict keyed by str(element), insertion order", <<"elements">>, "list", TRUE),
  cli_pml           |-> P("annotator.py:523-612 generate_pymol_script", <<"elements">>, "list", TRUE),
  cli_inter_stem_csv |-> P("annotator.py:755-778 DataFrame(params_list).to_csv", <<"inter_stem">>, "list", TRUE),
  cli_stems_csv     |-> P("annotator.py:786-839 DataFrame(stems_data).to_csv", <<"elements">>, "list", TRUE),
  \* ---- table-level reader/writers (parser_v2.py)
  v2_parse          |-> P("parser_v2.py:12/142 parse_pdb_atoms/parse_cif_atoms: DataFrame rows in file order", <<>>, "list", FALSE),
  v2_write_pdb      |-> P("parser_v2.py:807-990 write_pdb: df.iterrows()", <<"v2_parse">>, "list", TRUE),
  v2_write_cif      |-> P("parser_v2.py:993-1127 write_cif: attributes = list(df.columns)", <<"v2_parse">>, "list", TRUE),
  v2_fit            |-> P("parser_v2.py:492-561 fit_to_pdb: new chain ids handed out over df[chain].unique() (first appearance), residues by drop_duplicates, serials by iterrows", <<"v2_parse">>, "list", FALSE),
  v2_fit_write_pdb  |-> P("parser_v2.py write_pdb(fit_to_pdb(df)): the PDB text of a table that had to be fitted", <<"v2_fit">>, "list", TRUE)
]

Points == DOMAIN PointTable
Artefacts == { p \in Points : PointTable[p].art }

\* one fixed topological order in which a run performs the points
Order == << "read_atoms", "clash_filter", "residues", "hbond_pairs", "bph_br_greedy", "base_phosphate",
            "base_ribose", "pair_labels", "pair_greedy", "base_pairs", "stack_pairs", "stackings",
            "interactions", "map_base_pairs", "conflict_sets", "conflict_sorted", "conflict_drop", "bpseq",
            "strands", "ext_dot_bracket", "stems", "optimal_db", "fcfs", "elem_stops", "elem_loops",
            "elements", "adb_graph", "adb_components", "adb_unique", "all_dot_brackets", "map_dot_bracket",
            "map_all_dot_brackets", "inter_stem", "structure2d", "cli_json", "cli_csv", "cli_bpseq",
            "cli_stdout", "cli_stdout_extended", "cli_stdout_all", "cli_graphviz", "cli_pml",
            "cli_inter_stem_csv", "cli_stems_csv", "v2_parse", "v2_write_pdb", "v2_write_cif", "v2_fit",
            "v2_fit_write_pdb" >>

SeqToSet(s) == { s[k] : k \in 1..Len(s) }
PosIn(p) == CHOOSE k \in 1..Len(Order) : Order[k] = p

\* a point's value is a flat sequence of items (not a document bundling several values)
RECURSIVE Flat(_)
Flat(p) == /\ PointTable[p].kind # "bundle"
           /\ \A k \in 1..Len(PointTable[p].ups) : Flat(PointTable[p].ups[k])

TableWellFormed ==
  /\ SeqToSet(Order) = Points /\ Len(Order) = Cardinality(Points)
  /\ \A p \in Points :
       /\ PointTable[p].kind \in Kinds
       /\ SeqToSet(PointTable[p].ups) \subseteq Points
       /\ \A k \in 1..Len(PointTable[p].ups) : PosIn(PointTable[p].ups[k]) < PosIn(p)
       /\ (PointTable[p].kind = "bundle") <=> (Len(PointTable[p].ups) > 1)
       \* only writers (list) and bundles read a bundle; the re-ordering kinds read flat values
       /\ PointTable[p].kind \in {"sorted", "hashset", "greedy"} =>
             \A k \in 1..Len(PointTable[p].ups) : Flat(PointTable[p].ups[k])

\* ------------------------------------------------------------------ kind assignments
AsImplemented == [p \in Points |-> PointTable[p].kind]
\* the repaired design: the de-duplicated solutions are emitted in a canonical order
Required      == [AsImplemented EXCEPT !["all_dot_brackets"] = "sorted"]

\* ------------------------------------------------------------------ semantics of a point
\* Abstract items 1..4 flow through the pipeline; items 1 and 2 conflict (claim the same
\* edge / atom / residue), so a greedy point keeps whichever of them comes first.
Input == <<1, 2, 3, 4>>
Conflict(a, b) == {a, b} = {1, 2}

Perms(S) == { f \in [1..Cardinality(S) -> S] : \A i, j \in 1..Cardinality(S) : i # j => f[i] # f[j] }
Sorted(S) == CHOOSE f \in Perms(S) : \A i, j \in 1..Cardinality(S) : i < j => f[i] < f[j]
RECURSIVE GreedyKeep(_, _)
GreedyKeep(s, kept) ==
  IF s = <<>> THEN kept
  ELSE LET x == Head(s) IN
       GreedyKeep(Tail(s), IF \E k \in 1..Len(kept) : kept[k] = x \/ Conflict(kept[k], x) THEN kept ELSE Append(kept, x))

\* the SET of values a point of kind k may emit when it reads the sequence s
Apply(k, s) ==
  CASE k = "sorted"  -> { Sorted(SeqToSet(s)) }
    [] k = "list"    -> { s }
    [] k = "hashset" -> Perms(SeqToSet(s))
    [] k = "greedy"  -> { GreedyKeep(s, <<>>) }

\* ------------------------------------------------------------------ static analysis
\* taint of a point's output: "none" (a function of the input), "order" (the members are a
\* function of the input, their order is not), "members" (even the members are not).
Worse(a, b) == IF "members" \in {a, b} THEN "members" ELSE IF "order" \in {a, b} THEN "order" ELSE "none"
\* generic step of the analysis: kind k reading a value with taint t; cf = "upstream is already
\* conflict-free" (a greedy point after another greedy point keeps everything)
StepTaint(k, t, cf) ==
  CASE k = "sorted"  -> IF t = "members" THEN "members" ELSE "none"
    [] k = "list"    -> t
    [] k = "bundle"  -> t
    [] k = "hashset" -> IF t = "members" THEN "members" ELSE "order"
    [] k = "greedy"  -> IF cf THEN t ELSE IF t = "none" THEN "none" ELSE "members"

RECURSIVE Taint(_, _), ConflictFree(_, _)
ConflictFree(asg, p) ==
  LET ups == PointTable[p].ups IN
  IF asg[p] = "greedy" THEN TRUE
  ELSE IF ups = <<>> THEN FALSE
  ELSE \A k \in 1..Len(ups) : ConflictFree(asg, ups[k])
RECURSIVE WorstOf(_, _, _)
WorstOf(asg, ups, k) == IF k > Len(ups) THEN "none" ELSE Worse(Taint(asg, ups[k]), WorstOf(asg, ups, k + 1))
Taint(asg, p) ==
  LET ups == PointTable[p].ups IN
  StepTaint(asg[p], WorstOf(asg, ups, 1), ups # <<>> /\ \A k \in 1..Len(ups) : ConflictFree(asg, ups[k]))

\* tables (zero-arity: cached by TLC)
TaintAsImplemented == [p \in Points |-> Taint(AsImplemented, p)]
TaintRequired      == [p \in Points |-> Taint(Required, p)]

\* the artefacts that inherit the hash order of common.py:933-941 (P3)
HashOrderArtefacts == { p \in Artefacts : TaintAsImplemented[p] = "order" }

\* ------------------------------------------------------------------ lemma on chains
\* For EVERY assignment of the four single-input kinds to a chain of up to MaxChain points:
\*   the chain's output is a function of the input   <=>  its static taint is "none",
\*   the chain's member set is a function of the input <=>  its static taint is not "members".
ChainKinds == {"sorted", "list", "hashset", "greedy"}
RECURSIVE ChainOuts(_), ChainTaint(_), ChainCF(_)
ChainOuts(ks)  == IF ks = <<>> THEN { Input }
                  ELSE UNION { Apply(ks[Len(ks)], s) : s \in ChainOuts(SubSeq(ks, 1, Len(ks) - 1)) }
ChainCF(ks)    == IF ks = <<>> THEN FALSE ELSE ks[Len(ks)] = "greedy" \/ ChainCF(SubSeq(ks, 1, Len(ks) - 1))
ChainTaint(ks) == IF ks = <<>> THEN "none"
                  ELSE LET front == SubSeq(ks, 1, Len(ks) - 1) IN StepTaint(ks[Len(ks)], ChainTaint(front), ChainCF(front))
ChainLemma(maxChain) ==
  \A n \in 1..maxChain : \A ks \in [1..n -> ChainKinds] :
     LET outs == ChainOuts(ks) IN
     /\ (Cardinality(outs) = 1) <=> (ChainTaint(ks) = "none")
     /\ (Cardinality({ SeqToSet(o) : o \in outs }) = 1) <=> (ChainTaint(ks) # "members")

\* the same lemma on the REAL pipeline: for every point reached from the input by a chain
\* without bundles, the exact set of possible outputs is a singleton iff the taint is "none"
RECURSIVE PathKinds(_, _)
PathKinds(asg, p) == IF PointTable[p].ups = <<>> THEN <<asg[p]>> ELSE PathKinds(asg, PointTable[p].ups[1]) \o <<asg[p]>>
PipelineLemma(asg) ==
  \A p \in { q \in Points : Flat(q) } :
     LET ks == PathKinds(asg, p)  outs == ChainOuts(ks) IN
     /\ ChainTaint(ks) = Taint(asg, p)
     /\ (Cardinality(outs) = 1) <=> (Taint(asg, p) = "none")
     /\ (Cardinality({ SeqToSet(o) : o \in outs }) = 1) <=> (Taint(asg, p) # "members")

\* ------------------------------------------------------------------ clauses on observations
\* An observation is [proc, rep, err, digest, items]: what one call in process `proc` returned
\* (sha-256 of the text; for list artefacts also the members in order).
SameObs(a, b) == a.err = b.err /\ a.digest = b.digest /\ a.items = b.items
\* C14 itself: every observation agrees with the first one
SameAcrossRunsObs(obs) == \A k \in 1..Len(obs) : SameObs(obs[k], obs[1])
\* repeated calls inside one process
SameWithinProcessObs(obs) == \A i, j \in 1..Len(obs) : obs[i].proc = obs[j].proc => SameObs(obs[i], obs[j])
NoRepeat(s) == Cardinality(SeqToSet(s)) = Len(s)
IsPermutationOf(s, t) == Len(s) = Len(t) /\ NoRepeat(s) /\ NoRepeat(t) /\ SeqToSet(s) = SeqToSet(t)
=============================================================================
