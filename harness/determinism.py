"""C14 machinery: launch FRESH interpreters with chosen PYTHONHASHSEED values, let each observe the
public outputs of the real code (annotator CLI, BpSeq API, parser_v2 writers) and project every
observation to (err, sha-256 digest, ordered members).  No judgement happens here: all comparisons
are made by specs/Trace_Determinism.tla.

The same module is the child program:  /venv/bin/python -m harness.determinism <job.json>
(cwd=/verif, VERIF_REPO inherited; lib.use_repo() puts $VERIF_REPO/src at sys.path[0]).
"""
import contextlib
import hashlib
import io
import json
import os
import re
import random
import subprocess
import sys
import time
from concurrent.futures import ThreadPoolExecutor

from . import lib

PY = "/venv/bin/python"
LETTERS = "ACGU"

# artefact names = emission-point names of specs/Determinism.tla (PointTable rows with art = TRUE)
LIST_ARTEFACTS = ("all_dot_brackets", "map_all_dot_brackets", "cli_stdout_all", "elements")

QUICK_CORPUS = ["1ehz-assembly-1.cif", "4qln.pdb", "1JJP.cif", "488d.pdb"]


def corpus(tier):
    d = os.path.join(lib.REPO, "tests")
    names = sorted(n for n in os.listdir(d) if n.endswith((".cif", ".pdb", ".cif.gz")))
    if tier == "quick":
        names = [n for n in QUICK_CORPUS if n in names]
    return [os.path.join(d, n) for n in names]


# ------------------------------------------------------------------ generated structures

def _stems(pairs):
    ps = sorted(map(tuple, pairs))
    have = set(ps)
    return [(i, j) for (i, j) in ps if (i - 1, j + 1) not in have]


def components(pairs):
    """Sizes of the conflict components (harness-side scan, used ONLY to pick structures and to decide
    whether the factorial enumeration behind all_dot_brackets is affordable)."""
    st = _stems(pairs)
    adj = {a: [] for a in range(len(st))}
    for a in range(len(st)):
        for b in range(a + 1, len(st)):
            (i, j), (p, q) = st[a], st[b]
            if i < p < j < q or p < i < q < j:
                adj[a].append(b)
                adj[b].append(a)
    seen, sizes = set(), []
    for a in adj:
        if a in seen or not adj[a]:
            continue
        seen.add(a)
        stack, size = [a], 0
        while stack:
            x = stack.pop()
            size += 1
            for y in adj[x]:
                if y not in seen:
                    seen.add(y)
                    stack.append(y)
        sizes.append(size)
    return sorted(sizes, reverse=True)


def knotted_structure(rng, k, extra):
    """k mutually crossing stems (a ladder: needs k bracket levels) of length 1..3 plus `extra`
    further stems dropped at random where room is left; returns (n, pairs)."""
    lens = [rng.randint(1, 3) for _ in range(k)]
    gaps5 = [rng.randint(0, 2) for _ in range(k + 1)]
    gaps3 = [rng.randint(0, 2) for _ in range(k + 1)]
    pos = 1 + gaps5[0]
    starts5 = []
    for t in range(k):
        starts5.append(pos)
        pos += lens[t] + gaps5[t + 1]
    pos += 3
    starts3 = []
    for t in range(k):
        starts3.append(pos)
        pos += lens[t] + gaps3[t + 1]
    n = pos + rng.randint(0, 8)
    pairs = []
    for t in range(k):
        for u in range(lens[t]):
            pairs.append([starts5[t] + u, starts3[t] + lens[t] - 1 - u])
    used = {x for p in pairs for x in p}
    tries = 0
    while extra > 0 and tries < 200:
        tries += 1
        i, j = sorted((rng.randint(1, n), rng.randint(1, n)))
        ln = rng.randint(1, 2)
        cand = [[i + u, j - u] for u in range(ln)]
        flat = [x for p in cand for x in p]
        if i + ln - 1 >= j - ln + 1 - 2 or any(x in used for x in flat) or len(set(flat)) != len(flat):
            continue
        pairs += cand
        used.update(flat)
        extra -= 1
    return n, sorted(pairs)


def generated_cases(count, seed, max_comp=6):
    """Seeded knotted structures whose conflict graph has a clique of >= 3 mutually crossing stems and
    no component above max_comp stems (so all_dot_brackets stays cheap)."""
    rng = random.Random(seed * 104729 + 14)
    cases = []
    if count > 0:
        # one structure beyond max_comp: eight two-pair helices, each crossing the next few (one component of 8
        # regions: the enumeration behind all_dot_brackets is at its largest affordable size, 40320 orders, and
        # several hundred distinct notations come out of it)
        db = "((..[[..{{..<<..AA..))..BB..]]..CC..}}..DD..>>..aa..bb..cc..dd"
        closing = {")": "(", "]": "[", "}": "{", ">": "<", "a": "A", "b": "B", "c": "C", "d": "D"}
        stacks, pairs = {}, []
        for q, ch in enumerate(db, 1):
            if ch in closing.values():
                stacks.setdefault(ch, []).append(q)
            elif ch in closing:
                pairs.append([stacks[closing[ch]].pop(), q])
        pairs.sort()
        p = len(db)
        cases.append({"kind": "bp", "name": f"g{seed}-0", "n": p, "pairs": pairs,
                      "seq": [LETTERS[i % len(LETTERS)] for i in range(p)], "ladder": 2, "components": components(pairs)})
    while len(cases) < count:
        k = rng.choice([3, 3, 3, 4, 4, 5])
        n, pairs = knotted_structure(rng, k, rng.randint(0, 3))
        sizes = components(pairs)
        if not sizes or sizes[0] > max_comp or sizes[0] < 3:
            continue
        cases.append({"kind": "bp", "name": f"g{seed}-{len(cases)}", "n": n, "pairs": pairs,
                      "seq": [rng.choice(LETTERS) for _ in range(n)], "ladder": k, "components": sizes})
    return cases


LW_NONCANONICAL = ["tWW", "cWH", "tHW", "cHS", "tSH", "cSS"]


def pairlist_cases(count, seed):
    """Abstract base-pair lists for Mapping2D3D (spec -> code): a knotted scaffold of canonical cWW pairs
    (Saenger XIX / XX / XXVIII, so that they are canonical whatever the residue letters are) plus 1..3
    CONFLICTING canonical alternatives (one residue, two partners: exercises tertiary.py:638-651) plus a few
    non-canonical pairs, some sharing a residue (exercises the row filling of extended_dot_bracket).
    Positions are ordinals into the nucleotide list of the carrier structure (taken modulo its length)."""
    rng = random.Random(seed * 7907 + 141)
    cases = []
    while len(cases) < count:
        k = rng.choice([1, 2, 3, 3, 4])
        n, scaffold = knotted_structure(rng, k, rng.randint(0, 2))
        if n > 70 or (components(scaffold) or [0])[0] > 5:
            continue
        pairs = [[i - 1, j - 1, "cWW", rng.choice(["XIX", "XX", "XXVIII"])] for i, j in scaffold]
        used = sorted({x for p in scaffold for x in p})
        for _ in range(rng.randint(1, 3)):      # conflicts
            i, j = rng.choice(scaffold)
            a = rng.choice([i, j])
            b = rng.randint(1, n)
            if b == a or [min(a, b), max(a, b)] in scaffold:
                continue
            pairs.append([min(a, b) - 1, max(a, b) - 1, "cWW", rng.choice(["XIX", "XX", "XXVIII"])])
        for _ in range(rng.randint(0, 4)):      # non-canonical, possibly multi-partner
            a = rng.choice(used) if rng.random() < 0.5 else rng.randint(1, n)
            b = rng.randint(1, n)
            if a != b:
                pairs.append([min(a, b) - 1, max(a, b) - 1, rng.choice(LW_NONCANONICAL), ""])
        rng.shuffle(pairs)
        cases.append({"name": f"p{seed}-{len(cases)}", "n": n, "pairs": pairs})
    return cases


# ------------------------------------------------------------------ observation (runs in the child)

def _digest(text):
    if isinstance(text, str):
        text = text.encode("utf-8", "surrogatepass")
    return hashlib.sha256(text).hexdigest()


def _obs(name, artefact, rep, *, text=None, items=None, err=""):
    """One observation.  text artefacts: digest of the bytes; list artefacts: members in emission
    order + digest of their newline-NUL-joined concatenation."""
    if err:
        return {"input": name, "artefact": artefact, "shape": "list" if artefact in LIST_ARTEFACTS else "text",
                "rep": rep, "err": err, "digest": "", "items": [], "size": 0}
    if items is not None:
        items = [str(x) for x in items]
        return {"input": name, "artefact": artefact, "shape": "list", "rep": rep, "err": "",
                "digest": _digest("\n\0".join(items)), "items": items, "size": len(items)}
    if text is None:
        return {"input": name, "artefact": artefact, "shape": "text", "rep": rep, "err": "",
                "digest": "absent", "items": [], "size": 0}
    return {"input": name, "artefact": artefact, "shape": "text", "rep": rep, "err": "",
            "digest": _digest(text), "items": [], "size": len(text)}


def _read(path):
    if not os.path.exists(path):
        return None
    with open(path, "rb") as f:
        return f.read()


def _cli(argv):
    """Run rnapolis.annotator.main() with the given command line; returns (err, stdout text)."""
    from rnapolis import annotator
    buf = io.StringIO()
    old = sys.argv
    sys.argv = ["annotator"] + list(argv)
    err = ""
    try:
        with contextlib.redirect_stdout(buf):
            annotator.main()
    except SystemExit as e:
        err = "" if e.code in (0, None) else "SystemExit"
    except Exception as e:  # the error path is data
        err = type(e).__name__
    finally:
        sys.argv = old
    return err, buf.getvalue()


def _elements_items(bpseq):
    stems, single_strands, hairpins, loops = bpseq.elements
    return [str(e) for e in stems] + [str(e) for e in single_strands] + [str(e) for e in hairpins] \
        + [str(e) for e in loops]


def _pairs_of_bpseq_text(text):
    pairs = []
    for line in text.splitlines():
        f = line.split()
        if len(f) == 3 and int(f[2]) > int(f[0]):
            pairs.append([int(f[0]), int(f[2])])
    return pairs


def _split_blocks(text, nblocks):
    lines = text.splitlines()
    if nblocks <= 0 or len(lines) % nblocks != 0:
        return [text]
    size = len(lines) // nblocks
    return ["\n".join(lines[k * size:(k + 1) * size]) for k in range(nblocks)]


def observe_file(task, rep, workdir):
    """Annotator CLI (three command lines) + library API on one structure file."""
    from rnapolis.annotator import extract_secondary_structure, handle_input_file
    from rnapolis.common import BpSeq
    from rnapolis.parser import read_3d_structure
    name, path = task["name"], task["path"]
    out = []
    d = os.path.join(workdir, f"{name}-{rep}")
    os.makedirs(d, exist_ok=True)
    os.chdir(d)     # BpSeq.graphviz renders Graph.gv into the current directory
    f = {k: os.path.join(d, k) for k in ("json", "csv", "bpseq", "pml", "interstem.csv", "stems.csv")}
    # --- command line A: every file output + extended dot-bracket on stdout
    err, stdout = _cli([path, "--json", f["json"], "--csv", f["csv"], "--bpseq", f["bpseq"], "--dot", "unused.dot",
                        "--extended", "--pml", f["pml"], "--inter-stem-csv", f["interstem.csv"],
                        "--stems-csv", f["stems.csv"]])
    if err:
        for a in ("cli_json", "cli_csv", "cli_bpseq", "cli_stdout_extended", "cli_graphviz", "cli_pml",
                  "cli_inter_stem_csv", "cli_stems_csv"):
            out.append(_obs(name, a, rep, err=err))
    else:
        out.append(_obs(name, "cli_json", rep, text=_read(f["json"])))
        out.append(_obs(name, "cli_csv", rep, text=_read(f["csv"])))
        out.append(_obs(name, "cli_bpseq", rep, text=_read(f["bpseq"])))
        out.append(_obs(name, "cli_stdout_extended", rep, text=stdout))
        out.append(_obs(name, "cli_graphviz", rep, text=_read(os.path.join(d, "Graph.gv"))))
        out.append(_obs(name, "cli_pml", rep, text=_read(f["pml"])))
        out.append(_obs(name, "cli_inter_stem_csv", rep, text=_read(f["interstem.csv"])))
        out.append(_obs(name, "cli_stems_csv", rep, text=_read(f["stems.csv"])))
    # --- command line C: no option -> the optimal dot-bracket on stdout
    err, stdout = _cli([path])
    out.append(_obs(name, "cli_stdout", rep, err=err) if err else _obs(name, "cli_stdout", rep, text=stdout))
    # --- is the factorial enumeration affordable for this structure?
    bptext = _read(f["bpseq"])
    sizes = components(_pairs_of_bpseq_text(bptext.decode())) if bptext else []
    afford = bool(bptext) and (not sizes or sizes[0] <= task["max_comp"])
    # --- library API (fresh objects): the all-dot-brackets list, BpSeq-level outputs
    nall = 0
    try:
        s3 = read_3d_structure(handle_input_file(path), None)
        s2, dbs = extract_secondary_structure(s3, None, False, afford)
        err = ""
    except Exception as e:
        err = type(e).__name__
    if err:
        for a in ("map_all_dot_brackets", "all_dot_brackets", "fcfs", "optimal_db", "elements"):
            out.append(_obs(name, a, rep, err=err))
    else:
        if afford:
            nall = len(dbs)
            out.append(_obs(name, "map_all_dot_brackets", rep, items=dbs))
        b = BpSeq.from_string(s2.bpseq)
        for a, fn in (("fcfs", lambda: b.fcfs.structure), ("optimal_db", lambda: b.dot_bracket.structure)):
            try:
                out.append(_obs(name, a, rep, text=fn()))
            except Exception as e:
                out.append(_obs(name, a, rep, err=type(e).__name__))
        try:
            out.append(_obs(name, "elements", rep, items=_elements_items(b)))
        except Exception as e:
            out.append(_obs(name, "elements", rep, err=type(e).__name__))
        if afford:
            try:
                out.append(_obs(name, "all_dot_brackets", rep, items=[x.structure for x in b.all_dot_brackets]))
            except Exception as e:
                out.append(_obs(name, "all_dot_brackets", rep, err=type(e).__name__))
    # --- command line B: --all-dot-brackets (stdout = every notation, in list order)
    if afford:
        err, stdout = _cli([path, "--all-dot-brackets"])
        if err:
            out.append(_obs(name, "cli_stdout_all", rep, err=err))
        else:
            out.append(_obs(name, "cli_stdout_all", rep, items=_split_blocks(stdout, nall)))
    return out


def observe_bp(task, rep, workdir):
    """BpSeq API on one generated structure (fresh object per repetition)."""
    from rnapolis.common import BpSeq, Entry
    name = task["name"]
    partner = {}
    for i, j in task["pairs"]:
        partner[i] = j
        partner[j] = i
    out = []

    def fresh():
        return BpSeq([Entry(i, task["seq"][i - 1], partner.get(i, 0)) for i in range(1, task["n"] + 1)])
    for a, fn, shape in (("all_dot_brackets", lambda: [x.structure for x in fresh().all_dot_brackets], "list"),
                         ("fcfs", lambda: fresh().fcfs.structure, "text"),
                         ("optimal_db", lambda: fresh().dot_bracket.structure, "text"),
                         ("elements", lambda: _elements_items(fresh()), "list")):
        try:
            v = fn()
            out.append(_obs(name, a, rep, items=v) if shape == "list" else _obs(name, a, rep, text=v))
        except Exception as e:
            out.append(_obs(name, a, rep, err=type(e).__name__))
    return out


def observe_v2(task, rep, workdir):
    """parser_v2: table-level read, then write_pdb / write_cif text."""
    import gzip
    from rnapolis import parser_v2
    name, path = task["name"], task["path"]
    out = []
    try:
        opener = gzip.open if path.endswith(".gz") else open
        with opener(path, "rt") as fh:
            content = fh.read()
        df = parser_v2.parse_pdb_atoms(content) if ".pdb" in os.path.basename(path) else parser_v2.parse_cif_atoms(content)
        err = ""
    except Exception as e:
        err = type(e).__name__
    def fitted_text():
        # the same table with multi-character chain ids, so that it has to be FITTED before it can be written
        d2 = df.copy()
        d2.attrs.update(df.attrs)
        col = "chainID" if d2.attrs.get("format") == "PDB" else "auth_asym_id"
        num = "resSeq" if d2.attrs.get("format") == "PDB" else "auth_seq_id"
        # ... and with every chain cut into four by residue number, so that several chains are renamed
        d2[col] = [f"{ch}-{int(n) % 4}" for ch, n in zip(d2[col].astype(str), d2[num])]
        d2[col] = d2[col].astype("category")
        return parser_v2.write_pdb(parser_v2.fit_to_pdb(d2))

    for a, fn in (("v2_write_pdb", lambda: parser_v2.write_pdb(df)), ("v2_write_cif", lambda: parser_v2.write_cif(df)),
                  ("v2_fit_write_pdb", fitted_text)):
        if err:
            out.append(_obs(name, a, rep, err=err))
            continue
        try:
            out.append(_obs(name, a, rep, text=fn()))
        except Exception as e:
            out.append(_obs(name, a, rep, err=type(e).__name__))
    return out


def observe_map(task, rep, workdir):
    """Mapping2D3D on a carrier structure with generated (conflicting) base-pair lists."""
    from rnapolis.annotator import handle_input_file
    from rnapolis.common import BasePair, LeontisWesthof, Residue, Saenger
    from rnapolis.parser import read_3d_structure
    from rnapolis.tertiary import Mapping2D3D
    out = []
    s3 = read_3d_structure(handle_input_file(task["path"]), None)
    nts = [r for r in s3.residues if r.is_nucleotide]
    for lst in task["lists"]:
        name = lst["name"]
        bps = []
        for i, j, lw, sg in lst["pairs"]:
            a, b = nts[i % len(nts)], nts[j % len(nts)]
            if a is b:
                continue
            bps.append(BasePair(Residue(a.label, a.auth), Residue(b.label, b.auth), LeontisWesthof[lw],
                                Saenger[sg] if sg else None))
        m = Mapping2D3D(s3, bps, [], False)
        text = None
        questions = [("bpseq", lambda: str(m.bpseq)), ("map_dot_bracket", lambda: m.dot_bracket),
                     ("ext_dot_bracket", lambda: m.extended_dot_bracket)]
        if rep % 2 == 0:
            # environment action: even repetitions ask a fresh object for its extended rows FIRST - an answer must
            # not depend on which other answers the object has already given
            questions = questions[2:] + questions[:2]
        for a, fn in questions:
            try:
                v = fn()
                if a == "bpseq":
                    text = v
                out.append(_obs(name, a, rep, text=v))
            except Exception as e:
                out.append(_obs(name, a, rep, err=type(e).__name__))
        sizes = components(_pairs_of_bpseq_text(text)) if text else []
        if text and (not sizes or sizes[0] <= 6):
            try:
                out.append(_obs(name, "map_all_dot_brackets", rep, items=m.all_dot_brackets))
            except Exception as e:
                out.append(_obs(name, "map_all_dot_brackets", rep, err=type(e).__name__))
    return out


OBSERVERS = {"file": observe_file, "bp": observe_bp, "v2": observe_v2, "map": observe_map}


def child_main(jobfile):
    with open(jobfile) as f:
        job = json.load(f)
    lib.use_repo()
    import logging
    logging.disable(logging.CRITICAL)
    home = os.getcwd()
    obs = []
    for task in job["tasks"]:
        for rep in range(1, job["reps"] + 1):
            obs += OBSERVERS[task["kind"]](task, rep, job["workdir"])
            os.chdir(home)
    import rnapolis.common
    with open(job["out"], "w") as f:
        json.dump({"obs": obs, "hashseed": os.environ.get("PYTHONHASHSEED", ""),
                   "rnapolis": os.path.dirname(os.path.abspath(rnapolis.common.__file__))}, f)


# ------------------------------------------------------------------ parent side

def seeds_for(tier):
    return ["0", "1", "2", "3", "random"] if tier == "quick" else [str(k) for k in range(11)] + ["random"]


def shard(tasks, k):
    """Split tasks into k shards of similar estimated cost (longest-processing-time-first); tasks that carry the
    same "group" stay together (they are meant to meet in one interpreter)."""
    units = {}
    for n, t in enumerate(tasks):
        units.setdefault(t.get("group", f"#{n}"), []).append(t)
    shards = [[] for _ in range(k)]
    load = [0.0] * k
    for u in sorted(units.values(), key=lambda u: -sum(t.get("weight", 1) for t in u)):
        m = load.index(min(load))
        shards[m] += u
        load[m] += sum(t.get("weight", 1) for t in u)
    return [s for s in shards if s]


def make_pdb_twins(src, complete, stripped, numbers=(5, 30, 60)):
    """Two copies of a PDB file in which a few residues carry a component name the reader cannot resolve ("XYP");
    in `stripped` those residues have also lost their base atoms.  Same component name, complete in one file and
    incomplete in the other - the two files are read in one interpreter, in both orders."""
    a, b = [], []
    with open(src) as f:
        text = f.readlines()
    # ... plus the first two uridines, which also become 4-thiouridines (O4 -> S4: by its atoms such a residue is
    # as much a C as a U, so the detected letter rests on a tie-break)
    uri = []
    for line in text:
        if line.startswith(("ATOM", "HETATM")) and line[17:20].strip() == "U" and line[22:26].strip().isdigit():
            n = int(line[22:26])
            if n not in uri and n not in numbers:
                uri.append(n)
    uri = uri[:2]
    numbers = tuple(numbers) + tuple(uri)
    if True:
        for line in text:
            if line.startswith(("ATOM", "HETATM")) and line[22:26].strip().lstrip("-").isdigit() \
                    and int(line[22:26]) in numbers:
                line = line[:17] + "XYP" + line[20:]
                if int(line[22:26]) in uri and line[12:16].strip() == "O4":
                    line = line[:12] + " S4 " + line[16:76] + " S" + line[78:]
                name = line[12:16].strip()
                a.append(line)
                if not (BASE_LIKE.match(name) and name not in ("P", "OP1", "OP2", "OP3")):
                    b.append(line)
            else:
                a.append(line)
                b.append(line)
    with open(complete, "w") as f:
        f.writelines(a)
    with open(stripped, "w") as f:
        f.writelines(b)


BASE_LIKE = re.compile(r"^[A-Z]+[0-9]*$")      # atom names without a prime: base atoms (and P)


def strip_modified_bases(src, dst):
    """Write a copy of an mmCIF file in which the HETATM nucleotides (modified residues) have lost their base
    atoms: the same component names, but incomplete.  A reader that remembers a per-component answer from one
    file and applies it to another shows here (the two files meet in one interpreter, in both orders)."""
    cols, out, inloop = [], [], False
    with open(src) as f:
        for line in f:
            if line.startswith("_atom_site."):
                cols.append(line.strip().split(".", 1)[1])
                out.append(line)
                continue
            if cols and line.startswith(("ATOM", "HETATM")):
                tok = line.split()
                name = tok[cols.index("label_atom_id")].strip('"')
                if tok[0] == "HETATM" and BASE_LIKE.match(name) and name not in ("P", "OP1", "OP2", "OP3"):
                    continue
            out.append(line)
    with open(dst, "w") as f:
        f.writelines(out)


def run_children(tasks, seeds, nshards, scratch, reps=2, timeout=1500):
    """One fresh interpreter per (seed, shard).  Returns (observations grouped per (input, artefact),
    number of processes).  Each observation gets proc = 's<seed>' (every input is seen by exactly one
    shard per seed)."""
    shards = shard(tasks, nshards)
    jobs = []
    for s in seeds:
        for k, part in enumerate(shards):
            tag = f"s{s}-k{k}"
            wd = scratch.path("work-" + tag)
            os.makedirs(wd, exist_ok=True)
            # every second seed meets its inputs in the opposite order (an answer must not depend on what the
            # interpreter read before)
            order = part if seeds.index(s) % 2 == 0 else list(reversed(part))
            job = {"tasks": order, "reps": reps, "workdir": wd, "out": scratch.path(f"obs-{tag}.json")}
            jf = scratch.path(f"job-{tag}.json")
            with open(jf, "w") as f:
                json.dump(job, f)
            jobs.append((s, jf, job["out"], tag))

    def launch(j):
        s, jf, outp, tag = j
        env = dict(os.environ)
        env["PYTHONHASHSEED"] = s
        env["PYTHONDONTWRITEBYTECODE"] = "1"
        env["VERIF_REPO"] = lib.REPO
        t0 = time.time()
        try:
            p = subprocess.run([PY, "-m", "harness.determinism", jf], cwd=lib.VERIF, env=env, capture_output=True,
                               text=True, timeout=timeout)
        except subprocess.TimeoutExpired as ex:
            raise lib.MachineryError(f"child {tag} timed out after {timeout}s") from ex
        if p.returncode != 0 or not os.path.exists(outp):
            raise lib.MachineryError(f"child {tag} failed (rc={p.returncode}):\n{(p.stdout + p.stderr)[-3000:]}")
        with open(outp) as f:
            doc = json.load(f)
        want = os.path.join(lib.REPO, "src", "rnapolis")
        if os.path.realpath(doc["rnapolis"]) != os.path.realpath(want):
            raise lib.MachineryError(f"child {tag} imported rnapolis from {doc['rnapolis']}, expected {want}")
        if s != "random" and doc["hashseed"] != s:
            raise lib.MachineryError(f"child {tag} ran with PYTHONHASHSEED={doc['hashseed']!r}")
        return s, doc["obs"], time.time() - t0

    with ThreadPoolExecutor(max_workers=lib.NCPU) as ex:
        results = list(ex.map(launch, jobs))
    grouped = {}
    for s, obs, _ in results:
        for o in obs:
            o = dict(o)
            o["proc"] = "s" + s
            o["seed"] = s
            grouped.setdefault((o.pop("input"), o["artefact"]), []).append(o)
    return grouped, len(jobs), max(r[2] for r in results)


# TLC wraps printed tuples at 80 columns and lib parses one verdict per line: case ids stay <= 18 chars
ABBR = {"all_dot_brackets": "adb", "map_all_dot_brackets": "madb", "cli_stdout_all": "cadb", "elements": "elem",
        "optimal_db": "opt", "fcfs": "fcfs", "cli_json": "json", "cli_csv": "csv", "cli_bpseq": "bpseq",
        "cli_stdout": "out", "cli_stdout_extended": "ext", "cli_graphviz": "gv", "cli_pml": "pml",
        "cli_inter_stem_csv": "iscsv", "cli_stems_csv": "stcsv", "v2_write_pdb": "wpdb", "v2_write_cif": "wcif", "v2_fit_write_pdb": "fpdb",
        "bpseq": "mbps", "map_dot_bracket": "mdb", "ext_dot_bracket": "mext"}


def cases_from(grouped, expect):
    """One trace case per (input, artefact): every observation of that artefact, in a fixed order.
    expect = number of observations every case must have (processes x repetitions)."""
    cases = []
    for (inp, art), obs in sorted(grouped.items()):
        obs = sorted(obs, key=lambda o: (o["seed"] == "random", o["seed"].zfill(4), o["rep"]))
        shape = obs[0]["shape"]
        cases.append({"id": f"{len(cases)}~{inp[:7]}~{ABBR.get(art, art[:5])}", "input": inp,
                      "artefact": art, "shape": shape, "expect": expect,
                      "obs": [{"proc": o["proc"], "seed": o["seed"], "rep": o["rep"], "err": o["err"],
                               "digest": o["digest"], "items": o["items"], "size": o["size"]} for o in obs]})
    return cases


# ------------------------------------------------------------------ self-test of the trace spec

def corrupted_cases():
    """Hand-made observation sets with one flipped field each, and the verdict the trace spec must give.
    (Guards the judge itself: a Trace_Determinism that accepted these would make the check vacuous.)"""
    import copy

    def o(proc, rep, items=None, digest="d0", err=""):
        return {"proc": proc, "seed": proc[1:], "rep": rep, "err": err, "digest": digest, "items": items or [],
                "size": len(items or [])}
    lst = {"id": "L0", "input": "x", "artefact": "all_dot_brackets", "shape": "list", "expect": 4,
           "obs": [o("s0", 1, ["a", "b", "c"], "d1"), o("s0", 2, ["a", "b", "c"], "d1"),
                   o("s1", 1, ["b", "a", "c"], "d2"), o("s1", 2, ["b", "a", "c"], "d2")]}
    txt = {"id": "T0", "input": "x", "artefact": "cli_json", "shape": "text", "expect": 4,
           "obs": [o("s0", 1), o("s0", 2), o("s1", 1), o("s1", 2)]}
    out = [(lst, ("deviation", "AllDotBracketsHashOrder")), (txt, ("ok",))]

    def variant(base, cid, expect, fn):
        c = copy.deepcopy(base)
        c["id"] = cid
        fn(c)
        out.append((c, expect))

    def members(c):
        c["obs"][2]["items"] = c["obs"][3]["items"] = ["b", "a", "d"]

    def shorter(c):
        c["obs"][2]["items"] = c["obs"][3]["items"] = ["b", "a"]

    def repeated(c):
        c["obs"][2]["items"] = c["obs"][3]["items"] = ["b", "a", "a"]

    def within(c):
        c["obs"][3]["items"], c["obs"][3]["digest"] = ["a", "b", "c"], "d1"

    def other_artefact(c):
        c["artefact"] = "elements"

    def error_in_one(c):
        c["obs"][2]["err"] = c["obs"][3]["err"] = "KeyError"

    def digest(c):
        c["obs"][2]["digest"] = c["obs"][3]["digest"] = "dX"

    def adb_as_text(c):
        c["artefact"] = "cli_stdout_all"
        digest(c)

    def one_process(c):
        c["obs"] = c["obs"][:2]

    def one_missing(c):
        c["obs"] = c["obs"][:3]

    def same_error(c):
        for x in c["obs"]:
            x["err"], x["digest"] = "ValueError", ""
    variant(lst, "L1", ("fail", "SameAcrossRuns", "members"), members)
    variant(lst, "L2", ("fail", "SameAcrossRuns", "members"), shorter)
    variant(lst, "L3", ("fail", "SameAcrossRuns", "members"), repeated)
    variant(lst, "L4", ("fail", "SameWithinProcess"), within)
    variant(lst, "L5", ("fail", "SameAcrossRuns", "order"), other_artefact)
    variant(lst, "L6", ("fail", "SameAcrossRuns", "error"), error_in_one)
    variant(txt, "T1", ("fail", "SameAcrossRuns", "bytes"), digest)
    variant(txt, "T2", ("fail", "SameAcrossRuns", "bytes"), adb_as_text)
    variant(txt, "T3", ("fail", "AtLeastTwoProcesses"), one_process)
    variant(txt, "T4", ("ok",), same_error)
    variant(txt, "T5", ("fail", "EveryProcessObserved"), one_missing)
    return out


def selftest(scratch):
    """Validate the corrupted cases; any unexpected verdict is a machinery failure."""
    pairs = corrupted_cases()
    res = lib.trace_validate("Trace_Determinism", "Trace_Determinism_C14.cfg", [c for c, _ in pairs], scratch, chunks=1)
    got = {v[0]: tuple(v[1:]) for v in res["verdicts"]}
    for c, expect in pairs:
        g = got.get(c["id"], ("ok",))
        if g[:len(expect)] != expect:
            raise lib.MachineryError(f"trace-spec self-test: case {c['id']} judged {g}, expected {expect}")
    return len(pairs)


if __name__ == "__main__":
    child_main(sys.argv[1])
