------------------------------ MODULE Gen_Clash ------------------------------
(***************************************************************************)
(* Generation mode (spec -> code) for C17.                                 *)
(*  1. the exhaustive PAIR family: two test atoms, atom a at the origin of *)
(*     the point palette (a line, integer coordinates in 0.01 A), atom b   *)
(*     at distance d; every type pair, every distance class just inside /  *)
(*     at / just outside the pair's radius sum (strict and MolProbity),    *)
(*     every residue relation, nucleotide flags, same / different name,    *)
(*     a palette of occupancy pairs.  Written as NDJSON (OUT_FILE).        *)
(*  2. the palettes (types, radii, gap classes, occupancies) from which    *)
(*     the harness composes the random multi-atom family (PALETTE_FILE).   *)
(* No expected value is exported: every verdict is made by Trace_Clash.    *)
(***************************************************************************)
EXTENDS Clash, Json, IOUtils, TLC, SequencesExt

Absent == 101
TypeOrder == <<"C", "N", "O", "P", "X">>
TypePairs == { <<TypeOrder[i], TypeOrder[j]>> : <<i, j>> \in { p \in (1..5) \X (1..5) : p[1] <= p[2] } }
Deltas == { <<"in", 0 - 1>>, <<"at", 0>>, <<"out", 1>>,
            <<"mpin", MolProbityExtra - 1>>, <<"mpat", MolProbityExtra>>, <<"mpout", MolProbityExtra + 1>> }
OccPairs == { <<100, 100>>, <<50, 50>>, <<30, 70>>, <<70, 30>>, <<30, 50>>, <<0, 100>>, <<100, 0>>,
              <<0, 0>>, <<0, Absent>>, <<Absent, Absent>>, <<Absent, 50>>, <<100, 50>>,
              \* splits whose two-decimal values are not exact in binary (0.57 * 100 = 56.99999...), and near misses
              <<57, 43>>, <<29, 71>>, <<58, 42>>, <<57, 44>>, <<56, 43>> }
Relations == { <<"same", n1, n1>> : n1 \in BOOLEAN }
        \cup { <<rel, n1, n2>> : rel \in {"chain", "cross"}, n1 \in BOOLEAN, n2 \in BOOLEAN }

PairCasesTyped ==
  { [fam |-> "pair", ta |-> tp[1], tb |-> tp[2], cls |-> dl[1], d |-> Radius[tp[1]] + Radius[tp[2]] + dl[2],
     rel |-> rl[1], nuc1 |-> rl[2], nuc2 |-> rl[3], same |-> sm, occa |-> oc[1], occb |-> oc[2]] :
       tp \in { t \in TypePairs : t[1] # "X" /\ t[2] # "X" }, dl \in Deltas, rl \in Relations,
       sm \in BOOLEAN, oc \in OccPairs }
PairCasesOther ==
  { [fam |-> "pair", ta |-> tp[1], tb |-> tp[2], cls |-> "x", d |-> 100,
     rel |-> rl[1], nuc1 |-> rl[2], nuc2 |-> rl[3], same |-> FALSE, occa |-> 100, occb |-> 100] :
       tp \in { t \in TypePairs : t[1] = "X" \/ t[2] = "X" }, rl \in Relations }
\* two DIFFERENT atoms at exactly the same point (distance 0: certainly not further apart than their radii);
\* within one residue they cannot share a name (that would be one atom listed twice)
PairCasesZero ==
  { [fam |-> "pair", ta |-> tp[1], tb |-> tp[2], cls |-> "zero", d |-> 0,
     rel |-> rl[1], nuc1 |-> rl[2], nuc2 |-> rl[3], same |-> sm, occa |-> oc[1], occb |-> oc[2]] :
       tp \in { t \in TypePairs : t[1] # "X" /\ t[2] # "X" }, rl \in Relations, sm \in BOOLEAN,
       oc \in { <<100, 100>>, <<50, 50>>, <<Absent, Absent>> } }
\* two atoms can only share a name if they share a type
PairCases == { c \in PairCasesTyped \cup { z \in PairCasesZero : ~(z.rel = "same" /\ z.same) } : c.same => c.ta = c.tb }
             \cup PairCasesOther

GapClasses == { Radius[ta] + Radius[tb] + dl : ta \in Types, tb \in Types,
                dl \in {0 - 1, 1, MolProbityExtra - 1, MolProbityExtra + 1} } \cup {60, 100, 150, 250, 320}
Palette == [types |-> TypeOrder, radius |-> Radius, extra |-> MolProbityExtra,
            gaps |-> SetToSeq(GapClasses), occs |-> <<100, 100, 100, 50, 50, 30, 70, 0, Absent, 57, 43, 29, 71>>,
            absent |-> Absent, cutoff |-> Cutoff, um |-> UM]

ASSUME ndJsonSerialize(IOEnv.OUT_FILE, SetToSeq(PairCases))
ASSUME JsonSerialize(IOEnv.PALETTE_FILE, Palette)
ASSUME PrintT(<<"GENERATED", Cardinality(PairCases)>>)
=============================================================================
