"""X05 - beyond the listed properties: the lock protocol of rnapolis.rfam_folder (thread pool, one lock around
ensure_cm, failures of ensure_cm).  Design: specs/RfamLock.tla (TLC: safety, absence of deadlock, termination under
fairness; negative control = the code before the fix).  Conformance: event logs of the REAL workers replayed as
behaviours of the specification (specs/Trace_RfamLock.tla)."""
import json
import re

from .. import lib, rfamlock as rl

PID = "X05"
TIERS = {"quick": dict(n=160, cfg="MC_RfamLock.cfg"), "thorough": dict(n=1500, cfg="MC_RfamLock_6.cfg")}
ACTIONS = ("Start", "Acquire", "EnsureOk", "EnsureFail", "ReleaseUnwind", "Release", "Search", "Collect", "CollectDone", "Shutdown")
MAX_REPORTED = 6


def _validate(rec, sc):
    """Replays the logs; returns a res dict in the shape lib.Report.add_trace expects."""
    left = list(rec)
    verdicts, states, transitions, accepted = [], 0, 0, set()
    for attempt in range(MAX_REPORTED + 1):
        if not left:
            break
        path = sc.path(f"runs{attempt}.json")
        with open(path, "w") as f:
            json.dump({"nmax": 4, "cases": left}, f)
        r = lib.tlc("Trace_RfamLock", "Trace_RfamLock.cfg", workers=1, env={"TRACE_FILE": path}, scratch=sc,
                    timeout=1800, tag=f"rl{attempt}")
        states += r.get("distinct", 0) or 0
        transitions += r.get("generated", 0) or 0
        acc = set(re.findall(r'<<"ACCEPTED", "([^"]+)">>', r["out"]))
        if r["ok"]:
            missing = [c["id"] for c in left if c["id"] not in acc]
            if missing:
                raise lib.MachineryError(f"Trace_RfamLock passed but did not accept {missing[:5]}")
            accepted |= acc
            left = []
            break
        trs = re.findall(r"/\\ tr = (\d+)", r["out"])
        ls = re.findall(r"/\\ l = (\d+)", r["out"])
        if not trs:
            raise lib.MachineryError("Trace_RfamLock failed without a counterexample:\n" + r["out"][-3000:])
        k = int(trs[-1]) - 1
        bad = left[k]
        why = r["violated"] or "NotABehaviourOfTheSpecification"
        ev = int(ls[-1]) if ls else 0
        at = bad["events"][ev - 1] if 0 < ev <= len(bad["events"]) else {"ev": "end of log", "t": 0}
        verdicts.append((bad["id"], "fail", why, f"event {ev}: {at['ev']} by worker {at['t']}; lock left held = {bad['locked']}"))
        left = left[:k] + left[k + 1:]
    else:
        for c in left:
            verdicts.append((c["id"], "fail", "NotJudged", "more rejected runs than are examined one by one"))
    n = len(rec)
    return {"verdicts": verdicts, "n": n, "ok": n - len(verdicts), "dev": 0, "fail": len(verdicts), "states": states,
            "transitions": transitions}


def run(tier):
    t = TIERS[tier]
    rep = lib.Report(PID, tier, "model_checking")
    with lib.Scratch(PID.lower()) as sc:
        rl.WORKDIR = sc.path("fasta")
        r = lib.mc("RfamLock", t["cfg"], sc)
        rep.add_mc(r, "4 (thorough 6) workers, every set of failing workers, every interleaving of the workers and the "
                      "collecting main thread: MutualExclusion, HolderIsInside, InsideHolds, SearchNeedsModel, "
                      "PrintedInOrder, NoWaiterBehindDeadHolder, no deadlock, Terminates (WF Next, SF Acquire)",
                   min_actions=ACTIONS)
        r = lib.mc("RfamLock", "MC_RfamLock_asimpl.cfg", sc, expect_violation="HolderIsInside")
        rep.add_mc(r, "negative control: acquire(); ensure_cm(); release() without finally (the code before the fix) "
                      "leaves the lock with a dead worker", negative_control=True)
        cases = rl.cases(t["n"], lib.seed())
        rec = lib.pmap(rl.record, cases, chunksize=4)
        res = _validate(rec, sc)
        rep.add_trace(res, {c["id"]: c for c in rec}, "X05")
        cov = rep.cov
        cov["exhaustive"] = False
        cov["rule"] = (f"{len(cases)} runs of the real workers: 1-4 FASTA entries, failing sets none / one / first / "
                       "last / some / all, random tiny delays inside ensure_cm, either the workers started directly "
                       "as threads sharing one lock or main() in-process with its own pool and lock (argv, FASTA "
                       "file); ensure_cm and cmsearch are stubs (no network, no Infernal), the lock is a recording "
                       "wrapper around a real threading.Lock.  Non-trivial = a run with >= 2 workers of which at "
                       "least one fails.")
        cov["distinct_nontrivial"] = sum(1 for c in rec if c["n"] >= 2 and c["fails"])
        cov["runs_through_main"] = sum(1 for c in rec if c["mode"] == "main")
        cov["events_replayed"] = sum(len(c["events"]) for c in rec)
        cov["samples"] = [rec[0]]
        rep.assumptions += [
            "ensure_cm and cmsearch are replaced by stubs: what they do to files is outside this area; the stub of "
            "ensure_cm fails exactly for the workers the case names",
            "a worker that waits for the lock longer than 1.5 s is recorded as Starved (no action of the "
            "specification) and let go, so that a leaked lock shows as a rejected log instead of a hung check",
            "this area lies beyond the 20 listed properties: it is not claimed in MANIFEST.json",
        ]
    return rep.finish()


def replay(doc):
    case = doc.get("case")
    if not case:
        print(doc.get("tlc_output_tail", ""))
        return run("quick")
    rep = lib.Report(PID, "quick", "model_checking", evidence=False)
    with lib.Scratch("x05r") as sc:
        rl.WORKDIR = sc.path("fasta")
        n = int(case["id"][1:])
        rec = [rl.record(rl.cases(n + 1, lib.seed())[n])]
        rep.add_trace(_validate(rec, sc), {rec[0]["id"]: rec[0]}, "X05")
        rep.cov["samples"] = [{"id": rec[0]["id"]}]
        rep.cov["distinct_nontrivial"] = 1
    return rep.finish()
