"""Area Metareader (growth beyond the listed properties): generator of mmCIF documents and option sets, recorder
of rnapolis.metareader (main, read_metadata, list_metadata).  The harness never judges: TLC does
(specs/Trace_Metareader.tla against specs/Metareader.tla)."""
import contextlib
import csv
import io
import json
import os
import random
import shutil
import sys
import warnings

from . import lib, cifedit as ce, atomtable as at

CATS = ["struct", "entity", "cell", "atom_site", "struct_asym", "pdbx_x", "exptl"]
ATTRS = ["id", "title", "type", "name", "value", "details", "pdbx_PDB_ins_code", "Cartn_x", "entry_id"]
VALUES = ["A", "B", "AA", "a", "1", "2", "10", "1.50", "0010", "-3.25", "x y", "two  spaces", "it's", "O5'", 'N"1',
          "say 'hi' now", "_underscore", "data_like", "#hash", "a#b", "?", ".", "?x", "..", "N/A", "NA", "nan", "None",
          "true", "1e5", "a,b", "line1\nline2"]


def gen_case(rng, cid):
    ncat = rng.choice([0, 1, 2, 3, 4])
    cats = []
    for name in rng.sample(CATS, ncat):
        attrs = rng.sample(ATTRS, rng.randint(1, 4))
        nrows = rng.choice([1, 1, 2, 3, 5])
        pal = rng.sample(VALUES, rng.randint(2, 6))
        cats.append({"name": name, "attrs": attrs, "rows": [[rng.choice(pal) for _ in attrs] for _ in range(nrows)]})
    if not cats:
        cats = [{"name": "entry", "attrs": ["id"], "rows": [["X"]]}]
    doc = {"block": rng.choice(["r1", "4GQJ"]), "cats": cats}
    extra = []
    if rng.random() < 0.2:
        # a second data block (a ligand dictionary after the model) - the tool reads the first block only
        extra = [{"block": "comp_LIG", "cats": [{"name": rng.choice(CATS), "attrs": ["id"], "rows": [["LIG"]]}]}]
    ngiven = rng.choice([0, 0, 1, 1, 2, 3])
    given = [rng.choice(CATS + ["nope", "struct"]) for _ in range(ngiven)]
    if ngiven >= 2 and rng.random() < 0.3:
        given[-1] = given[0]                  # the same category asked twice
    mode = rng.choices(["main", "main-csv", "main-list", "main-list-csv", "lib"], [3, 4, 1, 1, 2])[0]
    return {"id": cid, "doc": doc, "extra": extra, "given": given, "mode": mode, "style": rng.randrange(16)}


def cases(count, seed):
    rng = random.Random(f"{seed}/metareader")
    return [gen_case(rng, f"m{n}") for n in range(count)]


def _pairs(obj):
    """JSON object -> list of [key, value] in the order printed."""
    return [[k, v] for k, v in obj]


def _result(text):
    top = json.loads(text, object_pairs_hook=_pairs)
    return [[k, [[[a, v] for a, v in row] for row in rows]] for k, rows in top]


def record(case):
    warnings.simplefilter("ignore")
    import logging
    logging.disable(logging.CRITICAL)
    c = {k: case[k] for k in ("id", "given", "mode")}
    c["doc"] = case["doc"]["cats"]
    root = os.path.join(at._TMPDIR, f"meta-{os.getpid()}-{case['id']}")
    shutil.rmtree(root, ignore_errors=True)
    os.makedirs(os.path.join(root, "csv"))
    src = os.path.join(root, "in.cif")
    with open(src, "w") as fh:
        fh.write(ce.emit(case["doc"], case["style"]) + "".join(ce.emit(b, case["style"]) for b in case["extra"]))
    from rnapolis import metareader as mr
    c.update(err="", stdout=[], result=[], csv=[], list=case["mode"].startswith("main-list"),
             csvdir=case["mode"].endswith("-csv"))
    try:
        if case["mode"] == "lib":
            # the two functions, the way a caller uses them: asked exactly for `given`
            with open(src) as fh:
                res = mr.read_metadata(fh, list(case["given"]))
                names = mr.list_metadata(fh)
            c["result"] = [[k, [[[a, v] for a, v in row.items()] for row in rows]] for k, rows in res.items()]
            c["stdout"] = list(names)
        else:
            argv = ["metareader", src]
            for g in case["given"]:
                argv += ["-c", g]
            if c["list"]:
                argv.append("-l")
            if c["csvdir"]:
                argv += ["--csv-directory", os.path.join(root, "csv")]
            old = sys.argv
            sys.argv = argv
            so = io.StringIO()
            try:
                with contextlib.redirect_stdout(so), contextlib.redirect_stderr(io.StringIO()):
                    mr.main()
            except SystemExit as e:
                c["err"] = f"SystemExit({e.code})"
            finally:
                sys.argv = old
            if c["list"]:
                c["stdout"] = so.getvalue().splitlines()
            elif not c["err"]:
                c["result"] = _result(so.getvalue())
            for name in sorted(os.listdir(os.path.join(root, "csv"))):
                with open(os.path.join(root, "csv", name), newline="") as fh:
                    rows = list(csv.reader(fh))
                rows = [r for r in rows if r != []]
                c["csv"].append({"name": name, "header": rows[0] if rows else [], "rows": rows[1:]})
    except Exception as e:
        c["err"] = type(e).__name__
    shutil.rmtree(root, ignore_errors=True)
    return c
