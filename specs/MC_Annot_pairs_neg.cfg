SPECIFICATION Spec
CONSTANT Part = "pairs"
CONSTANT NRes = 2
CONSTANT MaxLabels = 2
CONSTANT MaxCount = 2
CONSTANT MaxO2 = 1
CONSTANT O2Twice = TRUE
CONSTANT StackFlagsFull = "few"
INVARIANT PairSound
CHECK_DEADLOCK FALSE
