--------------------------- MODULE Trace_CifEdit ---------------------------
(***************************************************************************)
(* Trace validation for C20.  One TLC state per recorded case; a case is   *)
(* what the real rnapolis.transformer returned / wrote for one input.      *)
(* Every judgement is made here.                                           *)
(*                                                                         *)
(*  kind "lib": in (concrete input document), intext, op, and what         *)
(*              copy_from_to / replace_value returned: err, ret (shape of  *)
(*              the returned value), text, mapping (list of <<key,value>>),*)
(*              parsed (did the harness tokenizer accept the text), doc    *)
(*  kind "cli": op, path (text of the input path given in argv), the       *)
(*              library's err/text for the file content, and what          *)
(*              transformer.main did: err, written, text of the output file*)
(* Verdict lines stay below 80 characters (TLC wraps longer tuples).      *)
(* A text is a record [len, sha, head] (length, SHA-256, first 2000 chars):*)
(* two texts are identical iff their records are equal.                    *)
(***************************************************************************)
EXTENDS CifEdit, Json, IOUtils, TLC

Doc   == JsonDeserialize(IOEnv.TRACE_FILE)
Trace == Doc.cases

VARIABLES idx, cnt
vars == <<idx, cnt>>

OpOK(op) ==
  /\ op.kind \in {"copy", "replace"}
  /\ op.kind = "replace" => op.from = op.to
RetShape(op) == IF op.kind = "copy" THEN "str" ELSE "pair"
PairsOf(m) == { <<m[i][1], m[i][2]>> : i \in DOMAIN m }

\* ------------------------------------------------------------------ library
\* first failing document clause (I, O abstract input / output; pairs = returned mapping)
DocFail(c, I, O, pairs) ==
  LET op == c.op IN
  IF c.lib.doc.nblocks # c.in.nblocks \/ c.lib.doc.block # c.in.block
    THEN <<"fail", "FrameDataBlock", "block">>
  ELSE IF ~FrameOtherCategories(I, O, op) THEN <<"fail", "FrameOtherCategories", "cats">>
  ELSE IF ~FrameRowsAndOrder(I, O, op) THEN <<"fail", "FrameRowsAndOrder", "rows">>
  ELSE IF ~FrameOtherItems(I, O, op) THEN <<"fail", "FrameOtherItems", "items">>
  ELSE IF op.kind = "copy" /\ ~CopyTargetEqualsSource(I, O, op)
    THEN <<"fail", "CopyTargetEqualsSource", "target">>
  ELSE IF op.kind = "replace" /\ Cardinality(pairs) # Len(c.lib.mapping)
    THEN <<"fail", "ReplaceIsInjectiveFirstSeen", "keys">>
  ELSE IF op.kind = "replace" /\ ~ReplaceIsInjectiveFirstSeen(I, O, op, pairs)
    THEN <<"fail", "ReplaceIsInjectiveFirstSeen", "image">>
  ELSE IF O # Expected(I, op) THEN <<"fail", "ExpectedDocument", "doc">>
  ELSE <<"ok">>

\* Named deviation of the library functions:
\*  EmptyStringWrittenAsDot  whenever the document is re-serialised, every value that is the
\*                           empty string (written '' in the input) comes out as the null
\*                           marker "." - anywhere in the file, also in untouched categories.
\*                           Explains a case exactly when the output is the expected document
\*                           with "" replaced by "." in every cell (and nothing else differs,
\*                           and the returned mapping is the required one).
NormEmpty(F) ==
  ForceFn([n \in DOMAIN F |-> ForceSeq([k \in DOMAIN F[n] |-> ForceFn([a \in DOMAIN F[n][k] |->
      IF F[n][k][a] = "" THEN "." ELSE F[n][k][a]])])])
LibDeviationNames == {"EmptyStringWrittenAsDot"}
LibExplainedBy(c, I, O, pairs, dev) ==
  /\ dev = "EmptyStringWrittenAsDot"
  /\ c.lib.doc.nblocks = c.in.nblocks /\ c.lib.doc.block = c.in.block
  /\ LET E == Expected(I, c.op) IN      \* (bound once: a parameter would be re-evaluated at every cell)
     O # E /\ O = NormEmpty(E)
  /\ c.op.kind = "replace" => /\ pairs = ExpectedMapPairs(I, c.op)
                              /\ Cardinality(pairs) = Len(c.lib.mapping)

LibVerdict(c) ==
  LET op == c.op IN
  IF ~OpOK(op) \/ ~WellFormedDoc(c.in) THEN <<"fail", "InputWellFormed", "harness">>
  ELSE LET I == DocFun(c.in) IN
  IF op.kind = "replace" /\ ~Missing(I, op) /\ Cardinality(Ran(op.alpha)) # Len(op.alpha)
    THEN <<"fail", "InputWellFormed", "alphabet">>
  \* an alphabet with fewer letters than the column has distinct values admits no injective mapping: the only
  \* answer that does not break the statement is a refusal (an exception; nothing is returned)
  ELSE IF op.kind = "replace" /\ ~Missing(I, op) /\ ~AlphabetOK(ColOf(I[op.cat], op.to), op.alpha)
    THEN IF c.lib.err # "" THEN <<"ok">> ELSE <<"fail", "ReplaceIsInjectiveFirstSeen", "alphabet too short">>
  ELSE IF c.lib.err # "" THEN <<"fail", "LibReturns", c.lib.err>>
  ELSE IF c.lib.ret # RetShape(op) THEN <<"fail", "ReturnShape", c.lib.ret>>
  ELSE IF Missing(I, op) THEN
       IF c.lib.text # c.intext THEN <<"fail", "MissingLeavesUntouched", "text">>
       ELSE IF op.kind = "replace" /\ Len(c.lib.mapping) # 0 THEN <<"fail", "MissingLeavesUntouched", "mapping">>
       ELSE <<"ok">>
  ELSE IF ~c.lib.parsed THEN <<"fail", "OutputParses", "tokens">>
  ELSE IF ~WellFormedDoc(c.lib.doc) THEN <<"fail", "OutputWellFormed", "document">>
  ELSE LET O == DocFun(c.lib.doc)
           pairs == PairsOf(c.lib.mapping)
           f == DocFail(c, I, O, pairs) IN
       IF f = <<"ok">> THEN f
       ELSE IF \E dev \in LibDeviationNames : LibExplainedBy(c, I, O, pairs, dev)
         THEN <<"deviation", CHOOSE dev \in LibDeviationNames : LibExplainedBy(c, I, O, pairs, dev), f[2]>>
       ELSE f

\* ------------------------------------------------------------------ command line
\* Required: main writes exactly the text the library returns for the file's content.
CliRequired(c) == c.cli.err = "" /\ c.cli.written /\ c.cli.text = c.lib.text

\* Named deviations (DESIGN 5.2 / P12), each describing exactly one coded behaviour:
\*  CliPathAsContent       main hands the PATH STRING to the library as file_content; the path
\*                         is no mmCIF, so the library returns it unchanged and main writes
\*                         the path string into the output file
\*  CliReplaceWritesTuple  main passes replace_value's (text, mapping) tuple to f.write():
\*                         TypeError after the output file was opened (left empty)
ExplainedBy(c, dev) ==
  \/ /\ dev = "CliPathAsContent"
     /\ c.cli.err = "" /\ c.cli.written /\ c.cli.text = c.path /\ c.cli.text # c.lib.text
  \/ /\ dev = "CliReplaceWritesTuple"
     /\ c.op.kind = "replace" /\ c.cli.err = "TypeError" /\ c.cli.written /\ c.cli.text.len = 0
DeviationNames == {"CliPathAsContent", "CliReplaceWritesTuple"}

CliVerdict(c) ==
  IF ~OpOK(c.op) THEN <<"fail", "InputWellFormed", "harness">>
  \* the library refuses (alphabet too short, see LibVerdict): the tool may not succeed where the library refuses
  ELSE IF c.lib.err # "" THEN (IF c.cli.err # "" THEN <<"ok">> ELSE <<"fail", "CliEqualsLib", "cli succeeds, library refuses">>)
  ELSE IF CliRequired(c) THEN <<"ok">>
  ELSE IF \E dev \in DeviationNames : ExplainedBy(c, dev)
    THEN <<"deviation", CHOOSE dev \in DeviationNames : ExplainedBy(c, dev), c.op.kind>>
  ELSE <<"fail", "CliEqualsLib",
         IF c.cli.err # "" THEN c.cli.err ELSE IF ~c.cli.written THEN "nofile" ELSE "text">>

Verdict(c) == IF c.kind = "lib" THEN LibVerdict(c) ELSE CliVerdict(c)

\* was the case an actual edit (category and source present)?  (statistics only)
Edit(c) == c.kind = "lib" /\ OpOK(c.op) /\ WellFormedDoc(c.in) /\ ~Missing(DocFun(c.in), c.op)

Init == idx = 0 /\ cnt = [ok |-> 0, deviation |-> 0, fail |-> 0, edits |-> 0]

Next ==
  /\ idx < Len(Trace)
  /\ idx' = idx + 1
  /\ LET c == Trace[idx']  v == Verdict(c) IN
     /\ cnt' = [cnt EXCEPT ![v[1]] = @ + 1, !.edits = @ + (IF Edit(c) THEN 1 ELSE 0)]
     /\ (v[1] = "ok" \/ PrintT(<<"V", c.id>> \o v))
  /\ (idx' < Len(Trace) \/ PrintT(<<"SUMMARY", Len(Trace), cnt'.ok, cnt'.deviation, cnt'.fail, cnt'.edits>>))

Spec == Init /\ [][Next]_vars
=============================================================================
