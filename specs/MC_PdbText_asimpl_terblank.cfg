SPECIFICATION Spec
CONSTANT TerOnModelChange = TRUE
CONSTANT CifChargeVerbatim = FALSE
CONSTANT ShapeLevel = 0
CONSTANT TerChainPadded = FALSE
CONSTANT BlankSecondChain = TRUE
CONSTANT MaxAtoms = 3
INVARIANT InvLayout80
CHECK_DEADLOCK FALSE
