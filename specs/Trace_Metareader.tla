-------------------------- MODULE Trace_Metareader --------------------------
(***************************************************************************)
(* code -> spec: recorded runs of rnapolis.metareader (harness/            *)
(* metareader.py) judged against the function of Metareader.tla section 1. *)
(***************************************************************************)
EXTENDS Integers, Sequences, FiniteSets, TLC, Json, IOUtils

Doc == JsonDeserialize(IOEnv.TRACE_FILE)
Trace == Doc.cases

VARIABLES idx, cnt
vars == <<idx, cnt>>

M == INSTANCE Metareader WITH CatNames <- {}, MaxGiven <- 0, present <- {}, given <- <<>>, list <- FALSE,
                              csvdir <- FALSE, pc <- "", asked <- <<>>, result <- <<>>, todo <- <<>>,
                              printed <- "", csvs <- {}

Verdict(c) ==
  LET doc == c.doc
      main == c.mode # "lib"
      \* the library function is asked exactly for what the caller lists; the tool adds its default
      exp == IF main THEN M!Result(doc, c.given)
             ELSE LET ks == M!Dedup(c.given) IN [k \in 1..Len(ks) |-> <<ks[k], M!RowsOfCat(doc, ks[k])>>] \o <<>>
      keys == IF main THEN M!Keys(c.given) ELSE M!Dedup(c.given)
      files == { c.csv[k].name : k \in 1..Len(c.csv) }
  IN
  IF c.err # "" THEN <<"fail", "NoException", c.err>>
  \* listing: the names of the first block in file order, nothing else happens
  ELSE IF (c.list \/ ~main) /\ c.stdout # M!Names(doc) THEN <<"fail", "ListsNamesInFileOrder", "">>
  ELSE IF c.list /\ (c.result # <<>> \/ c.csv # <<>>) THEN <<"fail", "ListingWritesNothing", "">>
  \* the result: one entry per asked name (default first), absent categories empty, rows and items in file order
  ELSE IF ~c.list /\ Len(c.result) # Len(exp) THEN <<"fail", "KeysAsAsked", "count">>
  ELSE IF ~c.list /\ \E k \in 1..Len(exp) : c.result[k][1] # exp[k][1]
       THEN <<"fail", "KeysAsAsked", exp[CHOOSE k \in 1..Len(exp) : c.result[k][1] # exp[k][1]][1]>>
  ELSE IF ~c.list /\ \E k \in 1..Len(exp) : ~M!Has(doc, exp[k][1]) /\ c.result[k][2] # <<>>
       THEN <<"fail", "AbsentIsEmpty", "">>
  ELSE IF ~c.list /\ \E k \in 1..Len(exp) : c.result[k][2] # exp[k][2]
       THEN <<"fail", "RowsAsWritten", exp[CHOOSE k \in 1..Len(exp) : c.result[k][2] # exp[k][2]][1]>>
  \* CSV: one file per key iff a directory was given; header = the items, lines = the rows
  ELSE IF main /\ files # { k \o ".csv" : k \in M!CsvNames(c.given, c.list, c.csvdir) } THEN <<"fail", "CsvPerKey", "">>
  ELSE IF main /\ \E f \in 1..Len(c.csv) : \E k \in M!SeqToSet(keys) :
            /\ c.csv[f].name = k \o ".csv"
            /\ (c.csv[f].header # M!CsvHeader(doc, k) \/ Len(c.csv[f].rows) # Len(M!CsvRows(doc, k)))
       THEN <<"fail", "CsvShape", "">>
  ELSE <<"ok">>

Init == idx = 0 /\ cnt = [ok |-> 0, deviation |-> 0, fail |-> 0]
Next ==
  /\ idx < Len(Trace)
  /\ idx' = idx + 1
  /\ LET c == Trace[idx']  v == Verdict(c) IN
     /\ cnt' = [cnt EXCEPT ![v[1]] = @ + 1]
     /\ (v[1] = "ok" \/ PrintT(<<"V", c.id>> \o v))
  /\ (idx' < Len(Trace) \/ PrintT(<<"SUMMARY", Len(Trace), cnt'.ok, cnt'.deviation, cnt'.fail>>))
Spec == Init /\ [][Next]_vars
=============================================================================
