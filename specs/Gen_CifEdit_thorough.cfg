CONSTANT MaxItems = 3
CONSTANT MaxRows = 3
CONSTANT PalN = 6
