---------------------------- MODULE MC_SecStruct ----------------------------
(***************************************************************************)
(* Design-level model of the encoders of rnapolis.common.BpSeq, action by  *)
(* action as the code performs them, explored for EVERY matching on 1..N:  *)
(*   ScanStep / ScanFlush   the stem scan over 5' entries (__stems_entries) *)
(*   Pick                   which encoder runs (fcfs | milp | perm)         *)
(*   FcfsStep               the first-come-first-served loop                *)
(*   Milp                   the solver returns ANY optimal 0/1 solution     *)
(*   PermGreedy             all_dot_brackets: first-fit over a permutation  *)
(*                          of every conflict component, combined freely    *)
(*   FillStep               __make_dot_bracket, one region per step         *)
(* The declarative clauses of SecStruct/Bracket are checked as invariants, *)
(* together with lemmas L1-L6 that validate the oracle used on traces.     *)
(***************************************************************************)
EXTENDS SecStruct

CONSTANT N
VARIABLES m,        \* the input matching
          pc,       \* control state
          open,     \* 5' entries (pairs i<j) in index order
          k,        \* scan / loop index
          cur,      \* current run of stacked pairs
          stems,    \* sequence of finished runs (each a sequence of pairs)
          enc,      \* encoder chosen
          orders,   \* level per region index
          db        \* text under construction
vars == <<m, pc, open, k, cur, stems, enc, orders, db>>

RECURSIVE SortPairs(_)
SortPairs(S) == IF S = {} THEN <<>> ELSE LET p == CHOOSE x \in S : \A y \in S : x[1] <= y[1] IN <<p>> \o SortPairs(S \ {p})

RegionSeq == [i \in 1..Len(stems) |-> <<stems[i][1][1], stems[i][1][2], Len(stems[i])>>]
RegSet    == { RegionSeq[i] : i \in 1..Len(stems) }
IdxLevels(f) == [i \in 1..Len(stems) |-> f[RegionSeq[i]]]

Init == /\ m \in Matchings(1..N)
        /\ pc = "scan" /\ open = SortPairs(m) /\ k = 1 /\ cur = <<>> /\ stems = <<>>
        /\ enc = "none" /\ orders = <<>> /\ db = [i \in 1..N |-> Dot]

ScanStep ==
  /\ pc = "scan" /\ k <= Len(open)
  /\ LET e == open[k] IN
     IF cur = <<>> THEN cur' = <<e>> /\ UNCHANGED stems
     ELSE LET l == cur[Len(cur)] IN
          IF e[1] = l[1] + 1 /\ e[2] = l[2] - 1
          THEN cur' = Append(cur, e) /\ UNCHANGED stems
          ELSE stems' = Append(stems, cur) /\ cur' = <<e>>
  /\ k' = k + 1
  /\ UNCHANGED <<m, pc, open, enc, orders, db>>

ScanFlush ==
  /\ pc = "scan" /\ k > Len(open)
  /\ stems' = IF cur = <<>> THEN stems ELSE Append(stems, cur)
  /\ cur' = <<>> /\ pc' = "pick"
  /\ UNCHANGED <<m, open, k, enc, orders, db>>

Pick ==
  /\ pc = "pick"
  /\ \E e \in {"fcfs", "milp", "perm"} : enc' = e /\ pc' = e
  /\ orders' = [i \in 1..Len(stems) |-> 0] /\ k' = 2
  /\ UNCHANGED <<m, open, cur, stems, db>>

\* for i in range(1, len(regions)): lowest level not used by an earlier conflicting region
FcfsStep ==
  /\ pc = "fcfs"
  /\ IF k <= Len(stems)
     THEN LET used == { orders[j] : j \in { x \in 1..(k - 1) : CrossR(RegionSeq[k], RegionSeq[x]) } } IN
          /\ orders' = [orders EXCEPT ![k] = LowestFree(used)]
          /\ k' = k + 1 /\ UNCHANGED pc
     ELSE pc' = "fill" /\ k' = 1 /\ UNCHANGED orders
  /\ UNCHANGED <<m, open, cur, stems, enc, db>>

\* the MILP: x[i][l] in {0,1}, one level per region, adjacent regions differ, levels 0..maxdeg
\* (max_order = maxdeg + 1 levels), objective as in the code; the solver may return any optimum
Milp ==
  /\ pc = "milp"
  /\ IF ~Knotted(RegSet) THEN orders' = [i \in 1..Len(stems) |-> 0]
     ELSE LET cand == ProperAssignments(RegSet, MaxDeg(RegSet))
              best == Max({ Obj(RegSet, f) : f \in cand }) IN
          \E f \in { g \in cand : Obj(RegSet, g) = best } : orders' = IdxLevels(f)
  /\ pc' = "fill" /\ k' = 1
  /\ UNCHANGED <<m, open, cur, stems, enc, db>>

\* all_dot_brackets: per component any permutation, first fit; other regions level 0
PermGreedy ==
  /\ pc = "perm"
  /\ LET KC == KnotComponents(RegSet) IN
     \E choice \in [KC -> UNION { GreedySet(C) : C \in KC }] :
        /\ \A C \in KC : choice[C] \in GreedySet(C)
        /\ orders' = [i \in 1..Len(stems) |->
                        IF \E C \in KC : RegionSeq[i] \in C
                        THEN choice[CHOOSE C \in KC : RegionSeq[i] \in C][RegionSeq[i]]
                        ELSE 0]
  /\ pc' = "fill" /\ k' = 1
  /\ UNCHANGED <<m, open, cur, stems, enc, db>>

\* __make_dot_bracket: one region per step
FillStep ==
  /\ pc = "fill"
  /\ IF k <= Len(stems)
     THEN LET r == RegionSeq[k] IN
          /\ db' = [i \in 1..N |->
                      IF \E t \in 0..(r[3] - 1) : i = r[1] + t THEN Opening[orders[k] + 1]
                      ELSE IF \E t \in 0..(r[3] - 1) : i = r[2] - t THEN Closing[orders[k] + 1]
                      ELSE db[i]]
          /\ k' = k + 1 /\ UNCHANGED pc
     ELSE pc' = "done" /\ UNCHANGED <<db, k>>
  /\ UNCHANGED <<m, open, cur, stems, enc, orders>>

Next == ScanStep \/ ScanFlush \/ Pick \/ FcfsStep \/ Milp \/ PermGreedy \/ FillStep
Spec == Init /\ [][Next]_vars

\* ---------------------------------------------------------------- invariants
Done == pc = "done"
R == Regions(m)

\* the scan produces exactly the declarative stems
ScanMatchesDeclarative == pc \notin {"scan"} => RegSet = R /\ Len(stems) = Cardinality(R)

\* C01: every encoder's text is lossless
Lossless == Done => LET d == Decode(db) IN
            /\ AlphabetOK(db) /\ d.balanced /\ d.pairs = m /\ NoCrossSameType(db, m) /\ EndsMatch(db, m)

\* C02: the MILP result is optimal in the sense of the declarative Opt (L4: the level bound
\* maxdeg loses nothing and the optimum decomposes over components), stable, >= FCFS
MilpOptimal == Done /\ enc = "milp" =>
   /\ ObjText(db, m) = Opt(R)
   /\ StemUniform(db, R) /\ Stable(R, LevelsOf(db, R))
   /\ NoSwapImproves(R, LevelsOf(db, R))                      \* L7
   /\ ObjText(db, m) >= Obj(R, FcfsLevels(R))
   /\ (~Knotted(R) => \A i \in 1..N : db[i] \in {"(", ")", Dot})

\* L3: the FCFS loop equals the declarative first-come-first-served and is stable
FcfsStable == Done /\ enc = "fcfs" => db = Fill(N, R, FcfsLevels(R)) /\ Stable(R, LevelsOf(db, R))

\* C16: every permutation-greedy result is stable on every component
PermStable == Done /\ enc = "perm" => StemUniform(db, R) /\ Stable(R, LevelsOf(db, R))

\* L1: stems cross at region level iff some pair crosses iff all pairs cross
L1 == pc = "pick" =>
   \A r \in R : \A s \in R : r # s =>
      /\ (CrossR(r, s) <=> \E p \in RegionPairs(r) : \E q \in RegionPairs(s) : CrossP(p, q))
      /\ (CrossR(r, s) <=> \A p \in RegionPairs(r) : \A q \in RegionPairs(s) : CrossP(p, q))

\* L2: Decode(Fill(m, f)) = m  <=>  Proper(f)
L2 == pc = "pick" =>
   \A f \in [R -> 0..MaxDeg(R)] :
      LET d == Decode(Fill(N, R, f)) IN (d.balanced /\ d.pairs = m) <=> Proper(R, f)

\* L4: more levels than maxdeg+1 never help
L4 == pc = "pick" /\ R # {} =>
   Max({ Obj(R, f) : f \in ProperAssignments(R, Cardinality(R) - 1) }) = Opt(R)

\* L5: every optimal assignment is stable and scores >= FCFS
L5 == pc = "pick" => \A C \in Components(R) : \A f \in OptimalSet(C) : Stable(C, f) /\ Obj(C, f) >= Obj(C, [r \in C |-> FcfsLevels(R)[r]])

\* L6: first-fit colourings over all orders = Grundy-stable colourings
L6 == pc = "pick" => \A C \in KnotComponents(R) : GreedySet(C) = StableSet(C)
=============================================================================
