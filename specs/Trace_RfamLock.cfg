SPECIFICATION TSpec
INVARIANT MutualExclusion
INVARIANT HolderIsInside
INVARIANT InsideHolds
INVARIANT SearchNeedsModel
CHECK_DEADLOCK TRUE
