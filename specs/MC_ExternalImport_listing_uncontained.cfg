SPECIFICATION Spec
CONSTANT Modes = {"listing"}
CONSTANT LabelSpaces <- QuickLabelSpaces
CONSTANT ListingSpaces <- UncontainedListingSpaces
CONSTANT DssrSpaces <- QuickDssrSpaces
CONSTANT Contained <- OnlyValueErrorContained
CONSTANT LwTest = "members"
INVARIANT LabelMapExact
INVARIANT LabelStepsTyped
INVARIANT Fr3dNeverRaises
INVARIANT LineYieldsExactlyOne
INVARIANT MalformedSkipped
INVARIANT UnknownKeptAsOther
INVARIANT DssrPairsExact
INVARIANT DssrStacksExact
CHECK_DEADLOCK FALSE
