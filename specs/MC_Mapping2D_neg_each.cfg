SPECIFICATION Spec
CONSTANT MaxEntries = 3
CONSTANT Classes = {"cWW"}
CONSTANT WithAbsent = FALSE
CONSTANT Oriented = TRUE
CONSTANT Ords = {TRUE}
CONSTANT RowPolicy = "two_rows"
CONSTANT Resolve = "as_code"
INVARIANT InvExtEncodesEachOnce
CHECK_DEADLOCK FALSE
