--------------------------- MODULE ExternalImport ---------------------------
(***************************************************************************)
(* Property C19: external-tool output is imported totally and faithfully.  *)
(*                                                                         *)
(* Part 1  FR3D listing = sequence of raw text lines (each a sequence of   *)
(*         1-character strings).  This module DEFINES, independently of    *)
(*         the code, which lines carry an interaction and which one:       *)
(*           blank / comment ('#') lines carry nothing;                    *)
(*           a data line is  unit1 TAB label TAB unit2 [TAB more ...];     *)
(*           a unit id is  pdb|model|chain|name|number[|atom|alt|icode|..];*)
(*           it is well formed iff it has >= 5 fields and the number is an *)
(*           optionally signed decimal integer.                            *)
(* Part 2  DSSR document = pairs (nt1, nt2, LW) + stacks (nts_long) over a *)
(*         structure = sequence of residues; the DSSR residue name is      *)
(*         chain "." name ["/" if the name ends in a digit] number         *)
(*         ["^" icode], optionally preceded by "model:".                   *)
(* Part 3  The abstract template domains enumerated by Gen_ExternalImport  *)
(*         and explored by MC_ExternalImport.                              *)
(***************************************************************************)
EXTENDS Fr3dLabel, Integers, SequencesExt, FiniteSetsExt

\* ------------------------------------------------------------------ text
TAB == "\t"
WS  == {" ", "\t", "\r", "\n", "\f"}

RECURSIVE LStrip(_)
LStrip(s) == IF s # <<>> /\ Head(s) \in WS THEN LStrip(Tail(s)) ELSE s
RECURSIVE RStrip(_)
RStrip(s) == IF s # <<>> /\ s[Len(s)] \in WS THEN RStrip(SubSeq(s, 1, Len(s) - 1)) ELSE s
Strip(s)  == RStrip(LStrip(s))

\* fields of s separated by sep (always at least one field, like str.split(sep))
RECURSIVE SplitFrom(_, _, _, _, _)
SplitFrom(s, sep, k, cur, acc) ==
  IF k > Len(s) THEN Append(acc, cur)
  ELSE IF s[k] = sep THEN SplitFrom(s, sep, k + 1, <<>>, Append(acc, cur))
  ELSE SplitFrom(s, sep, k + 1, Append(cur, s[k]), acc)
Split(s, sep) == SplitFrom(s, sep, 1, <<>>, <<>>)

DigitVal == [d \in Digits |-> CHOOSE v \in 0..9 : ToString(v) = d]
IntBody(f) == IF f # <<>> /\ f[1] \in {"-", "+"} THEN Tail(f) ELSE f
IsIntText(f) == LET b == IntBody(f) IN b # <<>> /\ \A k \in 1..Len(b) : b[k] \in Digits
RECURSIVE NatOf(_)
NatOf(b) == IF b = <<>> THEN 0 ELSE 10 * NatOf(SubSeq(b, 1, Len(b) - 1)) + DigitVal[b[Len(b)]]
IntOf(f) == IF f[1] = "-" THEN 0 - NatOf(IntBody(f)) ELSE NatOf(IntBody(f))

RECURSIVE NatText(_)
NatText(n) == IF n < 10 THEN <<ToString(n)>> ELSE Append(NatText(n \div 10), ToString(n % 10))
NumText(n) == IF n < 0 THEN <<"-">> \o NatText(0 - n) ELSE NatText(n)

Count(seq, x) == Cardinality({ k \in 1..Len(seq) : seq[k] = x })
RangeOf(seq)  == { seq[k] : k \in 1..Len(seq) }
BagEq(a, b)   == Len(a) = Len(b) /\ \A x \in RangeOf(a) \cup RangeOf(b) : Count(a, x) = Count(b, x)

\* ------------------------------------------------------------------ FR3D
\* a unit id, given as its '|'-separated fields f
FieldsOK(f)      == Len(f) >= 5 /\ IsIntText(f[5])
FieldsInRange(f) == Len(IntBody(f[5])) <= 9                               \* 32-bit guard (harness sanity)
\* the residue a well-formed unit id denotes (atomic strings; the empty string = no insertion code)
ResidueOfFields(f) ==
  [chain |-> Str(f[3]), number |-> IntOf(f[5]), icode |-> IF Len(f) >= 8 THEN Str(f[8]) ELSE "", name |-> Str(f[4])]
UnitOK(u)    == FieldsOK(Split(u, "|"))
ResidueOf(u) == ResidueOfFields(Split(u, "|"))

ListOf == [c \in Categories |->
             IF c = "base-pair" THEN "basePairs" ELSE IF c = "stacking" THEN "stackings"
             ELSE IF c = "base-ribose" THEN "baseRiboseInteractions"
             ELSE IF c = "base-phosphate" THEN "basePhosphateInteractions" ELSE "otherInteractions"]
TypeOf == [c \in Categories |->
             IF c = "base-pair" THEN "BasePair" ELSE IF c = "stacking" THEN "Stacking"
             ELSE IF c = "base-ribose" THEN "BaseRibose"
             ELSE IF c = "base-phosphate" THEN "BasePhosphate" ELSE "OtherInteraction"]

NoResidue == [chain |-> "", number |-> 0, icode |-> "", name |-> ""]
NoItem    == [cat |-> "none", cls |-> "", list |-> "", type |-> "", r1 |-> NoResidue, r2 |-> NoResidue]
Skipped(kind) == [kind |-> kind, inrange |-> TRUE, item |-> NoItem]

\* What one raw line means.  kind: "blank" | "comment" | "fewparts" | "badunit" | "data";
\* for a data line, item = the one interaction it denotes.
LineParse(l) ==
  LET s == Strip(l) IN
  IF s = <<>> THEN Skipped("blank")
  ELSE IF s[1] = "#" THEN Skipped("comment")
  ELSE LET p == Split(s, TAB) IN
       IF Len(p) < 3 THEN Skipped("fewparts")
       ELSE LET f1 == Split(p[1], "|")  f2 == Split(p[3], "|") IN
            IF ~FieldsOK(f1) \/ ~FieldsOK(f2) THEN Skipped("badunit")
            ELSE LET cl == Classify(p[2]) IN
                 [kind |-> "data", inrange |-> FieldsInRange(f1) /\ FieldsInRange(f2),
                  item |-> [cat |-> cl[1], cls |-> cl[2], list |-> ListOf[cl[1]], type |-> TypeOf[cl[1]],
                            r1 |-> ResidueOfFields(f1), r2 |-> ResidueOfFields(f2)]]
LineKind(l)      == LineParse(l).kind
InteractionOf(l) == LineParse(l).item

\* every line parsed once (a concrete tuple)
RECURSIVE ParseAll(_)
ParseAll(lines) == IF lines = <<>> THEN <<>> ELSE <<LineParse(Head(lines))>> \o ParseAll(Tail(lines))
\* P = ParseAll(lines): the interactions the listing denotes, in file order
ExpectedOfParsed(P) == LET d == SelectSeq(P, LAMBDA x : x.kind = "data") IN [k \in 1..Len(d) |-> d[k].item]
ExpectedInteractions(lines) == ExpectedOfParsed(ParseAll(lines))
ParsedInRange(P) == \A k \in 1..Len(P) : P[k].inrange

\* a recorded item (JSON) in the same shape
ItemOf(x) == [cat |-> x.cat, cls |-> x.cls, list |-> x.list, type |-> x.type,
              r1 |-> [chain |-> x.c1, number |-> x.n1, icode |-> x.i1, name |-> x.r1],
              r2 |-> [chain |-> x.c2, number |-> x.n2, icode |-> x.i2, name |-> x.r2]]

\* clause by clause (R = recorded items, E = expected interactions)
EachLineYieldsOne(R, E)  == \A x \in RangeOf(E) : x.cat # "other" => Count(R, x) = Count(E, x)
OthersKept(R, E)         == \A x \in RangeOf(E) : x.cat = "other" => Count(R, x) = Count(E, x)
NothingElse(R, E)        == \A x \in RangeOf(R) : x \in RangeOf(E)

\* ------------------------------------------------------------------ DSSR
\* residue = [chain, name, icode : Seq(Char), number : Int]
DssrName(r) ==
  r.chain \o <<".">> \o r.name
  \o (IF r.name # <<>> /\ r.name[Len(r.name)] \in Digits THEN <<"/">> ELSE <<>>)
  \o NumText(r.number)
  \o (IF r.icode # <<>> THEN <<"^">> \o r.icode ELSE <<>>)

AfterLastColon(s) == LET f == Split(s, ":") IN f[Len(f)]

\* the DSSR names of a structure, computed once per case (a concrete tuple)
RECURSIVE NameTable(_)
NameTable(S) == IF S = <<>> THEN <<>> ELSE <<DssrName(Head(S))>> \o NameTable(Tail(S))

\* index of the residue a DSSR name denotes in the name table N, 0 = none
Resolve(N, nm) ==
  LET t == AfterLastColon(nm)  ks == { k \in 1..Len(N) : N[k] = t } IN
  IF ks = {} THEN 0 ELSE Min(ks)
NamesDistinct(N) == Cardinality(RangeOf(N)) = Len(N)

\* names of class attributes that are not Leontis-Westhof classes (what Python's dir() adds)
DunderNames == {"__class__", "__contains__", "__doc__", "__getitem__", "__init_subclass__", "__iter__",
                "__len__", "__members__", "__module__", "__name__", "__qualname__"}

\* pair = [has1, has2 : BOOLEAN, nt1, nt2 : Seq(Char), lwkind : "str" | "absent" | "null", lw : STRING]
PairLwValid(p) == p.lwkind = "str" /\ p.lw \in LWNames
PairKept(N, p) == /\ p.has1 /\ p.has2 /\ PairLwValid(p)
                  /\ Resolve(N, p.nt1) # 0 /\ Resolve(N, p.nt2) # 0
ExpectedPairs(N, pairs) ==
  LET kept == SelectSeq(pairs, LAMBDA p : PairKept(N, p)) IN
  [k \in 1..Len(kept) |-> <<Resolve(N, kept[k].nt1), Resolve(N, kept[k].nt2), kept[k].lw>>]

\* stack = [has : BOOLEAN, nts : Seq(Char)]  (raw nts_long text)
StackNames(st) == IF st.has THEN Split(st.nts, ",") ELSE << <<>> >>
StackSteps(N, st) ==
  LET nm == StackNames(st)
      ix == [k \in 1..Len(nm) |-> Resolve(N, nm[k])]
      ok == { k \in 2..Len(nm) : ix[k - 1] # 0 /\ ix[k] # 0 } IN
  [j \in 1..Cardinality(ok) |-> LET k == CHOOSE x \in ok : Cardinality({ y \in ok : y < x }) = j - 1 IN
                                  <<ix[k - 1], ix[k]>>]
RECURSIVE ExpectedStackings(_, _)
ExpectedStackings(N, stacks) ==
  IF stacks = <<>> THEN <<>> ELSE StackSteps(N, Head(stacks)) \o ExpectedStackings(N, Tail(stacks))

\* ------------------------------------------------------------------ template domains (Gen / MC)
\* abstract shape of one unit id
UnitKinds   == {"plain", "icode", "sym9", "alt7", "negative", "plus", "few4", "few1", "empty", "nonint", "emptynum", "decimal"}
UnitKindOK(k) == k \in {"plain", "icode", "sym9", "alt7", "negative", "plus"}
\* what int()/indexing does on a bad unit, in the order the code meets it
UnitKindError(k) == IF k \in {"few4", "few1", "empty"} THEN "IndexError" ELSE "ValueError"
\* how the three columns are laid out
TabKinds    == {"three", "extra", "two", "spaces"}
TabKindOK(t) == t \in {"three", "extra"}
LabelKinds  == {"lw", "lw_mixed", "lw_n", "lw_a", "lw_na", "stack", "stack_n", "br", "br_a", "bph", "bph_na",
                "unknown", "near", "empty"}
LabelKindCat == [k \in LabelKinds |->
   IF k \in {"lw", "lw_mixed", "lw_n", "lw_a", "lw_na"} THEN "base-pair"
   ELSE IF k \in {"stack", "stack_n"} THEN "stacking"
   ELSE IF k \in {"br", "br_a"} THEN "base-ribose"
   ELSE IF k \in {"bph", "bph_na"} THEN "base-phosphate" ELSE "other"]
Wraps       == {"none", "leadws", "trailws", "crlf"}

DataTemplates(wraps) ==
  [shape : {"data"}, u1 : UnitKinds, u2 : UnitKinds, tabs : TabKinds, label : LabelKinds, wrap : wraps]
OtherTemplates ==
  { [shape |-> s, u1 |-> "plain", u2 |-> "plain", tabs |-> "three", label |-> "lw", wrap |-> w] :
      s \in {"blank", "spaces", "comment", "commented_data"}, w \in {"none", "crlf"} }

\* Python's strip() removes a trailing empty column: "u1 TAB label TAB" has two parts only
TemplateKept(t) == /\ t.shape = "data" /\ TabKindOK(t.tabs) /\ UnitKindOK(t.u1) /\ UnitKindOK(t.u2)
TemplateCat(t)  == IF TemplateKept(t) THEN LabelKindCat[t.label] ELSE "none"

\* DSSR templates
NameKinds == {"exact", "prefixed", "wrongnumber", "wrongchain", "lowername", "nochain", "labelnumber",
              "noslash", "extraicode", "empty", "absent"}
NameKindResolves(k) == k \in {"exact", "prefixed"}
LwKinds == {"valid", "lower", "dotted", "dashes", "empty", "absent", "null", "reverse", "name", "dunder"}
PairTemplates == [n1 : NameKinds, n2 : NameKinds, lw : LwKinds]
PairTemplateKept(t) == NameKindResolves(t.n1) /\ NameKindResolves(t.n2) /\ t.lw = "valid"
StackNameKinds == {"exact", "prefixed", "wrongnumber", "empty"}
StackTemplates(maxLen) == UNION { [1..n -> StackNameKinds] : n \in 0..maxLen }
StackTemplateSteps(t) == Cardinality({ k \in 2..Len(t) : NameKindResolves(t[k - 1]) /\ NameKindResolves(t[k]) })
=============================================================================
