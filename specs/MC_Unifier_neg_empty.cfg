SPECIFICATION Spec
CONSTANT NFiles = 2
CONSTANT MaxRes = 1
CONSTANT RNs = {"A"}
CONSTANT AtomSeqs <- AtomSeqs2
CONSTANT Ids <- Ids1
CONSTANT EmptyWrite = "crash"
INVARIANT InvNeverCrashes
CHECK_DEADLOCK FALSE
