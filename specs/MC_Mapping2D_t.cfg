SPECIFICATION Spec
CONSTANT MaxEntries = 3
CONSTANT Classes = {"cWW", "tHS"}
CONSTANT WithAbsent = FALSE
CONSTANT Oriented = FALSE
CONSTANT Ords = {TRUE, FALSE}
CONSTANT RowPolicy = "until_placed"
CONSTANT Resolve = "as_code"
INVARIANT LiftLemma
INVARIANT NumberingLemma
INVARIANT CanonLemma
INVARIANT InvNumbering
INVARIANT InvSymmetric
INVARIANT InvAtMostOnePartner
INVARIANT InvFromCanonical
INVARIANT InvKeepsUnconflicted
INVARIANT InvStrands
INVARIANT InvExtRowsBalancedLen
INVARIANT InvExtEncodesEachOnce
CHECK_DEADLOCK FALSE
