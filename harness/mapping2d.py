"""Case generation, materialisation and recording for the 3D -> 2D mapping (C06).

Abstract cases (from Gen_Mapping2D or from seeded random generators over corpus structures) are
materialised as rnapolis Structure3D / BasePair objects, pushed through the PUBLIC API
(Mapping2D3D, adapter.extract_secondary_structure_from_external, annotator.extract_secondary_structure)
and the answers are projected to small JSON values.  No judgement happens here."""
import gzip
import io
import json
import math
import os
import random

from . import lib

LW = ["cWW", "cWH", "cWS", "cHW", "cHH", "cHS", "cSW", "cSH", "cSS",
      "tWW", "tWH", "tWS", "tHW", "tHH", "tHS", "tSW", "tSH", "tSS"]


def lw_rev(lw):
    return lw[0] + lw[2] + lw[1]


# Saenger labels an external tool may attach (nomenclature facts, written out here; NOT read from
# the repository).  Key: (letter1 + letter2, class seen from nucleotide 1).
SAENGER = {}
for _p, _v in (("CG", "XIX"), ("GC", "XIX"), ("AU", "XX"), ("UA", "XX"), ("AT", "XX"), ("TA", "XX"),
               ("GU", "XXVIII"), ("UG", "XXVIII"), ("GT", "XXVIII"), ("TG", "XXVIII"),
               ("AG", "VIII"), ("GA", "VIII"), ("UU", "XVI"), ("CU", "XVIII"), ("UC", "XVIII")):
    SAENGER[(_p, "cWW")] = _v
for _p, _v in (("AA", "I"), ("GG", "III"), ("UU", "XII"), ("AU", "XXI"), ("UA", "XXI"), ("CG", "XXII"), ("GC", "XXII")):
    SAENGER[(_p, "tWW")] = _v
SAENGER[("AG", "tHS")] = "XI"
SAENGER[("GA", "tSH")] = "XI"
SAENGER[("GG", "cWH")] = "VI"
SAENGER[("GG", "cHW")] = "VI"

CHAIN_NAMES = ["A", "B", "C"]


# ----------------------------------------------------------------------------- TLC generation

def gen_cases(tier, scratch):
    """spec -> code: Gen_Mapping2D enumerates the exhaustive families L and S."""
    out = scratch.path(f"m2d-{tier}.ndjson")
    cfg = scratch.path(f"Gen_Mapping2D_{tier}.cfg")
    with open(cfg, "w") as f:
        f.write(f'CONSTANT Tier = "{tier}"\nCONSTANT Mode = "gen"\n')
    r = lib.tlc("Gen_Mapping2D", cfg, workers=1, env={"OUT_FILE": out}, scratch=scratch, xmx="8g", tag="gen")
    if not r["ok"] or not os.path.exists(out) or "GENERATED" not in r["out"]:
        raise lib.MachineryError("Gen_Mapping2D failed:\n" + r["out"][-2000:])
    demo, raw = None, []
    with open(out) as f:
        for line in f:
            d = json.loads(line)
            if d["fam"] == "struct":
                demo = d["res"]
            else:
                raw.append(d)
    os.remove(out)
    if demo is None:
        raise lib.MachineryError("Gen_Mapping2D: no structure header")
    raw.sort(key=lambda d: json.dumps(d, sort_keys=True))
    structs, sindex, cases = [], {}, []

    def sid_of(res, names):
        key = json.dumps([res, names], sort_keys=True)
        if key not in sindex:
            structs.append(abstract_struct(res, names))
            sindex[key] = len(structs)
        return sindex[key]

    for k, d in enumerate(raw):
        if d["fam"] == "L":
            names = ["A", "B"] if d["inorder"] else ["B", "A"]
            res = demo
        else:
            names = CHAIN_NAMES
            res = d["res"]
        icodes = any(r["ic"] for r in res)
        c = {"id": f"{d['fam']}{k}", "fam": d["fam"], "sid": sid_of(res, names), "gaps": d["gaps"],
             "via": "mapping" if k % 5 else "adapter",
             # presentation of the entries (not part of the enumerated domain; varied deterministically)
             "samode": "clash" if k % 8 == 5 else "table" if (k // 2) % 2 else "none",
             "refmode": "mixed" if k % 7 == 3 else ("both", "auth", "both" if icodes else "label")[k % 3],
             "dom": d}
        c["entries"] = [{"a": e[0], "b": e[1], "lw": e[2]} for e in d["entries"]]
        cases.append(c)
    return structs, cases


def abstract_struct(res, names):
    """Abstract residues (chain id, number, icode index, nuc, letter, conn) + chain names ->
    the structure record of the trace (adds okey = rank of the identifier)."""
    rs = []
    for r in res:
        rs.append({"chain": r["chain"], "number": r["number"], "ic": r["ic"], "nuc": r["nuc"],
                   "letter": r["letter"], "conn": r["conn"]})
    idents = [(names[r["chain"] - 1], r["number"], icode_of(r["ic"]) or " ") for r in rs]
    add_okeys(rs, idents)
    return {"kind": "synthetic", "res": rs, "chains": [list(n) for n in names]}


def icode_of(ic):
    return None if not ic else chr(ord("A") + ic - 1)


def add_okeys(rs, idents):
    """okey = dense rank of (chain name, number, icode or ' '): how residue identifiers compare."""
    order = sorted(set(idents))
    rank = {v: i + 1 for i, v in enumerate(order)}
    for r, v in zip(rs, idents):
        r["okey"] = rank[v]


# ----------------------------------------------------------------------------- materialisation

_CACHE = {}


def build_synthetic(st):
    """Residue3D objects with just enough atoms: a nucleotide gets the full phosphate and sugar
    (so that is_nucleotide holds), a non-nucleotide a single water oxygen; O3' of a nucleotide is
    placed 1.6 A from the P of the NEXT NUCLEOTIDE when bonded and far from everything otherwise."""
    from rnapolis.common import ResidueAuth, ResidueLabel
    from rnapolis.tertiary import Atom, Residue3D, Structure3D
    res = st["res"]
    names = ["".join(n) for n in st["chains"]]
    origin = [(30.0 * k, 0.0, 0.0) for k in range(len(res))]
    nucs = [k for k, r in enumerate(res) if r["nuc"]]
    nxt = {a: b for a, b in zip(nucs, nucs[1:])}
    out = []
    for k, r in enumerate(res):
        name = r["letter"] if r["nuc"] else "HOH"
        lab = ResidueLabel(names[r["chain"] - 1], r["number"], name)
        auth = ResidueAuth(names[r["chain"] - 1], r["number"], icode_of(r["ic"]), name)
        ox, oy, oz = origin[k]
        atoms = []

        def put(n, x, y, z):
            atoms.append(Atom(None, lab, auth, 1, n, ox + x, oy + y, oz + z, 1.0))
        if r["nuc"]:
            put("P", 0.0, 0.0, 0.0)
            put("OP1", 0.0, 1.5, 0.0)
            put("OP2", 0.0, -1.5, 0.0)
            put("O5'", 1.6, 0.0, 0.0)
            for j, n in enumerate(["C5'", "C4'", "C3'", "C2'", "C1'", "O4'"]):
                put(n, 2.5 + j, 0.5, 1.0)
            put("N9" if r["letter"].upper() in "AG" else "N1", 6.5, 0.5, 2.4)
            if r["conn"] and k in nxt:
                tx, ty, tz = origin[nxt[k]]
                atoms.append(Atom(None, lab, auth, 1, "O3'", tx - 1.6, ty, tz, 1.0))
            else:
                put("O3'", 4.5, 12.0, 9.0)
        else:
            put("O", 0.0, 0.0, 0.0)
        out.append(Residue3D(lab, auth, 1, r["letter"], tuple(atoms)))
    return Structure3D(out)


def corpus_files():
    d = os.path.join(lib.REPO, "tests")
    return sorted(f for f in os.listdir(d) if f.endswith((".cif", ".pdb")) and os.path.getsize(os.path.join(d, f)) > 0)


ABASIC = ("1ATO.pdb#abasic", "1A1T_1_B.cif#abasic", "1ATO.pdb#siblings", "488d.pdb#siblings")


def load_corpus(name):
    """A corpus file through the real reader.  '<file>#abasic': the same structure in which every fifth
    nucleotide has lost its base (backbone atoms only, base letter '?' - what the reader reports for an abasic
    site): still a nucleotide of the chain, but one whose letter is unknown."""
    from rnapolis.parser import read_3d_structure
    base = name.split("#")[0]
    with open(os.path.join(lib.REPO, "tests", base)) as f:
        s = read_3d_structure(f, None)
    if name.endswith("#abasic"):
        from rnapolis.tertiary import Residue3D, Structure3D
        out, n = [], 0
        for r in s.residues:
            if r.is_nucleotide:
                n += 1
                if n % 5 == 3:
                    keep = tuple(a for a in r.atoms if a.name.endswith("'") or a.name in ("P", "OP1", "OP2", "OP3"))
                    r2 = Residue3D(r.label, r.auth, r.model, "?", keep)
                    if r2.is_nucleotide:
                        r = r2
            out.append(r)
        s = Structure3D(out)
    if name.endswith("#siblings"):
        # '<file>#siblings': where two neighbouring residues of a chain carry the same name, the second is
        # renumbered to the first one's number with insertion code A (residues N and N^A alike in chain, number, name)
        from rnapolis.common import ResidueAuth
        from rnapolis.tertiary import Atom, Residue3D, Structure3D
        out = []
        for r in s.residues:
            p = out[-1] if out else None
            if (p is not None and r.auth is not None and p.auth is not None and r.auth.chain == p.auth.chain
                    and r.auth.name == p.auth.name and not r.auth.icode and not p.auth.icode
                    and r.auth.number == p.auth.number + 1):
                au = ResidueAuth(p.auth.chain, p.auth.number, "A", p.auth.name)
                atoms = tuple(Atom(a.entity_id, None, au, a.model, a.name, a.x, a.y, a.z, a.occupancy) for a in r.atoms)
                r = Residue3D(None, au, r.model, r.one_letter_name, atoms)
            out.append(r)
        s = Structure3D(out)
    return s


def _dist(a, b):
    return math.sqrt((a.x - b.x) ** 2 + (a.y - b.y) ** 2 + (a.z - b.z) ** 2)


def project_structure(s3d, name):
    """Structure record of a parsed corpus file.  nuc is the residue's own is_nucleotide; conn is
    measured here (first O3' to the first P of the next nucleotide < 2.4 A); okey ranks the
    identifier the way a Residue built from (label, auth) compares: auth if present, else label."""
    chains, rs, idents = [], [], []
    for r in s3d.residues:
        ident = r.auth if r.auth is not None else r.label
        cname = ident.chain
        if cname not in chains:
            chains.append(cname)
        ic = getattr(ident, "icode", None)
        if ic in (" ", "?", "", None):
            ic = None
        rs.append({"chain": chains.index(cname) + 1, "number": int(ident.number), "nuc": bool(r.is_nucleotide),
                   "letter": r.one_letter_name, "conn": False})
        idents.append((cname, int(ident.number), ic or " "))
    nucs = [k for k, r in enumerate(rs) if r["nuc"]]
    for a, b in zip(nucs, nucs[1:]):
        o3 = next((x for x in s3d.residues[a].atoms if x.name == "O3'"), None)
        p = next((x for x in s3d.residues[b].atoms if x.name == "P"), None)
        if o3 is not None and p is not None:
            d = _dist(o3, p)
            if abs(d - 2.4) < 1e-6:
                raise lib.MachineryError(f"{name}: O3'-P distance on the threshold")
            rs[a]["conn"] = bool(d < 2.4)
    add_okeys(rs, idents)
    usable = all(len(r["letter"]) == 1 for r in rs) and len(set(idents)) == len(idents)
    return {"kind": "corpus", "name": name, "res": rs, "chains": [list(c) for c in chains], "usable": usable}


def structure_of(st):
    """Structure3D for a structure record (cached per process)."""
    key = st.get("name") or json.dumps([st["res"], st["chains"]], sort_keys=True)
    if key not in _CACHE:
        _CACHE[key] = load_corpus(st["name"]) if st["kind"] == "corpus" else build_synthetic(st)
    return _CACHE[key]


def saenger_for(st, e, samode):
    if samode not in ("table", "clash") or not e["a"] or not e["b"]:
        return ""
    key = (st["res"][e["a"] - 1]["letter"].upper() + st["res"][e["b"] - 1]["letter"].upper(), e["lw"])
    if samode == "clash":
        # two classifications that disagree (lists merged from several tools): a cWW pair of complementary letters
        # labelled with a non-canonical Saenger class - the Saenger class, where given, decides
        return "XXIV" if SAENGER.get(key, "") in ("XIX", "XX", "XXVIII") else SAENGER.get(key, "")
    return SAENGER.get(key, "")


def materialise_entries(st, s3d, entries, refmode):
    from rnapolis.common import BasePair, LeontisWesthof, Residue, ResidueAuth, ResidueLabel, Saenger

    def ref(k, mode=None):
        refmode_ = mode or refmode
        if k == 0:   # names a residue that is not in the structure
            lab, auth = ResidueLabel("zz", 9999, "G"), ResidueAuth("zz", 9999, None, "G")
        else:
            r = s3d.residues[k - 1]
            lab, auth = r.label, r.auth
        if refmode_ == "auth" and auth is not None:
            return Residue(None, auth)
        if refmode_ == "label" and lab is not None:
            return Residue(lab, None)
        return Residue(lab, auth)
    def respelled(k):
        # the identifier an external tool writes for a residue without insertion code: the blank PDB column
        from rnapolis.common import ResidueAuth
        au = s3d.residues[k - 1].auth
        return Residue(None, ResidueAuth(au.chain, au.number, " ", au.name))
    if any(e.get("opt") for e in entries):
        return [BasePair(respelled(e["a"]) if e.get("opt") else ref(e["a"]), ref(e["b"]), LeontisWesthof[e["lw"]],
                         Saenger[e["sa"]] if e["sa"] else None) for e in entries]
    if refmode == "mixed":
        # a list merged from two sources: every other entry names its residues the external tools' way
        return [BasePair(ref(e["a"], ("both", "auth")[n % 2]), ref(e["b"], ("both", "auth")[n % 2]), LeontisWesthof[e["lw"]],
                         Saenger[e["sa"]] if e["sa"] else None) for n, e in enumerate(entries)]
    return [BasePair(ref(e["a"]), ref(e["b"]), LeontisWesthof[e["lw"]], Saenger[e["sa"]] if e["sa"] else None)
            for e in entries]


# ----------------------------------------------------------------------------- projection of texts

def project_db(text):
    """'>strand_X / sequence / structure' triples -> records of character lists."""
    if text == "":
        return {"err": "", "shape": True, "strands": []}
    lines = text.split("\n")
    ok = len(lines) % 3 == 0
    strands = []
    for i in range(0, len(lines) - len(lines) % 3, 3):
        strands.append({"header": list(lines[i]), "seq": list(lines[i + 1]), "dbn": list(lines[i + 2])})
    return {"err": "", "shape": bool(ok), "strands": strands}


def project_ext(text):
    """Blocks '    >strand_X' / 'seq ...' / 'cWW ...' -> records; a line that does not fit the
    layout clears the shape flag (a fact about the text; the spec judges it)."""
    if text == "":
        return {"err": "", "shape": True, "blocks": []}
    blocks, ok = [], True
    for line in text.split("\n"):
        if line.startswith("    >"):
            blocks.append({"header": list(line), "seqtag": "", "seq": [], "rows": [], "_seen": False})
        elif not blocks:
            ok = False
        elif not blocks[-1]["_seen"]:
            blocks[-1]["_seen"] = True
            blocks[-1]["seqtag"] = line[:4]
            blocks[-1]["seq"] = list(line[4:])
        else:
            if len(line) < 4:
                ok = False
            blocks[-1]["rows"].append({"lw": line[:3], "sep": line[3:4], "dbn": list(line[4:])})
    for b in blocks:
        if not b.pop("_seen"):
            ok = False
    return {"err": "", "shape": bool(ok), "blocks": blocks}


def _err(e):
    return type(e).__name__


def max_component(pairs):
    """Size of the largest group of mutually entangled stems, and the number of permutations
    all_dot_brackets would enumerate.  Used ONLY to decide which calls are affordable."""
    from . import secstruct
    return secstruct.max_component(pairs)


# ----------------------------------------------------------------------------- recording

_STRUCTS = []          # structure table of the current batch (inherited by the forked workers)


def record(case, st=None):
    """Run one case through the real code and project every answer."""
    if st is None:
        st = _STRUCTS[case["sid"] - 1]
    c = {k: case[k] for k in ("id", "fam", "sid", "gaps", "via")}
    s3d = structure_of(st)
    index_of = {id(r): k + 1 for k, r in enumerate(s3d.residues)}
    if case["via"] == "annotator":
        return _record_annotator(st, s3d, index_of, case, c)
    entries = [{"a": e["a"], "b": e["b"], "lw": e["lw"],
                "sa": e["sa"] if "sa" in e else saenger_for(st, e, case.get("samode", "none"))}
               for e in case["entries"]]
    # every ninth case: up to two entries name their first residue (one without insertion code) the way external
    # tools do, with a blank insertion code; the code may drop such an entry or resolve it to THAT residue
    c["optional"] = []
    import zlib
    def has_sibling(k):      # another residue alike in chain, number and name, with an insertion code
        au = s3d.residues[k - 1].auth
        return any(o.auth is not None and o is not s3d.residues[k - 1] and o.auth.icode and
                   (o.auth.chain, o.auth.number, o.auth.name) == (au.chain, au.number, au.name) for o in s3d.residues)
    siblings = str(st.get("name", "")).endswith("#siblings")
    if siblings or zlib.crc32(str(case["id"]).encode()) % 9 == 4:
        order = sorted(range(len(entries)), key=lambda n: (not (siblings and entries[n]["a"] > 0 and
                                                                s3d.residues[entries[n]["a"] - 1].auth is not None and
                                                                has_sibling(entries[n]["a"])), n))
        for n in order:
            e = entries[n]
            if len(c["optional"]) < 2 and e["a"] > 0 and s3d.residues[e["a"] - 1].auth is not None \
                    and not s3d.residues[e["a"] - 1].auth.icode:
                e["opt"] = 1
                c["optional"].append(n + 1)
        c["optional"].sort()
    c["entries"] = entries
    bps = materialise_entries(st, s3d, entries, case.get("refmode", "both"))
    want_all = sum(1 for e in entries if e["lw"] == "cWW") <= 6
    if case["via"] == "adapter":
        return _record_adapter(s3d, index_of, bps, case, c, want_all)
    from rnapolis.tertiary import Mapping2D3D
    m = Mapping2D3D(s3d, bps, [], bool(case["gaps"]))
    # environment action: every third mapping is asked for its extended rows first (the answers of an object
    # must not depend on the order in which they are asked for)
    import zlib
    if zlib.crc32(str(case["id"]).encode()) % 3 == 0:
        c["extfirst"] = True
        try:
            m.extended_dot_bracket
        except Exception:
            pass
    try:
        b = m.bpseq
        c["bpseq"] = {"err": "", "entries": [[e.index_, e.sequence, e.pair] for e in b.entries]}
    except Exception as e:
        c["bpseq"] = {"err": _err(e), "entries": []}
    _record_mapping(m, index_of, c)
    try:
        c["db"] = project_db(m.dot_bracket)
    except Exception as e:
        c["db"] = {"err": _err(e), "shape": False, "strands": []}
    c["all"] = {"called": False, "err": "", "list": []}
    if want_all and not c["bpseq"]["err"]:
        mc, perms = max_component([[i, j] for i, _, j in c["bpseq"]["entries"] if 0 < i < j])
        if mc <= 6 and perms <= 720:
            try:
                c["all"] = {"called": True, "err": "", "list": [project_db(t) for t in m.all_dot_brackets]}
            except Exception as e:
                c["all"] = {"called": True, "err": _err(e), "list": []}
    try:
        c["ext"] = project_ext(m.extended_dot_bracket)
    except Exception as e:
        c["ext"] = {"err": _err(e), "shape": False, "blocks": []}
    return c


def _record_mapping(m, index_of, c):
    try:
        imap = m.bpseq_index_to_residue_map
        c["bpseq"]["imap_called"] = True
        c["bpseq"]["imap"] = sorted([int(i), index_of.get(id(r), 0)] for i, r in imap.items())
    except Exception as e:
        c["bpseq"]["imap_called"] = True
        c["bpseq"]["imap"] = []
        c["bpseq"]["err"] = c["bpseq"]["err"] or _err(e)
    try:
        c["strands"] = {"called": True, "err": "", "list": [{"chain": ch, "seq": list(s)} for ch, s in m.strands_sequences]}
    except Exception as e:
        c["strands"] = {"called": True, "err": _err(e), "list": []}


def _chain_ids(c, st):
    names = ["".join(n) for n in st["chains"]]
    for s in c["strands"]["list"]:
        s["chain"] = names.index(s["chain"]) + 1 if s["chain"] in names else 0


def _parse_bpseq(text):
    out = []
    for line in text.splitlines():
        f = line.split(" ")
        out.append([int(f[0]), f[1], int(f[2])])
    return out


def _from_structure2d(s2d, dbs, want_all, c):
    try:
        c["bpseq"] = {"err": "", "entries": _parse_bpseq(s2d.bpseq)}
    except Exception as e:
        c["bpseq"] = {"err": "Unparsable" + _err(e), "entries": []}
    c["db"] = project_db(s2d.dotBracket)
    c["all"] = {"called": bool(want_all), "err": "", "list": [project_db(t) for t in dbs] if want_all else []}
    c["ext"] = project_ext(s2d.extendedDotBracket)


def _failed(c, e):
    c["bpseq"] = {"err": _err(e), "entries": [], "imap_called": False, "imap": []}
    c["strands"] = {"called": False, "err": "", "list": []}
    c["db"] = {"err": _err(e), "shape": False, "strands": []}
    c["all"] = {"called": False, "err": "", "list": []}
    c["ext"] = {"err": _err(e), "shape": False, "blocks": []}
    return c


def _record_adapter(s3d, index_of, bps, case, c, want_all):
    from rnapolis.adapter import extract_secondary_structure_from_external
    from rnapolis.common import BaseInteractions
    want_all = want_all and len(bps) <= 4
    try:
        s2d, dbs, m = extract_secondary_structure_from_external(
            s3d, BaseInteractions(bps, [], [], [], []), None, bool(case["gaps"]), want_all)
    except Exception as e:
        return _failed(c, e)
    _from_structure2d(s2d, dbs, want_all, c)
    _record_mapping(m, index_of, c)
    return c


def _record_annotator(st, s3d, index_of, case, c):
    """The library's own annotation: the entry list is what it reports as base pairs."""
    from rnapolis.annotator import extract_secondary_structure
    try:
        s2d, dbs = extract_secondary_structure(s3d, None, bool(case["gaps"]), False)
    except Exception as e:
        c["entries"] = []
        return _failed(c, e)
    by_label = {r.label: k + 1 for k, r in enumerate(s3d.residues) if r.label is not None}
    by_auth = {r.auth: k + 1 for k, r in enumerate(s3d.residues) if r.auth is not None}

    def find(nt):
        if nt.label is not None and nt.label in by_label:
            return by_label[nt.label]
        if nt.auth is not None and nt.auth in by_auth:
            return by_auth[nt.auth]
        return 0
    c["entries"] = [{"a": find(p.nt1), "b": find(p.nt2), "lw": p.lw.value, "sa": p.saenger.value if p.saenger else ""}
                    for p in s2d.baseInteractions.basePairs]
    _from_structure2d(s2d, dbs, False, c)
    c["bpseq"]["imap_called"] = False
    c["bpseq"]["imap"] = []
    c["strands"] = {"called": False, "err": "", "list": []}
    return c


def finish(st, c):
    """Chain names of strands_sequences -> chain ids of the structure record."""
    _chain_ids(c, st)
    return c


def record_all(structs, cases):
    global _STRUCTS
    _STRUCTS = structs
    recs = lib.pmap(record, cases)
    return [finish(structs[c["sid"] - 1], c) for c in recs]


# ----------------------------------------------------------------------------- random lists on corpus

def random_entries(rng, st, *, maxn=30):
    """Seeded random entry list over the nucleotides of a structure: hubs with up to 5 partners,
    all 18 classes (cis Watson-Crick favoured), exact and reversed duplicates, entries naming an
    absent residue.  One (unordered pair, class) always carries one Saenger label."""
    nucs = [k + 1 for k, r in enumerate(st["res"]) if r["nuc"]]
    if len(nucs) < 2:
        return []
    entries = []
    per_class = {}
    n = rng.randint(0, maxn)
    hubs = rng.sample(nucs, min(len(nucs), rng.randint(1, 3)))
    with_sa = rng.random() < 0.5
    okey = {k + 1: r["okey"] for k, r in enumerate(st["res"])}

    def add(a, b, lw):
        if a and b and (a == b or okey[a] == okey[b]):
            return
        base = lw if (a < b or not a or not b) else lw_rev(lw)
        fam = min(base, lw_rev(base))
        if per_class.get(fam, 0) >= (7 if fam == "cWW" else 6):
            return          # keeps every row (and the BPSEQ) affordable for the MILP encoder
        per_class[fam] = per_class.get(fam, 0) + 1
        e = {"a": a, "b": b, "lw": lw}
        e["sa"] = saenger_for(st, e, "table" if with_sa else "none")
        entries.append(e)
    while len(entries) < n:
        roll = rng.random()
        lw = "cWW" if rng.random() < 0.4 else rng.choice(LW)
        if roll < 0.08 and entries:                       # exact duplicate
            e = dict(rng.choice(entries))
            entries.append(e)
        elif roll < 0.18 and entries:                     # reversed duplicate
            e = rng.choice(entries)
            entries.append({"a": e["b"], "b": e["a"], "lw": lw_rev(e["lw"]), "sa": e["sa"]})
        elif roll < 0.24:                                 # names an absent residue
            a = rng.choice(nucs)
            entries.append({"a": 0, "b": a, "lw": lw, "sa": ""} if rng.random() < 0.5 else {"a": a, "b": 0, "lw": lw, "sa": ""})
        elif roll < 0.60:                                 # another partner for a hub, same class family
            h = rng.choice(hubs)
            o = rng.choice(nucs)
            prev = [e for e in entries if h in (e["a"], e["b"]) and e["a"] and e["b"]]
            if prev and rng.random() < 0.7:
                p = rng.choice(prev)
                lw = p["lw"] if p["a"] == h else lw_rev(p["lw"])
            if rng.random() < 0.5:
                add(h, o, lw)
            else:
                add(o, h, lw_rev(lw))
        elif roll < 0.70 and len(entries) >= 2:           # close a triangle
            e1 = rng.choice([e for e in entries if e["a"] and e["b"]] or [None])
            if e1:
                o = rng.choice(nucs)
                add(e1["a"], o, e1["lw"])
                add(o, e1["b"], e1["lw"])
        else:
            a, b = rng.sample(nucs, 2)
            add(a, b, lw)
        if len(entries) > 3 * maxn:
            break
    # one Saenger label per (pair, class): duplicates copied it, hub/triangle entries computed it
    return entries[:maxn + 5]


def corpus_structs():
    """Structure records for every usable corpus file (parsed once per run, in the parent)."""
    out = []
    for name in corpus_files() + list(ABASIC):
        try:
            s3d = load_corpus(name)
        except Exception:
            continue          # unreadable corpus files are another property's business (C08)
        st = project_structure(s3d, name)
        if st["usable"] and sum(1 for r in st["res"] if r["nuc"]) >= 2:
            _CACHE[name] = s3d
            out.append(st)
    return out


def corpus_cases(structs, first_sid, per_structure, seed):
    cases = []
    for s, st in enumerate(structs):
        rng = random.Random(f"{seed}-{st['name']}")
        for k in range(per_structure):
            cases.append({"id": f"R{s}-{k}", "fam": "R", "sid": first_sid + s, "gaps": bool(k % 2),
                          "via": "adapter" if k % 4 == 3 else "mapping", "refmode": "both",
                          "entries": random_entries(rng, st, maxn=rng.choice([4, 8, 16, 30]))})
        for g in (False, True):
            cases.append({"id": f"A{s}-{int(g)}", "fam": "A", "sid": first_sid + s, "gaps": g, "via": "annotator"})
    return cases
