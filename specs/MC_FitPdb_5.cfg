SPECIFICATION Spec
CONSTANT MaxSerial = 6
CONSTANT MaxRes = 2
CONSTANT ChainIds <- Ids2
CONSTANT ChainPalette <- ChainPal3
CONSTANT ResPalette <- ResPal3
CONSTANT MaxAtoms = 5
CONSTANT IcodeFillnaRaises = FALSE
CONSTANT RenameCollides = FALSE
INVARIANT LemmaExists
INVARIANT LemmaMustFit
INVARIANT InvFitsOrValueError
INVARIANT InvIdentityWhenFits
INVARIANT InvFitted
INVARIANT InvTerSerialFree
INVARIANT InvChecksVsExistence
CHECK_DEADLOCK FALSE
