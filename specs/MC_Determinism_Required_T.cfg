SPECIFICATION Spec
CONSTANT Assignment = "Required"
CONSTANT MaxChain = 6
INVARIANT SameAcrossRuns
INVARIANT CleanIsFunction
INVARIANT SameMembers
INVARIANT Lemmas
CHECK_DEADLOCK FALSE
