"""Atom-table family (C08, C15): abstract atom tables, independent PDB / mmCIF emitters,
recorders for both reader generations.  No judgement happens here: the harness materialises
an abstract table as text, calls the public readers and projects what they return; TLC
(Trace_AtomTable) decides.

Abstract line (JSON object, all values small ints / short strings):
  m    model number                      het  1 = HETATM, 0 = ATOM
  ch   chain id (1 char)                 num  residue number (may be negative)
  ic   insertion code ("" = none)        rn   residue name
  an   atom name                         alt  alternate-location id ("" = none)
  occ  occupancy in 1/100 (-1 = absent; only written to mmCIF, as a null marker)
  x,y,z coordinates in milli-Angstrom
  lch, lnum, lrn  mmCIF label_asym_id / label_seq_id (0 = '.') / label_comp_id
  icn, ocn  which mmCIF null marker ('?' or '.') is written for an absent icode / occupancy
"""
import json
import math
import os
import random
import zlib

from . import lib

# ----------------------------------------------------------------------------- emitters

_ELEMENT = {"P": "P", "O": "O", "N": "N", "C": "C", "S": "S", "M": "MG", "Z": "ZN", "H": "H"}


def element_of(name):
    if name in ("MG", "ZN", "NA", "CL"):
        return name
    return _ELEMENT.get(name[0], name[0])


def _fx(milli):
    """milli-units -> text with exactly three decimals (no float arithmetic involved)."""
    s = "-" if milli < 0 else ""
    a = abs(int(milli))
    return f"{s}{a // 1000}.{a % 1000:03d}"


def _occ(c):
    return f"{c // 100}.{c % 100:02d}"


def pdb_atom_line(serial, ln):
    """One fixed-column ATOM/HETATM record (wwPDB format 3.3), built column by column."""
    col = [" "] * 80

    def put(first, last, text, right):
        width = last - first + 1
        if len(text) > width:
            raise lib.MachineryError(f"PDB field overflow: {text!r} in columns {first}-{last}")
        text = text.rjust(width) if right else text.ljust(width)
        col[first - 1:last] = list(text)

    el = element_of(ln["an"])
    put(1, 6, "HETATM" if ln["het"] else "ATOM", False)
    put(7, 11, str(serial), True)
    if len(ln["an"]) >= 4 or len(el) == 2:
        put(13, 16, ln["an"], False)
    else:
        put(14, 16, ln["an"], False)
    put(17, 17, ln["alt"], False)
    put(18, 20, ln["rn"], True)
    put(22, 22, ln["ch"], False)
    put(23, 26, str(ln["num"]), True)
    put(27, 27, ln["ic"], False)
    put(31, 38, _fx(ln["x"]), True)
    put(39, 46, _fx(ln["y"]), True)
    put(47, 54, _fx(ln["z"]), True)
    if ln["occ"] < 0:
        raise lib.MachineryError("absent occupancy cannot be written to PDB (outside the statement)")
    put(55, 60, _occ(ln["occ"]), True)
    put(61, 66, "20.00", True)
    put(77, 78, el, True)
    return "".join(col)


def emit_pdb(lines, serial0=0, ter_before_het=False):
    """Abstract lines -> PDB text.  MODEL/ENDMDL bracket every model when the table has more than
    one model or its only model is not numbered 1; TER after every chain; END.
    ter_before_het: the layout of deposited files - the TER record closes the POLYMER of a chain, its hetero
    groups (ligands, ions, water under the same chain id) follow the TER."""
    models = []
    for ln in lines:
        if ln["m"] not in models:
            models.append(ln["m"])
    bracket = len(models) > 1 or (models and models[0] != 1)
    out = ["HEADER    RNA                                     01-JAN-00   XXXX              ",
           "REMARK   2 RESOLUTION. NOT APPLICABLE.                                          "]
    serial = serial0       # big entries reach five-digit serials: "HETATM10000" has no blank after the record name
    cur_model = None
    prev = None

    def ter():
        nonlocal serial
        serial += 1
        out.append(f"TER   {serial:>5}      {prev['rn']:>3} {prev['ch']}{prev['num']:>4}{prev['ic'] or ' '}".ljust(80))

    for ln in lines:
        if ln["m"] != cur_model:
            if prev is not None:
                ter()
                if bracket:
                    out.append("ENDMDL".ljust(80))
            if bracket:
                out.append(f"MODEL     {ln['m']:>4}".ljust(80))
            cur_model = ln["m"]
            prev = None
        if prev is not None and prev["ch"] != ln["ch"]:
            ter()
        elif ter_before_het and prev is not None and not prev["het"] and ln["het"]:
            ter()
        serial += 1
        out.append(pdb_atom_line(serial, ln))
        prev = ln
    if prev is not None:
        ter()
        if bracket:
            out.append("ENDMDL".ljust(80))
    out.append("END".ljust(80))
    return "\n".join(out) + "\n"


_CIF_COLS = ["group_PDB", "id", "type_symbol", "label_atom_id", "label_alt_id", "label_comp_id", "label_asym_id",
             "label_entity_id", "label_seq_id", "pdbx_PDB_ins_code", "Cartn_x", "Cartn_y", "Cartn_z", "occupancy",
             "B_iso_or_equiv", "pdbx_formal_charge", "auth_seq_id", "auth_comp_id", "auth_asym_id", "auth_atom_id",
             "pdbx_PDB_model_num"]


def _q(v):
    """CIF quoting: values holding a quote character or starting with a reserved character."""
    if v == "":
        raise lib.MachineryError("empty CIF value")
    if "'" in v:
        return '"' + v + '"'
    if '"' in v or " " in v or v[0] in "_#$[];":
        return "'" + v + "'"
    return v


def emit_cif(lines, cols=None):
    """Abstract lines -> mmCIF text (one data block, one atom_site loop)."""
    cols = cols or _CIF_COLS
    out = ["data_VERIF", "#", "loop_"] + ["_atom_site." + c for c in cols]
    for k, ln in enumerate(lines):
        row = {
            "group_PDB": "HETATM" if ln["het"] else "ATOM", "id": str(k + 1), "type_symbol": element_of(ln["an"]),
            "label_atom_id": _q(ln["an"]), "label_alt_id": ln["alt"] or ".", "label_comp_id": ln.get("lrn", ln["rn"]),
            "label_asym_id": ln.get("lch", ln["ch"]), "label_entity_id": str(ln.get("lent", "1")),
            "label_seq_id": str(ln["lnum"]) if ln.get("lnum", 0) != 0 else ".",
            "pdbx_PDB_ins_code": ln["ic"] or ln.get("icn", "?"),
            "Cartn_x": _fx(ln["x"]), "Cartn_y": _fx(ln["y"]), "Cartn_z": _fx(ln["z"]),
            "occupancy": _occ(ln["occ"]) if ln["occ"] >= 0 else ln.get("ocn", "?"),
            "B_iso_or_equiv": "20.00", "pdbx_formal_charge": "?", "auth_seq_id": str(ln["num"]),
            "auth_comp_id": ln["rn"], "auth_asym_id": ln["ch"], "auth_atom_id": _q(ln["an"]),
            "pdbx_PDB_model_num": str(ln["m"]),
        }
        out.append(" ".join(row[c] for c in cols) + " ")
    out.append("#")
    return "\n".join(out) + "\n"


def emit(fmt, lines):
    return emit_pdb(lines) if fmt == "pdb" else emit_cif(lines)


# ----------------------------------------------------------------------------- projection

def _milli(v):
    return int(round(float(v) * 1000))


_TMPDIR = None      # set by the property driver to a lib.Scratch directory before recording
_COUNTER = [0]


def set_tmpdir(path):
    global _TMPDIR
    _TMPDIR = path
    os.makedirs(path, exist_ok=True)


def _tmpfile(ext, text):
    if _TMPDIR is None:
        raise lib.MachineryError("atomtable: scratch directory not set")
    _COUNTER[0] += 1
    p = os.path.join(_TMPDIR, f"t{os.getpid()}-{_COUNTER[0]}.{ext}")
    with open(p, "w") as f:
        f.write(text)
    return p


def _s(v):
    return "" if v is None else str(v)


def _i(v):
    return -99999 if v is None else int(v)


def _lab(label):
    return [] if label is None else [_s(label.chain), _i(label.number), _s(label.name)]


def _atom_rec(a):
    return {"an": _s(a.name), "x": _milli(a.x), "y": _milli(a.y), "z": _milli(a.z)}


def project_structure(s):
    """Structure3D -> answer (list of residues) through the public attributes only."""
    return [{"m": _i(r.model), "ch": _s(r.chain), "num": _i(r.number), "ic": _s(r.icode), "rn": _s(r.name),
             "lab": _lab(r.label), "atoms": [_atom_rec(a) for a in r.atoms]} for r in s.residues]


def project_atoms(atoms):
    out = []
    for a in atoms:
        au = a.auth
        out.append({"m": _i(a.model), "ch": _s(au.chain) if au else "", "num": _i(au.number) if au else -99999,
                    "ic": _s(au.icode) if au else "", "rn": _s(au.name) if au else "", "lab": _lab(a.label),
                    "an": _s(a.name), "x": _milli(a.x), "y": _milli(a.y), "z": _milli(a.z)})
    return out


# ----------------------------------------------------------------------------- C08 recording

def case_text(case):
    if case["fmt"] == "pdb":
        return emit_pdb(case["lines"], case.get("serial0", 0), bool(case.get("terhet")))
    cols = list(_CIF_COLS)
    if case.get("colseed"):
        random.Random(case["colseed"]).shuffle(cols)
    return emit_cif(case["lines"], cols)


_PREV_TEXT = {}     # the last text of each format this process materialised (for the "rewritten file" action)


def record_c08(case):
    """Materialise the table, call the public reader, project the answer (or the exception)."""
    import logging
    logging.disable(logging.CRITICAL)
    from rnapolis import parser
    c = dict(case)
    if zlib.crc32(str(case["id"]).encode()) % 5 == 2:
        # environment action: every fifth case is written over the file of an earlier case of this process (same
        # path, other content) - what a reader remembers about a path or a stream must not outlive its content
        path = os.path.join(_TMPDIR, f"rewritten-{os.getpid()}.{case['fmt']}")
        before = _PREV_TEXT.get(case["fmt"])
        if before is not None:
            with open(path, "w") as fh:
                fh.write(before)
            try:
                with open(path) as fh:
                    parser.read_3d_structure(fh)
            except Exception:
                pass            # the earlier content's reading is not under judgement
        with open(path, "w") as fh:
            fh.write(case_text(case))
    else:
        path = _tmpfile(case["fmt"], case_text(case))
    c["err"] = ""
    # environment action: every fourth case meets its handle already used by an earlier call of the public
    # readers (format sniffing, a full read, a parse) - the answer must not depend on where the handle stands
    pre = ("", "sniff", "", "read", "", "parse", "", "read-other")[zlib.crc32(str(case["id"]).encode()) % 8]
    c["pre"] = pre
    try:
        with open(path) as f:
            try:
                if pre == "sniff":
                    parser.is_cif(f)
                elif pre == "read":
                    parser.read_3d_structure(f)
                elif pre == "read-other":
                    parser.read_3d_structure(f, 2)
                elif pre == "parse":
                    parser.parse_pdb(f) if case["fmt"] == "pdb" else parser.parse_cif(f)
            except Exception:
                pass            # the earlier call is not the one under judgement
            if case["kind"] == "read":
                c["res"] = []
                s = parser.read_3d_structure(f, None if case["req"] == 0 else case["req"])
                c["res"] = project_structure(s)
            else:
                c["atoms"] = []
                got = parser.parse_pdb(f) if case["fmt"] == "pdb" else parser.parse_cif(f)
                c["atoms"] = project_atoms(got[0])
    except Exception as e:      # the error path is data; the spec decides whether it is allowed
        c["err"] = type(e).__name__
    finally:
        if not os.path.basename(path).startswith("rewritten-"):
            os.remove(path)
    _PREV_TEXT[case["fmt"]] = case_text(case)
    return c


# ----------------------------------------------------------------------------- C15 recording

def _rid(ch, num, ic):
    return [_s(ch), _i(num), _s(ic)]


def _micro(v):
    return int(round(float(v) * 1_000_000))


def _read_v1(fmt, text):
    from rnapolis import parser
    r = {"name": "v1-" + fmt, "gen": 1, "fmt": fmt, "err": "", "res": [], "conn": [], "queried": [], "chi": []}
    path = _tmpfile(fmt, text)
    try:
        with open(path) as f:
            s = parser.read_3d_structure(f)
        r["res"] = [{k: v for k, v in d.items() if k != "lab"} for d in project_structure(s)]
        rs = s.residues
        for a in rs:
            for b in rs:
                if a is not b and a.chain == b.chain:
                    q = [_rid(a.chain, a.number, a.icode), _rid(b.chain, b.number, b.icode)]
                    r["queried"].append(q)
                    if a.is_connected(b):
                        r["conn"].append(q)
        for a in rs:
            v = a.chi
            if not math.isnan(v):
                r["chi"].append({"id": _rid(a.chain, a.number, a.icode), "v": _micro(v)})
    except Exception as e:
        r["err"] = type(e).__name__
    finally:
        os.remove(path)
    return r


def _read_v2(fmt, text):
    import io
    import pandas as pd
    from rnapolis import parser_v2, tertiary_v2
    r = {"name": "v2-" + fmt, "gen": 2, "fmt": fmt, "err": "", "res": [], "conn": [], "queried": [], "chi": []}
    try:
        df = parser_v2.parse_pdb_atoms(io.StringIO(text)) if fmt == "pdb" else parser_v2.parse_cif_atoms(io.StringIO(text))
        st = tertiary_v2.Structure(df)
        for x in st.residues:
            atoms = []
            for a in x.atoms_list:
                xyz = a.coordinates
                atoms.append({"an": _s(a.name), "x": _milli(xyz[0]), "y": _milli(xyz[1]), "z": _milli(xyz[2])})
            r["res"].append({"m": 1, "ch": _s(x.chain_id), "num": _i(x.residue_number), "ic": _s(x.insertion_code),
                             "rn": _s(x.residue_name), "atoms": atoms})
        for seg in st.connected_residues:
            for a, b in zip(seg, seg[1:]):
                r["conn"].append([_rid(a.chain_id, a.residue_number, a.insertion_code),
                                  _rid(b.chain_id, b.residue_number, b.insertion_code)])
        ta = st.torsion_angles
        for _, row in ta.iterrows():
            v = row["chi"]
            if v is not None and not pd.isna(v):
                r["chi"].append({"id": _rid(row["chain_id"], row["residue_number"], row["insertion_code"]
                                            if row["insertion_code"] is not None and not pd.isna(row["insertion_code"]) else ""),
                                 "v": _micro(v)})
    except Exception as e:
        r["err"] = type(e).__name__
    return r


def record_c15(case):
    import logging
    logging.disable(logging.CRITICAL)
    c = dict(case)
    reads = []
    for fmt in case["fmts"]:
        text = emit_pdb(case["lines"], case.get("serial0", 0)) if fmt == "pdb" else emit(fmt, case["lines"])
        reads.append(_read_v1(fmt, text))
        reads.append(_read_v2(fmt, text))
    # v1 answers carry the model tag; C15 compares single-model structures only
    for r in reads:
        for d in r["res"]:
            d.pop("m", None)
    c["reads"] = reads
    return c


# ----------------------------------------------------------------------------- table generation
# Geometry: residue r of a table sits at ORIGIN + r * STEP; its atoms at fixed offsets that are
# mutually >= 1.2 A apart and within 2.6 A of the residue origin, so that atoms of different
# residues are never closer than 2 A unless a feature places them so.

_OFFS = [(0, 0, 0), (1371, -212, 405), (-604, 1290, 377), (512, 777, -1301), (-1190, -930, -642),
         (1405, 1651, -511), (-1633, 208, 1202), (377, -1544, -903)]
_STEP = (7309, 433, -917)
_ORIGINS = [(12345, -6789, 1011), (-104321, 88007, -15550), (301, 9, -99001), (987654, -432100, 123456)]
_ALT_SHIFT = (180, -200, 140)       # 0.303 A
_REP_SHIFT = (-250, 100, 130)       # 0.299 A
_PARTNER = {300: (200, 200, 100), 490: (490, 0, 0), 510: (300, 300, 282), 700: (0, -700, 0)}
_NAMES = ["P", "OP1", "OP2", "O5'", "C5'", "C4'", "O4'", "C3'", "O3'", "C2'", "O2'", "C1'", "N9", "C8", "N7", "C4",
          "N1", "C2", "H5''", "HO5'"]
_POLY = ["G", "A", "C", "U", "DG", "DT", "PSU", "5MC"]
_HET = ["HOH", "MG", "SAM"]
_NUMS = [-3, 1, 2, 10, -10, 0, 999, 1000, 57]
_FAR = (41500, -37000, 52250)
_NEAR = (110, -40, 60)              # 0.13 A: an NMR-like second model


def _check_offsets():
    for a in range(len(_OFFS)):
        for b in range(a + 1, len(_OFFS)):
            d2 = sum((p - q) ** 2 for p, q in zip(_OFFS[a], _OFFS[b]))
            if d2 < 1200 ** 2:
                raise lib.MachineryError("generator offsets too close")
    for d, v in _PARTNER.items():
        d2 = sum(x * x for x in v)
        if (d < 500) != (d2 < 500 ** 2) or d2 == 500 ** 2:
            raise lib.MachineryError("partner vector does not realise its distance class")


_check_offsets()

ATOM_FEATURES = ["plain", "alt-lo-hi", "alt-hi-lo", "alt-tie", "alt3-lo-hi-mid", "alt3-mid-lo-hi", "altblock-lo-hi", "altblock-hi-lo",
                 "rep-lo-hi", "rep-hi-lo", "rep-tie",
                 "clash300-lower", "clash300-higher", "clash300-tie", "clash490-lower", "miss510", "miss700",
                 "clash-next-residue", "clash-chain-down", "clash-chain-up"]
NULL_FEATURES = ["occ-absent", "occ-absent-repeated", "occ-absent-clash"]
LAYOUTS = ["one", "one-num3", "two-shared-far", "two-shared-near", "two-shared-occ", "two-disjoint-far",
           "two-disjoint-near", "three-shared", "two-renumbered", "three-unordered", "two-descending", "two-interleaved"]


def _add(p, q):
    return (p[0] + q[0], p[1] + q[1], p[2] + q[2])


def _line(m, res, an, xyz, occ=100, alt=""):
    return {"m": m, "het": res["het"], "ch": res["ch"], "num": res["num"], "ic": res["ic"], "rn": res["rn"], "an": an,
            "alt": alt, "occ": occ, "x": xyz[0], "y": xyz[1], "z": xyz[2], "lch": res["lch"], "lnum": res["lnum"],
            "lrn": res["rn"], "icn": res["icn"], "ocn": res["ocn"]}


def build_model(rng, m, feats, *, chains=1, icn="?", ocn="?", origin=None, allow_partner=True):
    """One model: a list of residues, each showing one atom feature (in order), plus plain atoms."""
    origin = origin or rng.choice(_ORIGINS)
    nres = max(1, len(feats))
    chain_ids = rng.sample(["A", "B", "x", "1", "Q"], chains)
    ids = set()
    residues = []
    for r in range(nres):
        ch = chain_ids[min(chains - 1, r * chains // nres)]
        while True:
            num, ic = rng.choice(_NUMS), rng.choice(["", "", "", "A", "B"])
            if (ch, num, ic) not in ids:
                ids.add((ch, num, ic))
                break
        het = 1 if rng.random() < 0.2 else 0
        rn = rng.choice(_HET if het and rng.random() < 0.7 else _POLY)
        residues.append({"ch": ch, "num": num, "ic": ic, "rn": rn, "het": het, "lch": {"A": "A", "B": "BA", "x": "C",
                         "1": "D", "Q": "E"}[ch], "lnum": 0 if (het and rn in _HET) else r + 1, "icn": icn, "ocn": ocn})
    # two residues that differ in the insertion code only are interesting: force one such pair sometimes
    if nres >= 2 and rng.random() < 0.3 and residues[0]["ch"] == residues[1]["ch"]:
        ic2 = "A" if residues[0]["ic"] != "A" else "B"
        if (residues[0]["ch"], residues[0]["num"], ic2) not in ids:
            residues[1]["num"], residues[1]["ic"] = residues[0]["num"], ic2
            ids.add((residues[1]["ch"], residues[1]["num"], ic2))
    lines = []
    carry = None        # a clash partner owed to the first atom of the next residue
    late = []           # alternate-conformer blocks owed after the NEXT residue: [(residue index after which to write, lines)]
    for r, res in enumerate(residues):
        o = _add(origin, (r * _STEP[0], r * _STEP[1], r * _STEP[2]))
        names = rng.sample(_NAMES[:18], 5) if not (res["het"] and res["rn"] == "MG") else ["MG"] + rng.sample(_NAMES[:18], 4)
        if rng.random() < 0.15:
            names[3] = rng.choice(["H5''", "HO5'"])
        feat = feats[r] if r < len(feats) else "plain"
        k = 0
        block_b = []
        if carry is not None:
            lines.append(_line(m, res, names[4], carry[0], carry[1]))
            carry = None
        p0 = _add(o, _OFFS[0])
        if feat == "plain":
            lines.append(_line(m, res, names[0], p0, rng.choice([100, 100, 75])))
        elif feat.startswith("alt3-"):
            # three alternate locations whose occupancies are not monotone in file order
            occs = {"alt3-lo-hi-mid": (20, 50, 30), "alt3-mid-lo-hi": (30, 20, 50)}[feat]
            for q, (oc, al) in enumerate(zip(occs, "ABC")):
                lines.append(_line(m, res, names[0], _add(p0, (q * _ALT_SHIFT[0], q * _ALT_SHIFT[1], q * _ALT_SHIFT[2])), oc, al))
        elif feat.startswith("altblock-"):
            # conformer B of two atoms is written as a block of its own after the next residue (if there is one)
            oa, ob = {"altblock-lo-hi": (40, 60), "altblock-hi-lo": (60, 40)}[feat]
            p1 = _add(o, _OFFS[4])
            lines.append(_line(m, res, names[0], p0, oa, "A"))
            lines.append(_line(m, res, names[3], p1, oa, "A"))
            late.append((r + 1, [_line(m, res, names[0], _add(p0, _ALT_SHIFT), ob, "B"),
                                 _line(m, res, names[3], _add(p1, _ALT_SHIFT), ob, "B")]))
        elif feat.startswith("alt-"):
            oa, ob = {"alt-lo-hi": (40, 60), "alt-hi-lo": (60, 40), "alt-tie": (50, 50)}[feat]
            second = rng.random() < 0.5      # a second atom with alternates, written block-wise (all A, then all B)
            lines.append(_line(m, res, names[0], p0, oa, "A"))
            if second:
                p1 = _add(o, _OFFS[4])
                lines.append(_line(m, res, names[3], p1, oa, "A"))
                lines.append(_line(m, res, names[0], _add(p0, _ALT_SHIFT), ob, "B"))
                lines.append(_line(m, res, names[3], _add(p1, _ALT_SHIFT), ob, "B"))
            else:
                lines.append(_line(m, res, names[0], _add(p0, _ALT_SHIFT), ob, "B"))
        elif feat.startswith("rep-"):
            oa, ob = {"rep-lo-hi": (30, 70), "rep-hi-lo": (70, 30), "rep-tie": (100, 100)}[feat]
            lines.append(_line(m, res, names[0], p0, oa))
            if rng.random() < 0.5:
                lines.append(_line(m, res, names[0], _add(p0, _REP_SHIFT), ob))
            else:
                block_b.append(_line(m, res, names[0], _add(p0, _REP_SHIFT), ob))   # repeated after the other atoms
        elif feat.startswith("clash-chain"):
            # three atoms in a row, 0.4 A apart (the outer two do not clash), occupancies falling or rising
            occs = (80, 60, 40) if feat.endswith("down") else (40, 60, 80)
            sixth = next(x for x in _NAMES[:18] if x not in names)      # (names[4] may be owed to the previous residue)
            for q, (nm, oc) in enumerate(zip((names[0], names[3], sixth), occs)):
                lines.append(_line(m, res, nm, _add(p0, (400 * q, 0, 0)), oc))
        elif feat.startswith("clash") or feat.startswith("miss"):
            digits = "".join(ch for ch in feat if ch.isdigit())
            d = int(digits) if digits else 300
            rel = feat.split("-")[-1]
            mine = rng.choice([50, 80])
            other = {"lower": mine - 30, "higher": mine + 20, "tie": mine}.get(rel, mine - 30)
            if feat == "clash-next-residue" and r + 1 < nres:
                lines.append(_line(m, res, names[0], p0, mine))
                carry = (_add(p0, _PARTNER[300]), rng.choice([mine - 30, mine + 20]))
            else:
                first_partner = rng.random() < 0.5      # the partner may come before or after in the file
                a = _line(m, res, names[0], p0, mine)
                b = _line(m, res, names[3], _add(p0, _PARTNER[d]), other)
                lines += [b, a] if first_partner else [a, b]
        elif feat == "occ-absent":
            lines.append(_line(m, res, names[0], p0, -1))
        elif feat == "occ-absent-repeated":
            lines.append(_line(m, res, names[0], p0, -1))
            lines.append(_line(m, res, names[0], _add(p0, _REP_SHIFT), rng.choice([-1, 50])))
        elif feat == "occ-absent-clash":
            lines.append(_line(m, res, names[0], p0, -1))
            lines.append(_line(m, res, names[3], _add(p0, _PARTNER[300]), rng.choice([-1, 60])))
        else:
            raise lib.MachineryError("unknown feature " + feat)
        # plain companions
        for j in (1, 2):
            if rng.random() < 0.7:
                lines.append(_line(m, res, names[j], _add(o, _OFFS[j]), rng.choice([100, 100, 100, 50, 0])))
        lines += block_b
        if carry is None:       # (a clash partner owed to the next residue must stay first in its block)
            for after, ls in [x for x in late if x[0] <= r]:
                lines += ls
            late = [x for x in late if x[0] > r]
    for _, ls in late:
        lines += ls
    return lines


def _shift(lines, m, d, **over):
    out = []
    for ln in lines:
        n = dict(ln)
        n["m"] = m
        n["x"], n["y"], n["z"] = ln["x"] + d[0], ln["y"] + d[1], ln["z"] + d[2]
        n.update(over)
        out.append(n)
    return out


def build_table(rng, layout, feats, *, chains=1, icn="?", ocn="?"):
    clashy = any(f.startswith("clash") or f.startswith("miss") or f == "occ-absent-clash" for f in feats)
    if layout == "one":
        return build_model(rng, 1, feats, chains=chains, icn=icn, ocn=ocn)
    if layout == "one-num3":
        return build_model(rng, 3, feats, chains=chains, icn=icn, ocn=ocn)
    base = build_model(rng, 1, feats, chains=chains, icn=icn, ocn=ocn)
    if layout == "two-shared-far":
        return base + _shift(base, 2, _FAR)
    if layout == "two-shared-near":
        return base + _shift(base, 2, _NEAR)
    if layout == "two-shared-occ":      # model 2 carries higher occupancies than model 1
        second = _shift(base, 2, _FAR)
        for a, b in zip(base, second):
            if a["occ"] >= 0:
                a["occ"] = min(a["occ"], 60)
                b["occ"] = min(100, a["occ"] + rng.choice([0, 10, 25]))
        return base + second
    if layout == "two-renumbered":
        return _shift(base, 2, (0, 0, 0)) + _shift(base, 5, _FAR)
    if layout == "three-shared":
        return base + _shift(base, 2, _FAR) + _shift(base, 3, (-_FAR[0], _FAR[1], -_FAR[2]))
    if layout == "three-unordered":     # model numbers that do not ascend in file order: 3, 1, 2
        return _shift(base, 3, (0, 0, 0)) + _shift(base, 1, _FAR) + _shift(base, 2, (-_FAR[0], _FAR[1], -_FAR[2]))
    if layout == "two-descending":      # 2, 1
        return _shift(base, 2, (0, 0, 0)) + _shift(base, 1, _FAR)
    if layout == "two-interleaved":
        # the rows of the two models alternate residue by residue (an atom_site table written residue-wise, model
        # inside): only mmCIF can carry this - a PDB file keeps each model between MODEL and ENDMDL
        m1, m2 = _shift(base, 1, (0, 0, 0)), _shift(base, 2, _FAR)
        b1, b2 = residue_blocks(m1), residue_blocks(m2)
        out = []
        for (_, x), (_, y) in zip(b1, b2):
            out += x + y
        return out
    # disjoint identities: the second model lives in another chain
    def disjoint(lines):
        # every chain of the first model gets its own new name (two chains must not merge into one)
        names = {}
        for ln in lines:
            k = names.setdefault(ln["ch"], len(names))
            ln["ch"], ln["lch"] = "ZY"[k % 2], ("ZZ", "YY")[k % 2]
        return lines
    if layout == "two-disjoint-far":
        return base + disjoint(_shift(base, 2, _FAR))
    if layout == "two-disjoint-near":
        if clashy:      # keep every atom with at most one close neighbour over the whole file
            base = build_model(rng, 1, [f if not (f.startswith("clash") or f.startswith("miss") or f == "occ-absent-clash")
                                        else "plain" for f in feats], chains=chains, icn=icn, ocn=ocn)
        return base + disjoint(_shift(base, 2, _NEAR))
    raise lib.MachineryError("unknown layout " + layout)


def table_features(lines):
    """Descriptive statistics of a table (for the evidence file only)."""
    models = sorted({ln["m"] for ln in lines})
    keys = {}
    for ln in lines:
        keys.setdefault((ln["m"], ln["ch"], ln["num"], ln["ic"], ln["rn"], ln["an"]), []).append(ln)
    return {"models": len(models), "first_model": lines[0]["m"], "lines": len(lines),
            "repeated_keys": sum(1 for v in keys.values() if len(v) > 1),
            "altloc": sum(1 for ln in lines if ln["alt"]), "negative_numbers": sum(1 for ln in lines if ln["num"] < 0),
            "icodes": sum(1 for ln in lines if ln["ic"]), "hetero": sum(1 for ln in lines if ln["het"]),
            "absent_occ": sum(1 for ln in lines if ln["occ"] < 0)}


def gen_tables(count, seed):
    """Seeded tables cycling deterministically through layouts x atom features x null markers, so that
    every pair (layout, feature) occurs; the remaining choices are random."""
    rng = random.Random(seed * 1000003 + 17)
    tables = []
    k = 0
    while len(tables) < count:
        layout = LAYOUTS[k % len(LAYOUTS)]
        f1 = ATOM_FEATURES[(k // len(LAYOUTS)) % len(ATOM_FEATURES)]
        nres = rng.choice([1, 2, 2, 3, 4])
        feats = [f1] + [rng.choice(ATOM_FEATURES) for _ in range(nres - 1)]
        rng.shuffle(feats)
        if layout == "two-shared-occ":      # (that layout rewrites occupancies: a chain's would no longer all differ)
            feats = ["clash300-lower" if f.startswith("clash-chain") else f for f in feats]
        # null-marker classes are kept apart from the multi-model layouts (one understood defect per table)
        cls = k % 7
        icn, ocn = "?", "?"
        if layout in ("one", "one-num3"):
            if cls == 1:
                icn = "."
            elif cls == 2:
                ocn = rng.choice(["?", "."])
                feats[rng.randrange(len(feats))] = NULL_FEATURES[(k // 7) % len(NULL_FEATURES)]
        lines = build_table(rng, layout, feats, chains=rng.choice([1, 1, 2]), icn=icn, ocn=ocn)
        tables.append({"tid": f"g{seed}-{k}", "layout": layout, "feats": feats, "icn": icn, "ocn": ocn, "lines": lines})
        k += 1
    return tables


def c08_cases(tables, colshuffle_every=5):
    cases = []
    for t in tables:
        lines = t["lines"]
        models = []
        for ln in lines:
            if ln["m"] not in models:
                models.append(ln["m"])
        fmts = (["pdb"] if pdb_representable(lines) else []) + (["cif"] if cif_representable(lines) else [])
        for fmt in fmts:
            n = len(cases)
            colseed = (n + 1) if (fmt == "cif" and n % colshuffle_every == 0) else 0
            # every third PDB rendering numbers its records from just below 10000 (five-digit serials)
            serial0 = (9999 - len(lines) // 2) if (fmt == "pdb" and len(cases) % 3 == 0) else 0
            # every second PDB rendering closes the polymer of a chain with TER BEFORE its hetero groups (deposited layout)
            terhet = fmt == "pdb" and (len(cases) // 2) % 2 == 0
            for req in [0] + models:
                cases.append({"id": f"{t['tid']}-{fmt}-r{req}", "kind": "read", "fmt": fmt, "req": req, "lines": lines,
                              "colseed": colseed, "serial0": serial0, "terhet": terhet})
            cases.append({"id": f"{t['tid']}-{fmt}-parse", "kind": "parse", "fmt": fmt, "req": 0, "lines": lines,
                          "colseed": colseed, "serial0": serial0, "terhet": terhet})
    return cases


def pdb_representable(lines):
    seen, prev = set(), None
    for ln in lines:        # a PDB file keeps each model in one piece
        if ln["m"] != prev:
            if ln["m"] in seen:
                return False
            seen.add(ln["m"])
            prev = ln["m"]
    for ln in lines:
        if len(ln["ch"]) != 1 or len(ln["rn"]) > 3 or len(ln["an"]) > 4 or not (-999 <= ln["num"] <= 9999) \
                or len(ln["ic"]) > 1 or len(ln["alt"]) > 1 or ln["occ"] < 0 \
                or not all(-999999 <= ln[k] <= 9999999 for k in "xyz"):
            return False
    return True


# ----------------------------------------------------------------------------- corpus (independent tokenizers)

def _dec_milli(text):
    """Decimal text -> integer milli-units, exactly (no float)."""
    t = text.strip()
    neg = t.startswith("-")
    t = t.lstrip("+-")
    whole, _, frac = t.partition(".")
    frac = (frac + "000")[:3]
    v = int(whole or "0") * 1000 + int(frac)
    return -v if neg else v


def _dec_centi(text):
    t = text.strip()
    whole, _, frac = t.partition(".")
    return int(whole or "0") * 100 + int((frac + "00")[:2])


def tokenize_pdb(text):
    """ATOM/HETATM records of a PDB text -> abstract lines (fixed columns, wwPDB 3.3)."""
    lines, model = [], 1
    for raw in text.splitlines():
        rec = raw[:6]
        if rec.startswith("MODEL"):
            model = int(raw[10:14])
        elif rec in ("ATOM  ", "HETATM"):
            raw = raw.ljust(80)
            lines.append({"m": model, "het": 1 if rec == "HETATM" else 0, "ch": raw[21], "num": int(raw[22:26]),
                          "ic": raw[26].strip(), "rn": raw[17:20].strip(), "an": raw[12:16].strip(),
                          "alt": raw[16].strip(), "occ": _dec_centi(raw[54:60]), "x": _dec_milli(raw[30:38]),
                          "y": _dec_milli(raw[38:46]), "z": _dec_milli(raw[46:54]), "lch": raw[21], "lnum": 0,
                          "lrn": raw[17:20].strip(), "icn": "?", "ocn": "?"})
    return lines


def _cif_tokens(row):
    out, i, n = [], 0, len(row)
    while i < n:
        ch = row[i]
        if ch in " \t":
            i += 1
        elif ch in "'\"":
            j = i + 1
            while j < n and not (row[j] == ch and (j + 1 == n or row[j + 1] in " \t")):
                j += 1
            out.append(row[i + 1:j])
            i = j + 1
        else:
            j = i
            while j < n and row[j] not in " \t":
                j += 1
            out.append(row[i:j])
            i = j
    return out


def tokenize_cif(text):
    """The atom_site loop of an mmCIF text -> abstract lines (single-line rows only)."""
    rows = text.splitlines()
    k = 0
    while k < len(rows) and not rows[k].startswith("_atom_site."):
        k += 1
    cols = []
    while k < len(rows) and rows[k].startswith("_atom_site."):
        cols.append(rows[k].strip()[len("_atom_site."):])
        k += 1
    lines = []
    while k < len(rows) and rows[k].strip() and not rows[k].startswith("#") and not rows[k].startswith("_") \
            and not rows[k].startswith("loop_"):
        tok = _cif_tokens(rows[k])
        if len(tok) != len(cols):
            raise lib.MachineryError("corpus mmCIF row does not match the atom_site columns")
        d = dict(zip(cols, tok))
        ic, occ = d.get("pdbx_PDB_ins_code", "?"), d.get("occupancy", "?")
        lines.append({"m": int(d.get("pdbx_PDB_model_num", "1")), "het": 1 if d.get("group_PDB") == "HETATM" else 0,
                      "ch": d["auth_asym_id"], "num": int(d["auth_seq_id"]), "ic": "" if ic in "?." else ic,
                      "rn": d["auth_comp_id"], "an": d["label_atom_id"],
                      "alt": "" if d.get("label_alt_id", ".") in "?." else d["label_alt_id"],
                      "occ": -1 if occ in "?." else _dec_centi(occ), "x": _dec_milli(d["Cartn_x"]),
                      "y": _dec_milli(d["Cartn_y"]), "z": _dec_milli(d["Cartn_z"]), "lch": d["label_asym_id"],
                      "lnum": int(d["label_seq_id"]) if d["label_seq_id"] not in "?." else 0, "lrn": d["label_comp_id"],
                      "icn": ic if ic in "?." else "?", "ocn": occ if occ in "?." else "?"})
        k += 1
    return lines


def corpus_lines(name):
    path = os.path.join(lib.REPO, "tests", name)
    with open(path) as f:
        text = f.read()
    return tokenize_pdb(text) if name.endswith(".pdb") else tokenize_cif(text)


def residue_blocks(lines):
    blocks = []
    for ln in lines:
        key = (ln["m"], ln["ch"], ln["num"], ln["ic"], ln["rn"])
        if blocks and blocks[-1][0] == key:
            blocks[-1][1].append(ln)
        else:
            blocks.append((key, [ln]))
    return blocks


def window(lines, start, count):
    """`count` consecutive residues of the first model, starting at residue block `start`."""
    first = lines[0]["m"]
    blocks = [b for b in residue_blocks(lines) if b[0][0] == first]
    out = []
    for _, ls in blocks[start:start + count]:
        out += [dict(ln) for ln in ls]
    return out


CORPUS_C08 = ["1ATO.pdb", "488d.pdb", "4qln.pdb", "4qln.cif", "1ehz-assembly-1.cif", "2HY9.cif", "6RS3.cif",
              "1E7K_1_C.cif", "184D.cif", "1JJP.cif", "q-ugg-5k-salt_400-500ns_frame1065.pdb"]


def corpus_tables(names, per_file, size, seed):
    """Corpus-derived tables: windows of corpus residues (the ones holding alternate locations
    first), re-emitted as written, with the model duplicated (shared identities, far away and
    NMR-like) and with renumbered models."""
    rng = random.Random(seed * 7 + 1)
    tables = []
    for name in names:
        try:
            lines = corpus_lines(name)
        except FileNotFoundError as e:
            raise lib.MachineryError(f"corpus file missing: {name}") from e
        if not lines:
            continue
        first = lines[0]["m"]
        blocks = [b for b in residue_blocks(lines) if b[0][0] == first]
        alt_at = [k for k, b in enumerate(blocks) if any(ln["alt"] for ln in b[1])]
        starts = []
        if alt_at:
            starts.append(max(0, alt_at[0] - 1))
        while len(starts) < per_file:
            starts.append(rng.randrange(0, max(1, len(blocks) - size)))
        for w, st in enumerate(starts[:per_file]):
            base = window(lines, st, size)
            if not base:
                continue
            for variant in ("asis", "two-far", "two-near", "renumbered"):
                if variant == "asis":
                    t = base
                elif variant == "two-far":
                    t = _shift(base, 1, (0, 0, 0)) + _shift(base, 2, (150000, 0, 0))
                elif variant == "two-near":
                    t = _shift(base, 1, (0, 0, 0)) + _shift(base, 2, _NEAR)
                else:
                    t = _shift(base, 4, (0, 0, 0)) + _shift(base, 9, (0, -150000, 0))
                tables.append({"tid": f"corpus-{name}-{w}-{variant}", "layout": "corpus-" + variant, "feats": [],
                               "icn": "?", "ocn": "?", "lines": t})
    return tables


def cif_representable(lines):
    return all(ln["ch"].strip() and ln["rn"].strip() and ln["an"].strip() and ln.get("lch", "x").strip() for ln in lines)


# ----------------------------------------------------------------------------- C15 tables (backbones)
# A nucleotide's atoms relative to its P; x grows along the chain so that consecutive residues
# never interpenetrate; O3' is the last atom along x and the next P is placed relative to it.
_NT = {"P": (0, 0, 0), "OP1": (150, 1450, 350), "O5'": (900, -1150, 400), "C4'": (1500, 250, -1250),
       "O4'": (1350, 1500, 900), "C1'": (2100, -300, 1100), "NB": (2300, -1500, 300), "CB": (2950, -1300, -1000),
       "O3'": (3000, 1000, -300)}
LINKS = {"bond1600": (1600, 0, 0), "bond2390": (2390, 0, 0), "bond2399": (1385, 1385, 1385),
         "gap2401": (1386, 1386, 1386), "gap2410": (2410, 0, 0), "gap2500": (1500, 2000, 0), "gap7000": (7000, 100, -200),
         "noP": (1600, 0, 0), "noO3": (1600, 0, 0),
         # exactly on the 2.4 A sphere (integer Pythagorean triples): the statement says "below 2.4 A"; what is
         # demanded here is only that all readings give the SAME answer
         "sphere2400a": (0, 0, 2400), "sphere2400b": (1440, 0, 1920), "sphere2400c": (704, 1472, 1760)}
_PUR = ["A", "G", "DA", "DG"]
_PYR = ["C", "U", "DC", "DT", "T"]


def _check_nt():
    names = list(_NT)
    for a in range(len(names)):
        for b in range(a + 1, len(names)):
            d2 = sum((p - q) ** 2 for p, q in zip(_NT[names[a]], _NT[names[b]]))
            if d2 < 1300 ** 2:
                raise lib.MachineryError(f"nucleotide template atoms too close: {names[a]} {names[b]}")
    for k, v in LINKS.items():
        d2 = sum(x * x for x in v)
        if k.startswith("sphere"):
            if d2 != 2400 ** 2:
                raise lib.MachineryError("sphere link not on the 2.4 A sphere: " + k)
            continue
        if k.startswith("bond") != (d2 < 2400 ** 2) and not k.startswith("no"):
            raise lib.MachineryError("link vector does not realise its class: " + k)
        if d2 == 2400 ** 2:
            raise lib.MachineryError("link vector on the 2.4 A sphere")


_check_nt()


def build_backbone(rng, links, *, chains=1, icn="?", ocn="?", absent_occ=None, hetero_tail=True):
    """Single-model, single-conformer table: len(links)+1 nucleotides per chain, consecutive ones
    joined by the given link classes; numbers ascend within a chain (with an insertion-code pair)."""
    lines = []
    chain_ids = rng.sample(["A", "B", "R", "2"], chains)
    lnum = 0
    for c, ch in enumerate(chain_ids):
        origin = _add(rng.choice(_ORIGINS), (0, c * 23000, c * 5000))   # (also coordinates that fill their PDB columns)
        num = rng.choice([-2, 1, 7, 98])
        ic = ""
        pos = origin
        prev_link = None
        for r in range(len(links) + 1):
            purine = rng.random() < 0.5
            rn = rng.choice(_PUR if purine else _PYR) if rng.random() < 0.9 else rng.choice(["PSU", "5MC", "1MA"])
            lnum += 1
            res = {"ch": ch, "num": num, "ic": ic, "rn": rn, "het": 1 if rn in ("PSU", "5MC", "1MA") else 0,
                   "lch": ch + "X" if c else ch, "lnum": lnum, "icn": icn, "ocn": ocn}
            jitter = (rng.randrange(-200, 201), rng.randrange(-200, 201), rng.randrange(-200, 201))
            link = links[r] if r < len(links) else None
            mirror = rng.random() < 0.5     # mirrored nucleotide: the sign of chi flips
            if link is not None and link.startswith("sphere"):
                mirror = False              # (the mirrored O3' would leave the sphere)
            for name, off in _NT.items():
                if name == "P" and prev_link == "noP":
                    continue
                if name == "O3'" and link == "noO3":
                    continue
                an = name
                if name == "NB":
                    an = "N9" if purine else "N1"
                elif name == "CB":
                    an = "C4" if purine else "C2"
                    off = _add(off, jitter)
                if mirror:
                    off = (off[0], off[1], -off[2])
                occ = 100
                if absent_occ is not None and rng.random() < 0.25:
                    occ = -1
                lines.append(_line(1, res, an, _add(pos, off), occ))
            if link is not None:
                pos = _add(_add(pos, _NT["O3'"]), LINKS[link])
            prev_link = link
            # numbering: mostly +1, sometimes an insertion-code successor or a numbering gap
            t = rng.random()
            if t < 0.15 and ic == "":
                ic = "A"
            elif t < 0.25:
                num, ic = num + rng.choice([2, 5]), ""
            else:
                num, ic = num + 1, ""
        if hetero_tail and rng.random() < 0.5:
            # a water - or a sodium ion, whose names read like a missing-value marker ("NA")
            rn, an = rng.choice([("HOH", "O"), ("NA", "NA")])
            res = {"ch": ch, "num": num + 100, "ic": "", "rn": rn, "het": 1, "lch": "W", "lnum": 0, "icn": icn, "ocn": ocn}
            lines.append(_line(1, res, an, _add(origin, (-9000, -9000, 4000 + 3000 * c))))
    if absent_occ is not None and not any(ln["occ"] < 0 for ln in lines):
        lines[0]["occ"] = -1
    return lines


def c15_tables(count, seed):
    rng = random.Random(seed * 99991 + 5)
    kinds = list(LINKS)
    tables = []
    for k in range(count):
        nlinks = rng.choice([1, 2, 3, 4])
        links = [kinds[(k + j * 3) % len(kinds)] for j in range(nlinks)]
        cls = k % 10
        icn, ocn, absent = "?", "?", None
        if cls == 3:
            icn = "."
        elif cls == 6:
            ocn, absent = ".", True
        elif cls == 9:
            ocn, absent = "?", True
        lines = build_backbone(rng, links, chains=rng.choice([1, 1, 2]), icn=icn, ocn=ocn, absent_occ=absent)
        if k % 6 == 5:
            # two free nucleotides, each a chain of its own, alike in number and name (label numbering restarts too)
            rn = rng.choice(["G", "U", "DT"])
            for q, ch in enumerate(("M", "N")):
                res = {"ch": ch, "num": 1, "ic": "", "rn": rn, "het": 0, "lch": ch, "lnum": 1, "icn": icn, "ocn": ocn}
                pos = (61000 + 23000 * q, 52000, -7000 * q)
                for name, off in _NT.items():
                    an = {"NB": "N9" if rn == "G" else "N1", "CB": "C4" if rn == "G" else "C2"}.get(name, name)
                    lines.append(_line(1, res, an, _add(pos, off)))
        tables.append({"tid": f"b{seed}-{k}", "links": links, "icn": icn, "ocn": ocn, "lines": lines})
    return tables


def _far_enough(lines, xyz, floor=1000):
    return all((ln["x"] - xyz[0]) ** 2 + (ln["y"] - xyz[1]) ** 2 + (ln["z"] - xyz[2]) ** 2 >= floor ** 2 for ln in lines)


def c15_dup_tables(count, seed):
    """Backbones in which residues carry a stray second record of P, of O3' or of the base atoms (no
    alternate-location flag, same occupancy), before or after the regular record; the stray P / O3' sits
    where the connectivity answer differs from the regular one's."""
    rng = random.Random(seed * 7919 + 11)
    kinds = [k for k in LINKS if not k.startswith("sphere") and not k.startswith("no")]
    tables = []
    k = 0
    while len(tables) < count:
        k += 1
        nlinks = rng.choice([2, 3, 4])
        links = [kinds[(k + j * 2) % len(kinds)] for j in range(nlinks)]
        lines = build_backbone(rng, links, chains=1, hetero_tail=False)
        blocks = residue_blocks(lines)
        r = rng.randrange(1, len(blocks))              # residue r owns the stray records (it has a predecessor)
        which = ("P", "base", "O3'", "P+base")[k % 4]
        first = k % 8 < 4                              # the stray record comes first / last in the residue
        if which == "O3'":
            r = rng.randrange(0, len(blocks) - 1)
        own = blocks[r][1]
        stray = []
        def copy_of(an, xyz):
            src = next(ln for ln in own if ln["an"] == an)
            return dict(src, x=xyz[0], y=xyz[1], z=xyz[2])
        if "P" in which:
            prev_o3 = next(ln for ln in blocks[r - 1][1] if ln["an"] == "O3'")
            p = next(ln for ln in own if ln["an"] == "P")
            bonded = (p["x"] - prev_o3["x"]) ** 2 + (p["y"] - prev_o3["y"]) ** 2 + (p["z"] - prev_o3["z"]) ** 2 < 2400 ** 2
            off = (300, -2900, 1400) if bonded else (0, 1100, 1150)      # |.| = 3.23 A broken / 1.59 A bonded
            stray.append(copy_of("P", (prev_o3["x"] + off[0], prev_o3["y"] + off[1], prev_o3["z"] + off[2])))
        if which == "O3'":
            nxt_p = next(ln for ln in blocks[r + 1][1] if ln["an"] == "P")
            o3 = next(ln for ln in own if ln["an"] == "O3'")
            bonded = (o3["x"] - nxt_p["x"]) ** 2 + (o3["y"] - nxt_p["y"]) ** 2 + (o3["z"] - nxt_p["z"]) ** 2 < 2400 ** 2
            off = (-300, 2900, -1400) if bonded else (0, -1100, -1150)
            stray.append(copy_of("O3'", (nxt_p["x"] + off[0], nxt_p["y"] + off[1], nxt_p["z"] + off[2])))
        if "base" in which:
            for an in ("N9", "N1", "C4", "C2"):
                src = [ln for ln in own if ln["an"] == an]
                if src:
                    stray.append(copy_of(an, (src[0]["x"] + 1700, src[0]["y"] - 1900, src[0]["z"] + (2100 if an[0] == "C" else -1300))))
        ok = all(_far_enough([ln for ln in lines if ln is not s0] + [t for t in stray if t is not s0], (s0["x"], s0["y"], s0["z"]))
                 for s0 in stray)
        # ... and no stray O3'/P exactly 2.4 A from a P/O3' of a neighbour
        if not ok:
            continue
        out = []
        for b, (_, ls) in enumerate(blocks):
            if b == r:
                out += (stray + ls) if first else (ls + stray)
            else:
                out += ls
        tables.append({"tid": f"dup{seed}-{k}-{which}-{'first' if first else 'last'}", "links": links, "icn": "?", "ocn": "?",
                       "lines": [dict(ln) for ln in out]})
    return tables


CORPUS_C15 = ["1ehz-assembly-1.cif", "1E7K_1_C.cif", "184D.cif", "1JJP.cif", "1ATO.pdb", "1DFU_1_M-N.cif", "6INQ.cif",
              "1HMH_1_E.cif", "4WTI_1_T-P.cif"]


def c15_corpus_tables(names, size, seed):
    rng = random.Random(seed * 13 + 2)
    tables = []
    for name in names:
        lines = corpus_lines(name)
        if not lines:
            continue
        first = lines[0]["m"]
        blocks = [b for b in residue_blocks(lines) if b[0][0] == first]
        st = rng.randrange(0, max(1, len(blocks) - size))
        base = [dict(ln, m=1) for ln in window(lines, st, size)]
        tables.append({"tid": f"corpus-{name}-{st}", "links": [], "icn": "?", "ocn": "?", "lines": base})
    return tables


def c15_cases(tables):
    cases = []
    for t in tables:
        lines = t["lines"]
        fmts = []
        if pdb_representable(lines):
            fmts.append("pdb")
        if cif_representable(lines):
            fmts.append("cif")
        if not fmts:
            continue
        case = {"id": t["tid"], "kind": "agree", "fmts": fmts, "lines": lines}
        if len(cases) % 3 == 1:
            case["serial0"] = 9990      # the PDB rendering numbers its records from just below 10000 ("HETATM10000")
        cases.append(case)
    return cases


# ----------------------------------------------------------------------------- emitter self-check

_PDB_FIELDS = ("m", "het", "ch", "num", "ic", "rn", "an", "alt", "occ", "x", "y", "z")
_CIF_FIELDS = _PDB_FIELDS + ("lch", "lnum", "lrn")


def check_emitters(tables):
    """Machinery guard: what the emitters write is read back field by field by the harness's own
    tokenizers (which share no code with the emitters or with the readers under test)."""
    n = 0
    for t in tables:
        lines = t["lines"]
        if pdb_representable(lines):
            back = tokenize_pdb(emit_pdb(lines))
            if [[ln[k] for k in _PDB_FIELDS] for ln in lines] != [[ln[k] for k in _PDB_FIELDS] for ln in back]:
                raise lib.MachineryError(f"PDB emitter/tokenizer disagree on table {t['tid']}")
            n += 1
        if cif_representable(lines):
            back = tokenize_cif(emit_cif(lines))
            want = [[ln[k] for k in _CIF_FIELDS] + [ln["icn"] if not ln["ic"] else "?", ln["ocn"] if ln["occ"] < 0 else "?"]
                    for ln in lines]
            got = [[ln[k] for k in _CIF_FIELDS] + [ln["icn"], ln["ocn"]] for ln in back]
            if want != got:
                raise lib.MachineryError(f"mmCIF emitter/tokenizer disagree on table {t['tid']}")
            n += 1
    return n
