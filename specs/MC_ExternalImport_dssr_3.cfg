SPECIFICATION Spec
CONSTANT Mode = "dssr"
CONSTANT McAlphabet = {"c"}
CONSTANT McMaxLen = 0
CONSTANT McUnitKinds = {"plain"}
CONSTANT McTabKinds = {"three"}
CONSTANT McLabelKinds = {"lw"}
CONSTANT McWraps = {"none"}
CONSTANT MaxLines = 0
CONSTANT Contained = {"ValueError", "IndexError"}
CONSTANT McNameKinds = {"exact", "absent"}
CONSTANT McLwKinds = {"valid", "null", "dunder"}
CONSTANT MaxPairs = 2
CONSTANT McStackKinds = {"exact", "wrongnumber"}
CONSTANT MaxStackLen = 2
CONSTANT MaxStacks = 2
CONSTANT LwTest = "members"
INVARIANT DssrPairsExact
INVARIANT DssrStacksExact
CHECK_DEADLOCK FALSE
