SPECIFICATION Spec
CONSTANT N = 4
CONSTANT PairlessShortcut = TRUE
INVARIANT ClausesHold
INVARIANT NoDuplicateLoops
CHECK_DEADLOCK FALSE
