SPECIFICATION Spec
CONSTANT Family = "C16"
CONSTANT MaxBFStems = 7
CONSTANT MaxBFSpace = 100000
CHECK_DEADLOCK FALSE
