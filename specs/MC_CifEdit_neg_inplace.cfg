SPECIFICATION Spec
CONSTANT Vals = {"u", "v"}
CONSTANT MaxRows = 2
CONSTANT QFull = FALSE
CONSTANT CliReadsFile = TRUE
CONSTANT CliWritesText = TRUE
CONSTANT CliOpensOutputFirst = TRUE
INVARIANT CliEqualsLib
CHECK_DEADLOCK FALSE
