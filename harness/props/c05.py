"""C05 - annotation depends only on internal geometry and identity, not on presentation."""
from .. import lib, presentation as pr

PID = "C05"
TIERS = {
    "quick":    dict(num=110, depth=4, bases=8, jitter=0),
    "thorough": dict(num=900, depth=6, bases=13, jitter=2),
}


LEGACY = ("1A1T_1_B.cif",)               # quick: this base also with the legacy atom names
ANON = ("1JJP.cif", "1E7K_1_C.cif")     # quick: these bases also with unresolvable residue names
THIO = ("1E7K_1_C.cif",)                # quick: this base also with its uridines turned into 4-thiouridines


def build_cases(t):
    with lib.Scratch("c05sim") as sc:
        beh = pr.simulate(t["num"], t["depth"], lib.seed(), sc)
    bases = []
    for name in pr.BASES[:t["bases"]]:
        if pr.base_lines(name) is None:
            continue
        bases.append((name, []))
        for j in range(t["jitter"]):
            bases.append((name, [lib.seed() * 100 + j + 1, [20, 100, 300][j % 3]]))
        if name in ANON or t["jitter"]:
            bases.append((name, ["anon", 0]))
        if name in LEGACY or t["jitter"]:
            bases.append((name, ["legacy", 0]))
        if name in THIO or t["jitter"]:
            bases.append((name, ["thio", 0]))
    cases = []
    for k, b in enumerate(beh):
        name, perturb = bases[k % len(bases)]
        steps = [list(x) for x in b["steps"]]
        # format sweep: TLC's simulation draws uniformly among ~45 enabled actions, so SwitchFormat is rare; every
        # behaviour is therefore extended by the SwitchFormat steps the specification enables at its end (a text
        # format only while no random rotation is part of the motion - Presentation!SwitchFormat's guard)
        fmt = b["fmt0"]
        for op, a in steps:
            if op == "SwitchFormat":
                fmt = ["obj", "pdb", "cif"][a]
        if not any(op == "Rotate" for op, _ in steps):
            rec = 0
            for op, a in steps:
                if op == "ToggleRecords":
                    rec = a
            for a, f in ((1, "pdb"), (2, "cif"), (0, "obj")):
                if f != fmt:
                    steps.append(["SwitchFormat", a])
                    fmt = f
                    if f != "obj":      # ... and each text format with other describing records than before
                        rec = (rec + 1) % 3
                        steps.append(["ToggleRecords", rec])
        cases.append({"id": f"p{k}-{name}" + (f"-{perturb[0]}" if perturb else ""), "base": name, "perturb": perturb,
                      "fmt0": b["fmt0"], "steps": steps})
    # one fixed behaviour per base (a behaviour of Presentation like any other): a tour through every relabelling
    # action in both text formats and in memory, so that e.g. "a residue numbered 0 in an mmCIF file" does not depend
    # on which behaviours the simulation happened to deal to which base
    tour = [["ShiftNumbers", 3], ["SwitchFormat", 1], ["ShiftNumbers", 1], ["InsertCodes", 1], ["SwitchFormat", 2],
            ["RenameChains", 1], ["ToggleRecords", 1], ["PermuteAtoms", 1], ["ToggleRecords", 2], ["ShiftNumbers", 2],
            ["SwitchFormat", 0], ["ShiftNumbers", 3], ["InsertCodes", 2]]
    for name, perturb in bases:
        cases.append({"id": f"tour-{name}" + (f"-{perturb[0]}" if perturb else ""), "base": name, "perturb": perturb,
                      "fmt0": "cif", "steps": [list(x) for x in tour]})
    return cases, bases


def _rec_group(group):
    return [pr.record(c) for c in group]


def run(tier):
    t = TIERS[tier]
    rep = lib.Report(PID, tier, "exploration")
    with lib.Scratch("c05") as sc:
        r = lib.mc("Presentation", "MC_Presentation.cfg", sc, workers=4)
        rep.add_mc(r, "presentation state machine (motions, atom order, relabelling, format) with the guard that a text "
                      "format never has to carry a random rotation (Deliverable)",
                   min_actions=("Rotate", "AxisPerm", "Translate", "PermuteAtoms", "RenameChains", "ShiftNumbers", "InsertCodes", "SwitchFormat"))
        cases, bases = build_cases(t)
        # group by base so that each worker builds a base (and measures its margins) once
        groups = {}
        for c in cases:
            groups.setdefault((c["base"], str(c["perturb"])), []).append(c)
        rec = [c for g in lib.pmap(_rec_group, list(groups.values()), chunksize=1) for c in g]
        res = lib.trace_validate("Trace_Presentation", "Trace_Presentation.cfg", rec, sc)
        rep.add_trace(res, {c["id"]: c for c in rec}, "C05")
        cov = rep.cov
        ex = res.get("extra", [0, 0])
        cov["undecided_behaviours"] = ex[0]
        cov["presentation_steps"] = ex[1]
        cov["rule"] = (f"{len(cases)} behaviours of specs/Presentation.tla drawn by TLC -simulate (depth {t['depth']}, seed "
                       f"{lib.seed()}) over {{6 seeded random rotations, 23 exact axis permutations, 6 integer translations up "
                       f"to +-500 A, 3 atom-order shuffles, order-preserving chain renaming, 3 number shifts, 2 order-preserving renumberings that introduce insertion codes (n+1 becomes n^A), obj/PDB/mmCIF}}, "
                       f"each extended by the format switches enabled at its end, replayed cumulatively on {len(bases)} base structures (corpus files re-emitted by an independent "
                       "emitter; thorough adds seeded jitter of 0.02/0.1/0.3 A as new bases; some bases also with every residue name made unresolvable so that base letters are detected from the atoms). After every step the real "
                       "reader + extract_secondary_structure run on the presented structure. Non-trivial = distinct "
                       "(base, behaviour) with at least 2 steps of different kinds.")
        cov["distinct_nontrivial"] = len({(c["base"], str(c["perturb"]), str(c["steps"])) for c in cases
                                          if len({s[0] for s in c["steps"]}) >= 2})
        cov["bases"] = [b[0] + (f"+jitter{b[1][1]}" if b[1] else "") for b in bases]
        cov["min_margin_nano"] = {c["base"] + str(c["perturb"] or ""): c["margin"] for c in rec}
        s = rec[0]
        cov["samples"] = [{"id": s["id"], "fmt0": s["fmt0"], "steps": s["steps"], "margin_nano": s["margin"],
                           "annotation_head": s["states"][0]["ann"][:5], "n_annotation_lines": len(s["states"][0]["ann"])}]
        rep.assumptions += ["rigid motions, re-emission in both formats and the margins (independent numpy measurer, "
                            "harness/measurer.py) are harness-side; TLC decides equality of canonical annotations and the "
                            "1e-6 margin rule", "a random rotation is only presented in memory (3-decimal text cannot carry "
                            "it exactly); text formats are exercised under lattice-exact motions",
                            "base-phosphate / base-ribose lists are compared as sets, pairs and stackings as sequences"]
    return rep.finish()


def replay(doc):
    case = doc.get("case")
    if not case:
        print(doc.get("tlc_output_tail", ""))
        return run("quick")
    rep = lib.Report(PID, "quick", "exploration", evidence=False)
    with lib.Scratch("c05r") as sc:
        rec = pr.record({k: case[k] for k in ("id", "base", "perturb", "fmt0", "steps")})
        res = lib.trace_validate("Trace_Presentation", "Trace_Presentation.cfg", [rec], sc, chunks=1)
        rep.add_trace(res, {rec["id"]: rec}, "C05")
    return rep.finish()
