SPECIFICATION Spec
CONSTANT Vals = {"u", "v"}
CONSTANT MaxRows = 2
CONSTANT QFull = TRUE
CONSTANT CliReadsFile = TRUE
CONSTANT CliWritesText = TRUE
CONSTANT CliOpensOutputFirst = FALSE
INVARIANT MissingLeavesUntouched
INVARIANT EditRewrites
INVARIANT InvFrameOtherCategories
INVARIANT InvFrameRowsAndOrder
INVARIANT InvFrameOtherItems
INVARIANT InvCopyTargetEqualsSource
INVARIANT InvReplaceIsInjectiveFirstSeen
INVARIANT ModelMatchesExpected
INVARIANT ExpectedSatisfiesClauses
INVARIANT ClausesRejectCorruption
INVARIANT CliEqualsLib
PROPERTY FrameAction
CHECK_DEADLOCK FALSE
