#!/bin/sh
# tools/seedtests.sh <patch.diff> <outfile>  : run the repository's test suite with the change applied,
# in a throw-away worktree (PYTHONPATH selects the worktree), and report whether all 45 baseline tests pass.
patch="$1"; out="$2"
wt=$(mktemp -d /tmp/seedwt-XXXXXX)
git -C /repo worktree add --detach "$wt" HEAD >/dev/null 2>&1 || exit 2
( cd "$wt" && git apply "$patch" && PYTHONPATH="$wt/src" PYTHONHASHSEED=0 /venv/bin/python -m pytest -q -p no:cacheprovider --timeout=900 --continue-on-collection-errors --junitxml="$wt/junit.xml" tests >/dev/null 2>&1
  /venv/bin/python - "$wt/junit.xml" <<'PY' > "$out"
import sys, json, xml.etree.ElementTree as ET
base = set(json.load(open('/root/.vp/BASELINE.json'))['stable_pass'])
passed = set()
for tc in ET.parse(sys.argv[1]).getroot().iter('testcase'):
    if not any(ch.tag in ('failure', 'error', 'skipped') for ch in tc):
        passed.add(tc.get('classname') + '::' + tc.get('name'))
missing = sorted(base - passed)
print(json.dumps({"baseline_passing": len(base & passed), "baseline_broken": missing}))
PY
)
git -C /repo worktree remove --force "$wt"
cat "$out"
