SPECIFICATION Spec
CONSTANT R = 2
CONSTANT P2Origin = TRUE
CONSTANT Impl = "tertiary"
CONSTANT M1Order = "n1_x_b2"
CONSTANT Slice = TRUE
INVARIANT TypeOK
INVARIANT UndefinedIffDegenerate
INVARIANT LatticeOctant
INVARIANT ReversalKeeps
INVARIANT MirrorNegates
CHECK_DEADLOCK FALSE
