---------------------------- MODULE Trace_Elements ----------------------------
(* Trace validation for C07: the element lists the real code returned (BpSeq.elements, and
   the lines printed by motif_extractor.main) against the declarative clauses of Elements. *)
EXTENDS Elements, Json, IOUtils

Doc   == JsonDeserialize(IOEnv.TRACE_FILE)
Trace == Doc.cases
VARIABLES idx, cnt
vars == <<idx, cnt>>

\* The command-line tool may be asked to filter the structure first (c.opts, a sequence of option names):
\*   "--remove-isolated"     the structure printed and decomposed is the one made of the stems of >= 2 pairs;
\*   "--remove-pseudoknots"  it is a pseudoknot-free sub-structure written with round brackets only (WHICH pairs
\*                           stay is the business of C12); the elements must decompose exactly the structure whose
\*                           dot-bracket the tool prints.
HasOpt(c, o) == "opts" \in DOMAIN c /\ \E k \in 1..Len(c.opts) : c.opts[k] = o
LongStemsOnly(m) == UNION { RegionPairs(r) : r \in { x \in Regions(m) : x[3] >= 2 } }
NonCrossing(m) == \A p, q \in m : ~CrossP(p, q)
OnlyRoundBrackets(db) == \A k \in 1..Len(db) : db[k] \in {"(", ")", "."}
Verdict(c) ==
  LET m0 == PairSet(c.pairs)
      m1 == IF HasOpt(c, "--remove-isolated") THEN LongStemsOnly(m0) ELSE m0 IN
  IF ~IsMatching(m0, c.n) \/ Len(c.seq) # c.n THEN <<"fail", "InputIsMatching", "harness">>
  ELSE IF c.el.err # "" THEN <<"fail", "NoException", c.source>>
  ELSE IF c.db.err # "" THEN <<"fail", "NoException", "dot_bracket">>
  ELSE IF Len(c.db.db) # c.n \/ ~AlphabetOK(c.db.db) THEN <<"fail", "DotBracketLossless", "dot_bracket">>
  ELSE IF ~Decode(c.db.db).balanced THEN <<"fail", "DotBracketLossless", "dot_bracket">>
  ELSE LET m == Decode(c.db.db).pairs IN
  IF ~HasOpt(c, "--remove-pseudoknots") /\ m # m1 THEN <<"fail", "DotBracketLossless", "dot_bracket">>
  ELSE IF HasOpt(c, "--remove-pseudoknots") /\ ~(m \subseteq m1 /\ NonCrossing(m) /\ OnlyRoundBrackets(c.db.db))
       THEN <<"fail", "FilteredStructurePrinted", c.source>>
  ELSE LET f == ElementsFail(m, c.n, c.seq, c.db.db, c.el) IN
       IF f = "ok" THEN <<"ok">>
       ELSE IF f = "UnpairedCoveredOnce" /\ PairlessHasNoElements(m, c.n, c.el)
            THEN <<"deviation", "PairlessHasNoElements", c.source>>
       ELSE <<"fail", f, c.source>>

Init == idx = 0 /\ cnt = [ok |-> 0, deviation |-> 0, fail |-> 0]
Next ==
  /\ idx < Len(Trace)
  /\ idx' = idx + 1
  /\ LET c == Trace[idx']  v == Verdict(c) IN
     /\ cnt' = [cnt EXCEPT ![v[1]] = @ + 1]
     /\ (v[1] = "ok" \/ PrintT(<<"V", c.id>> \o v))
  /\ (idx' < Len(Trace) \/ PrintT(<<"SUMMARY", Len(Trace), cnt'.ok, cnt'.deviation, cnt'.fail>>))
Spec == Init /\ [][Next]_vars
=============================================================================
