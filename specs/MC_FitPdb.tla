----------------------------- MODULE MC_FitPdb -----------------------------
(***************************************************************************)
(* Design-level model of rnapolis.parser_v2.fit_to_pdb with SCALED limits, *)
(* step by step as the code performs it:                                   *)
(*   CanWrite        can_write_pdb: a PDB-derived frame, or an mmCIF frame *)
(*                   within the limits, is returned as it is               *)
(*   Check1/2/3      the three feasibility tests (atoms + chains, number   *)
(*                   of chains, residues per chain)  -> Refuse (ValueError)*)
(*   RenameChains    unique chains in order of appearance -> ChainIds[i]   *)
(*   RenumberResidues one step per chain group: (number, icode) in order   *)
(*                   of appearance -> 1, 2, ...; insertion codes cleared   *)
(*   RenumberSerial  one step per row; +1 extra at every chain change for  *)
(*                   the TER line; safeguard ValueError above the limit    *)
(*   RenameColumns   mmCIF column names -> PDB column names                *)
(* explored for EVERY table of <= MaxAtoms atoms over the palettes.        *)
(* Feasibility is the spec's own existence statement (a renaming exists).  *)
(*                                                                         *)
(* Variant constants (Required = FALSE / AsImplemented = TRUE):            *)
(*   IcodeFillnaRaises  Check3 does categorical.fillna("") on the mmCIF    *)
(*                      insertion-code column: TypeError            -- P9  *)
(*   RenameCollides     label_atom_id and auth_atom_id (label_comp_id and  *)
(*                      auth_comp_id) are both renamed to one PDB column;  *)
(*                      the duplicate column makes the final type          *)
(*                      conversion raise ValueError although a fit exists  *)
(***************************************************************************)
EXTENDS FitPdb

CONSTANTS MaxAtoms, ChainPalette, ResPalette, IcodeFillnaRaises, RenameCollides

VARIABLES T,        \* the input table (mmCIF- or PDB-derived)
          fmt,      \* "cif" | "pdb"
          pc, out, result, k, cur, last
vars == <<T, fmt, pc, out, result, k, cur, last>>

\* ------------------------------------------------------------------ palettes for the cfg files
ChainPal3 == { <<"A">>, <<"B","B">>, <<"C">> }
ChainPal4 == { <<"A">>, <<"B","B">>, <<"C">>, <<"D","D","D">> }
ResPal3   == { <<1, <<>>>>, <<1, <<"A">>>>, <<9, <<>>>> }
ResPal4   == { <<1, <<>>>>, <<1, <<"A">>>>, <<2, <<>>>>, <<9, <<>>>> }
Ids2      == << <<"A">>, <<"B">> >>
Ids3      == << <<"A">>, <<"B">>, <<"C">> >>

\* ------------------------------------------------------------------ input domain
Row(ch, rk, pos, serial) ==
  [ rec |-> <<"A">>, serial |-> serial, name |-> <<"P">>, alt |-> <<>>, resn |-> <<"G">>, chain |-> ch,
    resseq |-> rk[1], icode |-> rk[2], x |-> pos, y |-> 0, z |-> 0, occ |-> 100, b |-> 0, elem |-> <<"P">>,
    charge |-> <<>>, model |-> 1 ]
\* every table of n <= MaxAtoms rows over the palettes; serial scheme 0: 1..n; scheme 1: beyond the limit
Init == /\ \E n \in 0..MaxAtoms, s \in {0, 1} :
             \E c \in [1..n -> ChainPalette], r \in [1..n -> ResPalette] :
                T = [i \in 1..n |-> Row(c[i], r[i], i, IF s = 0 THEN i ELSE MaxSerial + i)]
        /\ fmt \in {"cif", "pdb"}
        /\ (fmt = "pdb" => Fits(T) /\ Len(T) <= 2)   \* a PDB-derived frame comes out of fixed columns
        /\ pc = "start" /\ out = T /\ result = "none" /\ k = 1 /\ cur = 0 /\ last = <<>>

\* ------------------------------------------------------------------ helpers (order of appearance)
RECURSIVE FirstOcc(_, _, _)
\* distinct values of key(T[i]) in order of first appearance
FirstOcc(S, i, seen) ==
  IF i > Len(S) THEN <<>>
  ELSE IF S[i] \in seen THEN FirstOcc(S, i + 1, seen)
  ELSE <<S[i]>> \o FirstOcc(S, i + 1, seen \cup {S[i]})
ChainOrder(U)    == FirstOcc([i \in 1..Len(U) |-> U[i].chain], 1, {})
PosIn(seq, v)    == CHOOSE p \in 1..Len(seq) : seq[p] = v
ResOrder(U, ch)  == LET rows == SelectSeq(U, LAMBDA a : a.chain = ch) IN
                    FirstOcc([i \in 1..Len(rows) |-> ResKey(rows[i])], 1, {})

Done(r) == /\ result' = r /\ pc' = "done" /\ UNCHANGED <<T, fmt, out, k, cur, last>>

\* ------------------------------------------------------------------ the algorithm
CanWrite ==
  /\ pc = "start"
  /\ IF fmt = "pdb" \/ T = <<>> \/ AlreadyFits(T) THEN Done("same")
     ELSE pc' = "check1" /\ UNCHANGED <<T, fmt, out, result, k, cur, last>>

Check1 ==
  /\ pc = "check1"
  /\ IF Len(T) + Cardinality(ChainSet(T)) > MaxSerial THEN Done("ValueError")
     ELSE pc' = "check2" /\ UNCHANGED <<T, fmt, out, result, k, cur, last>>

Check2 ==
  /\ pc = "check2"
  /\ IF Cardinality(ChainSet(T)) > Len(ChainIds) THEN Done("ValueError")
     ELSE pc' = "check3" /\ UNCHANGED <<T, fmt, out, result, k, cur, last>>

Check3 ==
  /\ pc = "check3"
  /\ IF IcodeFillnaRaises THEN Done("TypeError")
     ELSE IF MaxResPerChain(T) > MaxRes THEN Done("ValueError")
     ELSE pc' = "rename" /\ UNCHANGED <<T, fmt, out, result, k, cur, last>>

RenameChains ==
  /\ pc = "rename"
  /\ out' = [i \in 1..Len(out) |-> [out[i] EXCEPT !.chain = ChainIds[PosIn(ChainOrder(T), out[i].chain)]]]
  /\ pc' = "renumber" /\ k' = 1
  /\ UNCHANGED <<T, fmt, result, cur, last>>

\* for new_chain_id, group in df_fitted.groupby(chain_col): one group per step
RenumberResidues ==
  /\ pc = "renumber"
  /\ LET groups == ChainOrder(out) IN
     IF k <= Len(groups)
     THEN LET ch == groups[k]  ord == ResOrder(out, ch) IN
          /\ out' = [i \in 1..Len(out) |->
                       IF out[i].chain = ch
                       THEN [out[i] EXCEPT !.resseq = PosIn(ord, ResKey(out[i])), !.icode = <<>>]
                       ELSE out[i]]
          /\ k' = k + 1 /\ UNCHANGED <<pc, cur, last>>
     ELSE pc' = "serials" /\ k' = 1 /\ cur' = 0 /\ last' = <<>> /\ UNCHANGED out
  /\ UNCHANGED <<T, fmt, result>>

\* for index, row in df_fitted.iterrows()
RenumberSerial ==
  /\ pc = "serials"
  /\ IF k <= Len(out)
     THEN LET c == cur + (IF last # <<>> /\ out[k].chain # last THEN 2 ELSE 1) IN
          IF c > MaxSerial THEN Done("ValueError")          \* the safeguard inside the loop
          ELSE /\ out' = [out EXCEPT ![k].serial = c]
               /\ cur' = c /\ last' = out[k].chain /\ k' = k + 1
               /\ UNCHANGED <<T, fmt, pc, result>>
     ELSE pc' = "columns" /\ UNCHANGED <<T, fmt, out, result, k, cur, last>>

RenameColumns ==
  /\ pc = "columns"
  /\ IF RenameCollides THEN Done("ValueError") ELSE Done("fitted")

Next == CanWrite \/ Check1 \/ Check2 \/ Check3 \/ RenameChains \/ RenumberResidues \/ RenumberSerial \/ RenameColumns
Spec == Init /\ [][Next]_vars

\* ------------------------------------------------------------------ the spec's own existence statements
Injective(f)  == \A a, b \in DOMAIN f : a # b => f[a] # f[b]
ChainIdSet    == { ChainIds[i] : i \in 1..Len(ChainIds) }
RenamingExists(U) ==
  /\ \E cm \in [ChainSet(U) -> ChainIdSet] : Injective(cm)
  /\ \A ch \in ChainSet(U) : \E rm \in [ResSet(U, ch) -> 1..MaxRes] : Injective(rm)
\* "there is a renaming and a numbering such that the table fits"
ExistsFitLiteral(U) ==
  /\ RenamingExists(U)
  /\ \E S \in SUBSET (1..MaxSerial) : Cardinality(S) = Len(U)
ExistsFitWithTerLiteral(U) ==
  /\ RenamingExists(U)
  /\ \E S \in SUBSET (1..MaxSerial) : Cardinality(S) = Len(U) + ChainRuns(U)

\* ------------------------------------------------------------------ invariants (clauses of C10)
AtEnd == pc = "done"

\* L1, L2: the closed-form feasibility used on traces equals the literal existence statement
LemmaExists    == pc = "start" => (ExistsFit(T) <=> ExistsFitLiteral(T))
LemmaMustFit   == pc = "start" => (MustFit(T) <=> ExistsFitWithTerLiteral(T))

\* feasible => a table; ValueError only when no fit (with TER serials) exists; nothing else is raised
InvFitsOrValueError == AtEnd =>
  /\ result \in {"same", "fitted", "ValueError"}
  /\ result = "ValueError" => ~MustFit(T)
InvIdentityWhenFits == AtEnd /\ AlreadyFits(T) => result = "same" /\ out = T
InvFitted == AtEnd /\ result \in {"same", "fitted"} =>
  /\ Fits(out)
  /\ OrderAndFieldsKept(T, out)
  /\ RenamingBijective(T, out)
  /\ SerialsDistinct(out)
\* design lemma: the renumbering leaves a free serial for the TER after every chain run; for the last
\* run only when chains do not interleave (Check1 counts chains, not chain runs: with interleaved
\* chains the TER after the last atom can need serial MaxSerial + 1 -- not part of the C10 statement)
InvTerSerialFree == AtEnd /\ result = "fitted" =>
  /\ \A i \in 2..Len(out) : out[i].chain # out[i - 1].chain => out[i].serial >= out[i - 1].serial + 2
  /\ Len(out) > 0 /\ ChainRuns(T) = Cardinality(ChainSet(T)) => out[Len(out)].serial + 1 <= MaxSerial
\* the three feasibility tests agree with the existence statement except for tables whose chains
\* interleave (more chain runs than chains), where the safeguard inside the loop refuses
InvChecksVsExistence == AtEnd /\ result = "ValueError" =>
  ~ExistsFitWithTerLiteral(T)
=============================================================================
