------------------------------- MODULE Elements -------------------------------
(***************************************************************************)
(* Structural elements of a secondary structure, declaratively.            *)
(*   strand  = [first, last, sequence, structure]                          *)
(*   stem    = [s5, s3]          single = [strand, is5p, is3p]             *)
(*   hairpin = [strand]          loop   = [strands]                        *)
(* The clauses are the sentences of property C07.                          *)
(***************************************************************************)
EXTENDS SecStruct

Unpaired(m, i) == Partner(m, i) = 0
UnpairedSet(m, n) == { i \in 1..n : Unpaired(m, i) }

\* stems expected from the matching: <<5' first, 5' last, 3' first, 3' last>>
ExpectedStems(m) == { <<r[1], r[1] + r[3] - 1, r[2] - r[3] + 1, r[2]>> : r \in Regions(m) }

\* hairpins: pairs enclosing only unpaired nucleotides
ExpectedHairpins(m) == { p \in m : \A x \in (p[1] + 1)..(p[2] - 1) : Unpaired(m, x) }

\* interior of a strand: strictly between its ends, except the free end of a tail
Interior(first, last, is5p, is3p) ==
  { x \in first..last : (x > first \/ is5p) /\ (x < last \/ is3p) }

StrandOK(s, n)  == s.first \in 1..n /\ s.last \in 1..n /\ s.first <= s.last
SliceOK(s, seq, db) ==
  /\ s.sequence  = SubSeq(seq, s.first, s.last)
  /\ s.structure = SubSeq(db, s.first, s.last)

\* a loop: >= 2 strands, consecutive ends base-paired (cyclically), interiors unpaired
LoopClosed(m, ss) ==
  /\ Len(ss) >= 2
  /\ \A t \in 1..Len(ss) :
       LET nxt == IF t = Len(ss) THEN 1 ELSE t + 1 IN
       /\ Partner(m, ss[t].last) = ss[nxt].first
       /\ \A x \in (ss[t].first + 1)..(ss[t].last - 1) : Unpaired(m, x)

\* all strands of an element record e = [stems, singles, hairpins, loops]
RECURSIVE FlatLoops(_)
FlatLoops(ls) == IF ls = <<>> THEN <<>> ELSE Head(ls).strands \o FlatLoops(Tail(ls))
AllStrands(e) ==
  [k \in 1..Len(e.stems) |-> e.stems[k].s5] \o [k \in 1..Len(e.stems) |-> e.stems[k].s3]
  \o [k \in 1..Len(e.singles) |-> e.singles[k].strand]
  \o [k \in 1..Len(e.hairpins) |-> e.hairpins[k].strand]
  \o FlatLoops(e.loops)

\* how many single strands / hairpins / loop strands have x in their interior
CoverCount(e, x) ==
    Cardinality({ k \in 1..Len(e.singles) :
                    x \in Interior(e.singles[k].strand.first, e.singles[k].strand.last,
                                   e.singles[k].is5p, e.singles[k].is3p) })
  + Cardinality({ k \in 1..Len(e.hairpins) :
                    x \in Interior(e.hairpins[k].strand.first, e.hairpins[k].strand.last, FALSE, FALSE) })
  + LET LS == FlatLoops(e.loops) IN
    Cardinality({ k \in 1..Len(LS) : x \in Interior(LS[k].first, LS[k].last, FALSE, FALSE) })

\* first failing clause of C07 for element record e of matching m on 1..n
ElementsFail(m, n, seq, db, e) ==
  LET S == AllStrands(e) IN
  IF \E k \in 1..Len(S) : ~StrandOK(S[k], n) THEN "StrandInRange"
  ELSE IF \E k \in 1..Len(S) : ~SliceOK(S[k], seq, db) THEN "StrandSlices"
  ELSE IF { <<e.stems[k].s5.first, e.stems[k].s5.last, e.stems[k].s3.first, e.stems[k].s3.last>> :
              k \in 1..Len(e.stems) } # ExpectedStems(m) THEN "StemsPartition"
  ELSE IF Len(e.stems) # Cardinality(ExpectedStems(m)) THEN "StemsOnce"
  ELSE IF { <<e.hairpins[k].strand.first, e.hairpins[k].strand.last>> : k \in 1..Len(e.hairpins) }
          # ExpectedHairpins(m) THEN "HairpinsExact"
  ELSE IF Len(e.hairpins) # Cardinality(ExpectedHairpins(m)) THEN "HairpinsOnce"
  ELSE IF \E k \in 1..Len(e.loops) : ~LoopClosed(m, e.loops[k].strands) THEN "LoopsClosed"
  ELSE IF \E x \in UnpairedSet(m, n) : CoverCount(e, x) # 1 THEN "UnpairedCoveredOnce"
  \* the interior of a single strand is single-stranded: a 5' / 3' flag says that the strand's end is a free,
  \* unpaired end of the molecule (and only then does the end belong to the interior)
  ELSE IF \E k \in 1..Len(e.singles) :
            ~(Interior(e.singles[k].strand.first, e.singles[k].strand.last, e.singles[k].is5p, e.singles[k].is3p)
              \subseteq UnpairedSet(m, n)) THEN "SingleInteriorsUnpaired"
  ELSE "ok"

\* the behaviour of the one understood defect: a structure without any pair yields no element
PairlessHasNoElements(m, n, e) ==
  m = {} /\ n >= 1 /\ e.stems = <<>> /\ e.singles = <<>> /\ e.hairpins = <<>> /\ e.loops = <<>>
=============================================================================
