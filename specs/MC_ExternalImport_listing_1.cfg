SPECIFICATION Spec
CONSTANT Mode = "listing"
CONSTANT McAlphabet = {"c"}
CONSTANT McMaxLen = 0
CONSTANT McUnitKinds = {"plain", "icode", "sym9", "alt7", "negative", "plus", "few4", "few1", "empty", "nonint", "emptynum", "decimal"}
CONSTANT McTabKinds = {"three", "extra", "two", "spaces"}
CONSTANT McLabelKinds = {"lw", "lw_mixed", "lw_n", "lw_a", "lw_na", "stack", "stack_n", "br", "br_a", "bph", "bph_na", "unknown", "near", "empty"}
CONSTANT McWraps = {"none"}
CONSTANT MaxLines = 1
CONSTANT Contained = {"ValueError", "IndexError"}
CONSTANT McNameKinds = {"exact"}
CONSTANT McLwKinds = {"valid"}
CONSTANT MaxPairs = 0
CONSTANT McStackKinds = {"exact"}
CONSTANT MaxStackLen = 0
CONSTANT MaxStacks = 0
CONSTANT LwTest = "members"
INVARIANT Fr3dNeverRaises
INVARIANT LineYieldsExactlyOne
INVARIANT MalformedSkipped
INVARIANT UnknownKeptAsOther
CHECK_DEADLOCK FALSE
