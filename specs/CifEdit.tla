------------------------------ MODULE CifEdit ------------------------------
(***************************************************************************)
(* mmCIF item editing (C20).  Declarative definitions only.                *)
(*                                                                         *)
(* A concrete category is a record [name, attrs, rows]: attrs is a         *)
(* sequence of item names, rows a sequence of value sequences (values are  *)
(* opaque strings: only equality is used).  A concrete document is         *)
(* [block, nblocks, cats].  The ABSTRACT document - what the property      *)
(* talks about - forgets category order and item order:                    *)
(*     DocFun(d) = [category name |-> [row number |-> [item |-> value]]]   *)
(* Row order is kept (rows are numbered), whitespace/quoting never enters. *)
(*                                                                         *)
(* An operation is [kind, cat, from, to, alpha]:                           *)
(*   kind = "copy"    : copy item `from` onto item `to` of category cat    *)
(*   kind = "replace" : from = to = the item; alpha = substitution         *)
(*                      alphabet, a sequence of 1-character strings        *)
(* The implementation-shaped algorithm model lives in MC_CifEdit.          *)
(***************************************************************************)
EXTENDS Naturals, Sequences, FiniteSets, TLC

Ran(s) == { s[i] : i \in DOMAIN s }

\* ---- concrete documents -------------------------------------------------
WellFormedCat(c) ==
  /\ Len(c.attrs) >= 1
  /\ Cardinality(Ran(c.attrs)) = Len(c.attrs)
  /\ Len(c.rows) >= 1
  /\ \A k \in DOMAIN c.rows : Len(c.rows[k]) = Len(c.attrs)

CatNames(d) == { d.cats[i].name : i \in DOMAIN d.cats }

WellFormedDoc(d) ==
  /\ Cardinality(CatNames(d)) = Len(d.cats)
  /\ \A i \in DOMAIN d.cats : WellFormedCat(d.cats[i])

Idx(attrs, a) == CHOOSE i \in DOMAIN attrs : attrs[i] = a

\* TLC keeps [x \in S |-> e] as an unevaluated function: every application re-evaluates e (and, for the membership
\* test, S).  On documents with ten thousand rows that is quadratic.  Merging with the empty function / appending
\* the empty sequence yields the same value in evaluated form.
ForceFn(f)  == f @@ <<>>
ForceSeq(s) == s \o <<>>

\* ---- abstraction ----------------------------------------------------------
CatFun(c) ==
  LET ix == ForceFn([a \in Ran(c.attrs) |-> Idx(c.attrs, a)])
      items == Ran(c.attrs) IN
  ForceSeq([k \in DOMAIN c.rows |-> ForceFn([a \in items |-> c.rows[k][ix[a]]])])

DocFun(d) ==
  ForceFn([n \in CatNames(d) |-> CatFun(d.cats[CHOOSE i \in DOMAIN d.cats : d.cats[i].name = n])])

\* ---- operations -----------------------------------------------------------
\* items of an abstract category (every category has at least one row)
ItemsOf(C) == DOMAIN C[1]
ColOf(C, a) == ForceSeq([k \in DOMAIN C |-> C[k][a]])

\* "a missing category or source item"
Missing(F, op) == op.cat \notin DOMAIN F \/ op.from \notin ItemsOf(F[op.cat])

\* distinct values of a column in order of first occurrence
RECURSIVE DistinctUpTo(_, _)
DistinctUpTo(s, n) ==
  IF n = 0 THEN <<>>
  ELSE LET f == DistinctUpTo(s, n - 1) IN
       IF \E i \in DOMAIN f : f[i] = s[n] THEN f ELSE Append(f, s[n])
DistinctSeq(s) == DistinctUpTo(s, Len(s))

\* the alphabet is usable for the column: no repeated letter, long enough
AlphabetOK(col, alpha) ==
  /\ Cardinality(Ran(alpha)) = Len(alpha)
  /\ Len(alpha) >= Len(DistinctSeq(col))

\* the first-seen mapping: k-th distinct value (in row order) |-> k-th letter
FirstSeenMap(col, alpha) ==
  LET d == DistinctSeq(col) IN
  ForceFn([v \in Ran(d) |-> alpha[CHOOSE i \in DOMAIN d : d[i] = v]])      \* (Ran(d) = Ran(col))

MapPairs(M) == { <<v, M[v]>> : v \in DOMAIN M }
Injective(M) == \A u, v \in DOMAIN M : M[u] = M[v] => u = v

CopyCat(C, from, to) ==
  ForceSeq([k \in DOMAIN C |-> ForceFn([a \in DOMAIN C[k] \cup {to} |-> IF a = to THEN C[k][from] ELSE C[k][a]])])

ReplaceCat(C, item, M) ==
  ForceSeq([k \in DOMAIN C |-> ForceFn([a \in DOMAIN C[k] |-> IF a = item THEN M[C[k][a]] ELSE C[k][a]])])

\* the expected abstract document
Expected(F, op) ==
  IF Missing(F, op) THEN F
  ELSE [n \in DOMAIN F |->
          IF n # op.cat THEN F[n]
          ELSE IF op.kind = "copy" THEN CopyCat(F[n], op.from, op.to)
          ELSE ReplaceCat(F[n], op.to, FirstSeenMap(ColOf(F[n], op.to), op.alpha))]

\* the expected returned mapping, as a set of <<value, letter>> pairs
ExpectedMapPairs(F, op) ==
  IF op.kind # "replace" \/ Missing(F, op) THEN {}
  ELSE MapPairs(FirstSeenMap(ColOf(F[op.cat], op.to), op.alpha))

\* ---- the clauses of C20 (I = abstract input, O = abstract output) ----------
\* each later clause may assume the earlier ones (cascade order as listed)
FrameOtherCategories(I, O, op) ==
  /\ DOMAIN O = DOMAIN I
  /\ \A n \in DOMAIN I \ {op.cat} : O[n] = I[n]

FrameRowsAndOrder(I, O, op) == DOMAIN O[op.cat] = DOMAIN I[op.cat]

FrameOtherItems(I, O, op) ==
  \A k \in DOMAIN I[op.cat] :
    /\ DOMAIN O[op.cat][k] = DOMAIN I[op.cat][k] \cup {op.to}
    /\ \A a \in DOMAIN I[op.cat][k] \ {op.to} : O[op.cat][k][a] = I[op.cat][k][a]

CopyTargetEqualsSource(I, O, op) ==
  \A k \in DOMAIN I[op.cat] : O[op.cat][k][op.to] = I[op.cat][k][op.from]

\* pairs = the mapping the code returned, as a set of <<value, letter>>
ReplaceIsInjectiveFirstSeen(I, O, op, pairs) ==
  LET col == ColOf(I[op.cat], op.to)
      M   == FirstSeenMap(col, op.alpha) IN
  /\ pairs = MapPairs(M)
  /\ Injective(M)
  /\ \A k \in DOMAIN col : O[op.cat][k][op.to] = M[col[k]]

AllClauses(I, O, op, pairs) ==
  /\ FrameOtherCategories(I, O, op)
  /\ FrameRowsAndOrder(I, O, op)
  /\ FrameOtherItems(I, O, op)
  /\ op.kind = "copy" => CopyTargetEqualsSource(I, O, op)
  /\ op.kind = "replace" => ReplaceIsInjectiveFirstSeen(I, O, op, pairs)
=============================================================================
