SPECIFICATION Spec
CONSTANT R = 1
CONSTANT P2Origin = TRUE
CONSTANT Impl = "tertiary"
CONSTANT M1Order = "n1_x_b2"
CONSTANT Slice = FALSE
INVARIANT TypeOK
INVARIANT UndefinedIffDegenerate
INVARIANT LatticeOctant
INVARIANT ReversalKeeps
INVARIANT MirrorNegates
CHECK_DEADLOCK FALSE
