SPECIFICATION Spec
CONSTANT Part = "bph"
CONSTANT NRes = 2
CONSTANT MaxLabels = 1
CONSTANT MaxCount = 1
CONSTANT MaxO2 = 0
CONSTANT O2Twice = TRUE
CONSTANT StackFlagsFull = "few"
INVARIANT MergeMatches
INVARIANT OneClass
INVARIANT ClassImpliedInv
INVARIANT NeverUnmerged
INVARIANT TableLaws
CHECK_DEADLOCK FALSE
