#!/usr/bin/env python3
"""Regenerate MANIFEST.json from the per-property entries below (kept in one place so the
manifest stays valid while properties are added).  Run: python3 tools/mkmanifest.py"""
import json
import os

HERE = os.path.dirname(os.path.dirname(os.path.abspath(__file__)))

COMMON_NOTE = ("Trusted base: TLC 1.8 evaluating the TLA+ clauses; the Python harness only materialises inputs, calls "
               "the public API of /repo/src, projects results to JSON and maps TLC verdict lines to exit codes. ")

CHECKS = {
    "C01": dict(
        category="model_checking", design="DESIGN.md §4/C01",
        technique="TLA+ spec (Bracket, SecStruct) + TLC: design-level model check of the encoders, TLC-enumerated "
                  "matchings replayed into the code, trace validation by a TLC stack-machine decoder",
        text="MC_SecStruct model-checks the encoder algorithms (stem scan, FCFS, MILP-as-any-optimum, permutation greedy, "
             "fill) for every matching on 1..N with the losslessness clauses and lemmas L1-L6 as invariants; TLC "
             "(Gen_SecStruct) enumerates every matching n<=9 (quick) / n<=12 (thorough), the real BpSeq answers "
             "(dot_bracket, fcfs, all_dot_brackets, str/from_string) plus random structures up to 30 levels, every balanced "
             "text over 3 bracket types (converse direction) and multi-strand texts are recorded and each is decoded and "
             "compared by Trace_SecStruct. Exhaustive within the bound, sampled beyond it.",
        note=COMMON_NOTE + "dot_bracket is not asked for structures whose conflict components exceed 10 stems (the MILP is "
             "exponential there) and all_dot_brackets only where the permutation product is <= 1000; those cases check fcfs "
             "and the converse direction only."),
    "C02": dict(
        category="model_checking", design="DESIGN.md §4/C02",
        technique="TLA+ spec (SecStruct) + TLC brute-force optimum over all proper level assignments per conflict "
                  "component; trace validation of the real MILP result",
        text="The optimum is defined declaratively in TLA+ (Opt = max of Obj over all proper assignments, by components; "
             "lemma L4 model-checked: the level bound and the decomposition lose nothing). For every matching n<=9/11 and "
             "seeded knotted structures the recorded notation's objective (read pair by pair from the text) must equal the "
             "brute-force optimum, be proper, stable (no stem movable lower), >= FCFS, and round-only when pseudoknot-free; "
             "both entry points (property and explicit solver).",
        note=COMMON_NOTE + "Global optimality is decided only where TLC can brute-force it (components <= 7 stems and <= 1e5 "
             "candidates); beyond that only the polynomial consequences. Only CBC is installed."),
    "C07": dict(
        category="model_checking", design="DESIGN.md §4/C07",
        technique="TLA+ spec (Elements) + TLC: design-level model of the stop/candidate/link/close algorithm on every "
                  "matching; trace validation of BpSeq.elements and motif_extractor.main output",
        text="MC_Elements explores the elements algorithm action by action for every matching n<=8/9 with the declarative "
             "clauses (StemsPartition, HairpinsExact, LoopsClosed, UnpairedCoveredOnce, StrandSlices) as invariant, plus a "
             "negative control for the repaired pairless defect; the element lists returned by the real code for every "
             "matching n<=9/12, random larger structures and the CLI's printed lines are validated by Trace_Elements.",
        note=COMMON_NOTE + "Completeness of loop reporting is not demanded (the statement only constrains reported loops and "
             "coverage of unpaired nucleotides)."),
    "C12": dict(
        category="model_checking", design="DESIGN.md §4/C12",
        technique="TLA+ heap/object spec (BpSeqObject) + TLC over all call interleavings; TLC-generated histories replayed "
                  "on real objects; trace validation of every step against the spec's transition function",
        text="BpSeqObject models Entry cells, object references, the pairs dict and cached_property slots; MC_BpSeqObject "
             "explores every interleaving of the 9 public methods on every live object (FramePurity as an action property, "
             "AnswerStability, removal semantics, CachesFresh) and fails for the aliasing variant (negative control). "
             "Gen_BpSeqObject enumerates every enabled history of depth 2/3; these and random histories of 6/8 calls are "
             "executed on real objects, logging after each call the answer, a fresh copy's answer and the text/pairs of all "
             "live objects; Trace_BpSeqObject replays each history through the same Do function.",
        note=COMMON_NOTE + "Object identity of returned objects is not prescribed. Cache population is read from __dict__."),
    "C13": dict(
        category="fault_enumeration", design="DESIGN.md §4/C13",
        technique="TLA+ automaton (PoaSolver) + TLC over the full configuration x fault x entry product; injected solver "
                  "fakes; event traces replayed through the automaton's transition function",
        text="MC_PoaSolver enumerates Entries x Configs x Faults x {knotted, pk-free} (72 initial states) with NeverRaises, "
             "NotOptimalImpliesFcfs, OkImpliesOptimal, EventsAsExpected and termination; the as-implemented variant is the "
             "negative control. Every one of the 36 cells is executed on 16/300 structures with harness-side pulp fakes; "
             "Domain_PoaSolver proves the product was covered; Trace_PoaSolver replays the logged solver events and checks "
             "the returned text (lossless; equals the spec's FCFS text whenever the solver cannot deliver an optimum; "
             "optimal otherwise).",
        note=COMMON_NOTE + "HiGHS is absent: the 'highs' configuration is a fake that delegates to CBC. Faults are injected "
             "by patching pulp.HiGHS_CMD / pulp.LpSolverDefault around one call."),
    "C16": dict(
        category="model_checking", design="DESIGN.md §4/C16",
        technique="TLA+ spec (SecStruct: Grundy-stable assignments) + TLC set enumeration per conflict component; trace "
                  "validation of the real all_dot_brackets list",
        text="Lemma L6 (first-fit over all vertex orders = Grundy-stable proper colourings) and PermStable are model-checked "
             "in MC_SecStruct; for every matching n<=9/12 and random structures with components up to 7/8 stems the recorded "
             "list must have no repetition, only lossless stable members, exactly |prod StableSet(C)| members, contain the "
             "optimal and the spec's FCFS text, and be the single round-bracket text when pseudoknot-free.",
        note=COMMON_NOTE + "List order is not compared here (C14). Components above 8 stems are outside the statement."),
}

CHECKS["C05"] = dict(
    category="exploration", design="DESIGN.md §4/C05",
    technique="TLA+ state machine of presentations (Presentation.tla); TLC -simulate generates behaviours that are "
              "replayed on corpus structures; TLC trace validation of the frame property with the 1e-6 margin rule",
    text="Presentation.tla models rigid motions (seeded random rotations, the 23 exact axis permutations, integer "
         "translations up to +-500 A), atom order, order-preserving chain/number renaming and the delivery format "
         "(object / PDB / mmCIF) with the guard that text never carries a random rotation (model-checked). TLC -simulate "
         "draws 60/900 behaviours of 4/6 steps; each is replayed cumulatively on corpus structures (thorough: also jittered "
         "ones), the real reader + extract_secondary_structure run after every step, and Trace_Presentation requires the "
         "canonical annotation (pairs+classes, stackings, BPh, BR, BPSEQ, dot-bracket, extended dot-bracket, elements) of "
         "every state to equal the first state's unless the independently measured margin of some decision quantity is "
         "below 1e-6. Sampling, not exhaustive: exploration level.",
    note=COMMON_NOTE + "Motions, re-emission and margins are harness-side numerics (numpy); TLC decides equality and the "
         "margin rule. BPh/BR lists are compared as sets.")

import sys
sys.path.insert(0, os.path.dirname(os.path.abspath(__file__)))
import manifest_entries  # noqa: E402
CHECKS.update(manifest_entries.ENTRIES)
for _pid, _more in manifest_entries.ADDENDA.items():
    CHECKS[_pid] = dict(CHECKS[_pid], text=CHECKS[_pid]["text"] + " " + _more)

PENDING = {}   # property id -> reason (kept honest while a check is being built)


def main():
    props = [json.loads(l) for l in open(os.path.join(HERE, "properties.jsonl"))]
    checks, na = [], []
    for p in props:
        pid = p["id"]
        if pid in CHECKS and os.path.exists(os.path.join(HERE, "harness", "props", pid.lower() + ".py")):
            c = CHECKS[pid]
            checks.append({
                "property_id": pid,
                "quick_cmd": f"./check {pid} --tier quick",
                "thorough_cmd": f"./check {pid} --tier thorough",
                "evidence_file": f"/verif/evidence/{pid}.json",
                "replay_cmd_template": f"./check {pid} --replay {{path}}",
                "engine": "tlc",
                "level_claimed": {"category": c["category"], "text": c["text"], "design_ref": c["design"]},
                "level_note": c["note"],
                "technique": c["technique"],
            })
        else:
            na.append({"property_id": pid, "reason": PENDING.get(pid, "check not yet integrated (under construction); "
                                                                  "no claim is made for this property at this commit")})
    m = {
        "version": 1,
        "setup_cmd": "./setup.sh",
        "hooks": {"guard": "RNAPOLIS_VERIF", "enable": "no source hooks are used; checks import /repo/src directly "
                  "(VERIF_REPO overrides the tree under test)",
                  "baseline_off_cmd": "cd /repo && /venv/bin/python -m pytest -ra -q -p no:cacheprovider --timeout=900 "
                                      "--continue-on-collection-errors",
                  "source_commits": [], "add_only": True},
        "engines": [{"name": "tlc", "path": "/verif/harness/lib.py",
                     "serves_properties": [c["property_id"] for c in checks],
                     "kind_free_text": "TLC 1.8 on explicit TLA+ specifications in /verif/specs: MC_* design-level model "
                                       "checks, Gen_* input/behaviour generation, Trace_* validation of recorded results "
                                       "of the real code"}],
        "checks": checks,
        "notes": "Known findings: /verif/known_findings.json. Exit 2 = machinery failure. See DESIGN.md. Beyond the listed properties: ./check X01 (rnapolis.unifier; specs Unifier/MC_Unifier/Trace_Unifier) , ./check X02 (annotator CLI end to end; specs Pipeline/Trace_Pipeline) , ./check X03 (splitter CLI protocol; specs Splitter/Trace_Splitter) , ./check X04 (metareader; specs Metareader/Trace_Metareader) and ./check X05 (rfam_folder lock protocol; specs RfamLock/Trace_RfamLock; found and fixed a lock leak); evidence in extras/evidence; DESIGN 11.5 - not claimed here.",
        "not_applicable": na,
    }
    with open(os.path.join(HERE, "MANIFEST.json"), "w") as f:
        json.dump(m, f, indent=1)
    print(f"MANIFEST.json: {len(checks)} checks, {len(na)} not claimed")


if __name__ == "__main__":
    main()
