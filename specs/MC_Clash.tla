------------------------------ MODULE MC_Clash ------------------------------
(***************************************************************************)
(* Design-level model of rnapolis.clashfinder, action by action as the     *)
(* code performs it, explored for EVERY configuration of NAtoms atoms on a *)
(* line (integer coordinates, 0.01 A) in two residues and all 32 options:  *)
(*   CollectResidue   outer loop of find_clashes: keep C/N/O/P atoms of    *)
(*                    (nucleotide) residues as reference atoms             *)
(*   TooFew           fewer than two reference atoms: return []            *)
(*   QueryPairs       KDTree.query_pairs(2 * max_radius + molprobity)      *)
(*   ExaminePair      one iteration of the pair loop, pairs in ANY order   *)
(*                    (set iteration): autoclash / same-name / distance /  *)
(*                    occupancy cascade, append to the result              *)
(*   AddClash         main(): one iteration of the aggregation loop        *)
(*   Report           main(): printing and the --csv branch                *)
(* Variants selected by constants (Required must pass, AsImplemented is    *)
(* the negative control for a genuine defect):                             *)
(*   OccDefault      "none_only" | "falsy"        (occupancy or 1.0)       *)
(*   ChainFoldReads  "chain_map" | "residue_map"  max_occupancy_chains     *)
(*   CsvMetadataArg  "file" | "path"              read_metadata(args.input)*)
(*   MaxRadiusOver   "all" | "carbon"             (sanity control only)    *)
(***************************************************************************)
EXTENDS Clash, TLC

CONSTANTS NAtoms, MTypes, MOccs, MGaps, MNuc1, MMidRes, MLastFixed,
          OccDefault, ChainFoldReads, CsvMetadataArg, MaxRadiusOver

Absent == 101     \* element of MOccs meaning "no occupancy recorded"

VARIABLES S,        \* the structure (atoms, residues)
          xs,       \* coordinate of each atom (centi-A, on a line)
          o,        \* the five options
          pc, ridx,
          refs,     \* reference atoms, residue-major, as atom indices
          cand,     \* pairs of reference positions still to examine
          result,   \* listed clashes <<ri, ai, rj, aj, sum (thousandths)>>
          k, resmax, chainmax,
          printed,  \* what main prints: chain maxima, residue maxima, atom clashes
          csv
vars == <<S, xs, o, pc, ridx, refs, cand, result, k, resmax, chainmax, printed, csv>>

NameIdx(i) == IF i <= 2 THEN "1" ELSE "2"      \* atoms 1 and 2 share a name iff they share a type
Abs(v) == IF v < 0 THEN 0 - v ELSE v
RECURSIVE Coord(_, _)
Coord(g, i) == IF i = 1 THEN 0 ELSE Coord(g, i - 1) + g[i - 1]
DistUM(i, j) == Abs(xs[i] - xs[j]) * UM
Close == { <<i, j, DistUM(i, j)>> : <<i, j>> \in { p \in (1..NAtoms) \X (1..NAtoms) : p[1] < p[2] } }

Init ==
  /\ \E ty \in [1..NAtoms -> MTypes], oc \in [1..NAtoms -> MOccs], g \in [1..(NAtoms - 1) -> MGaps],
        rm \in [1..NAtoms -> {1, 2}], ch2 \in {"A", "B"}, n1 \in MNuc1, n2 \in BOOLEAN :
        /\ (MLastFixed => ty[NAtoms] = "C" /\ oc[NAtoms] = 100)    \* quick: the last atom is a plain carbon
        /\ rm[1] = 1 /\ rm[NAtoms] = 2 /\ \A i \in 2..(NAtoms - 1) : rm[i] \in MMidRes
        /\ S = [atoms |-> [i \in 1..NAtoms |-> [r |-> rm[i], name |-> <<ty[i], NameIdx(i)>>,
                                                 occ |-> IF oc[i] = Absent THEN 0 ELSE oc[i],
                                                 hasocc |-> oc[i] # Absent]],
                res |-> << [chain |-> "A", nuc |-> n1], [chain |-> ch2, nuc |-> n2] >>]
        /\ xs = [i \in 1..NAtoms |-> Coord(g, i)]
  /\ o \in AllOptions
  /\ pc = "collect" /\ ridx = 1 /\ refs = <<>> /\ cand = {} /\ result = <<>> /\ k = 1
  /\ resmax = <<>> /\ chainmax = <<>> /\ printed = <<>> /\ csv = [err |-> "", rows |-> <<>>]

\* for residue in residues: if (nucleic_acid_only and residue.is_nucleotide) or not nucleic_acid_only:
\*     for atom in residue.atoms: if any(atom_type.matches(atom)): reference_atoms.append(atom)
AtomsOf(r) == SelectSeq([i \in 1..NAtoms |-> i], LAMBDA i : S.atoms[i].r = r)
CollectResidue ==
  /\ pc = "collect" /\ ridx <= Len(S.res)
  /\ refs' = IF (o.na /\ S.res[ridx].nuc) \/ ~o.na
             THEN refs \o SelectSeq(AtomsOf(ridx), LAMBDA i : TypeOf(S.atoms[i].name) \in Types)
             ELSE refs
  /\ ridx' = ridx + 1
  /\ pc' = IF ridx = Len(S.res) THEN "query" ELSE "collect"
  /\ UNCHANGED <<S, xs, o, cand, result, k, resmax, chainmax, printed, csv>>

TooFew ==
  /\ pc = "query" /\ Len(refs) < 2
  /\ pc' = "fold"
  /\ UNCHANGED <<S, xs, o, ridx, refs, cand, result, k, resmax, chainmax, printed, csv>>

\* max_radius = max(radius of every atom type); query_pairs(2.0 * max_radius + molprobity_factor)
ModelMaxRadius == IF MaxRadiusOver = "all" THEN MaxRadius ELSE Radius["C"]
QueryPairs ==
  /\ pc = "query" /\ Len(refs) >= 2
  /\ cand' = { p \in (1..Len(refs)) \X (1..Len(refs)) :
                 p[1] < p[2] /\ DistUM(refs[p[1]], refs[p[2]]) <= (2 * ModelMaxRadius + Extra(o)) * UM }
  /\ pc' = "examine"
  /\ UNCHANGED <<S, xs, o, ridx, refs, result, k, resmax, chainmax, printed, csv>>

OccImpl(a) == OccVal(a, IF OccDefault = "falsy" THEN "falsy_is_full" ELSE "required")
ExaminePair ==
  /\ pc = "examine" /\ cand # {}
  /\ \E p \in cand :
       LET i == refs[p[1]]  j == refs[p[2]]  a == S.atoms[i]  b == S.atoms[j]
           sum == OccImpl(a) + OccImpl(b) IN
       /\ cand' = cand \ {p}
       /\ result' =
            IF o.ia /\ a.r = b.r THEN result                                  \* continue
            ELSE IF o.sn /\ a.name # b.name THEN result                       \* continue
            ELSE IF DistUM(i, j) > Threshold(TypeOf(a.name), TypeOf(b.name), o) THEN result
            ELSE IF o.io \/ sum = 100 THEN Append(result, <<a.r, i, b.r, j, sum * 10>>)
            ELSE result
  /\ UNCHANGED <<S, xs, o, pc, ridx, refs, k, resmax, chainmax, printed, csv>>

ExamineDone ==
  /\ pc = "examine" /\ cand = {}
  /\ pc' = "fold"
  /\ UNCHANGED <<S, xs, o, ridx, refs, cand, result, k, resmax, chainmax, printed, csv>>

\* for pi, pj, occupancy in clashes: ... max_occupancy_residues[...] = max(...); max_occupancy_chains[...] = max(...)
AddClash ==
  /\ pc = "fold" /\ k <= Len(result)
  /\ resmax' = AddClashRes(resmax, result[k])
  /\ chainmax' = AddClashChain(S, chainmax, result[k], ChainFoldReads)
  /\ k' = k + 1
  /\ UNCHANGED <<S, xs, o, pc, ridx, refs, cand, result, printed, csv>>

Report ==
  /\ pc = "fold" /\ k > Len(result)
  /\ printed' = [chains |-> chainmax, residues |-> resmax, atoms |-> result]
  /\ csv' = IF result = <<>> THEN csv                                   \* `if clashing_chains:` guards the CSV branch
            ELSE IF CsvMetadataArg = "file" THEN [err |-> "", rows |-> result]
            ELSE [err |-> "AttributeError", rows |-> <<>>]              \* 'str' object has no attribute 'name'
  /\ pc' = "done"
  /\ UNCHANGED <<S, xs, o, ridx, refs, cand, result, k, resmax, chainmax>>

Next == CollectResidue \/ TooFew \/ QueryPairs \/ ExaminePair \/ ExamineDone \/ AddClash \/ Report
Spec == Init /\ [][Next]_vars

\* ---------------------------------------------------------------- invariants (the clauses)
Done == pc = "done"

\* static lemma: the KD-tree radius is large enough for every type pair in both modes
InvSearchRadiusCovers == SearchRadiusCovers
\* dynamic form: no pair the definition wants is lost by the KD-tree prefilter
InvKDTreeComplete ==
  pc = "examine" =>
     \A q \in MustList(S, Close, 0, o, IF OccDefault = "falsy" THEN "falsy_is_full" ELSE "required") :
        \/ \E p \in cand : {refs[p[1]], refs[p[2]]} = {q[1], q[2]}
        \/ q \in ListedPairs(result)

InvClashSetExact == Done => ClashSetExact(S, Close, 0, o, "required", result)
InvEachPairOnce  == Done => EachPairOnce(result)
InvResidueOfAtom == \A e \in SeqRange(result) : S.atoms[e[2]].r = e[1] /\ S.atoms[e[4]].r = e[3]
InvResidueMaxima == Done => /\ DOMAIN printed.residues = { ResKey(e) : e \in SeqRange(result) }
                            /\ \A rk \in DOMAIN printed.residues : printed.residues[rk] = MaxOf(SumsOfRes(result, rk))
InvChainMaxima   == Done => /\ DOMAIN printed.chains = { ChainKey(S, e) : e \in SeqRange(result) }
                            /\ \A ck \in DOMAIN printed.chains : printed.chains[ck] = MaxOf(SumsOfChain(S, result, ck))
InvCsvListsSame  == Done => csv.err = "" /\ csv.rows = printed.atoms
=============================================================================
