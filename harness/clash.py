"""Case generation, materialisation and recording for C17 (rnapolis.clashfinder).

The harness materialises inputs (Residue3D/Atom objects, PDB / mmCIF files), calls the public API
(`find_clashes`, `main`), projects the answers to small JSON values and - for non-palette
structures only - measures inter-atomic distances with an independent O(n^2) numpy measurer.
No judgement happens here: radii, thresholds, filters, the occupancy rule and the maxima live in
specs/Clash.tla and every verdict is made by Trace_Clash.tla."""
import contextlib
import csv as _csv
import io
import shutil
import json
import os
import random
import re
import sys
from fractions import Fraction

import numpy as np

from . import lib

# ------------------------------------------------------------------ options
OPT_KEYS = ("io", "ia", "na", "sn", "mp")
OPTIONS = [{k: bool((n >> b) & 1) for b, k in enumerate(OPT_KEYS)} for n in range(32)]
FLAGS = {"io": "--ignore-occupancy", "ia": "--ignore-autoclashes", "na": "--nucleic-acid-only",
         "sn": "--require-same-atom-name", "mp": "--enable-molprobity-mode"}


def call_args(o):
    # find_clashes(residues, ignore_occupancy, ignore_autoclashes, nucleic_acid_only,
    #              require_same_atom_name, enable_molprobity_mode)
    return (o["io"], o["ia"], o["na"], o["sn"], o["mp"])


# ------------------------------------------------------------------ spec -> code: Gen_Clash
def gen(scratch):
    """TLC enumerates the exhaustive pair family and exports the palettes."""
    out, pal = scratch.path("clash-pairs.ndjson"), scratch.path("clash-palette.json")
    r = lib.tlc("Gen_Clash", "Empty.cfg", workers=1, env={"OUT_FILE": out, "PALETTE_FILE": pal},
                scratch=scratch, xmx="2g", tag="gen", timeout=600)
    if not r["ok"] or not os.path.exists(out) or not os.path.exists(pal):
        raise lib.MachineryError("Gen_Clash failed:\n" + r["out"][-2000:])
    with open(pal) as f:
        palette = json.load(f)
    palette["gaps"].sort()
    cases = []
    with open(out) as f:
        for line in f:
            cases.append(json.loads(line))
    m = re.search(r'<<"GENERATED", (\d+)>>', r["out"])
    if not m or int(m.group(1)) != len(cases):
        raise lib.MachineryError("Gen_Clash: exported case count differs from the enumerated set")
    key = lambda c: (c["ta"], c["tb"], c["cls"], c["rel"], c["nuc1"], c["nuc2"], c["same"], c["occa"], c["occb"])
    cases.sort(key=key)
    os.remove(out)
    os.remove(pal)
    return cases, palette


def at_reading_agrees(ta, tb, d, palette):
    """Boundary cases (distance exactly equal to a threshold, in 0.01 A): the statement read on
    decimals says 'listed'.  Coordinates and radii are binary doubles, though; the case is only
    generated when the exact comparison of those doubles says 'listed' as well (otherwise the
    statement does not decide the case).  Radii come from the spec's palette export."""
    R = palette["radius"]
    for extra in (0, palette["extra"]):
        if d == R[ta] + R[tb] + extra:
            dist = Fraction(float("%.3f" % (d / 100)))
            thr = Fraction(R[ta] / 100) + Fraction(R[tb] / 100) + Fraction(extra / 100)
            if not dist <= thr:
                return False
    return True


def pair_to_abstract(c, k):
    """Pair family case (Gen_Clash) -> abstract configuration (atom a at the palette origin)."""
    rb = 1 if c["rel"] == "same" else 2
    res = [{"chain": "A", "nuc": c["nuc1"]}]
    if rb == 2:
        # two residues of one chain: every second case numbers them N and N^A (same number, insertion code)
        res.append({"chain": "A" if c["rel"] == "chain" else "B", "nuc": c["nuc2"],
                    "ins": c["rel"] == "chain" and k % 2 == 1})
    return {"fam": "pair", "cls": c["cls"], "axis": k % 3,
            "test": [{"t": c["ta"], "k": 0, "r": 1, "occ": c["occa"], "x": 0},
                     {"t": c["tb"], "k": 0 if c["same"] else 1, "r": rb, "occ": c["occb"], "x": c["d"]}],
            "res": res}


def multi_abstract(rng, palette, dense=False):
    """Random multi-atom configuration composed from the spec-exported palettes: 3-5 test atoms on
    the palette line (dense: only the short gap classes, so that most pairs clash), two residues in
    one or two chains.  Accidental distances exactly on a
    threshold are not generated (the pair family owns the boundary)."""
    R, extra = palette["radius"], palette["extra"]
    types = palette["types"]
    while True:
        n = rng.randint(3, 5)
        ts = [rng.choice(types[:4] * 3 + types[4:]) for _ in range(n)]
        xs = [0]
        for _ in range(n - 1):
            xs.append(xs[-1] + rng.choice(palette["gaps"][:len(palette["gaps"]) // 3] if dense else palette["gaps"]))
        if not any(ts[i] in R and ts[j] in R and abs(xs[i] - xs[j]) - R[ts[i]] - R[ts[j]] in (0, extra)
                   for i in range(n) for j in range(i + 1, n)):
            break
    three = rng.random() < 0.3       # three residues, the middle one in another chain (chains A, B, A: clashes
    rs = [rng.choice((1, 2, 3) if three else (1, 2)) for _ in range(n)]     # between the chains in both orders)
    rs[rng.randrange(n)] = 1
    if 2 not in rs:
        rs[rs.index(1) - 1] = 2
    if three and 3 not in rs:
        cand = [i for i in range(n) if rs.count(rs[i]) > 1]
        if cand:
            rs[rng.choice(cand)] = 3
        else:
            three = False
    test = [{"t": ts[i], "k": rng.choice((0, 0, 1, 2)), "r": rs[i], "occ": rng.choice(palette["occs"]), "x": xs[i]}
            for i in range(n)]
    rng.shuffle(test)
    if three and 3 in rs:
        return {"fam": "multi", "axis": rng.randrange(3), "test": test,
                "res": [{"chain": "A", "nuc": rng.random() < 0.6}, {"chain": "B", "nuc": rng.random() < 0.6},
                        {"chain": "A", "nuc": rng.random() < 0.6}]}
    return {"fam": "multi", "axis": rng.randrange(3), "test": test,
            "res": [{"chain": "A", "nuc": rng.random() < 0.6},
                    {"chain": rng.choice("AB"), "nuc": rng.random() < 0.6, "ins": rng.random() < 0.3,
                     "lig": rng.random() < 0.3}]}


def crowd_abstract(rng, palette, n=20):
    """A crowd: n test atoms within about 2 A of one another on the palette line (a collapsed region, a superposed
    copy) - every atom has more neighbours inside the search radius than any real structure gives it."""
    R, extra = palette["radius"], palette["extra"]
    types = [t for t in palette["types"] if t in R]
    short = [7, 9, 11, 13]        # 0.01 A: twenty atoms span less than 2.5 A
    while True:
        ts = [rng.choice(types) for _ in range(n)]
        xs = [0]
        for _ in range(n - 1):
            xs.append(xs[-1] + rng.choice(short))
        if not any(abs(xs[i] - xs[j]) - R[ts[i]] - R[ts[j]] in (0, extra) for i in range(n) for j in range(i + 1, n)):
            break
    test = [{"t": ts[i], "k": i, "r": 1 + i % 2, "occ": rng.choice([100, 100, 50]), "x": xs[i]} for i in range(n)]
    return {"fam": "crowd", "axis": rng.randrange(3), "test": test,
            "res": [{"chain": "A", "nuc": False}, {"chain": "B", "nuc": False}]}


# ------------------------------------------------------------------ materialisation
# atom names by type; index k selects the name (same (type, k) = same name)
NAMES = {"C": ["C1'", "C2'", "C3'", "C4'", "C5'"], "N": ["N1", "N3", "N9", "N7"],
         "O": ["OP1", "OP2", "O3'", "O5'", "O4'", "O2'"], "P": ["P", "PA", "PB"],
         "X": ["H1'", "H2'", "H3'", "H4'", "H5'"]}
# what a residue needs for Residue3D.is_nucleotide to say yes: whole phosphate, whole sugar, one base atom
NUCLEOTIDE_ATOMS = ["P", "OP1", "OP2", "O3'", "O5'", "C1'", "C2'", "C3'", "C4'", "C5'", "O4'", "N1"]
BALLAST_START, BALLAST_STEP = 2400, 400     # centi-A: far from the test atoms and from one another


def materialise(ab, shuffle_seed=0):
    """abstract palette configuration -> concrete structure description (all coordinates are
    integers in 0.01 A on one line, carried along axis ab['axis'])."""
    res = [{"chain": r["chain"], "number": k + 1, "icode": None, "resname": ("G", "C", "U", "A")[k] if r["nuc"] else "LIG",
            "want_nuc": r["nuc"]} for k, r in enumerate(ab["res"])]
    if len(res) == 2 and ab["res"][1].get("lig") and res[1]["want_nuc"]:
        res[1]["lig"], res[1]["resname"] = True, "2BA"          # a nucleotide ligand (non-polymer entity in mmCIF)
    if len(res) == 2 and ab["res"][1].get("twin") and res[0]["want_nuc"] == res[1]["want_nuc"]:
        # a symmetry mate that keeps the author identity of residue 1 (chain, number, name); only the label chain
        # tells the two apart, so both print the same name
        res[1].update(chain=res[0]["chain"], number=res[0]["number"], icode=None, resname=res[0]["resname"],
                      label_chain="Z")
    elif len(res) == 2 and ab["res"][1].get("ins") and res[0]["chain"] == res[1]["chain"]:
        res[1]["number"], res[1]["icode"] = res[0]["number"], "A"       # residues N and N^A
    per = {k + 1: [] for k in range(len(res))}
    for t in ab["test"]:
        name = NAMES[t["t"]][t["k"] % len(NAMES[t["t"]])]
        per[t["r"]].append({"name": name, "occ": None if t["occ"] == 101 else t["occ"], "x": t["x"], "test": True})
    if len(res) == 2 and res[1].get("label_chain"):
        # the symmetry mate is a shifted copy of residue 1: every clash inside residue 1 exists twice and both
        # copies print alike
        per[2] = [dict(a, x=a["x"] + 50000) for a in per[1]]
    slot = 0
    for k, r in enumerate(ab["res"]):
        if r["nuc"]:
            have = {a["name"] for a in per[k + 1]}
            for name in NUCLEOTIDE_ATOMS:
                if name not in have:
                    per[k + 1].append({"name": name, "occ": 100, "x": BALLAST_START + BALLAST_STEP * slot, "test": False})
                    slot += 1
    rng = random.Random(shuffle_seed)
    atoms = []
    keep = []
    for k in range(len(res)):
        if not per[k + 1]:
            continue            # a residue without atoms does not exist
        keep.append(k)
        rng.shuffle(per[k + 1])
        for a in per[k + 1]:
            xyz = [0.0, 0.0, 0.0]
            xyz[ab["axis"]] = float("%.3f" % (a["x"] / 100))
            atoms.append({"r": len(keep), "name": a["name"], "occ": a["occ"], "x": a["x"], "xyz": tuple(xyz),
                          "test": a["test"]})
    return {"res": [res[k] for k in keep], "atoms": atoms, "entities": True}


def build_objects(st):
    """structure description -> Residue3D / Atom objects of the code under test."""
    from rnapolis.common import ResidueAuth
    from rnapolis.tertiary import Atom, Residue3D
    residues, atom_objs = [], [None] * len(st["atoms"])
    for k, r in enumerate(st["res"]):
        auth = ResidueAuth(r["chain"], r["number"], r.get("icode"), r["resname"])
        mine = []
        for i, a in enumerate(st["atoms"]):
            if a["r"] == k + 1:
                occ = None if a["occ"] is None else a["occ"] / 100
                obj = Atom(None, None, auth, 1, a["name"], a["xyz"][0], a["xyz"][1], a["xyz"][2], occ)
                atom_objs[i] = obj
                mine.append(obj)
        residues.append(Residue3D(None, auth, 1, r.get("one", "N"), tuple(mine)))
    return residues, atom_objs


# ------------------------------------------------------------------ independent measurer
def measure_close(xyz, cutoff_a, um_per_a=1000000):
    """All atom pairs (i < j, 1-based) nearer than cutoff, with the distance in micro-Angstrom.
    Plain O(n^2) numpy arithmetic, in row blocks; shares nothing with the code under test."""
    P = np.asarray(xyz, dtype=float).reshape(-1, 3)
    n = len(P)
    out = []
    for s in range(0, n, 512):
        blk = P[s:s + 512]
        d2 = ((blk[:, None, :] - P[None, :, :]) ** 2).sum(axis=2)
        ii, jj = np.nonzero(d2 <= cutoff_a * cutoff_a)
        for a, b in zip(ii.tolist(), jj.tolist()):
            i = s + a
            if i < b:
                out.append([i + 1, b + 1, int(round(float(np.sqrt(d2[a, b])) * um_per_a))])
    out.sort()
    return out


# ------------------------------------------------------------------ recording: find_clashes
def _project_list(out, rid, aid):
    lst = []
    for (ri, ai), (rj, aj), s in out:
        lst.append([rid.get(id(ri), 0), aid.get(id(ai), 0), rid.get(id(rj), 0), aid.get(id(aj), 0),
                    int(round(float(s) * 1000))])
    return lst


def _record_struct(residues, atom_index=None):
    """Project Residue3D objects (the INPUT of find_clashes) into the spec's vocabulary:
    per atom: residue index, name, occupancy; per residue: chain, is_nucleotide."""
    atoms, res, rid, aid, xyz = [], [], {}, {}, []
    for k, r in enumerate(residues):
        rid[id(r)] = k + 1
        res.append({"chain": str(r.chain), "nuc": bool(r.is_nucleotide)})
        for a in r.atoms:
            aid[id(a)] = len(atoms) + 1
            occ = a.occupancy
            atoms.append({"r": k + 1, "name": list(a.name), "hasocc": occ is not None,
                          "occ": 0 if occ is None else int(round(occ * 100))})
            xyz.append((a.x, a.y, a.z))
    return atoms, res, rid, aid, xyz


def record_lib(case):
    """case = {id, kind: pal|geo, st: structure description, opts: [option index], src}.
    Calls find_clashes once per option on freshly built objects."""
    from rnapolis.clashfinder import find_clashes
    st = case["st"]
    residues, atom_objs = build_objects(st)
    atoms, res, rid, aid, xyz = _record_struct(residues)
    # the record's atom order is residue-major; map it back to the description for x / sanity
    desc_of = {id(o): st["atoms"][i] for i, o in enumerate(atom_objs)}
    flat = [a for r in residues for a in r.atoms]
    rec = {"id": case["id"], "kind": case["kind"], "atoms": atoms, "res": res, "close": [], "results": [],
           "src": case.get("src", {})}
    if case["kind"] == "pal":
        for i, a in enumerate(flat):
            atoms[i]["x"] = desc_of[id(a)]["x"]
        for k, r in enumerate(st["res"]):
            if res[k]["nuc"] != r["want_nuc"]:
                raise lib.MachineryError(f"materialiser: residue {k + 1} of {case['id']} is_nucleotide="
                                         f"{res[k]['nuc']} but the configuration asks for {r['want_nuc']}")
        # self-check of the materialiser: float distances reproduce the integer palette distances
        P = np.asarray(xyz)
        X = np.asarray([a["x"] for a in atoms], dtype=float) / 100
        if len(P) > 1 and np.abs(np.sqrt(((P[:, None] - P[None]) ** 2).sum(2)) - np.abs(X[:, None] - X[None])).max() > 1e-9:
            raise lib.MachineryError(f"materialiser: coordinates of {case['id']} do not reproduce the palette distances")
    else:
        rec["close"] = measure_close(xyz, case["cutoff"])
    for n in case["opts"]:
        o = OPTIONS[n]
        try:
            out = find_clashes(residues, *call_args(o))
            try:
                lst, err = _project_list(out, rid, aid), ""
            except Exception:
                lst, err = [], "UnexpectedResultShape"
        except Exception as e:  # the error path is data
            lst, err = [], type(e).__name__
        rec["results"].append({"o": o, "err": err, "list": lst})
    return rec


# ------------------------------------------------------------------ corpus structures
def corpus_files():
    d = os.path.join(lib.REPO, "tests")
    names = [n for n in sorted(os.listdir(d)) if n.endswith((".cif", ".pdb")) and os.path.getsize(os.path.join(d, n)) > 0]
    return [os.path.join(d, n) for n in names]


_CORPUS_CACHE = {}


def read_corpus(path):
    """Read a corpus file with the library's reader (input materialisation only) into a neutral
    description.  Single-atom residues named like their atom (ions) are left out: the statement
    types atoms as C/N/O/P and an Atom carries only a name, so 'CD' / 'CA' ions are ambiguous."""
    if path in _CORPUS_CACHE:
        return _CORPUS_CACHE[path]
    from rnapolis.parser import read_3d_structure
    with open(path) as f:
        s = read_3d_structure(f, 1)
    res = []
    for r in s.residues:
        if len(r.atoms) == 1 and r.atoms[0].name.upper() == (r.name or "").upper():
            continue
        res.append({"chain": r.chain, "number": r.number, "icode": r.icode, "resname": r.name,
                    "one": r.one_letter_name,
                    "atoms": [(a.name, a.x, a.y, a.z) for a in r.atoms]})
    _CORPUS_CACHE[path] = res
    return res


def corpus_struct(src, palette):
    """src = {file, start, count, scale, jitter, seed}: a window of residues, squashed towards its
    centroid and jittered to create contacts; occupancies drawn at random from the spec's palette
    (full, partial pairs summing to one or not, zero, absent)."""
    res = read_corpus(os.path.join(lib.REPO, "tests", src["file"]))
    win = res[src["start"]:src["start"] + src["count"]]
    rng = random.Random(src["seed"])
    allxyz = np.array([a[1:] for r in win for a in r["atoms"]], dtype=float)
    c = allxyz.mean(axis=0)
    st = {"res": [], "atoms": []}
    occs = [o for o in palette["occs"]]
    for k, r in enumerate(win):
        st["res"].append({"chain": r["chain"], "number": r["number"], "icode": r["icode"], "resname": r["resname"],
                          "one": r["one"]})
        for (name, x, y, z) in r["atoms"]:
            p = (np.array([x, y, z]) - c) * src["scale"] + c
            p = p + np.array([rng.gauss(0, src["jitter"]) for _ in range(3)])
            occ = rng.choice(occs)
            st["atoms"].append({"r": k + 1, "name": name, "occ": None if occ == palette["absent"] else occ,
                                "xyz": tuple(float("%.3f" % v) for v in p)})
    return st


def corpus_sources(rng, count, window, scales=(1.0, 0.9, 0.8, 0.7)):
    """seeded choice of corpus windows: file, first residue (one with at least 5 atoms), length"""
    files = [os.path.basename(p) for p in corpus_files()]
    out = []
    tries = 0
    while len(out) < count:
        tries += 1
        if tries > 50 * count + 100:
            raise lib.MachineryError("no usable corpus structure under " + os.path.join(lib.REPO, "tests"))
        f = rng.choice(files)
        try:
            res = read_corpus(os.path.join(lib.REPO, "tests", f))
        except Exception:
            continue
        starts = [k for k, r in enumerate(res) if len(r["atoms"]) >= 5]
        if len(res) < 2 or not starts:
            continue
        start = rng.choice(starts)
        cnt = min(len(res), window)
        start = min(start, len(res) - cnt)
        out.append({"file": f, "start": start, "count": cnt, "scale": rng.choice(scales),
                    "jitter": rng.choice((0.0, 0.05, 0.15)), "seed": rng.randrange(1 << 30)})
    return out


# ------------------------------------------------------------------ file emitters (own code)
def _pdb_name(name):
    return name if len(name) >= 4 else " " + name.ljust(3)


def can_pdb(st):
    return (all(a["occ"] is not None for a in st["atoms"])
            and all(len(r["chain"]) == 1 and r["chain"] != " " and len(r["resname"]) <= 3
                    and -999 <= r["number"] <= 9999 for r in st["res"])
            and all(len(a["name"]) <= 4 for a in st["atoms"]) and len(st["atoms"]) < 99999)


def write_pdb(st, path):
    lines = []
    serial = 0
    for k, r in enumerate(st["res"]):
        for a in st["atoms"]:
            if a["r"] != k + 1:
                continue
            serial += 1
            lines.append("ATOM  %5d %-4s %3s %1s%4d%1s   %8.3f%8.3f%8.3f%6.2f%6.2f          %2s" % (
                serial, _pdb_name(a["name"]), r["resname"], r["chain"], r["number"], r.get("icode") or " ",
                a["xyz"][0], a["xyz"][1], a["xyz"][2], a["occ"] / 100, 10.0, a["name"][0]))
    lines.append("END")
    with open(path, "w") as f:
        f.write("\n".join(lines) + "\n")


def _q(v):
    v = str(v)
    if "'" in v or '"' in v or " " in v:
        return '"' + v + '"' if '"' not in v else "'" + v + "'"
    return v


def write_cif(st, path):
    cols = ["group_PDB", "id", "type_symbol", "label_atom_id", "label_alt_id", "label_comp_id", "label_asym_id",
            "label_entity_id", "label_seq_id", "pdbx_PDB_ins_code", "Cartn_x", "Cartn_y", "Cartn_z", "occupancy",
            "B_iso_or_equiv", "auth_seq_id", "auth_comp_id", "auth_asym_id", "auth_atom_id", "pdbx_PDB_model_num"]
    out = ["data_verif", "#", "_exptl.entry_id verif", "_exptl.method 'X-RAY DIFFRACTION'", "#",
           "_refine.entry_id verif", "_refine.ls_d_res_high 2.00", "#"]
    ent = {k: ("2" if r.get("lig") else "1") for k, r in enumerate(st["res"])}
    if st.get("entities"):
        # entity tables as deposited files carry them: the chain residues are a polyribonucleotide polymer, a
        # nucleotide LIGAND (e.g. c-di-AMP) sits in a non-polymer entity of its own
        seq = "".join(r["resname"] if len(r["resname"]) == 1 else "N" for r in st["res"])
        out += ["loop_", "_entity.id", "_entity.type", "1 polymer", "2 non-polymer", "#",
                "_entity_poly.entity_id 1", "_entity_poly.type polyribonucleotide",
                "_entity_poly.pdbx_seq_one_letter_code_can " + seq, "#"]
    out += ["loop_"]
    out += ["_atom_site." + c for c in cols]
    serial = 0
    for k, r in enumerate(st["res"]):
        for a in st["atoms"]:
            if a["r"] != k + 1:
                continue
            serial += 1
            occ = "." if a["occ"] is None else "%.2f" % (a["occ"] / 100)
            row = ["HETATM" if r.get("lig") else "ATOM", serial, a["name"][0], a["name"], ".", r["resname"],
                   r.get("label_chain", r["chain"]),
                   ent[k], "." if r.get("lig") else k + 1,
                   r.get("icode") or "?", "%.3f" % a["xyz"][0], "%.3f" % a["xyz"][1], "%.3f" % a["xyz"][2], occ,
                   "10.00", r["number"], r["resname"], r["chain"], a["name"], 1]
            out.append(" ".join(_q(v) for v in row))
    out.append("#")
    with open(path, "w") as f:
        f.write("\n".join(out) + "\n")


# ------------------------------------------------------------------ recording: clashfinder.main
_RX_CHAIN1 = re.compile(r"^Clashes found in chain (\S+) with maximum occupancy sum equal to (\S+)$")
_RX_CHAIN2 = re.compile(r"^Clashes found between chains (\S+) and (\S+) with maximum occupancy sum equal to (\S+)$")
_RX_RES1 = re.compile(r"^    Clashes found in residue (\S+) with maximum occupancy sum equal to (\S+)$")
_RX_RES2 = re.compile(r"^    Clashes found between residues (\S+) and (\S+) with maximum occupancy sum equal to (\S+)$")
_RX_ATOM = re.compile(r"^        Clashes found between atoms (\S+) and (\S+) with occupancy sum of (\S+)$")


def _milli(txt):
    return int(round(float(txt) * 1000))


def run_main(path, o, csv_path=None):
    """Run clashfinder.main() in-process: argv set, stdout captured.  The list main obtains from
    find_clashes (and the residues it passes) is observed through a wrapper installed on the
    module attribute by the harness - the source is not touched."""
    import rnapolis.clashfinder as cf
    seen = {}
    orig = cf.find_clashes

    def observer(residues, *a, **k):
        out = orig(residues, *a, **k)
        seen["residues"], seen["out"] = residues, out
        return out

    argv = ["clashfinder", path] + [FLAGS[k] for k in OPT_KEYS if o[k]]
    if csv_path:
        argv += ["--csv", csv_path]
    buf = io.StringIO()
    old = sys.argv
    err = ""
    cf.find_clashes = observer
    try:
        sys.argv = argv
        with contextlib.redirect_stdout(buf):
            cf.main()
    except SystemExit as e:
        err = "" if e.code in (0, None) else "SystemExit"
    except Exception as e:  # the error path is data
        err = type(e).__name__
    finally:
        sys.argv = old
        cf.find_clashes = orig
    return err, buf.getvalue(), seen


def _names_of(residues):
    """lookup tables of the structure as main read it: printed residue name -> index,
    (residue index, atom name) -> atom index; ambiguous names map to 0 (= unknown)."""
    rname, aname = {}, {}
    n = 0
    for k, r in enumerate(residues):
        key = str(r)
        rname[key] = 0 if key in rname else k + 1
        for a in r.atoms:
            n += 1
            akey = (k + 1, a.name)
            aname[akey] = 0 if akey in aname else n
    return rname, aname


def _parse_stdout(text, rname, aname):
    chains, residues, atomlines, unparsed = [], [], [], 0
    for line in text.splitlines():
        if not line.strip():
            continue
        m1, m2 = _RX_CHAIN1.match(line), _RX_CHAIN2.match(line)
        r1, r2 = _RX_RES1.match(line), _RX_RES2.match(line)
        at = _RX_ATOM.match(line)
        try:
            if m1:
                chains.append([m1.group(1), m1.group(1), _milli(m1.group(2))])
            elif m2:
                chains.append([m2.group(1), m2.group(2), _milli(m2.group(3))])
            elif r1:
                residues.append([len(chains), rname.get(r1.group(1), 0), rname.get(r1.group(1), 0), _milli(r1.group(2))])
            elif r2:
                residues.append([len(chains), rname.get(r2.group(1), 0), rname.get(r2.group(2), 0), _milli(r2.group(3))])
            elif at:
                ri, rj = (residues[-1][1], residues[-1][2]) if residues else (0, 0)
                atomlines.append([len(residues), aname.get((ri, at.group(1)), 0), aname.get((rj, at.group(2)), 0),
                                  _milli(at.group(3))])
            else:
                unparsed += 1
        except ValueError:
            unparsed += 1
    return chains, residues, atomlines, unparsed


def _fallback_call(path, o):
    from rnapolis.clashfinder import find_clashes
    from rnapolis.parser import read_3d_structure
    with open(path) as f:
        s = read_3d_structure(f, 1)
    return {"residues": s.residues, "out": find_clashes(s.residues, *call_args(o))}


def record_cli(case, scratch_dir):
    """case = {id, st, fmt: pdb|cif, opt: option index, src, cutoff}.  Produces three records:
    <id>/cli (stdout vs the library list), <id>/lib (the library list vs the definition, on the
    structure as main read it, distances measured), <id>/csv (a second run with --csv)."""
    o = OPTIONS[case["opt"]]
    base = os.path.join(scratch_dir, re.sub(r"[^A-Za-z0-9_.-]", "_", case["id"]))
    if case.get("corpus"):
        # a file of the repository's test corpus, copied as it is (entity tables, ligands, hetero groups)
        path = base + os.path.splitext(case["corpus"])[1]
        shutil.copyfile(os.path.join(lib.REPO, "tests", case["corpus"]), path)
    else:
        path = base + ("." + case["fmt"])
        (write_pdb if case["fmt"] == "pdb" else write_cif)(case["st"], path)
    recs = []
    # ---- run 1: report on stdout
    err, text, seen = run_main(path, o)
    captured = bool(seen)
    if not captured:
        try:
            seen = _fallback_call(path, o)
        except Exception:
            seen = {"residues": [], "out": []}
    # the atoms the definition is evaluated on are those of the FILE (first model), read independently of main:
    # whatever main does before it calls find_clashes must not lose a clash of the file
    from rnapolis.parser import read_3d_structure
    try:
        with open(path) as f:
            ref = read_3d_structure(f, 1).residues
    except Exception:
        ref = seen["residues"]
    atoms, res, rid, aid, xyz = _record_struct(ref)
    rname, aname = _names_of(ref)
    if 0 in rname.values() or 0 in aname.values():
        # printed residue / atom names do not identify the atoms of this input uniquely: the report cannot be
        # mapped back to atoms; what remains decidable is that report, CSV and library list the same number of
        # clashes (one record of kind "csvcount", from a run with --csv)
        csv_path = base + ".out.csv"
        if os.path.exists(csv_path):
            os.remove(csv_path)
        err2, text2, seen2 = run_main(path, o, csv_path)
        nprinted = sum(1 for ln in text2.splitlines() if _RX_ATOM.match(ln))
        exists, ncsv = os.path.exists(csv_path), 0
        if exists:
            with open(csv_path, newline="") as f:
                ncsv = max(0, len(list(_csv.reader(f))) - 1)
            os.remove(csv_path)
        os.remove(path)
        return [{"id": case["id"] + "/csvcount", "kind": "csvcount", "o": o, "err": err2,
                 "nlib": len(seen2.get("out", [])) if seen2 else -1, "nprinted": nprinted, "csv_exists": exists,
                 "ncsv": ncsv, "src": dict(case.get("src", {}), fmt=case.get("fmt", "corpus"), opt=case["opt"])}]
    try:
        lib_list = []
        for (ri, ai), (rj, aj), sm in seen["out"]:
            i, j = rname.get(str(ri), 0), rname.get(str(rj), 0)
            lib_list.append([i, aname.get((i, ai.name), 0), j, aname.get((j, aj.name), 0), int(round(float(sm) * 1000))])
    except Exception:
        lib_list, err = [], err or "UnexpectedResultShape"
    chains, residues, atomlines, unparsed = _parse_stdout(text, rname, aname)
    src = dict(case.get("src", {}), fmt=case.get("fmt", "corpus"), opt=case["opt"])
    recs.append({"id": case["id"] + "/cli", "kind": "cli", "o": o, "err": err, "atoms": atoms, "res": res,
                 "lib": lib_list, "lib_captured": captured, "chains": chains, "residues": residues,
                 "atomlines": atomlines, "unparsed": unparsed, "src": src, "stdout_head": text.splitlines()[:6]})
    recs.append({"id": case["id"] + "/lib", "kind": "geo", "atoms": atoms, "res": res,
                 "close": measure_close(xyz, case["cutoff"]) if xyz else [],
                 "results": [{"o": o, "err": "", "list": lib_list}], "src": src})
    # ---- run 2: --csv
    csv_path = base + ".out.csv"
    if os.path.exists(csv_path):
        os.remove(csv_path)
    err2, text2, seen2 = run_main(path, o, csv_path)
    if not seen2:
        try:
            seen2 = _fallback_call(path, o)
        except Exception:
            seen2 = {"residues": [], "out": []}
    atoms2, res2, rid2, aid2, _ = _record_struct(seen2["residues"])
    rname2, aname2 = _names_of(seen2["residues"])
    _, residues2, atomlines2, _ = _parse_stdout(text2, rname2, aname2)
    printed_atoms = [[residues2[t[0] - 1][1], t[1], residues2[t[0] - 1][2], t[2], t[3]] for t in atomlines2 if t[0] >= 1]
    rows, header_ok, exists = [], False, os.path.exists(csv_path)
    if exists:
        with open(csv_path, newline="") as f:
            table = list(_csv.reader(f))
        if table and all(c in table[0] for c in ("Atom 1", "Atom 2", "Occupancy sum")):
            header_ok = True
            c1, c2, c3 = (table[0].index(c) for c in ("Atom 1", "Atom 2", "Occupancy sum"))
            for row in table[1:]:
                try:
                    n1, a1 = row[c1].rsplit(" ", 1)
                    n2, a2 = row[c2].rsplit(" ", 1)
                    ri, rj = rname2.get(n1, 0), rname2.get(n2, 0)
                    rows.append([ri, aname2.get((ri, a1), 0), rj, aname2.get((rj, a2), 0), _milli(row[c3])])
                except (ValueError, IndexError):
                    rows.append([0, 0, 0, 0, 0])
        os.remove(csv_path)
    recs.append({"id": case["id"] + "/csv", "kind": "csv", "o": o, "err": err2, "atoms": atoms2, "res": res2,
                 "csv_exists": exists, "header_ok": header_ok, "rows": rows, "printed_atoms": printed_atoms, "src": src})
    os.remove(path)
    return recs
