---------------------------- MODULE MC_Determinism ----------------------------
(***************************************************************************)
(* Design-level model for C14.  Two fresh processes ("runs") perform the   *)
(* pipeline of Determinism!PointTable on the SAME input, one emission      *)
(* point per step, in the order Determinism!Order.  At a `hashset` point   *)
(* the adversary (the hash seed of that process) picks the permutation.    *)
(* The clauses say that the artefacts of the two runs coincide.            *)
(*                                                                         *)
(* Assignment = "Required"      : all_dot_brackets emitted in sorted order *)
(*              "AsImplemented" : list(set(DotBracket)) at common.py:933   *)
(*                                (negative control: SameAcrossRuns fails) *)
(***************************************************************************)
EXTENDS Determinism

CONSTANTS Assignment,   \* "Required" | "AsImplemented"
          MaxChain      \* the chain lemma is checked for all kind assignments up to this length

ASSUME Assignment \in {"Required", "AsImplemented"}
ASSUME TableWellFormed

Asg == IF Assignment = "Required" THEN Required ELSE AsImplemented
TaintTable == IF Assignment = "Required" THEN TaintRequired ELSE TaintAsImplemented

VARIABLES run,    \* 1, 2: the process currently running; 3: both finished
          pc,     \* position in Order of the next emission point of the current run
          out     \* out[r][p]: what point p emitted in run r (<<>> before it ran)
vars == <<run, pc, out>>

Done(r, p) == r < run \/ (r = run /\ PosIn(p) < pc)
Finished == run = 3

\* the value point p reads in run r
ReadBy(r, p) ==
  LET ups == PointTable[p].ups IN
  IF ups = <<>> THEN Input
  ELSE IF Asg[p] = "bundle" THEN [k \in 1..Len(ups) |-> out[r][ups[k]]]
  ELSE out[r][ups[1]]

Advance == IF pc = Len(Order) THEN run' = run + 1 /\ pc' = 1 ELSE pc' = pc + 1 /\ UNCHANGED run
Current(k) == run \in 1..2 /\ Asg[Order[pc]] = k

EmitSorted  == /\ Current("sorted")
               /\ out' = [out EXCEPT ![run][Order[pc]] = Sorted(SeqToSet(ReadBy(run, Order[pc])))]
               /\ Advance
EmitList    == /\ Current("list")
               /\ out' = [out EXCEPT ![run][Order[pc]] = ReadBy(run, Order[pc])]
               /\ Advance
EmitBundle  == /\ Current("bundle")
               /\ out' = [out EXCEPT ![run][Order[pc]] = ReadBy(run, Order[pc])]
               /\ Advance
EmitGreedy  == /\ Current("greedy")
               /\ out' = [out EXCEPT ![run][Order[pc]] = GreedyKeep(ReadBy(run, Order[pc]), <<>>)]
               /\ Advance
\* the hash seed of this process decides
EmitHashSet == /\ Current("hashset")
               /\ \E perm \in Perms(SeqToSet(ReadBy(run, Order[pc]))) :
                     out' = [out EXCEPT ![run][Order[pc]] = perm]
               /\ Advance

Init == run = 1 /\ pc = 1 /\ out = [r \in 1..2 |-> [p \in Points |-> <<>>]]
Next == EmitSorted \/ EmitList \/ EmitBundle \/ EmitGreedy \/ EmitHashSet
Spec == Init /\ [][Next]_vars

\* ------------------------------------------------------------------ clauses
\* C14: every artefact of the second process equals that of the first
SameAcrossRuns == Finished => \A a \in Artefacts : out[1][a] = out[2][a]
\* every point (artefact or not) whose static taint is "none" is a function of the input
CleanIsFunction == Finished => \A p \in Points : TaintTable[p] = "none" => out[1][p] = out[2][p]
\* an "order"-tainted point still emits the same members
SameMembers == Finished => \A p \in Points : Flat(p) /\ TaintTable[p] # "members" =>
                              SeqToSet(out[1][p]) = SeqToSet(out[2][p])
\* the artefacts NOT downstream of common.py:933 are deterministic even as implemented
OffPathArtefactsSame == Finished => \A a \in Artefacts \ HashOrderArtefacts : out[1][a] = out[2][a]
\* exactly these artefacts inherit the hash order (documented in the findings); constant-level
HashOrderArtefactsAre ==
  HashOrderArtefacts = {"all_dot_brackets", "map_all_dot_brackets", "cli_stdout_all"}
  /\ \A a \in Artefacts : TaintAsImplemented[a] # "members" /\ TaintRequired[a] = "none"
ASSUME HashOrderArtefactsAre
\* static lemmas (evaluated once, in the initial state)
Lemmas == (run = 1 /\ pc = 1) => ChainLemma(MaxChain) /\ PipelineLemma(Asg)
=============================================================================
