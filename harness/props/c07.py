"""C07 - structural elements decompose the secondary structure consistently."""
from .. import lib, secstruct as ss
from .c01 import domain_check
from .c02 import crossing

PID = "C07"
TIERS = {
    "quick":    dict(mc="MC_Elements_8.cfg", maxn=9, rnd=800, cli=100),
    "thorough": dict(mc="MC_Elements_9.cfg", maxn=12, rnd=30000, cli=3000),
}


def run(tier):
    t = TIERS[tier]
    rep = lib.Report(PID, tier, "model_checking")
    with lib.Scratch("c07") as sc:
        r = lib.mc("MC_Elements", t["mc"], sc)
        rep.add_mc(r, "BpSeq.elements algorithm (stops, candidates, link graph, loop closing) on every matching; "
                      "declarative C07 clauses as invariant ClausesHold",
                   min_actions=("Start", "OuterBegin", "Extend", "Close", "Finish"))
        if True:   # kept after the fix (repo commit 9f8bc39): shows ClausesHold is not vacuous
            nc = lib.mc("MC_Elements", "MC_Elements_AsImplemented.cfg", sc, expect_violation="ClausesHold")
            rep.add_mc(nc, "negative control: the as-implemented 'no stems => four empty lists' shortcut violates "
                           "UnpairedCoveredOnce on the pairless structure", negative_control=True)
        ex = ss.gen_matchings(t["maxn"], sc)
        rnd = [c for c in ss.random_cases(t["rnd"], lib.seed() + 2, tag="e") if ss.max_component(c["pairs"])[0] <= 10]
        # ladders of 5-8 mutually crossing stems, every stem >= 3 pairs long: stems drawn with LETTER brackets
        # (pseudoknot order >= 5) that are long enough to be structural elements of their own
        cliques = ss.clique_cases(tag="eq") + ss.clique_cases(tag="eq3", lens_list=ss.LONG_CLIQUES)
        cases = ex + rnd + cliques
        rec = lib.pmap(ss.record_elements, cases)
        domain_check([c for c in rec if c["id"].startswith("m")], t["maxn"], sc)
        import random
        rng = random.Random(lib.seed())
        sample = rng.sample(cases, min(t["cli"], len(cases)))
        # the multi-strand CLI regex of BPSEQ files is not involved; sequences use ACGU only
        # ... run plain and with the tool's two filter options in every combination
        OPTS = ([], ["--remove-isolated"], ["--remove-pseudoknots"], ["--remove-isolated", "--remove-pseudoknots"])
        sample = [dict(c, opts=OPTS[k % 4]) for k, c in enumerate(sample)]
        rec_cli = lib.pmap(ss.record_elements_cli, sample)
        allc = rec + rec_cli
        res = lib.trace_validate("Trace_Elements", "Trace_Elements.cfg", allc, sc)
        rep.add_trace(res, {c["id"]: c for c in allc}, "C07")
        cov = rep.cov
        cov["exhaustive"] = True
        cov["rule"] = (f"every matching on 1..n, n<={t['maxn']} ({len(ex)}; TLC Gen_SecStruct, domain re-checked) + "
                       f"{len(rnd)} seeded random nested/knotted structures n in 10..120 + {len(cliques)} ladders of 5-8 mutually "
                       f"crossing stems (letter brackets; stems of >= 3 pairs) + motif_extractor.main on "
                       f"{len(sample)} of them. Non-trivial = distinct structure with >= 2 stems.")
        cov["distinct_nontrivial"] = len({(c["n"], tuple(map(tuple, c["pairs"]))) for c in cases
                                          if len(ss.stems_of(c["pairs"])) >= 2})
        cov["with_loops"] = sum(1 for c in rec if c["el"]["loops"])
        cov["knotted"] = sum(1 for c in cases if crossing(c["pairs"]))
        withloop = next((c for c in rec if len(c["el"]["loops"]) >= 1 and c["n"] >= 9), rec[-1])
        cov["samples"] = [{k: withloop[k] for k in ("id", "n", "pairs", "el")}]
        rep.assumptions += ["zero-interior strands and unreported junctions without unpaired nucleotides are not violations "
                            "of the statement (only soundness of reported loops + coverage of unpaired nucleotides is demanded)"]
    return rep.finish()


def replay(doc):
    case = doc.get("case")
    if not case:
        print(doc.get("tlc_output_tail", ""))
        return run("quick")
    rep = lib.Report(PID, "quick", "model_checking", evidence=False)
    with lib.Scratch("c07r") as sc:
        base = {k: case[k] for k in ("id", "kind", "n", "pairs", "seq")}
        if "-cli" in base["id"]:
            base["id"] = base["id"][:base["id"].index("-cli")]
            base["opts"] = case.get("opts", [])
            rec = ss.record_elements_cli(base)
        else:
            rec = ss.record_elements(base)
        res = lib.trace_validate("Trace_Elements", "Trace_Elements.cfg", [rec], sc, chunks=1)
        rep.add_trace(res, {rec["id"]: rec}, "C07")
    return rep.finish()
