---------------------------- MODULE AtomPalette ----------------------------
(***************************************************************************)
(* The small value palette over which atom tables are enumerated           *)
(* exhaustively, by the design-level model (MC_AtomTable) and by the       *)
(* generator (Gen_AtomTable): models, atom identities, occupancies, a      *)
(* point palette with exact integer distances, null markers.               *)
(***************************************************************************)
EXTENDS AtomTable

CONSTANTS ModelNums, KeyIds, Occs, PointIds, IcNulls, OcNulls

\* point palette (milli-Angstrom): 1-2 are 0.3 A apart, 2-3 are 0.7 A apart, 4 is far away
PointXYZ == << [x |-> 1000, y |-> -2000, z |-> 3000],
               [x |-> 1200, y |-> -1800, z |-> 3100],
               [x |-> 1200, y |-> -1800, z |-> 3800],
               [x |-> 9000, y |-> 4000, z |-> -7000] >>

\* atom identities <<residue number, insertion code, atom name>>: two atoms of residue 1, and
\* residues 2 and 2A which differ in the insertion code only
KeyPalette == << <<1, "", "P">>, <<1, "", "C1'">>, <<2, "", "P">>, <<2, "A", "P">> >>

Line(m, k, occ, p, icn, ocn) ==
  LET num == KeyPalette[k][1]  ic == KeyPalette[k][2]  an == KeyPalette[k][3] IN
  [m |-> m, het |-> 0, ch |-> "A", num |-> num, ic |-> ic, rn |-> "G", an |-> an, alt |-> "",
   occ |-> occ, x |-> PointXYZ[p].x, y |-> PointXYZ[p].y, z |-> PointXYZ[p].z,
   lch |-> "A", lnum |-> num + 10 + (IF ic = "" THEN 0 ELSE 1), lrn |-> "G", icn |-> icn, ocn |-> ocn]

Minus1 == -1
OccsNull == {Minus1, 50}      \* cfg files cannot hold negative numbers

\* a null marker is only written where the value is absent
Palette == { l \in { Line(m, k, occ, p, icn, ocn) :
                      m \in ModelNums, k \in KeyIds, occ \in Occs, p \in PointIds, icn \in IcNulls, ocn \in OcNulls } :
               (l.ic # "" => l.icn = "?") /\ (l.occ >= 0 => l.ocn = "?") }
=============================================================================
