"""C10 - Fitting to PDB limits is a structure-preserving renaming or a clean refusal."""
import json

from .. import fitpdb as fp
from .. import lib
from .. import pdbtext as pt

PID = "C10"
LEVEL = "model_checking"
TIERS = {
    "quick":    dict(mc=("MC_FitPdb_4.cfg",), small=170, split=12, big=True),
    "thorough": dict(mc=("MC_FitPdb_5.cfg", "MC_FitPdb_4w.cfg"), small=3000, split=150, big=True),
}
ACTIONS = ("CanWrite", "Check1", "Check2", "Check3", "RenameChains", "RenumberResidues", "RenumberSerial",
           "RenameColumns")
NEG = (
    ("MC_FitPdb_asimpl_fillna.cfg", "InvFitsOrValueError",
     "as implemented: categorical fillna('') in the residues-per-chain test raises TypeError"),
    ("MC_FitPdb_asimpl_rename.cfg", "InvFitsOrValueError",
     "as implemented behind the first defect: label_*/auth_* both renamed to one PDB column -> ValueError "
     "although a fit exists"),
)


def _model_checks(t, sc):
    from concurrent.futures import ThreadPoolExecutor
    jobs = [(cfg, None) for cfg in t["mc"]] + [(cfg, inv) for cfg, inv, _ in NEG]
    w = max(2, lib.NCPU // 3)
    with ThreadPoolExecutor(max_workers=len(jobs)) as ex:
        return list(ex.map(lambda j: lib.mc("MC_FitPdb", j[0], sc, expect_violation=j[1], workers=w), jobs))


def _brief(c):
    d = {k: c[k] for k in ("id", "kind", "gen", "fmt", "can", "err", "same", "werr") if k in c}
    if c.get("stats"):
        d["stats"] = c["stats"]
    else:
        def ids(rows):
            return [[r["serial"], "".join(r["chain"]), r["resseq"], "".join(r["icode"])] for r in rows[:6]]
        d["inp_ids"], d["out_ids"] = ids(c["inp"]), ids(c["out"])
    return d


def run(tier):
    from concurrent.futures import ThreadPoolExecutor
    t = TIERS[tier]
    rep = lib.Report(PID, tier, LEVEL)
    with lib.Scratch("c10") as sc:
        K = pt.constants(sc)
        pt.CONSTS = K
        cases = fp.small_cases(t["small"], lib.seed(), K) + fp.split_cases(t["split"], lib.seed(), K) + \
            fp.unify_cases(t["split"], lib.seed(), K)
        big = fp.big_cases(tier, lib.seed(), K) if t["big"] else []
        rec = []
        for r in lib.pmap(fp.record, big + cases, chunksize=1):
            rec += r if isinstance(r, list) else [r]          # a multi-model splitter run yields one case per model
        with ThreadPoolExecutor(max_workers=1) as bg:
            fut = bg.submit(_model_checks, t, sc)
            res = lib.trace_validate("Trace_FitPdb", "Trace_FitPdb.cfg", rec, sc,
                                     chunks=max(1, min(lib.NCPU, len(rec) // 60)))
            mcs = fut.result()
        for cfg, r in zip(t["mc"], mcs):
            rep.add_mc(r, "fit_to_pdb step by step (CanWrite, Check1-3, RenameChains, RenumberResidues per chain group, "
                          "RenumberSerial per row, RenameColumns) with scaled limits on every small table; feasibility = "
                          "the spec's existence statement; clauses of C10 + lemmas as invariants", min_actions=ACTIONS)
        for (cfg, inv, what), r in zip(NEG, mcs[len(t["mc"]):]):
            rep.add_mc(r, what, negative_control=True)
        rep.add_trace(res, {c["id"]: c for c in rec}, "C10")
        cov = rep.cov
        cov["exhaustive"] = False
        outcomes = {}
        for c in rec:
            key = c["gen"] + ":" + (c["err"] or ("same" if c["same"] else "fitted"))
            outcomes[key] = outcomes.get(key, 0) + 1
        cov["outcomes_by_generator"] = outcomes
        cov["rule"] = (f"{t['small']} seeded limit-hitting tables from 18 generators (already fitting mmCIF/PDB, multi-character "
                       "chain ids, residue numbers > 9999, serials > 99999, insertion codes, the same number in two chains, "
                       "multi-model, interleaved chains, negative numbers, charges, values exactly at and just above each limit, exactly 62 / 63-70 chains, 63 one-character "
                       f"chains) emitted as mmCIF/PDB and read by the real readers; {t['split']} one-model files through "
                       f"splitter.main --format PDB; {len(big)} big tables (9999 / 10000 residues in one chain"
                       + (", 100000 atoms, 99998 atoms" if tier == "thorough" else "") +
                       ") summarised as counts/digests. Real limits 99999/9999/62 are constants of the trace spec. "
                       "Non-trivial = distinct input table that does not already fit the limits.")
        cov["distinct_nontrivial"] = len({json.dumps(c.get("atoms") or c.get("spec"), sort_keys=True) for c in rec
                                          if not c["can"]})
        cov["samples"] = [_brief(c) for c in rec[:1]] + [_brief(c) for c in rec[len(big) + 3:len(big) + 6]]
        rep.assumptions += [
            "the harness's mmCIF/PDB emitters and the projection of frames to JSON are faithful (shared with C09, where "
            "clause InputFaithful checks them on every case)",
            "feasibility band: ValueError is accepted whenever no fit exists that also leaves a serial number for the TER "
            "after every chain run (MustFit false); a returned table is always checked against every clause",
            "big tables are judged on harness-computed summaries (counts of distinct values / pairs, extrema, SHA-1 digests "
            "of the payload columns)",
            "unifier.main is not exercised (its output is not a pure function of fit_to_pdb)",
        ]
    return rep.finish()


def replay(doc):
    case = doc.get("case")
    if not case:
        print(doc.get("tlc_output_tail", ""))
        return run("quick")
    rep = lib.Report(PID, "quick", LEVEL, evidence=False)
    with lib.Scratch("c10r") as sc:
        pt.CONSTS = pt.constants(sc)
        base = {k: case[k] for k in ("id", "kind", "gen", "fmt", "atoms", "spec", "keep") if k in case}
        if case["kind"] == "split" and "-m" in case["id"]:
            base["id"] = case["id"].rsplit("-m", 1)[0]             # one case of a multi-model splitter run
        if case.get("gen") == "unify":
            # one file of a unifier run: the run is repeated with this file's table as the molecule
            base.update(kind="unify", id=case["id"].rsplit("-f", 1)[0])
        rec = fp.record(base)
        if isinstance(rec, list) and case.get("gen") == "unify":
            rec = dict(rec[0], id=case["id"])
        elif isinstance(rec, list):
            rec = [r for r in rec if r["id"] == case["id"]][0]
        res = lib.trace_validate("Trace_FitPdb", "Trace_FitPdb.cfg", [rec], sc, chunks=1)
        rep.add_trace(res, {rec["id"]: rec}, "C10")
        rep.cov["samples"] = [_brief(rec)]
        rep.cov["distinct_nontrivial"] = 1
    return rep.finish()
