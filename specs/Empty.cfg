
