----------------------------- MODULE BpSeqObject -----------------------------
(***************************************************************************)
(* BpSeq objects as the code builds them: a heap of Entry cells, objects    *)
(* that hold REFERENCES to cells, a `pairs` dictionary computed once at     *)
(* construction, and memoised answers (cached_property slots).              *)
(*                                                                          *)
(* The whole API is one transition function  Do(st, op, recv, optdb, alias) *)
(* so that MC_BpSeqObject can explore it as actions and Trace_BpSeqObject   *)
(* can replay recorded call histories through the very same definition.     *)
(*   alias = TRUE  : without_isolated copies the LIST of entries but unpairs *)
(*                   the shared Entry cells in place (the code before the   *)
(*                   repair)                                                *)
(*   alias = FALSE : it copies the entries (required behaviour)             *)
(* optdb is the text the MILP returns when the optimal notation is first    *)
(* needed (any optimum; chosen by the environment, inferred from the trace).*)
(***************************************************************************)
EXTENDS Elements

Ops == {"str", "pairs", "sequence", "dot_bracket", "fcfs", "all", "elements",
        "without_pseudoknots", "without_isolated", "convert_none"}
\* "convert_none" = convert_to_dot_bracket(None): the public conversion asked WITHOUT a solver; it returns the
\* first-come-first-served notation and, like every query, leaves the object (and its cached answers) alone

None == <<>>          \* optional values: <<>> = absent, <<v>> = present
Some(v) == <<v>>

\* ---- heap ------------------------------------------------------------------
\* st = [cells |-> <<pair value of cell 1, ...>>, objs |-> <<object 1, ...>>]
\* object = [refs |-> <<cell ids>>, pairsAttr |-> set of <<i,j>> (both directions),
\*           db, fcfs, all, el |-> cached answers or None]
NewCells(st, col) == [st EXCEPT !.cells = @ \o col]
RefsFor(st, n)    == [i \in 1..n |-> Len(st.cells) + i]

Col(st, o)      == [i \in 1..Len(st.objs[o].refs) |-> st.cells[st.objs[o].refs[i]]]   \* the pair column
MatchingOfCol(col) == { <<i, col[i]>> : i \in { x \in 1..Len(col) : col[x] > x } }
M(st, o)        == MatchingOfCol(Col(st, o))
Len0(st, o)     == Len(st.objs[o].refs)
BothWays(m)     == m \cup { <<p[2], p[1]>> : p \in m }

MkObj(refs, col) == [refs |-> refs, pairsAttr |-> BothWays(MatchingOfCol(col)),
                     db |-> None, fcfs |-> None, all |-> None, el |-> None]

InitState(col) == [cells |-> col, objs |-> << MkObj([i \in 1..Len(col) |-> i], col) >>]
ColOf(m, n)    == [i \in 1..n |-> Partner(m, i)]

\* ---- answers computed from the current cells --------------------------------
FcfsText(m, n) == LET R == Regions(m) IN Fill(n, R, FcfsLevels(R))

\* all greedy-stable notations: stable per conflict component, combined freely
RECURSIVE Combine(_, _)
Combine(comps, acc) ==
  IF comps = {} THEN acc
  ELSE LET C == CHOOSE x \in comps : TRUE IN
       Combine(comps \ {C}, { [r \in (DOMAIN a) \cup C |-> IF r \in C THEN f[r] ELSE a[r]] : a \in acc, f \in StableSet(C) })
AllTexts(m, n) ==
  LET R == Regions(m)  KC == KnotComponents(R)
      base == [r \in (R \ UNION KC) |-> 0] IN
  { Fill(n, R, f) : f \in Combine(KC, {base}) }

ElementsOf(m) == [stems |-> ExpectedStems(m), hairpins |-> ExpectedHairpins(m)]

IsOptimalText(db, m, n) ==
  /\ Len(db) = n /\ AlphabetOK(db)
  /\ LET d == Decode(db) IN d.balanced /\ d.pairs = m /\ NoCrossSameType(db, m)
  /\ ObjText(db, m) = Opt(Regions(m))

RoundPairs(db) == { p \in Decode(db).pairs : db[p[1]] = "(" }
LongStemPairs(m) == UNION { RegionPairs(r) : r \in { x \in Regions(m) : x[3] >= 2 } }
IsolatedPositions(m) == UNION { {r[1], r[2]} : r \in { x \in Regions(m) : x[3] = 1 } }

\* ---- the transition function -------------------------------------------------
\* result = [st, ans, new]   new = 0 when no object is returned, = recv when `self` is returned
WithDb(st, o, optdb) ==      \* the object's own optimal notation: cached, or solved now
  IF st.objs[o].db # None THEN st ELSE [st EXCEPT !.objs[o].db = Some(optdb)]
DbOf(st, o) == st.objs[o].db[1]

WithEl(st, o, optdb) ==      \* elements needs the dot-bracket first, then caches itself
  LET s1 == WithDb(st, o, optdb) IN
  IF s1.objs[o].el # None THEN s1 ELSE [s1 EXCEPT !.objs[o].el = Some(ElementsOf(M(s1, o)))]

Do(st, op, o, optdb, alias) ==
  LET n == Len0(st, o) IN
  CASE op = "str"      -> [st |-> st, ans |-> Col(st, o), new |-> 0]
    [] op = "pairs"    -> [st |-> st, ans |-> st.objs[o].pairsAttr, new |-> 0]
    [] op = "sequence" -> [st |-> st, ans |-> n, new |-> 0]
    [] op = "dot_bracket" ->
         LET s1 == WithDb(st, o, optdb) IN [st |-> s1, ans |-> DbOf(s1, o), new |-> 0]
    [] op = "fcfs" ->
         LET s1 == IF st.objs[o].fcfs # None THEN st ELSE [st EXCEPT !.objs[o].fcfs = Some(FcfsText(M(st, o), n))] IN
         [st |-> s1, ans |-> s1.objs[o].fcfs[1], new |-> 0]
    [] op = "all" ->
         LET s1 == IF st.objs[o].all # None THEN st ELSE [st EXCEPT !.objs[o].all = Some(AllTexts(M(st, o), n))] IN
         [st |-> s1, ans |-> s1.objs[o].all[1], new |-> 0]
    [] op = "convert_none" -> [st |-> st, ans |-> FcfsText(M(st, o), n), new |-> 0]
    [] op = "elements" ->
         LET s1 == WithEl(st, o, optdb) IN [st |-> s1, ans |-> s1.objs[o].el[1], new |-> 0]
    [] op = "without_pseudoknots" ->
         LET s1  == WithDb(st, o, optdb)
             col == ColOf(RoundPairs(DbOf(s1, o)), n)
             s2  == NewCells(s1, col)
             s3  == [s2 EXCEPT !.objs = Append(@, MkObj(RefsFor(s1, n), col))] IN
         [st |-> s3, ans |-> col, new |-> Len(s3.objs)]
    [] op = "without_isolated" ->
         LET s1  == WithEl(st, o, optdb)
             iso == UNION { {x[1], x[3]} : x \in { y \in s1.objs[o].el[1].stems : y[1] = y[2] } } IN
         IF iso = {} THEN [st |-> s1, ans |-> Col(s1, o), new |-> o]              \* returns self
         ELSE LET col == [i \in 1..n |-> IF i \in iso THEN 0 ELSE Col(s1, o)[i]] IN
              IF alias
              THEN \* entries = self.entries.copy(); entries[i].pair = 0  -- shared cells are mutated
                   LET s2 == [s1 EXCEPT !.cells = [c \in 1..Len(s1.cells) |->
                                  IF \E i \in iso : s1.objs[o].refs[i] = c THEN 0 ELSE s1.cells[c]]]
                       s3 == [s2 EXCEPT !.objs = Append(@, MkObj(s1.objs[o].refs, col))] IN
                   [st |-> s3, ans |-> col, new |-> Len(s3.objs)]
              ELSE LET s2 == NewCells(s1, col)
                       s3 == [s2 EXCEPT !.objs = Append(@, MkObj(RefsFor(s1, n), col))] IN
                   [st |-> s3, ans |-> col, new |-> Len(s3.objs)]

\* ---- what the property demands, independent of Do ----------------------------
\* answer of a fresh copy built from column col0 (the object's text at its creation)
FreshAnswerOK(op, col0, ans, optdb) ==
  LET m == MatchingOfCol(col0)  n == Len(col0) IN
  CASE op = "str"      -> ans = col0
    [] op = "pairs"    -> ans = BothWays(m)
    [] op = "sequence" -> ans = n
    [] op = "dot_bracket" -> IsOptimalText(ans, m, n)
    [] op = "fcfs"     -> ans = FcfsText(m, n)
    [] op = "convert_none" -> ans = FcfsText(m, n)
    [] op = "all"      -> ans = AllTexts(m, n)
    [] op = "elements" -> ans = ElementsOf(m)
    [] op = "without_pseudoknots" -> ans = ColOf(RoundPairs(optdb), n)
    [] op = "without_isolated"    -> ans = ColOf(LongStemPairs(m), n)
=============================================================================
