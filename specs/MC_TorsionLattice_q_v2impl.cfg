SPECIFICATION Spec
CONSTANT R = 1
CONSTANT P2Origin = TRUE
CONSTANT Impl = "v2"
CONSTANT M1Order = "n1_x_b2"
CONSTANT Slice = TRUE
INVARIANT LatticeOctant
CHECK_DEADLOCK FALSE
