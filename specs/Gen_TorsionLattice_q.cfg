CONSTANT R = 1
CONSTANT P2Origin = TRUE
