SPECIFICATION Spec
CONSTANT Part = "pairs"
CONSTANT NRes = 2
CONSTANT MaxLabels = 3
CONSTANT MaxCount = 3
CONSTANT MaxO2 = 1
CONSTANT O2Twice = TRUE
CONSTANT StackFlagsFull = "few"
INVARIANT EdgeExclusive
INVARIANT PairMaximal
CHECK_DEADLOCK FALSE
