"""X02 - beyond the listed properties: rnapolis.annotator.main end to end - the artefacts of one run (printed
notation, BPSEQ / JSON / CSV files, stem tables) hang together.  Option protocol: specs/Pipeline.tla (TLC over
every option subset); recorded runs: Trace_Pipeline."""
import functools

from .. import lib, pipeline as pl

PID = "X02"
TIERS = {"quick": dict(files=pl.FILES_QUICK[:5]), "thorough": dict(files=None)}
ACTIONS = ("Annotate", "Emit")


def run(tier):
    import os
    t = TIERS[tier]
    rep = lib.Report(PID, tier, "model_checking")
    with lib.Scratch(PID.lower()) as sc:
        files = t["files"] or sorted(f for f in os.listdir(os.path.join(lib.REPO, "tests"))
                                     if f.endswith((".cif", ".pdb")) and 0 < os.path.getsize(os.path.join(lib.REPO, "tests", f)) < 2_000_000)
        r = lib.mc("Pipeline", "MC_Pipeline.cfg", sc, workers=2)
        rep.add_mc(r, "the tool's option protocol on every subset of its options: one annotation feeds every artefact, "
                      "each file option writes its file and nothing else, exactly one notation is printed "
                      "(extended over all over plain)", min_actions=ACTIONS)
        cases = pl.cases(files)
        work = sc.path("runs")
        os.makedirs(work, exist_ok=True)
        rec = lib.pmap(functools.partial(pl.record, workroot=work), cases, chunksize=1)
        res = lib.trace_validate("Trace_Pipeline", "Trace_Pipeline.cfg", rec, sc)
        rep.add_trace(res, {c["id"]: c for c in rec}, "X02")
        cov = rep.cov
        cov["exhaustive"] = False
        cov["rule"] = (f"{len(cases)} runs of annotator.main in-process: {len(files)} corpus files x {len(pl.OPTION_SETS)} "
                       "option sets (plain / --extended / --all-dot-brackets / both / every file output / --find-gaps); "
                       "everything a run wrote is read back (stdout, BPSEQ, JSON, stem and inter-stem tables).  Non-trivial "
                       "= run on a structure with at least two stems.")
        cov["distinct_nontrivial"] = sum(1 for c in rec if len(c["j"]["stems"]) >= 2)
        cov["runs_with_inter_stem_rows"] = sum(1 for c in rec if c["inter"] > 0)
        s = dict(rec[0])
        s["stdout"] = ["".join(x) for x in s["stdout"]][:6]
        s["j"] = {"stems": s["j"]["stems"][:2], "pairs": s["j"]["pairs"][:3]}
        s["fb"], s["names"] = s["fb"][:3], s["names"][:3]
        cov["samples"] = [s]
        rep.assumptions += [
            "the content of each artefact is the business of C01-C16; this area judges that the artefacts of one run "
            "describe one and the same annotation and that each option produces its artefact",
            "residue names behind BPSEQ indices are rendered by the harness from the reader's residues (nucleotides in "
            "file order); with --find-gaps the name-based clauses are not evaluated",
            "--dot is not run (it shells out to graphviz and writes into the working directory)",
            "this area lies beyond the 20 listed properties: it is not claimed in MANIFEST.json",
        ]
    return rep.finish()


def replay(doc):
    case = doc.get("case")
    if not case:
        print(doc.get("tlc_output_tail", ""))
        return run("quick")
    import os
    rep = lib.Report(PID, "quick", "model_checking", evidence=False)
    with lib.Scratch("x02r") as sc:
        work = sc.path("runs")
        os.makedirs(work, exist_ok=True)
        rec = pl.record({k: case[k] for k in ("id", "file", "opts")}, work)
        res = lib.trace_validate("Trace_Pipeline", "Trace_Pipeline.cfg", [rec], sc, chunks=1)
        rep.add_trace(res, {rec["id"]: rec}, "X02")
        rep.cov["samples"] = [{"id": rec["id"]}]
        rep.cov["distinct_nontrivial"] = 1
    return rep.finish()
