SPECIFICATION Spec
CONSTANT TerOnModelChange = FALSE
CONSTANT CifChargeVerbatim = FALSE
CONSTANT FullShapes = FALSE
CONSTANT MaxAtoms = 3
INVARIANT InvDomain
INVARIANT InvReadBack
INVARIANT InvLayout80
INVARIANT InvModelBracketing
INVARIANT InvTerAfterEveryChain
INVARIANT InvFieldIdentity
CHECK_DEADLOCK FALSE
