----------------------------- MODULE MC_Unifier -----------------------------
(***************************************************************************)
(* Design-level model of rnapolis.unifier.main: the tool's own sequence of *)
(* steps (load and normalise every file; compare every file with the first *)
(* one - count, names, atom counts; delete the marked positions from every *)
(* list; count identifiers per position and overwrite them where the files *)
(* disagree; write) on every small world, checked against the functional   *)
(* statement of Unifier.tla.                                               *)
(***************************************************************************)
EXTENDS Unifier

CONSTANTS NFiles, MaxRes,          \* files, residues per file
          RNs, AtomSeqs, Ids,      \* residue names, atom-name sequences, identifiers to draw from
          EmptyWrite               \* "crash" (as implemented) | "skip": what writing an empty list does

VARIABLES files, pc, cur, R, removed, ctr, out, exit
vars == <<files, pc, cur, R, removed, ctr, out, exit>>

\* palettes (a cfg cannot hold tuples)
AtomSeqs2  == { <<"P">>, <<"C1'", "O1P">> }
AtomSeqs3  == { <<"P">>, <<"C1'", "O1P">>, <<"N1", "P", "H2">> }
AtomSeqsN  == { <<"P", "N1">>, <<"C1'", "O1P">> }
AtomSeqs4  == { <<"P">>, <<"C1'", "O1P">>, <<"N1", "P", "H2">>, <<"P", "C1*">> }
Ids1 == { <<"A", 1, "">> }
Ids3 == { <<"A", 1, "">>, <<"B", 1, "">>, <<"A", 1, "A">> }
Ids4 == { <<"A", 1, "">>, <<"B", 1, "">>, <<"A", 1, "A">>, <<"A", 0, "">> }

ResUniverse == { [ch |-> id[1], num |-> id[2], ic |-> id[3], rn |-> rn, names |-> ns] :
                   id \in Ids, rn \in RNs, ns \in AtomSeqs }
Shapes == UNION { [1..m -> ResUniverse] : m \in 1..MaxRes }
DistinctIds(s) == \A m, n \in 1..Len(s) : m # n => IdOf(s[m]) # IdOf(s[n])
WithKeys(f, s) ==
  [fmt |-> "pdb",
   res |-> [n \in 1..Len(s) |->
              [ch |-> s[n].ch, num |-> s[n].num, ic |-> s[n].ic, rn |-> s[n].rn,
               atoms |-> [a \in 1..Len(s[n].names) |-> [an |-> s[n].names[a], k |-> f * 100 + n * 10 + a]]]]]

Init ==
  /\ \E w \in [1..NFiles -> { s \in Shapes : DistinctIds(s) }] :
        files = [f \in 1..NFiles |-> WithKeys(f, w[f])]
  /\ pc = "load" /\ cur = 1
  /\ R = [f \in 1..NFiles |-> <<>>]
  /\ removed = {} /\ ctr = <<>> /\ out = [f \in 1..NFiles |-> <<>>] /\ exit = 0

\* for path in args.files: parse, Structure(atoms).residues, keep nucleotides, rename / filter / sort atoms
Load ==
  /\ pc = "load"
  /\ R' = [R EXCEPT ![cur] = NucleotidesOf(files[cur])]
  /\ IF cur < NFiles THEN cur' = cur + 1 /\ pc' = pc ELSE cur' = 1 /\ pc' = "check"
  /\ UNCHANGED <<files, removed, ctr, out, exit>>

\* for path, residues in structures: validity check 1, validity check 2, then mark
CheckCount ==
  /\ pc = "check"
  /\ IF Len(R[cur]) # Len(R[1]) THEN exit' = 1 /\ pc' = "exit" ELSE exit' = exit /\ pc' = "names"
  /\ UNCHANGED <<files, cur, R, removed, ctr, out>>
CheckNames ==
  /\ pc = "names"
  /\ IF \E i \in 1..Len(R[cur]) : R[cur][i].rn # R[1][i].rn
     THEN exit' = 1 /\ pc' = "exit" ELSE exit' = exit /\ pc' = "mark"
  /\ UNCHANGED <<files, cur, R, removed, ctr, out>>
Mark ==
  /\ pc = "mark"
  /\ removed' = removed \cup { i \in 1..Len(R[cur]) : Len(R[cur][i].atoms) # Len(R[1][i].atoms) }
  /\ IF cur < NFiles THEN cur' = cur + 1 /\ pc' = "check" ELSE cur' = 1 /\ pc' = "remove"
  /\ UNCHANGED <<files, R, ctr, out, exit>>

\* for _, residues in structures: for i in sorted(residues_to_remove, reverse=True): del residues[i]
RECURSIVE DeleteDescending(_, _)
DeleteDescending(s, D) ==
  IF D = {} THEN s
  ELSE LET i == CHOOSE x \in D : \A y \in D : y <= x IN
       DeleteDescending(SubSeq(s, 1, i - 1) \o SubSeq(s, i + 1, Len(s)), D \ {i})
RemoveMarked ==
  /\ pc = "remove"
  /\ R' = [R EXCEPT ![cur] = DeleteDescending(R[cur], removed)]
  /\ IF cur < NFiles THEN cur' = cur + 1 /\ pc' = pc ELSE cur' = 1 /\ pc' = "count"
  /\ UNCHANGED <<files, removed, ctr, out, exit>>

\* counters[i].update([...]) for every file in order: a Counter is an insertion-ordered map id -> count
RECURSIVE Tally(_, _, _)
Tally(i, f, acc) ==
  IF f > NFiles THEN acc
  ELSE LET id == IdOf(R[f][i])
           at == { n \in 1..Len(acc) : acc[n].id = id } IN
       Tally(i, f + 1, IF at = {} THEN Append(acc, [id |-> id, c |-> 1])
                       ELSE [acc EXCEPT ![CHOOSE n \in at : TRUE].c = @ + 1])
Count ==
  /\ pc = "count"
  /\ ctr' = [i \in 1..Len(R[1]) |-> Tally(i, 1, <<>>)]
  /\ pc' = "unify" /\ cur' = 1
  /\ UNCHANGED <<files, R, removed, out, exit>>
\* counter.most_common(1)[0]: the first entry (insertion order) of the highest count
MostCommon(c) == c[CHOOSE n \in 1..Len(c) : /\ \A m \in 1..Len(c) : c[m].c <= c[n].c
                                             /\ \A q \in 1..(n - 1) : c[q].c < c[n].c]
Unify ==      \* one position per step (cur = position)
  /\ pc = "unify"
  /\ IF cur > Len(R[1]) THEN pc' = "write" /\ cur' = 1 /\ R' = R
     ELSE /\ LET top == MostCommon(ctr[cur]) IN
             R' = IF top.c # NFiles
                  THEN [f \in 1..NFiles |-> [R[f] EXCEPT ![cur].ch = top.id[1], ![cur].num = top.id[2],
                                                          ![cur].ic = top.id[3]]]
                  ELSE R
          /\ cur' = cur + 1 /\ pc' = pc
  /\ UNCHANGED <<files, removed, ctr, out, exit>>

\* format = residues[0].atoms.attrs["format"] / pd.concat([...]) need a residue
Write ==
  /\ pc = "write"
  /\ IF Len(R[cur]) = 0 /\ EmptyWrite = "crash"
     THEN exit' = 2 /\ pc' = "exit" /\ out' = out /\ cur' = cur
     ELSE /\ out' = [out EXCEPT ![cur] = R[cur]]
          /\ exit' = exit
          /\ IF cur < NFiles THEN cur' = cur + 1 /\ pc' = pc ELSE cur' = cur /\ pc' = "done"
  /\ UNCHANGED <<files, R, removed, ctr>>

Next == Load \/ CheckCount \/ CheckNames \/ Mark \/ RemoveMarked \/ Count \/ Unify \/ Write
Spec == Init /\ [][Next]_vars

\* ------------------------------------------------------------------ invariants
L == Lists(files)
Finished == pc \in {"done", "exit"}

\* the steps compute the function of Unifier.tla
InvFunction == (pc = "done") => \A f \in 1..NFiles : out[f] = Expected(L, f)
\* refusal exactly when the files are not comparable; nothing is written then
InvRefusal  == Finished => /\ (exit = 1) = ~Comparable(L)
                           /\ exit = 1 => \A f \in 1..NFiles : out[f] = <<>>
\* as implemented: when no position survives the tool ends in an exception (and only then)
InvEmpty    == Finished => ((exit = 2) = (Comparable(L) /\ KeptPositions(L) = <<>>))
\* what unification achieves
InvSameShape == (pc = "done") => SameShape(out)
\* every written atom is a standard heavy atom of its nucleotide taken from the same file's residue
InvAtoms == (pc = "done") =>
  \A f \in 1..NFiles : \A j \in 1..Len(out[f]) : \A n \in 1..Len(out[f][j].atoms) :
     /\ out[f][j].atoms[n].an \in HeavySet(out[f][j].rn)
     /\ out[f][j].atoms[n].k \div 100 = f

\* negative controls (must be violated)
InvSameAtomNames == (pc = "done") => SameAtomNames(out)      \* counts are compared, not names
InvNeverCrashes  == exit # 2                                   \* every residue differing -> exception
=============================================================================
