"""Atom-table family (C08, C15): abstract atom tables, independent PDB / mmCIF emitters,
recorders for both reader generations.  No judgement happens here: the harness materialises
an abstract table as text, calls the public readers and projects what they return; TLC
(Trace_AtomTable) decides.

Abstract line (JSON object, all values small ints / short strings):
  m    model number                      het  1 = HETATM, 0 = ATOM
  ch   chain id (1 char)                 num  residue number (may be negative)
  ic   insertion code ("" = none)        rn   residue name
  an   atom name                         alt  alternate-location id ("" = none)
  occ  occupancy in 1/100 (-1 = absent; only written to mmCIF, as a null marker)
  x,y,z coordinates in milli-Angstrom
  lch, lnum, lrn  mmCIF label_asym_id / label_seq_id (0 = '.') / label_comp_id
  icn, ocn  which mmCIF null marker ('?' or '.') is written for an absent icode / occupancy
"""
import json
import math
import os
import random

from . import lib

# ----------------------------------------------------------------------------- emitters

_ELEMENT = {"P": "P", "O": "O", "N": "N", "C": "C", "S": "S", "M": "MG", "Z": "ZN", "H": "H"}


def element_of(name):
    if name in ("MG", "ZN", "NA", "CL"):
        return name
    return _ELEMENT.get(name[0], name[0])


def _fx(milli):
    """milli-units -> text with exactly three decimals (no float arithmetic involved)."""
    s = "-" if milli < 0 else ""
    a = abs(int(milli))
    return f"{s}{a // 1000}.{a % 1000:03d}"


def _occ(c):
    return f"{c // 100}.{c % 100:02d}"


def pdb_atom_line(serial, ln):
    """One fixed-column ATOM/HETATM record (wwPDB format 3.3), built column by column."""
    col = [" "] * 80

    def put(first, last, text, right):
        width = last - first + 1
        if len(text) > width:
            raise lib.MachineryError(f"PDB field overflow: {text!r} in columns {first}-{last}")
        text = text.rjust(width) if right else text.ljust(width)
        col[first - 1:last] = list(text)

    el = element_of(ln["an"])
    put(1, 6, "HETATM" if ln["het"] else "ATOM", False)
    put(7, 11, str(serial), True)
    if len(ln["an"]) >= 4 or len(el) == 2:
        put(13, 16, ln["an"], False)
    else:
        put(14, 16, ln["an"], False)
    put(17, 17, ln["alt"], False)
    put(18, 20, ln["rn"], True)
    put(22, 22, ln["ch"], False)
    put(23, 26, str(ln["num"]), True)
    put(27, 27, ln["ic"], False)
    put(31, 38, _fx(ln["x"]), True)
    put(39, 46, _fx(ln["y"]), True)
    put(47, 54, _fx(ln["z"]), True)
    if ln["occ"] < 0:
        raise lib.MachineryError("absent occupancy cannot be written to PDB (outside the statement)")
    put(55, 60, _occ(ln["occ"]), True)
    put(61, 66, "20.00", True)
    put(77, 78, el, True)
    return "".join(col)


def emit_pdb(lines):
    """Abstract lines -> PDB text.  MODEL/ENDMDL bracket every model when the table has more than
    one model or its only model is not numbered 1; TER after every chain; END."""
    models = []
    for ln in lines:
        if ln["m"] not in models:
            models.append(ln["m"])
    bracket = len(models) > 1 or (models and models[0] != 1)
    out = ["HEADER    RNA                                     01-JAN-00   XXXX              ",
           "REMARK   2 RESOLUTION. NOT APPLICABLE.                                          "]
    serial = 0
    cur_model = None
    prev = None

    def ter():
        nonlocal serial
        serial += 1
        out.append(f"TER   {serial:>5}      {prev['rn']:>3} {prev['ch']}{prev['num']:>4}{prev['ic'] or ' '}".ljust(80))

    for ln in lines:
        if ln["m"] != cur_model:
            if prev is not None:
                ter()
                if bracket:
                    out.append("ENDMDL".ljust(80))
            if bracket:
                out.append(f"MODEL     {ln['m']:>4}".ljust(80))
            cur_model = ln["m"]
            prev = None
        if prev is not None and prev["ch"] != ln["ch"]:
            ter()
        serial += 1
        out.append(pdb_atom_line(serial, ln))
        prev = ln
    if prev is not None:
        ter()
        if bracket:
            out.append("ENDMDL".ljust(80))
    out.append("END".ljust(80))
    return "\n".join(out) + "\n"


_CIF_COLS = ["group_PDB", "id", "type_symbol", "label_atom_id", "label_alt_id", "label_comp_id", "label_asym_id",
             "label_entity_id", "label_seq_id", "pdbx_PDB_ins_code", "Cartn_x", "Cartn_y", "Cartn_z", "occupancy",
             "B_iso_or_equiv", "pdbx_formal_charge", "auth_seq_id", "auth_comp_id", "auth_asym_id", "auth_atom_id",
             "pdbx_PDB_model_num"]


def _q(v):
    """CIF quoting: values holding a quote character or starting with a reserved character."""
    if v == "":
        raise lib.MachineryError("empty CIF value")
    if "'" in v:
        return '"' + v + '"'
    if '"' in v or " " in v or v[0] in "_#$[];":
        return "'" + v + "'"
    return v


def emit_cif(lines, cols=None):
    """Abstract lines -> mmCIF text (one data block, one atom_site loop)."""
    cols = cols or _CIF_COLS
    out = ["data_VERIF", "#", "loop_"] + ["_atom_site." + c for c in cols]
    for k, ln in enumerate(lines):
        row = {
            "group_PDB": "HETATM" if ln["het"] else "ATOM", "id": str(k + 1), "type_symbol": element_of(ln["an"]),
            "label_atom_id": _q(ln["an"]), "label_alt_id": ln["alt"] or ".", "label_comp_id": ln.get("lrn", ln["rn"]),
            "label_asym_id": ln.get("lch", ln["ch"]), "label_entity_id": "1",
            "label_seq_id": str(ln["lnum"]) if ln.get("lnum", 0) != 0 else ".",
            "pdbx_PDB_ins_code": ln["ic"] or ln.get("icn", "?"),
            "Cartn_x": _fx(ln["x"]), "Cartn_y": _fx(ln["y"]), "Cartn_z": _fx(ln["z"]),
            "occupancy": _occ(ln["occ"]) if ln["occ"] >= 0 else ln.get("ocn", "?"),
            "B_iso_or_equiv": "20.00", "pdbx_formal_charge": "?", "auth_seq_id": str(ln["num"]),
            "auth_comp_id": ln["rn"], "auth_asym_id": ln["ch"], "auth_atom_id": _q(ln["an"]),
            "pdbx_PDB_model_num": str(ln["m"]),
        }
        out.append(" ".join(row[c] for c in cols) + " ")
    out.append("#")
    return "\n".join(out) + "\n"


def emit(fmt, lines):
    return emit_pdb(lines) if fmt == "pdb" else emit_cif(lines)


# ----------------------------------------------------------------------------- projection

def _milli(v):
    return int(round(float(v) * 1000))
