SPECIFICATION Spec
CONSTANT Assignment = "AsImplemented"
CONSTANT MaxChain = 3
INVARIANT CleanIsFunction
INVARIANT SameMembers
INVARIANT OffPathArtefactsSame
INVARIANT Lemmas
CHECK_DEADLOCK FALSE
