----------------------------- MODULE MC_Elements -----------------------------
(***************************************************************************)
(* Design-level model of BpSeq.elements as the code performs it, explored  *)
(* for EVERY matching on 1..N:                                             *)
(*   Start       stems -> stop set -> tails, hairpins, loop candidates     *)
(*   OuterBegin  `for i in range(len(loop_candidates))`: loop = [cand i]   *)
(*               (the code's `if i in used` compares an int with strands   *)
(*                and never skips; modelled as is)                         *)
(*   Extend      follow an edge of the link graph to a candidate that is   *)
(*               neither used nor already in the loop (set iteration order *)
(*               is left open: any eligible j)                             *)
(*   Close       closing-pair test; all-short cycles are not reported      *)
(*   Finish      unused candidates become plain single strands             *)
(* PairlessShortcut = TRUE is the implementation (no stems => four empty   *)
(* lists); FALSE is the required behaviour (one tail covering 1..N).       *)
(***************************************************************************)
EXTENDS Elements

CONSTANTS N, PairlessShortcut
VARIABLES m, pc, cands, hairpins, singles, loops, used, ci, loop, cur
vars == <<m, pc, cands, hairpins, singles, loops, used, ci, loop, cur>>

R        == Regions(m)
Seq0     == [i \in 1..N |-> "N"]
Db       == Fill(N, R, FcfsLevels(R))
StopSet  == UNION { {r[1], r[1] + r[3] - 1, r[2] - r[3] + 1, r[2]} : r \in R }
RECURSIVE SortNat(_)
SortNat(S) == IF S = {} THEN <<>> ELSE <<Min(S)>> \o SortNat(S \ {Min(S)})
Stops    == SortNat(StopSet)

Strand(f, l) == [first |-> f, last |-> l, sequence |-> SubSeq(Seq0, f, l), structure |-> SubSeq(Db, f, l)]
InteriorUnpaired(f, l) == \A x \in (f + 1)..(l - 1) : Unpaired(m, x)

\* windows between consecutive stops, in order
Windows == [i \in 1..(Len(Stops) - 1) |-> <<Stops[i], Stops[i + 1]>>]
IsHairpinW(w) == InteriorUnpaired(w[1], w[2]) /\ Partner(m, w[1]) = w[2]
IsCandW(w)    == InteriorUnpaired(w[1], w[2]) /\ Partner(m, w[1]) # w[2]

Init == /\ m \in Matchings(1..N)
        /\ pc = "start" /\ cands = <<>> /\ hairpins = <<>> /\ singles = <<>> /\ loops = <<>>
        /\ used = {} /\ ci = 1 /\ loop = <<>> /\ cur = 0

Start ==
  /\ pc = "start"
  /\ IF R = {} THEN
        /\ singles' = IF PairlessShortcut \/ N = 0 THEN <<>> ELSE << <<1, N, TRUE, TRUE>> >>
        /\ pc' = "done" /\ UNCHANGED <<cands, hairpins>>
     ELSE
        /\ singles' = (IF Stops[1] > 1 THEN << <<1, Stops[1], TRUE, FALSE>> >> ELSE <<>>)
                      \o (IF Stops[Len(Stops)] < N THEN << <<Stops[Len(Stops)], N, FALSE, TRUE>> >> ELSE <<>>)
        /\ hairpins' = SelectSeq(Windows, IsHairpinW)
        /\ cands' = SelectSeq(Windows, IsCandW)
        /\ pc' = "outer"
  /\ UNCHANGED <<m, loops, used, ci, loop, cur>>

\* link graph: i -> j when the partner of the last nucleotide of candidate i opens candidate j
Edge(i, j) == i # j /\ Partner(m, cands[i][2]) = cands[j][1]

OuterBegin ==
  /\ pc = "outer" /\ ci <= Len(cands)
  /\ loop' = <<ci>> /\ cur' = ci /\ pc' = "extend"
  /\ UNCHANGED <<m, cands, hairpins, singles, loops, used, ci>>

Eligible == { j \in 1..Len(cands) : Edge(cur, j) /\ j \notin used /\ \A t \in 1..Len(loop) : loop[t] # j }

Extend ==
  /\ pc = "extend"
  /\ IF Eligible # {} THEN \E j \in Eligible : loop' = Append(loop, j) /\ cur' = j /\ UNCHANGED pc
     ELSE pc' = "close" /\ UNCHANGED <<loop, cur>>
  /\ UNCHANGED <<m, cands, hairpins, singles, loops, used, ci>>

Close ==
  /\ pc = "close"
  /\ IF /\ Partner(m, cands[loop[1]][1]) = cands[loop[Len(loop)]][2]
        /\ ~(\A t \in 1..Len(loop) : cands[loop[t]][2] - cands[loop[t]][1] <= 1)
     THEN loops' = Append(loops, loop) /\ used' = used \cup { loop[t] : t \in 1..Len(loop) }
     ELSE UNCHANGED <<loops, used>>
  /\ ci' = ci + 1 /\ pc' = "outer" /\ loop' = <<>> /\ cur' = 0
  /\ UNCHANGED <<m, cands, hairpins, singles>>

Finish ==
  /\ pc = "outer" /\ ci > Len(cands)
  /\ singles' = singles \o [k \in 1..Cardinality({ j \in 1..Len(cands) : j \notin used }) |->
                   LET j == SortNat({ x \in 1..Len(cands) : x \notin used })[k] IN <<cands[j][1], cands[j][2], FALSE, FALSE>>]
  /\ pc' = "done"
  /\ UNCHANGED <<m, cands, hairpins, loops, used, ci, loop, cur>>

Next == Start \/ OuterBegin \/ Extend \/ Close \/ Finish
Spec == Init /\ [][Next]_vars

\* the element record the code would return
Result ==
  [ stems    |-> [k \in 1..Cardinality(R) |->
                    LET r == SortRegions(R)[k] IN
                    [s5 |-> Strand(r[1], r[1] + r[3] - 1), s3 |-> Strand(r[2] - r[3] + 1, r[2])]],
    singles  |-> [k \in 1..Len(singles) |-> [strand |-> Strand(singles[k][1], singles[k][2]),
                                              is5p |-> singles[k][3], is3p |-> singles[k][4]]],
    hairpins |-> [k \in 1..Len(hairpins) |-> [strand |-> Strand(hairpins[k][1], hairpins[k][2])]],
    loops    |-> [k \in 1..Len(loops) |->
                    [strands |-> [t \in 1..Len(loops[k]) |-> Strand(cands[loops[k][t]][1], cands[loops[k][t]][2])]]] ]

ClausesHold == pc = "done" => ElementsFail(m, N, Seq0, Db, Result) = "ok"
\* no loop is reported twice (the never-true `i in used` test is harmless)
NoDuplicateLoops == \A a \in 1..Len(loops) : \A b \in 1..Len(loops) : a # b =>
                      { loops[a][t] : t \in 1..Len(loops[a]) } \cap { loops[b][t] : t \in 1..Len(loops[b]) } = {}
=============================================================================
