SPECIFICATION Spec
CONSTANT MaxSerial = 99999
CONSTANT MaxRes = 9999
CONSTANT ChainIds <- RealChainIds
CHECK_DEADLOCK FALSE
