SPECIFICATION Spec
CONSTANT Mode = "listing"
CONSTANT McAlphabet = {"c"}
CONSTANT McMaxLen = 0
CONSTANT McUnitKinds = {"plain", "icode", "few4", "nonint", "empty"}
CONSTANT McTabKinds = {"three", "two", "extra"}
CONSTANT McLabelKinds = {"lw", "stack", "unknown", "empty"}
CONSTANT McWraps = {"none"}
CONSTANT MaxLines = 2
CONSTANT Contained = {"ValueError", "IndexError"}
CONSTANT McNameKinds = {"exact"}
CONSTANT McLwKinds = {"valid"}
CONSTANT MaxPairs = 0
CONSTANT McStackKinds = {"exact"}
CONSTANT MaxStackLen = 0
CONSTANT MaxStacks = 0
CONSTANT LwTest = "members"
INVARIANT Fr3dNeverRaises
INVARIANT LineYieldsExactlyOne
INVARIANT MalformedSkipped
INVARIANT UnknownKeptAsOther
CHECK_DEADLOCK FALSE
