SPECIFICATION Spec
CONSTANT Assignment = "Required"
CONSTANT MaxChain = 5
INVARIANT SameAcrossRuns
INVARIANT CleanIsFunction
INVARIANT SameMembers
INVARIANT HashOrderArtefactsAre
INVARIANT Lemmas
CHECK_DEADLOCK FALSE
