"""C20 - mmCIF item editing changes only its target; CLI output equals library result."""
import json
import os
from concurrent.futures import ThreadPoolExecutor

from .. import lib, cifedit as ce

PID = "C20"
TIERS = {
    "quick":    dict(mc=["MC_CifEdit_quick.cfg"], gen="Gen_CifEdit_quick.cfg", rnd=600,
                     corpus_bytes=30_000, corpus_ops=3),
    "thorough": dict(mc=["MC_CifEdit_quick.cfg", "MC_CifEdit_full2.cfg", "MC_CifEdit_rows3.cfg"],
                     gen="Gen_CifEdit_thorough.cfg", rnd=8000, corpus_bytes=10_000_000, corpus_ops=6),
}
NEGATIVE = [("MC_CifEdit_neg_inplace.cfg", "main opens the output before reading the input (CliOpensOutputFirst = "
                                         "TRUE): editing a file in place sees an empty input"),
            ("MC_CifEdit_neg_path.cfg", "main passes the path as file_content (CliReadsFile = FALSE)"),
            ("MC_CifEdit_neg_tuple.cfg", "main writes replace_value's tuple (CliWritesText = FALSE)"),
            ("MC_CifEdit_neg_asimpl.cfg", "main as implemented (both)")]    # the last one: thorough only
ACTIONS = ("LibCall", "CliCopy", "CliReplace", "ReadFile", "ReturnUnchanged", "BeginCopy", "CopyRow",
           "BeginReplace", "ReplaceRow", "WriteFile", "LibReturn", "CliWrite")


def _record_all(cases):
    out = []
    for pair in lib.pmap(ce.record, cases):
        out += pair
    return out


def _balance(small, big, nchunks):
    """Order the cases so that trace_validate's consecutive chunks carry equal numbers of cases and
    the heavy corpus cases (weight = size of the input text) are spread over all chunks."""
    n = len(small) + len(big)
    size = (n + nchunks - 1) // nchunks
    caps = [min(size, max(0, n - k * size)) for k in range(nchunks)]
    buckets = [[] for _ in range(nchunks)]
    load = [0] * nchunks
    for c in sorted(big, key=lambda c: -(c["intext"]["len"] if c["kind"] == "lib" else 1)):
        k = min((k for k in range(nchunks) if len(buckets[k]) < caps[k]), key=lambda k: load[k])
        buckets[k].append(c)
        load[k] += c["intext"]["len"] if c["kind"] == "lib" else 1
    it = iter(small)
    for k in range(nchunks):
        while len(buckets[k]) < caps[k]:
            buckets[k].append(next(it))
    return [c for b in buckets for c in b]


def _sample(c):
    s = {k: c[k] for k in ("id", "kind", "src", "op") if k in c}
    if c["kind"] == "lib":
        if c["src"] != "corpus":
            s["in"] = c["in"]
        else:
            s["file"] = c["file"]
        s["lib"] = {"err": c["lib"]["err"], "ret": c["lib"]["ret"], "mapping": c["lib"]["mapping"][:8],
                    "text_head": c["lib"]["text"]["head"][:400]}
    else:
        s["path"] = c["path"]["head"]
        s["cli"] = {"err": c["cli"]["err"], "written": c["cli"]["written"], "text_head": c["cli"]["text"]["head"][:200]}
        s["lib_text_sha"] = c["lib"]["text"]["sha"]
    return s


def run(tier):
    t = TIERS[tier]
    rep = lib.Report(PID, tier, "model_checking")
    with lib.Scratch("c20") as sc:
        ce.set_workdir(sc.dir)
        # design-level model checks run beside the recording (they only need TLC)
        pool = ThreadPoolExecutor(max_workers=8)
        mc_jobs = [pool.submit(lib.mc, "MC_CifEdit", cfg, sc, workers=4 if tier == "quick" else 8) for cfg in t["mc"]]
        negs = NEGATIVE if tier == "thorough" else NEGATIVE[:3]
        neg_jobs = [pool.submit(lib.mc, "MC_CifEdit", cfg, sc, expect_violation="CliEqualsLib", workers=2)
                    for cfg, _ in negs]

        import time
        ph, t0 = {}, time.time()

        def mark(name):
            nonlocal t0
            ph[name] = round(time.time() - t0, 1)
            t0 = time.time()
        gen = ce.gen_cases(t["gen"], sc)
        mark("gen")
        rnd = ce.random_cases(t["rnd"], lib.seed())
        cor = ce.corpus_cases(t["corpus_bytes"], t["corpus_ops"])
        small = _record_all(gen + rnd)
        big = _record_all(cor)
        mark("record")
        dom_job = pool.submit(ce.domain_check, gen, t["gen"], sc)
        nchunks = 8 if tier == "quick" else lib.NCPU
        allc = _balance(small, big, nchunks)
        res = lib.trace_validate("Trace_CifEdit", "Trace_CifEdit.cfg", allc, sc, xmx="4g", chunks=nchunks)
        rep.add_trace(res, {c["id"]: c for c in allc}, "C20")
        mark("trace_validate")
        dom_job.result()
        mark("domain_check_wait")

        for j, cfg in zip(mc_jobs, t["mc"]):
            rep.add_mc(j.result(), "transformer algorithm (read, check, per-row copy / first-seen replace, write) "
                                   "followed by the CLI on the same input, for every small document and operation; "
                                   "clauses + lemmas as invariants, frame condition [][Untouched]_doc as action "
                                   f"property ({cfg})", min_actions=ACTIONS)
        for j, (cfg, what) in zip(neg_jobs, negs):
            rep.add_mc(j.result(), "negative control: " + what + " must violate CliEqualsLib", negative_control=True)
        pool.shutdown()
        mark("mc_wait")
        rep.cov["phase_wall_s"] = ph

        cov = rep.cov
        inputs = gen + rnd
        edits = [c for c in inputs if ce.is_edit(c)]
        cov["exhaustive"] = True
        with open(os.path.join(lib.SPECS, t["gen"])) as fh:
            bounds = ", ".join(line.split("CONSTANT", 1)[1].strip() for line in fh if "CONSTANT" in line)
        cov["rule"] = (f"every case of the bounded domain of Gen_CifEdit/{t['gen']} ({len(gen)} document x operation "
                       f"cases: kv + 1-2 loop categories, bounds {bounds}, source column over "
                       "every palette sequence, copy/replace over every present/absent/new item and an absent "
                       f"category; exhaustiveness re-checked by TLC) + {len(rnd)} seeded random documents (<= 4 "
                       f"categories, 5 items, 6 rows, {len(ce.VALUE_POOL)} value shapes, punctuation alphabets) + "
                       f"{len(cor)} operations on corpus files; each input is run through the library AND through "
                       "transformer.main - to a separate output file and in place, output path = input path (3 trace cases). Non-trivial = distinct (document, operation) whose "
                       "category and source item exist (an actual edit).")
        cov["distinct_nontrivial"] = len({json.dumps([c["in"], c["op"]], sort_keys=True) for c in edits})
        cov["inputs"] = {"gen": len(gen), "random": len(rnd), "corpus": len(cor)}
        cov["corpus_files"] = sorted({c["file"] for c in cor})
        pick = [c for c in small if c["id"] in (edits[0]["id"] + "-lib", edits[len(edits) // 2]["id"] + "-lib",
                                                edits[-1]["id"] + "-lib", edits[0]["id"] + "-cli")]
        cov["samples"] = [_sample(c) for c in pick + big[:2]]
        rep.assumptions += [
            "the harness's own mmCIF emitter and CIF 1.1 tokenizer are faithful (each generated document is "
            "re-read by the tokenizer and must come back identical, else machinery failure)",
            "documents have one data block (the code edits only the first block; multi-block files are outside "
            "the statement); quoted null markers ('?' as a literal string, indistinguishable from the null marker "
            "for the mmCIF reader the code uses) are not generated; empty strings appear only in the random documents",
            "alphabets have no repeated letter and at least as many letters as distinct values (statement's domain)",
            "text identity is compared through (length, SHA-256, first 2000 characters)",
            "the CLI is bound in-process: transformer.main() with sys.argv set, on real files in a scratch directory",
        ]
    return rep.finish()


def replay(doc):
    """Re-record the failing case against the current tree and re-validate it."""
    case = doc.get("case")
    if not case:
        print(doc.get("tlc_output_tail", ""))
        return run("quick")
    rep = lib.Report(PID, "quick", "model_checking", evidence=False)
    with lib.Scratch("c20r") as sc:
        ce.set_workdir(sc.dir)
        stem = case["id"]
        for suffix in ("-cli-inplace", "-cli", "-lib"):
            if stem.endswith(suffix):
                stem = stem[:-len(suffix)]
                break
        base = {"id": stem, "src": case["src"], "op": case["op"]}
        if case["src"] == "corpus":
            base["file"] = case["file"]
        else:
            base["in"] = case.get("raw") or case["in"]
            base["style"] = case.get("style", 0)
        recs = [c for c in ce.record(base) if c["id"] == case["id"]]
        res = lib.trace_validate("Trace_CifEdit", "Trace_CifEdit.cfg", recs, sc, chunks=1)
        rep.add_trace(res, {c["id"]: c for c in recs}, "C20")
        rep.cov["samples"] = [_sample(c) for c in recs]
        rep.cov["distinct_nontrivial"] = 1
    return rep.finish()
