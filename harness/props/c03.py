"""C03 - Reported base pairs are geometrically justified, edge-exclusive and maximal."""
from .. import annot, lib, measurer

PID = "C03"
MCS = {
    "quick": [
        ("MC_Annot_pairs.cfg", "find_pairs label counting + greedy edge occupation as implemented (O2' seen twice), "
                               "3 residues, <= 2 labels, counts 1..3, every tie order: EdgeExclusive, PairMaximal",
         None, ("CollectLabel", "GreedyTake", "GreedySkip", "GreedyDone")),
        ("MC_Annot_pairs_b.cfg", "same, 2 residues, <= 3 labels (all conflicts on one residue pair)",
         None, ("CollectLabel", "GreedyTake", "GreedySkip", "GreedyDone")),
        ("MC_Annot_pairs_req.cfg", "required variant (every contact counted once): EdgeExclusive, PairMaximal, PairSound",
         None, ("CollectLabel", "GreedyTake", "GreedySkip", "GreedyDone")),
        ("MC_Annot_pairs_neg.cfg", "negative control: as implemented (O2' counted twice) violates PairSound",
         "PairSound", ()),
    ],
    "thorough": [
        ("MC_Annot_pairs_T.cfg", "find_pairs label counting + greedy edge occupation as implemented, 3 residues, "
                                 "<= 3 labels, counts 1..3, every tie order: EdgeExclusive, PairMaximal",
         None, ("CollectLabel", "GreedyTake", "GreedySkip", "GreedyDone")),
        ("MC_Annot_pairs_T4.cfg", "same, 4 residues, <= 2 labels, <= 2 O2' contacts per label",
         None, ("CollectLabel", "GreedyTake", "GreedySkip", "GreedyDone")),
        ("MC_Annot_pairs_req_T.cfg", "required variant, 3 residues, <= 3 labels: EdgeExclusive, PairMaximal, PairSound",
         None, ("CollectLabel", "GreedyTake", "GreedySkip", "GreedyDone")),
        ("MC_Annot_pairs_neg.cfg", "negative control: as implemented (O2' counted twice) violates PairSound",
         "PairSound", ()),
    ],
}


def run(tier):
    rep = lib.Report(PID, tier, "exploration")
    with lib.Scratch("c03") as sc:
        measurer.constants(sc)
        annot.run_mcs(rep, sc, MCS[tier])
        recipes = annot.usable_recipes(tier) + annot.probe_recipes("C03", tier)
        cases = lib.pmap(annot.record_c03, recipes)
        chem = annot.chem_table_case()
        res, info = annot.validate("C03", cases + [chem], sc)
        by_id = {c["id"]: c for c in cases + [chem]}
        rep.add_trace(res, by_id, "C03")
        cov = rep.cov
        cov["pairs_reported"] = sum(len(c["pairs"]) for c in cases)
        cov["residue_pairs_with_demanded_class"] = sum(v[1] for v in info.values())
        cov["pairs_resting_on_O2prime_counted_twice"] = sum(v[2] for v in info.values())
        cov["contact_groups_measured"] = sum(len(c["con"]) for c in cases)
        cov["contacts_measured"] = sum(len(g["cs"]) for c in cases for g in c["con"])
        cov["structures"] = sorted({c["recipe"]["file"] for c in cases})
        cov["exhaustive"] = False
        cov["rule"] = ("corpus structures from tests/ (%d files), each as read, rigidly moved, jittered (sigma 0.02/0.1/0.3 A), "
                       "thinned of residues / atoms, squashed, residue order shuffled, and as a two-model structure; plus "
                       "threshold probes (two residues of a corpus structure, one moved rigidly so that one decision "
                       "quantity - a contact distance, a contact/normal angle, the cis/trans torsion - sits at its "
                       "threshold +- delta). Every donor-acceptor atom pair of different residues within 4.5 A whose atoms "
                       "lie on an edge is measured. A case (structure variant) is non-trivial when the code reports >= 1 "
                       "base pair AND the spec finds >= 1 residue pair with a demanded (>= 2 certain base-to-base "
                       "contacts) edge combination; distinct = distinct recipe ids." % len(cov["structures"]))
        cov["distinct_nontrivial"] = len({c["id"] for c in cases if c["pairs"] and info.get(c["id"], [0, 0, 0])[1] > 0})
        big = [c for c in cases if c["pairs"]]
        if big:
            s = min(big, key=lambda c: len(c["con"]))
            cov["samples"] = [{"id": s["id"], "recipe": s["recipe"], "model": s["model"], "con": s["con"][:3],
                               "pairs": s["pairs"][:4], "info": info.get(s["id"])}]
        else:
            cov["samples"] = [{"id": cases[0]["id"]}]
        rep.assumptions += [
            "distances/angles/torsions are measured by harness/measurer.py (independent numpy code); TLC sees integers "
            "in micro-units and a three-valued flag per threshold and re-checks their coherence (MeasureCoherent)",
            "thresholds and donor/acceptor/edge tables come from specs/Annot.tla via Gen_Annot (never from /repo)",
            "an atom of a residue is the first atom carrying the name; base normal as defined in Annot.tla",
            "completeness is demanded only for base-to-base contacts of residues with a base normal and C1'/N1|N9, "
            "all flags strictly inside; soundness accepts flags within 1e-6 of a threshold and O2' contacts",
        ]
    return rep.finish()


def replay(doc):
    case = doc.get("case")
    if not case:
        print(doc.get("tlc_output_tail", ""))
        return run("quick")
    rep = lib.Report(PID, "quick", "exploration", evidence=False)
    with lib.Scratch("c03r") as sc:
        measurer.constants(sc)
        rec = annot.chem_table_case() if case.get("kind") == "chem" else annot.record_c03(case["recipe"])
        res, info = annot.validate("C03", [rec], sc)
        rep.add_trace(res, {rec["id"]: rec}, "C03")
        rep.cov["samples"] = [{"id": rec["id"], "recipe": rec.get("recipe")}]
        rep.cov["distinct_nontrivial"] = 1
    return rep.finish()
