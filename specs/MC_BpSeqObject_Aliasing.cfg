SPECIFICATION Spec
CONSTANT N = 8
CONSTANT MaxObjs = 3
CONSTANT Aliasing = TRUE
PROPERTY FramePurity
INVARIANT TextIsOriginal
INVARIANT AnswerStability
INVARIANT RemovalSemantics
INVARIANT CachesFresh
CHECK_DEADLOCK FALSE
