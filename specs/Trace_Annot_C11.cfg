SPECIFICATION Spec
CONSTANT Family = "C11"
CHECK_DEADLOCK FALSE
