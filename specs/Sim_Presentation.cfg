SPECIFICATION Spec
CONSTANT NRot = 6
CONSTANT NAxis = 23
CONSTANT NTrans = 6
CONSTANT NPerm = 3
CONSTANT NShift = 3
CONSTANT NIcode = 2
CONSTANT MaxSteps = 5
INVARIANT Deliverable
CHECK_DEADLOCK FALSE
