"""C11 - Interaction lists are well-formed and self-consistent."""
from .. import annot, lib, measurer

PID = "C11"


def run(tier):
    rep = lib.Report(PID, tier, "exploration")
    with lib.Scratch("c11") as sc:
        measurer.constants(sc)
        annot.run_mcs(rep, sc, [
            ("MC_Annot_bph.cfg", "merge_and_clean_bph_br as list surgery on an ordered set for every non-empty set of raw "
                                 "classes: equals the declarative MergedSet, one class left, class implied; table laws "
                                 "(Saenger functional, reverse law for 7x7 letters x 18 classes, LW reverse involution, "
                                 "edge/donor/acceptor table consistency)",
             None, ("ClassifyBph", "EndClassify", "MergeBph35", "MergeBph79", "KeepFirst")),
        ])
        recipes = annot.usable_recipes(tier) + annot.synth_bph_recipes(5 if tier == "quick" else 100)
        cases = lib.pmap(annot.record_c11, recipes)
        tables = annot.table_cases() + [annot.chem_table_case()]
        allc = cases + tables
        res, info = annot.validate("C11", allc, sc)
        rep.add_trace(res, {c["id"]: c for c in allc}, "C11")
        cov = rep.cov
        cov["interactions_checked"] = sum(v[0] for v in info.values())
        cov["bph_br_with_forced_class"] = sum(v[1] for v in info.values())
        cov["pairs_with_saenger_class"] = sum(v[2] for v in info.values())
        cov["saenger_table_entries_compared"] = len(tables[0]["entries"])
        cov["detect_saenger_calls"] = len(tables[1]["calls"])
        cov["by_kind"] = {k: sum(len(c[k]) for c in cases) for k in ("pairs", "stacks", "bph", "br")}
        cov["structures"] = sorted({c["recipe"]["file"] for c in cases})
        cov["exhaustive"] = False
        cov["rule"] = ("annotation of corpus structures from tests/ (%d files), each as read (all reader models that exist, up "
                       "to 3), rigidly moved, jittered, thinned, squashed and as a two-model structure (model 1 / model 2 "
                       "analysed); synthetic placements of phosphate/ribose oxygens around every 1- and 2-subset of the base donor atoms "
                       "of each letter (seeded random direction/distance 2.6-4.15 A); written CSV/JSON parsed back; plus the implementation's Saenger table, LW reverse map and "
                       "detect_saenger on all 7x7x18 combinations. A case is non-trivial when it holds >= 1 base pair, "
                       ">= 1 stacking and >= 1 base-phosphate or base-ribose interaction; distinct = distinct recipe ids."
                       % len(cov["structures"]))
        cov["distinct_nontrivial"] = len({c["id"] for c in cases if c["pairs"] and c["stacks"] and (c["bph"] or c["br"])})
        cov["synthetic_bph_br_placements"] = sum(1 for c in cases if c["recipe"]["variant"] == "synthbph")
        cov["merged_classes_seen"] = sum(1 for c in cases for b in c["bph"] + c["br"] if b["cls"] in (4, 8))
        big = [c for c in cases if c["pairs"] and c["bph"]]
        if big:
            s = min(big, key=lambda c: len(c["res"]))
            cov["samples"] = [{"id": s["id"], "recipe": s["recipe"], "model": s["model"], "pairs": s["pairs"][:4],
                               "stacks": s["stacks"][:3], "bph": s["bph"][:3], "br": s["br"][:3],
                               "bcon": s["bcon"][:2], "csv": s["w"]["csv"][:3], "info": info.get(s["id"])}]
        else:
            cov["samples"] = [{"id": cases[0]["id"]}]
        cov["samples"].append({"id": "table", "entries": tables[0]["entries"][:4], "reverse": tables[0]["reverse"][:3]})
        rep.assumptions += [
            "residue order key = (rank of the chain string in Python string order, number, insertion code point); the "
            "comparison itself is done by TLC",
            "base->phosphate/ribose distances and class torsions are measured by harness/measurer.py; a class is FORCED only "
            "when neither atom has another possible phosphate/ribose contact (the code consumes atoms greedily in KD-tree "
            "order, which the statement leaves open)",
            "thresholds, Saenger table, class table come from specs/Annot.tla (never from /repo)",
            "CSV/JSON are parsed back with Python's csv/json modules; residue names are rendered independently",
        ]
    return rep.finish()


def replay(doc):
    case = doc.get("case")
    if not case:
        print(doc.get("tlc_output_tail", ""))
        return run("quick")
    rep = lib.Report(PID, "quick", "exploration", evidence=False)
    with lib.Scratch("c11r") as sc:
        measurer.constants(sc)
        if case.get("kind") == "ann":
            recs = [annot.record_c11(case["recipe"])]
        else:
            recs = [c for c in annot.table_cases() + [annot.chem_table_case()] if c["id"] == case["id"]]
        res, info = annot.validate("C11", recs, sc)
        rep.add_trace(res, {r["id"]: r for r in recs}, "C11")
        rep.cov["samples"] = [{"id": r["id"]} for r in recs]
        rep.cov["distinct_nontrivial"] = 1
    return rep.finish()
