SPECIFICATION Spec
CONSTANT TerOnModelChange = TRUE
CONSTANT CifChargeVerbatim = FALSE
CONSTANT ShapeLevel = 1
CONSTANT TerChainPadded = TRUE
CONSTANT BlankSecondChain = FALSE
CONSTANT MaxAtoms = 4
INVARIANT InvDomain
INVARIANT InvReadBack
INVARIANT InvLayout80
INVARIANT InvModelBracketing
INVARIANT InvTerAfterEveryChain
INVARIANT InvStrictGrammar
INVARIANT InvFieldIdentity
CHECK_DEADLOCK FALSE
