----------------------------- MODULE Presentation -----------------------------
(***************************************************************************)
(* How one and the same structure can be PRESENTED to the annotator:        *)
(*   a rigid motion (composition of seeded random rotations, exact axis     *)
(*   permutations / sign flips with determinant +1, integer translations),  *)
(*   the order of atoms inside residues, an order-preserving renaming of    *)
(*   chains and residue numbers, the delivery format (in-memory object,    *)
(*   PDB text, mmCIF text), and whether a text carries the records that     *)
(*   DESCRIBE the polymer besides its atoms (PDB: MODRES; mmCIF: entity,    *)
(*   entity_poly with the canonical one-letter sequence,                    *)
(*   pdbx_struct_mod_residue) - records that say what the atoms already say.*)
(* Presentation actions change only these variables - never the structure;  *)
(* property C05 is the frame property that the (canonicalised) annotation   *)
(* is the same in every state of a behaviour.                               *)
(* Guard built into the model: text formats carry 3 decimals, so a file     *)
(* can present a moved structure exactly only when the motion is            *)
(* lattice-exact (axis permutations, integer translations).  A random       *)
(* rotation therefore forces the in-memory format, and a file format is     *)
(* only enabled while no random rotation is part of the motion.             *)
(***************************************************************************)
EXTENDS Naturals, Sequences, TLC

CONSTANTS NRot,     \* seeded random rotations 1..NRot
          NAxis,    \* representatives of the 23 non-identity proper axis permutations
          NTrans,   \* integer translations (ids), up to +-500 A
          NPerm,    \* atom-order permutations (seeds)
          NShift,   \* residue-number shifts (ids)
          NIcode,   \* seeded patterns of insertion codes (k+1 becomes k^A for some residues k)
          MaxSteps

VARIABLES motion,   \* sequence of <<kind, id>> motions applied so far
          atomOrder,\* 0 = as in the file, k = k-th seeded shuffle
          chains,   \* 0 = original names, 1 = order-preserving renaming
          shift,    \* id of the residue-number shift (0 = none)
          icodes,   \* 0 = numbering as deposited, k = k-th order-preserving renumbering WITH insertion codes
          fmt,      \* "obj" | "pdb" | "cif"
          records,  \* 0 = atoms only, 1 = a text also carries the records describing the polymer (entity tables and
                    \* modification records), 2 = the modification records alone (a fragment cut from a bigger file)
          lastop,   \* the step just taken, for replay
          steps
vars == <<motion, atomOrder, chains, shift, icodes, fmt, records, lastop, steps>>

Formats == {"obj", "pdb", "cif"}
Exact(mo) == \A k \in 1..Len(mo) : mo[k][1] # "Rotate"

Init == /\ motion = <<>> /\ atomOrder = 0 /\ chains = 0 /\ shift = 0 /\ icodes = 0
        /\ fmt \in {"obj", "cif"} /\ records = 0 /\ lastop = <<"Deliver", 0>> /\ steps = 0

Step(op) == lastop' = op /\ steps' = steps + 1 /\ steps < MaxSteps

Rotate(k)    == /\ fmt = "obj"                       \* a random rotation is not representable in 3 decimals
                /\ motion' = Append(motion, <<"Rotate", k>>) /\ Step(<<"Rotate", k>>)
                /\ UNCHANGED <<atomOrder, chains, shift, icodes, fmt, records>>
AxisPerm(k)  == /\ motion' = Append(motion, <<"AxisPerm", k>>) /\ Step(<<"AxisPerm", k>>)
                /\ UNCHANGED <<atomOrder, chains, shift, icodes, fmt, records>>
Translate(k) == /\ motion' = Append(motion, <<"Translate", k>>) /\ Step(<<"Translate", k>>)
                /\ UNCHANGED <<atomOrder, chains, shift, icodes, fmt, records>>
PermuteAtoms(k) == /\ atomOrder' = k /\ atomOrder # k /\ Step(<<"PermuteAtoms", k>>)
                   /\ UNCHANGED <<motion, chains, shift, icodes, fmt, records>>
RenameChains == /\ chains' = 1 - chains /\ Step(<<"RenameChains", 1 - chains>>)
                /\ UNCHANGED <<motion, atomOrder, shift, icodes, fmt, records>>
ShiftNumbers(k) == /\ shift' = k /\ shift # k /\ Step(<<"ShiftNumbers", k>>)
                   /\ UNCHANGED <<motion, atomOrder, chains, icodes, fmt, records>>
InsertCodes(k)  == /\ icodes' = k /\ icodes # k /\ Step(<<"InsertCodes", k>>)
                   /\ UNCHANGED <<motion, atomOrder, chains, shift, fmt, records>>
SwitchFormat(f) == /\ f # fmt /\ (f = "obj" \/ Exact(motion))
                   /\ fmt' = f /\ Step(<<"SwitchFormat", IF f = "obj" THEN 0 ELSE IF f = "pdb" THEN 1 ELSE 2>>)
                   /\ UNCHANGED <<motion, atomOrder, chains, shift, icodes, records>>
\* the describing records come and go (they matter only while the format is a text)
ToggleRecords   == /\ records' = (records + 1) % 3 /\ Step(<<"ToggleRecords", (records + 1) % 3>>)
                   /\ UNCHANGED <<motion, atomOrder, chains, shift, icodes, fmt>>

Next == \/ \E k \in 1..NRot : Rotate(k)
        \/ \E k \in 1..NAxis : AxisPerm(k)
        \/ \E k \in 1..NTrans : Translate(k)
        \/ \E k \in 1..NPerm : PermuteAtoms(k)
        \/ RenameChains
        \/ \E k \in 0..NShift : ShiftNumbers(k)
        \/ \E k \in 0..NIcode : InsertCodes(k)
        \/ \E f \in Formats : SwitchFormat(f)
        \/ ToggleRecords
Spec == Init /\ [][Next]_vars

\* every reachable presentation is deliverable: a text format never has to carry a random rotation
Deliverable == fmt \in {"pdb", "cif"} => Exact(motion)
TypeOK == /\ fmt \in Formats /\ records \in 0..2 /\ atomOrder \in 0..NPerm /\ chains \in {0, 1} /\ shift \in 0..NShift /\ icodes \in 0..NIcode /\ steps <= MaxSteps

\* which sentence of the property a step exercises
ClauseOf(opname) ==
  CASE opname \in {"Rotate", "AxisPerm", "Translate"} -> "InvariantUnderMotion"
    [] opname = "PermuteAtoms" -> "InvariantUnderAtomOrder"
    [] opname \in {"RenameChains", "ShiftNumbers", "InsertCodes"} -> "InvariantUnderRelabel"
    [] opname \in {"SwitchFormat", "ToggleRecords"} -> "InvariantUnderFormat"
    [] OTHER -> "Delivery"
=============================================================================
