SPECIFICATION Spec
CONSTANT MaxModel = 2
CONSTANT MaxRows = 4
CONSTANT Opts = {"keep", "Keep", "PDB", "pdb", "mmCIF", "mmcif", "cif", "xyz", ""}
INVARIANT InvExit
INVARIANT InvFiles
INVARIANT InvRefusalLeavesNothing
INVARIANT InvPartition
INVARIANT InvSkipReported
PROPERTY FilesOnlyGrow
CHECK_DEADLOCK FALSE
