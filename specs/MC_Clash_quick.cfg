SPECIFICATION Spec
CONSTANT NAtoms = 3
CONSTANT MTypes = {"C", "P"}
CONSTANT MOccs = {100, 0}
CONSTANT MGaps = {100}
CONSTANT MNuc1 = {TRUE}
CONSTANT MLastFixed = TRUE
CONSTANT MMidRes = {2}
CONSTANT OccDefault = "none_only"
CONSTANT ChainFoldReads = "chain_map"
CONSTANT CsvMetadataArg = "file"
CONSTANT MaxRadiusOver = "all"
INVARIANT InvSearchRadiusCovers
INVARIANT InvKDTreeComplete
INVARIANT InvClashSetExact
INVARIANT InvEachPairOnce
INVARIANT InvResidueOfAtom
INVARIANT InvResidueMaxima
INVARIANT InvChainMaxima
INVARIANT InvCsvListsSame
CHECK_DEADLOCK FALSE
