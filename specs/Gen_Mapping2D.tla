---------------------------- MODULE Gen_Mapping2D ----------------------------
(***************************************************************************)
(* Generation mode for C06 (spec -> code): TLC enumerates the bounded      *)
(* input domain and writes it as NDJSON for the harness to materialise.    *)
(*  family L  every list of up to n entries (ordered residue pair x class, *)
(*            so reversed and exact duplicates, multiplets and triangles   *)
(*            are all included) over the demonstration structure, with and *)
(*            without gap detection; lists with one entry naming an absent *)
(*            residue inserted at every position; shorter lists also with  *)
(*            the chain names against the file order                       *)
(*  family S  every three-nucleotide structure shape: per junction         *)
(*            {same chain, new chain} x numbering step x {bonded, not},    *)
(*            a non-nucleotide at every position, gap detection on/off,    *)
(*            a few fixed entry lists                                      *)
(* Mode "check" re-reads the inputs of the RECORDED cases and confirms     *)
(* they are exactly this domain (a harness that skips cases is caught by   *)
(* TLC, not by the harness).                                               *)
(***************************************************************************)
EXTENDS Mapping2D, Json, IOUtils
CONSTANTS Tier,   \* "tiny" | "quick" | "thorough"
          Mode    \* "gen" | "check"

\* ---- family L ---------------------------------------------------------------
EntriesOver(cl) == { <<x, y, l>> : x \in DemoNuc, y \in DemoNuc, l \in cl } \ { <<x, x, l>> : x \in DemoNuc, l \in cl }
ListsUpTo(n, cl) == UNION { [1..m -> EntriesOver(cl)] : m \in 0..n }
AbsentEntries == { <<0, 1, "cWW">>, <<2, 0, "cWW">>, <<0, 5, "tHS">>, <<0, 0, "cWW">> }
PutAt(l, pos, d) == LET p == IF pos > Len(l) + 1 THEN Len(l) + 1 ELSE pos IN
                    [ i \in 1..(Len(l) + 1) |-> IF i < p THEN l[i] ELSE IF i = p THEN d ELSE l[i - 1] ]

\* lists naming the lower file index first (no reversed entries): a cheaper way to reach 3 entries in 2 classes
OrientedOver(cl) == { e \in EntriesOver(cl) : e[1] < e[2] }
ListsL == CASE Tier = "tiny"     -> ListsUpTo(2, {"cWW"})
            [] Tier = "quick"    -> ListsUpTo(3, {"cWW"}) \cup ListsUpTo(2, {"cWW", "tHS", "cWH"})
                                    \cup [1..3 -> OrientedOver({"cWW", "tHS"})]
            [] Tier = "thorough" -> ListsUpTo(4, {"cWW"}) \cup ListsUpTo(3, {"cWW", "tHS", "cWH"})
\* lists also run with the chain names against the file order
ShortL == CASE Tier = "tiny"     -> ListsUpTo(1, {"cWW"})
            [] Tier = "quick"    -> ListsUpTo(2, {"cWW", "tHS"})
            [] Tier = "thorough" -> ListsUpTo(3, {"cWW", "tHS"})
\* lists into which one entry naming an absent residue is inserted at every position
BaseA  == CASE Tier = "tiny"     -> ListsUpTo(1, {"cWW"})
            [] Tier = "quick"    -> ListsUpTo(2, {"cWW"})
            [] Tier = "thorough" -> ListsUpTo(2, {"cWW", "tHS"})
AbsentL == { PutAt(l, pos, d) : l \in BaseA, pos \in 1..4, d \in AbsentEntries } \* pos > Len+1 appends
CasesL ==
     { [fam |-> "L", entries |-> l, gaps |-> g, inorder |-> TRUE]  : l \in ListsL \cup AbsentL, g \in BOOLEAN }
\cup { [fam |-> "L", entries |-> l, gaps |-> g, inorder |-> FALSE] : l \in ShortL, g \in BOOLEAN }

\* ---- family S ---------------------------------------------------------------
StepsS == CASE Tier = "tiny" -> {1, 2} [] Tier = "quick" -> {1, 2, 4, 0} [] Tier = "thorough" -> {1, 2, 4, 0, 0 - 2}
NListsS == CASE Tier = "tiny" -> 1 [] Tier = "quick" -> 2 [] Tier = "thorough" -> 3
\* entry lists over the nucleotide ORDINALS 1..3 (letters G U C: 1-2 and 1-3 canonical, 2-3 not)
SLists == << << <<1, 2, "cWW">>, <<3, 1, "cWW">>, <<2, 3, "tHS">> >>,
             << <<1, 3, "cWW">> >>,
             << <<3, 2, "cWH">>, <<1, 3, "cWH">>, <<1, 2, "cWH">>, <<2, 1, "cWW">> >> >>
Adj == [nc : BOOLEAN, step : StepsS, conn : BOOLEAN]
SNucs(a) ==
  LET n1 == [chain |-> 1, number |-> 1, ic |-> 0, nuc |-> TRUE, letter |-> "G", conn |-> a[1].conn]
      n2 == [chain |-> IF a[1].nc THEN 2 ELSE 1, number |-> 1 + a[1].step, ic |-> IF a[1].step = 0 THEN 1 ELSE 0,
             nuc |-> TRUE, letter |-> "U", conn |-> a[2].conn]
      n3 == [chain |-> IF a[2].nc THEN 3 - n2.chain ELSE n2.chain, number |-> n2.number + a[2].step,
             ic |-> IF a[2].step = 0 THEN n2.ic + 1 ELSE 0, nuc |-> TRUE, letter |-> "C", conn |-> FALSE]
  IN <<n1, n2, n3>>
\* a non-nucleotide (water) at position h of the file: 0 none, 1 first, 2 after the first nucleotide, 3 last
SRes(a, h) ==
  LET ns == SNucs(a)
      w(c) == [chain |-> c, number |-> 77, ic |-> 0, nuc |-> FALSE, letter |-> "X", conn |-> FALSE]
  IN CASE h = 0 -> ns
       [] h = 1 -> << w(ns[1].chain) >> \o ns
       [] h = 2 -> << ns[1], w(ns[1].chain), ns[2], ns[3] >>
       [] h = 3 -> ns \o << w(ns[3].chain) >>
Ident(r) == <<r.chain, r.number, r.ic>>
DistinctIdents(res) == Cardinality({ Ident(res[k]) : k \in 1..Len(res) }) = Len(res)
\* ordinal -> file index once the water is inserted
FileIdx(h, o) == IF h = 1 \/ (h = 2 /\ o >= 2) THEN o + 1 ELSE o
CasesS ==
  { [fam |-> "S", res |-> SRes(a, h), gaps |-> g, adj |-> a, hole |-> h, list |-> li,
     entries |-> [ x \in 1..Len(SLists[li]) |-> << FileIdx(h, SLists[li][x][1]), FileIdx(h, SLists[li][x][2]), SLists[li][x][3] >> ]]
      : a \in { b \in [1..2 -> Adj] : DistinctIdents(SNucs(b)) }, h \in 0..3, g \in BOOLEAN, li \in 1..NListsS }

AllCases == CasesL \cup CasesS
Header   == [fam |-> "struct", res |-> DemoShape]

\* ---- mode "check": the recorded inputs are exactly the domain ---------------
Items  == JsonDeserialize(IOEnv.TRACE_FILE).items
KeyL(c) == <<c.entries, c.gaps, c.inorder>>
KeyS(c) == <<c.res, c.entries, c.gaps>>
ItemsOf(f) == { k \in 1..Len(Items) : Items[k].fam = f }
DomainOK ==
  /\ { KeyL(Items[k]) : k \in ItemsOf("L") } = { KeyL(c) : c \in CasesL }
  /\ Cardinality(ItemsOf("L")) = Cardinality(CasesL)
  /\ { KeyS(Items[k]) : k \in ItemsOf("S") } = { KeyS(c) : c \in CasesS }
  /\ Cardinality(ItemsOf("S")) = Cardinality(CasesS)

ASSUME Mode = "gen" => ndJsonSerialize(IOEnv.OUT_FILE, <<Header>> \o SetToSeq(AllCases))
ASSUME Mode = "gen" => PrintT(<<"GENERATED", Cardinality(CasesL), Cardinality(CasesS)>>)
ASSUME Mode = "check" => PrintT(<<"DOMAIN", DomainOK, Cardinality(ItemsOf("L")), Cardinality(ItemsOf("S"))>>)
=============================================================================
