SPECIFICATION Spec
CONSTANT Family = "C08"
CHECK_DEADLOCK FALSE
