SPECIFICATION Spec
CONSTANT NRot = 2
CONSTANT NAxis = 2
CONSTANT NTrans = 1
CONSTANT NPerm = 1
CONSTANT NShift = 1
CONSTANT NIcode = 1
CONSTANT MaxSteps = 4
INVARIANT Deliverable
INVARIANT TypeOK
CHECK_DEADLOCK FALSE
