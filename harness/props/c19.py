"""C19 - External-tool output is imported totally and faithfully (FR3D listings, DSSR JSON)."""
import random
import time
from concurrent.futures import ThreadPoolExecutor

from .. import lib, externalimport as xi

PID = "C19"
MODULE = "MC_ExternalImport"
TIERS = {
    "quick": dict(
        maxlen=4, line_copies=1, dssr_copies=1, nsynth=6, others=150, main_listings=12, main_dssr=6,
        corpus=["184D.cif"],
        mc="quick", chunks=8),
    "thorough": dict(
        maxlen=6, line_copies=3, dssr_copies=8, nsynth=40, others=3000, main_listings=150, main_dssr=60,
        corpus=["184D.cif", "1E7K_1_C.cif", "2HY9.cif"],
        mc="thorough", chunks=16),
}
MIN_ACTIONS = ("StripN", "StripA", "TryBR", "TryBPh", "TryStack", "TryLW", "FallThrough",
               "SkipLine", "ParseLine", "TooFewParts", "ParseUnit1", "ParseUnit2", "Unify", "AppendItem", "Catch", "Eof",
               "DssrPair", "DssrPairsEnd", "DssrStackStep", "DssrStackEnd", "DssrDone")
NEGATIVE = [("dssr_asimpl", "DssrPairsExact",
             "as implemented (LwTest = dir): an LW string that is a class attribute name raises KeyError"),
            ("listing_uncontained", "Fr3dNeverRaises",
             "what-if control: IndexError no longer contained by the per-line handler")]


def _mc(args):
    name, expect, sc, workers = args
    return lib.mc(MODULE, f"{MODULE}_{name}.cfg", sc, expect_violation=expect, workers=workers, xmx="6g")


def _mc_child(conn, jobs):
    """Runs in a forked child (started before any pool is forked): all design-level model checks."""
    try:
        with ThreadPoolExecutor(max_workers=len(jobs)) as ex:
            out = list(ex.map(_mc, jobs))
        conn.send(("ok", out))
    except BaseException as e:      # noqa: reported to the parent as a machinery failure
        conn.send(("error", f"{type(e).__name__}: {e}"))
    finally:
        conn.close()


def start_mc(tier_mc, sc):
    """Model checks run beside the recording and trace validation; returns a function that waits for them."""
    import multiprocessing as mp
    ctx = mp.get_context("fork")
    rx, tx = ctx.Pipe(duplex=False)
    jobs = [(tier_mc, None, sc, lib.NCPU)] + [(name, inv, sc, 2) for name, inv, _ in NEGATIVE]
    proc = ctx.Process(target=_mc_child, args=(tx, jobs), daemon=True)
    proc.start()
    tx.close()

    def wait():
        try:
            kind, val = rx.recv()
        except EOFError:
            raise lib.MachineryError("model-check child process died without a result")
        proc.join()
        if kind != "ok":
            raise lib.MachineryError("model check failed to run: " + str(val))
        return val[0], val[1:]
    return wait


def _nontrivial(c):
    """Distinct non-trivial case key, or None.  Uses only spec-computed template expectations / recorded sizes."""
    if c["kind"] == "labels":
        return ("labels", "".join(c["prefix"])) if c["hits"] else None
    if c["kind"] == "listing":
        n = len(c["result"]["items"])
        if 0 < n < len(c["lines"]):           # at least one line kept and one skipped
            return ("listing", tuple("".join(x) for x in c["lines"]))
        return None
    if c["kind"] == "dssr":
        total = len(c["pairs"]) + len(c["stacks"])
        got = len(c["result"]["bp"]) + len(c["result"]["st"])
        if c["result"]["err"] or (0 < got and len(c["result"]["bp"]) < len(c["pairs"])):
            return ("dssr", c["id"], total)
    return None


def run(tier):
    t = TIERS[tier]
    rep = lib.Report(PID, tier, "model_checking")
    rng = random.Random(lib.seed() * 7919 + 19)
    phases, t0 = {}, time.time()

    def mark(name):
        nonlocal t0
        phases[name] = round(time.time() - t0, 1)
        t0 = time.time()
    with lib.Scratch(PID.lower()) as sc:
        xi.set_scratch(sc.dir)
        wait_mc = start_mc(t["mc"], sc)        # design-level model checks (+ negative controls) run in the background
        # ---- code -> spec, part 1: the exhaustive label sweep through the real unify_classification
        jobs = xi.sweep_jobs(t["maxlen"])
        blocks = lib.pmap(xi.sweep_block, jobs, chunksize=4)
        label_cases = blocks + [xi.label_domain_case(blocks, t["maxlen"])]
        hit_labels = sorted({"".join(h["label"]) for b in blocks for h in b["hits"]})
        mark("label_sweep")
        # ---- spec -> code: template domains enumerated by TLC, materialised as text
        tpl = xi.gen_templates(tier, sc)
        mark("gen")
        listings = xi.listing_cases_from_templates(tpl["line"], rng, "lst", t["line_copies"])
        listings += xi.label_listing_cases(hit_labels + xi.other_labels(rng, t["others"]), rng, "lab")
        listings.append(xi.corpus_listing_case("184D-fr3d.txt"))
        listings.append(xi.corpus_listing_case("184D-fr3d.txt", via="main", struct="184D.cif"))
        for k in range(t["main_listings"]):
            src = listings[(k * 37) % max(1, len(listings) - 2)]
            listings.append(dict(src, id=f"main-{k}", via="main", struct="184D.cif"))
        structs = [xi.synthetic_structure(rng, rng.randint(4, 10)) for _ in range(t["nsynth"])]
        structs += [{"src": "corpus", "file": f} for f in t["corpus"]]
        structs = [{"struct": s, "recs": xi.build_structure(s)[1]} for s in structs]
        dssr = xi.dssr_cases_from_templates(tpl, structs, rng, "dssr", t["dssr_copies"])
        corpus_structs = [s for s in structs if s["struct"]["src"] == "corpus"]
        extra = xi.dssr_cases_from_templates({"pair": tpl["pair"][:: max(1, len(tpl["pair"]) // (4 * t["main_dssr"]))],
                                              "stack": tpl["stack"][::7]}, corpus_structs, rng, "dssrmain", 1)
        dssr += [dict(c, via="main") for c in extra[: t["main_dssr"]]]
        mark("materialise")
        recorded = lib.pmap(xi.record, listings + dssr)
        mark("record")
        allc = label_cases + recorded
        res = lib.trace_validate("Trace_ExternalImport", "Trace_ExternalImport.cfg", allc, sc, chunks=t["chunks"])
        mark("trace_validate")
        r, negs = wait_mc()
        mark("mc_wait")
        cov_phases = phases
        rep.add_mc(r, "adapter algorithm model (unify_classification, parse_fr3d_output, parse_dssr_output) over the "
                      f"{t['mc']} input spaces: C19 clauses as invariants", min_actions=MIN_ACTIONS)
        for (name, inv, what), rn in zip(NEGATIVE, negs):
            rep.add_mc(rn, f"{what}; must violate {inv}", negative_control=True)
        rep.add_trace(res, {c["id"]: c for c in allc}, "C19")
        cov = rep.cov
        tried = sum(b["count"] for b in blocks)
        cov["exhaustive"] = True
        cov["phase_wall_s"] = cov_phases
        cov["labels_tried"] = tried
        cov["labels_recognised"] = len(hit_labels)
        cov["templates"] = {k: len(v) for k, v in tpl.items()}
        cov["listings"] = len(listings)
        cov["listing_lines"] = sum(len(c["lines"]) for c in listings)
        cov["dssr_documents"] = len(dssr)
        cov["via_main"] = sum(1 for c in recorded if c["via"] == "main")
        cov["evaluations"] += tried - len(blocks)      # every string of the sweep is one evaluation of the real code
        cov["rule"] = (
            f"labels: EVERY string over the 25-symbol FR3D alphabet up to length {t['maxlen']} ({tried} strings, "
            f"{len(blocks)} blocks) through the real unify_classification, non-'other' results recorded, TLC compares with the "
            "grammar map and checks the block partition and counts; listings: every line template of the spec's product "
            f"domain (TLC Gen_ExternalImport: {len(tpl['line'])} line, {len(tpl['pair'])} DSSR pair, {len(tpl['stack'])} stack "
            f"templates) materialised x{t['line_copies']} with seeded residues/labels and grouped into listings, every "
            "recognised label plus seeded unknown labels in valid lines, the corpus listing, and a sample through adapter.main; "
            f"DSSR documents x{t['dssr_copies']} over {len(structs)} structures (synthetic + corpus). Non-trivial = a label "
            "block containing at least one grammar label, a listing with at least one kept and one skipped line, a DSSR "
            "document that raises or keeps some but not all of its pairs; distinct by input text.")
        cov["distinct_nontrivial"] = len({k for k in map(_nontrivial, allc) if k is not None})
        smp = [next(b for b in blocks if b["hits"]), recorded[0], recorded[len(listings)]]
        cov["samples"] = [dict(smp[0], hits=smp[0]["hits"][:3]), {k: v for k, v in smp[1].items() if k != "tmpl"},
                          {k: v for k, v in smp[2].items() if k != "residues"}]
        rep.assumptions += [
            "listings and DSSR documents are text files in the platform encoding; lines are separated by LF or CRLF",
            "a unit id number is an optionally signed decimal integer; Python-only integer spellings (1_0, surrounding "
            "blanks, non-ASCII digits) are neither generated nor required to be rejected",
            "a line whose first non-blank character is '#' is a comment even if the rest would parse",
            "DSSR: stack members are taken pairwise in the written order (a non-resolving member breaks the chain); a "
            "valid class is exactly one of the 18 Leontis-Westhof names; chains are not blank; residue names of the "
            "structure are distinct; nt1/nt2/LW/nts_long are strings (or absent / null LW)",
            "the label sweep's block counts are reported by the harness loop; TLC checks that the blocks partition the "
            "domain and that the counts add up to the sum of 25^k",
            "projection of interactions to JSON (list name, type name, enum value, auth chain/number/icode/name) is faithful",
        ]
    return rep.finish()


def replay(doc):
    """Re-record the failing case against the current tree and re-validate it."""
    case = doc.get("case")
    if not case:
        print(doc.get("tlc_output_tail", ""))
        return run("quick")
    rep = lib.Report(PID, "quick", "model_checking", evidence=False)
    with lib.Scratch("c19r") as sc:
        xi.set_scratch(sc.dir)
        if case["kind"] == "labels":
            rec = xi.sweep_block(("".join(case["prefix"]), case["tail"]))
        elif case["kind"] == "labeldomain":
            blocks = lib.pmap(xi.sweep_block, xi.sweep_jobs(case["maxlen"]), chunksize=4)
            rec = xi.label_domain_case(blocks, case["maxlen"])
        else:
            rec = xi.record(case)
        rec["id"] = case["id"]
        res = lib.trace_validate("Trace_ExternalImport", "Trace_ExternalImport.cfg", [rec], sc, chunks=1)
        rep.add_trace(res, {rec["id"]: rec}, "C19")
        rep.cov["samples"] = [{k: v for k, v in rec.items() if k not in ("residues", "hits")}]
        rep.cov["distinct_nontrivial"] = 1
    return rep.finish()
