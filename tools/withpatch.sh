#!/bin/sh
# tools/withpatch.sh <patch.diff> <PID> [tier]   : run ./check PID against a throw-away worktree of /repo HEAD
# with the patch applied (VERIF_REPO), then remove the worktree.  /repo itself is never touched.
patch="$1"; pid="$2"; tier="${3:-quick}"
wt=$(mktemp -d /tmp/wp-XXXXXX); rmdir "$wt"
git -C /repo worktree add --detach "$wt" HEAD >/dev/null 2>&1 || exit 2
if git -C "$wt" apply "$patch"; then
  (cd /verif && VERIF_REPO="$wt" ./check "$pid" --tier "$tier" 2>&1 | grep -v "^WARNING" | grep -E "VIOLATION|KNOWN-FINDING|MACHINERY|Traceback|Error|^\[" | cut -c1-260 | head -${LINES_SHOWN:-6})
else
  echo "patch does not apply"
fi
git -C /repo worktree remove --force "$wt"; rm -rf "$wt"
