----------------------------- MODULE MC_PdbText -----------------------------
(***************************************************************************)
(* Design-level model of rnapolis.parser_v2 write_pdb / write_cif /        *)
(* parse_pdb_atoms / parse_cif_atoms on the four round-trip paths of C09.  *)
(*                                                                         *)
(* write_pdb is a record machine, one action per buffer.write of the code: *)
(*   EmitModel, EmitAtom, EmitTer, EmitEndmdl, EmitEnd                     *)
(* over the variables <<lastModel, lastChain, lastRow (residue + serial)>> *)
(* exactly as the loop of write_pdb keeps them.  The other three functions *)
(* are single actions on a frame (WriteCif, ReadCif, ReadPdb).             *)
(*                                                                         *)
(* Variant constants (Required / AsImplemented):                           *)
(*   TerOnModelChange   TRUE : a TER is written for the open chain before  *)
(*                      the ENDMDL of a model that is followed by another  *)
(*                      FALSE: as implemented (chain tracking is reset,    *)
(*                      no TER)                                  -- P8a    *)
(*   CifChargeVerbatim  FALSE: write_cif converts the PDB charge text      *)
(*                      "1+" to the mmCIF integer "1"                      *)
(*                      TRUE : as implemented, the PDB text is copied into *)
(*                      pdbx_formal_charge and the integer-typed reader    *)
(*                      coerces it to NA                         -- P8b    *)
(***************************************************************************)
EXTENDS PdbText

CONSTANTS TerOnModelChange, CifChargeVerbatim, MaxAtoms,
          TerChainPadded,    \* TRUE = required: the chain column of a TER record is one character wide even for a
                             \* blank chain id; FALSE = as first implemented (chain text written verbatim)
          BlankSecondChain,  \* TRUE: the second chain of the structural tables has a blank identifier (PDB only)
          ShapeLevel     \* 0: no one-atom shape tables, 1: a covering selection, 2: the full product

VARIABLES orig,      \* the frame the path starts from: [fmt, rows]
          path,      \* remaining operations
          frame,     \* current frame
          src,       \* rows handed to the running / last write_pdb call
          txt,       \* PDB text (sequence of lines) written by it
          cif,       \* mmCIF atom_site rows (cells) written by write_cif
          pc, i, open, lastModel, lastChain, lastRow
vars == <<orig, path, frame, src, txt, cif, pc, i, open, lastModel, lastChain, lastRow>>

\* ------------------------------------------------------------------ input domain
ChA == <<"A">>
ChB == IF BlankSecondChain THEN <<>> ELSE <<"B">>
NoChain == <<"#">>         \* last_chain_id = None (a blank chain id is the EMPTY text, which is not None)
HasBlankChain(t) == \E k \in 1..Len(t) : t[k].chain = <<>>
\* the TER record as the writer formats it
FormatTerUnpadded(serial, a) ==
  LJust(<<"T","E","R">> \o Blanks(3) \o RJust(IntText(serial), 5) \o Blanks(6) \o RJust(a.resn, 3) \o <<Sp>>
        \o a.chain \o RJust(IntText(a.resseq), 4) \o a.icode, LineWidth)
TerText(serial, a) == IF TerChainPadded THEN FormatTer(serial, a) ELSE FormatTerUnpadded(serial, a)
Base(model, chain, k) ==
  [ rec |-> KwATOM, serial |-> k, name |-> <<"C","4","'">>, alt |-> <<>>, resn |-> <<"G">>, chain |-> chain,
    resseq |-> k, icode |-> <<>>, x |-> 1000 * k, y |-> -1, z |-> 12345, occ |-> 100, b |-> 1234,
    elem |-> <<"C">>, charge |-> 0, model |-> model ]

\* every table of n atoms in <= 2 models x <= 2 chains (models in file order)
StructOf(n) == { [k \in 1..n |-> Base(m[k], c[k], k)] :
                   m \in { f \in [1..n -> 1..2] : \A k \in 1..(n - 1) : f[k] <= f[k + 1] },
                   c \in [1..n -> {ChA, ChB}] }
StructTables == UNION { StructOf(n) : n \in 0..MaxAtoms }

\* one-atom tables over value shapes: the full product (ShapeLevel 2), or every atom kind x charge x
\* record type together with every alt x icode x number x coordinate x charge on one atom kind
Shape(kd, q, al, ic, rn, xx, rc) ==
  << [ Base(1, ChA, 1) EXCEPT !.name = AtomKinds[kd][1], !.elem = AtomKinds[kd][2], !.charge = q, !.alt = al,
         !.icode = ic, !.resseq = rn, !.x = xx, !.z = (IF xx > 1 THEN -1 ELSE 0 - xx), !.rec = rc,
         !.serial = IF rn = 9999 THEN 99998 ELSE 7,
         !.resn = IF rc = KwHETATM THEN AtomKinds[kd][2] ELSE <<"P","S","U">> ] >>
QSet  == {0, 1, -2}
AlSet == {<<>>, <<"A">>}
RnSet == {-12, 1, 9999}
XSet  == {-999999, 1, 9999999}
RcSet == {KwATOM, KwHETATM}
ShapeTables ==
  IF ShapeLevel = 0 THEN {}
  ELSE IF ShapeLevel = 2
  THEN { Shape(kd, q, al, ic, rn, xx, rc) : kd \in 1..Len(AtomKinds), q \in QSet, al \in AlSet, ic \in AlSet,
                                            rn \in RnSet, xx \in XSet, rc \in RcSet }
  ELSE { Shape(kd, q, <<>>, <<>>, 1, 1, rc) : kd \in 1..Len(AtomKinds), q \in QSet, rc \in RcSet }
       \cup { Shape(3, q, al, ic, rn, xx, KwATOM) : q \in QSet, al \in AlSet, ic \in AlSet, rn \in RnSet, xx \in XSet }

\* two atoms with charges in two models: the defects can meet
MixedTables ==
  { << [Base(1, ChA, 1) EXCEPT !.charge = q1], [Base(m2, c2, 2) EXCEPT !.charge = q2] >> :
      q1 \in {0, 1}, q2 \in {0, -2}, m2 \in {1, 2}, c2 \in {ChA, ChB} }

Tables == StructTables \cup ShapeTables \cup MixedTables

Paths(fmt) == IF fmt = "pdb" THEN { <<"write_pdb", "read_pdb">>,
                                     <<"write_cif", "read_cif", "write_pdb", "read_pdb">> }
              ELSE { <<"write_cif", "read_cif">>,
                     <<"write_pdb", "read_pdb", "write_cif", "read_cif">> }

Init ==
  /\ \E t \in Tables, fmt \in {"pdb", "cif"} :
       /\ \E p \in Paths(fmt) :
            /\ HasBlankChain(t) => fmt = "pdb" /\ p = <<"write_pdb", "read_pdb">>   \* blank ids exist in PDB text only
            /\ orig = [fmt |-> fmt, rows |-> [k \in 1..Len(t) |-> AsRow(t[k], fmt)], path |-> p]
            /\ path = p
  /\ frame = [fmt |-> orig.fmt, rows |-> orig.rows] /\ src = <<>> /\ txt = <<>> /\ cif = <<>>
  /\ pc = "next" /\ i = 0 /\ open = FALSE /\ lastModel = 0 /\ lastChain = NoChain /\ lastRow = <<>>

\* ------------------------------------------------------------------ write_pdb
\* _format_pdb_atom_line: int(float(charge)) -> "n+"/"n-" (0 -> blank); otherwise the text, cut to 2
FormatCharge(t) ==
  IF t = <<>> THEN <<>>
  ELSE IF IsIntText(t) THEN (IF IntVal(t) = 0 THEN <<>> ELSE PdbCharge(IntVal(t)))
  ELSE Take(t, 2)
ForLine(a) == [a EXCEPT !.charge = FormatCharge(a.charge)]

StartWritePdb ==
  /\ pc = "next" /\ path # <<>> /\ Head(path) = "write_pdb"
  /\ src' = frame.rows /\ txt' = <<>> /\ pc' = "w" /\ i' = 1
  /\ open' = FALSE /\ lastModel' = 0 /\ lastChain' = NoChain /\ lastRow' = <<>>
  /\ UNCHANGED <<orig, path, frame, cif>>

\* which buffer.write comes next
Want ==
  IF i <= Len(src) THEN
       IF ~open THEN "MODEL"
       ELSE IF src[i].model # lastModel THEN (IF TerOnModelChange /\ lastChain # NoChain THEN "TER" ELSE "ENDMDL")
       ELSE IF lastChain # NoChain /\ src[i].chain # lastChain THEN "TER"
       ELSE "ATOM"
  ELSE IF lastChain # NoChain THEN "TER" ELSE IF open THEN "ENDMDL" ELSE "END"

EmitModel ==
  /\ pc = "w" /\ Want = "MODEL"
  /\ txt' = Append(txt, FormatModel(src[i].model))
  /\ open' = TRUE /\ lastModel' = src[i].model /\ lastChain' = NoChain /\ lastRow' = <<>>
  /\ UNCHANGED <<orig, path, frame, src, cif, pc, i>>
EmitTer ==
  /\ pc = "w" /\ Want = "TER"
  /\ txt' = Append(txt, TerText(lastRow.serial + 1, lastRow))
  /\ lastChain' = NoChain
  /\ UNCHANGED <<orig, path, frame, src, cif, pc, i, open, lastModel, lastRow>>
EmitAtom ==
  /\ pc = "w" /\ Want = "ATOM"
  /\ txt' = Append(txt, FormatAtom(ForLine(src[i])))
  /\ lastChain' = src[i].chain /\ lastRow' = src[i] /\ i' = i + 1
  /\ UNCHANGED <<orig, path, frame, src, cif, pc, open, lastModel>>
EmitEndmdl ==
  /\ pc = "w" /\ Want = "ENDMDL"
  /\ txt' = Append(txt, KwENDMDL)
  /\ open' = FALSE /\ lastChain' = NoChain
  /\ UNCHANGED <<orig, path, frame, src, cif, pc, i, lastModel, lastRow>>
EmitEnd ==
  /\ pc = "w" /\ Want = "END"
  /\ txt' = Append(txt, KwEND)
  /\ pc' = "next" /\ path' = Tail(path)
  /\ UNCHANGED <<orig, frame, src, cif, i, open, lastModel, lastChain, lastRow>>

\* ------------------------------------------------------------------ parse_pdb_atoms
ReadPdb ==
  /\ pc = "next" /\ path # <<>> /\ Head(path) = "read_pdb"
  /\ frame' = [fmt |-> "pdb", rows |-> ReadPdbText(txt)]
  /\ path' = Tail(path) /\ txt' = <<>>          \* the text is consumed
  /\ UNCHANGED <<orig, src, cif, pc, i, open, lastModel, lastChain, lastRow>>

\* ------------------------------------------------------------------ write_cif / parse_cif_atoms
Cell(v, na) == IF v = <<>> THEN <<na>> ELSE v
WriteCif ==
  /\ pc = "next" /\ path # <<>> /\ Head(path) = "write_cif"
  /\ cif' = [k \in 1..Len(frame.rows) |->
               LET a == frame.rows[k] IN
               IF frame.fmt = "pdb"
               THEN [a EXCEPT !.alt = Cell(a.alt, "."), !.icode = Cell(a.icode, "."), !.elem = Cell(a.elem, "?"),
                              !.charge = IF a.charge = <<>> THEN <<".">>
                                         ELSE IF CifChargeVerbatim THEN a.charge
                                         ELSE CifCharge(ChargeVal(a.charge))]
               ELSE [a EXCEPT !.alt = Cell(a.alt, "?"), !.icode = Cell(a.icode, "?"), !.elem = Cell(a.elem, "?"),
                              !.charge = Cell(a.charge, "?")]]
  /\ path' = Tail(path)
  /\ UNCHANGED <<orig, frame, src, txt, pc, i, open, lastModel, lastChain, lastRow>>

UnCell(v) == IF v = <<".">> \/ v = <<"?">> THEN <<>> ELSE v
ReadCif ==
  /\ pc = "next" /\ path # <<>> /\ Head(path) = "read_cif"
  /\ frame' = [fmt |-> "cif",
               rows |-> [k \in 1..Len(cif) |->
                  LET a == cif[k] IN
                  [a EXCEPT !.alt = UnCell(a.alt), !.icode = UnCell(a.icode), !.elem = UnCell(a.elem),
                            \* integer-typed column: pd.to_numeric(errors="coerce").astype("Int64")
                            !.charge = IF IsIntText(a.charge) THEN IntText(IntVal(a.charge)) ELSE <<>>]]]
  /\ path' = Tail(path)
  /\ UNCHANGED <<orig, src, txt, cif, pc, i, open, lastModel, lastChain, lastRow>>

Finish ==
  /\ pc = "next" /\ path = <<>> /\ pc' = "done"
  /\ UNCHANGED <<orig, path, frame, src, txt, cif, i, open, lastModel, lastChain, lastRow>>

Next == StartWritePdb \/ EmitModel \/ EmitTer \/ EmitAtom \/ EmitEndmdl \/ EmitEnd
        \/ ReadPdb \/ WriteCif \/ ReadCif \/ Finish
Spec == Init /\ [][Next]_vars

\* ------------------------------------------------------------------ invariants (clauses of C09)
TextComplete == pc # "w" /\ txt # <<>>
Expected     == [k \in 1..Len(src) |-> ForLine(src[k])]

\* a finished text is read back (by the format's own reader) as the rows that were written
InvReadBack == TextComplete => ReadPdbText(txt) = Expected

InvLayout80 == TextComplete =>
  /\ Cardinality(AtomIdx(txt)) = Len(src)
  /\ \A k \in 1..Len(txt) :
       /\ Kind(txt[k]) = "ATOM" =>
            AtomLineBad(txt[k], Expected[Cardinality({ j \in AtomIdx(txt) : j <= k })]) = "ok"
       /\ Kind(txt[k]) = "TER" =>
            k > 1 /\ Kind(txt[k - 1]) = "ATOM"
            /\ TerLineBad(txt[k], Expected[Cardinality({ j \in AtomIdx(txt) : j <= k })]) = "ok"

InvModelBracketing    == TextComplete => ModelBracketing(txt, src)
InvTerAfterEveryChain == TextComplete => TerAfterEveryChain(txt)
\* the named deviation of the trace spec describes exactly what the as-implemented writer does
InvDeviationExact == TextComplete /\ ~TerOnModelChange /\ ModelRuns(src) > 1 => OnlyModelChangeLacksTerK(txt, Kinds(txt))
InvStrictGrammar      == TextComplete => Accepts(Kinds(txt), TRUE)

\* the round trip is the identity on every field of every row
InvFieldIdentity == pc = "done" => frame.fmt = orig.fmt /\ frame.rows = orig.rows
\* the named deviation of the trace spec describes exactly what the as-implemented write_cif does:
\* on the cross paths every formal charge is lost and nothing else changes
InvChargeDeviationExact == pc = "done" /\ CifChargeVerbatim =>
  /\ frame.fmt = orig.fmt
  /\ frame.rows = IF Len(orig.path) = 4 THEN [k \in 1..Len(orig.rows) |-> [orig.rows[k] EXCEPT !.charge = <<>>]]
                  ELSE orig.rows

\* every generated row fits the PDB widths and lies in the declared input domain
InvDomain == i = 0 /\ cif = <<>> => \A k \in 1..Len(orig.rows) : FitsWidths(orig.rows[k])
=============================================================================
