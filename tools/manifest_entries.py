"""MANIFEST entries for the properties integrated in session 3 (imported by mkmanifest.py)."""
COMMON_NOTE = ("Trusted base: TLC 1.8 evaluating the TLA+ clauses; the Python harness only materialises inputs, calls "
               "the public API of /repo/src, projects results to JSON and maps TLC verdict lines to exit codes. ")
ENTRIES = {
    "C03": dict(
        category='exploration', design='DESIGN.md §4/C03',
        technique=(
        "TLA+ spec (Annot) + TLC: design-level model check of find_pairs' label counting and greedy edge "
        'occupation (MC_Annot, Part pairs); trace validation (Trace_Annot, Family C03) of real annotations '
        'against independently measured contacts ').strip(),
        text=(
        "MC_Annot explores find_pairs' label counting and greedy edge occupation over 3 residues x <= 2 "
        'labels and 2 residues x <= 3 labels (thorough: 3 x <= 3 and 4 x <= 2), counts 1..3, every tie order, '
        'with EdgeExclusive and PairMaximal as invariants; the required variant (every contact counted once) '
        'also keeps PairSound, the as-implemented variant must violate it (negative control). Corpus '
        'structures (6 files / every non-empty file of tests/) as read, rigidly moved, jittered (sigma '
        '0.02/0.1/0.3 A), thinned of residues or atoms, squashed, shuffled, two-model, plus threshold probes '
        '(a contact distance, a contact/normal angle or the cis/trans torsion placed at its threshold +- '
        'delta) go through extract_base_interactions; every donor-acceptor contact within 4.5 A is measured '
        'and Trace_Annot decides ClassWellFormed, ParticipantsInModel, PairDistinct, PairSound, '
        'CisTransMatches, EdgeExclusive and PairMaximal per case (95 cases in quick). Sampled structures: '
        'exploration level. ').strip(),
        note=COMMON_NOTE + (
        'Distances, angles and torsions come from harness/measurer.py (independent numpy code); TLC sees '
        'micro-unit integers with a three-valued flag per threshold and re-checks their coherence '
        '(MeasureCoherent). Thresholds and donor/acceptor/edge tables come from Annot.tla via Gen_Annot. '
        'Completeness is demanded only for base-to-base contacts strictly inside every threshold; soundness '
        "accepts flags within 1e-6 and O2' contacts. The repaired O2' double count (fixed: 9354441) is kept "
        'as MC negative control; a pair resting on one distinct contact is a violation again. ').strip()),
    "C04": dict(
        category='exploration', design='DESIGN.md §4/C04',
        technique=(
        'TLA+ spec (Annot) + TLC: design-level model check of the find_stackings scan (MC_Annot, Part stack) '
        'over three-valued threshold flags; trace validation (Trace_Annot, Family C04) of real stackings '
        'against independently measured candidates ').strip(),
        text=(
        "MC_Annot scans one candidate pair over every three-valued flag combination (a 'near' flag lets the "
        'float comparison go either way) in both residue orders, and three residues in every chain/number '
        'order (6 / 36 flag combinations per candidate), with the clauses once, ordered, sound and complete '
        'as invariants. The same structure variants as C03 (6 corpus files / every non-empty file with reader '
        'models 1-3; as read, rigidly moved, jittered, thinned, squashed, shuffled, two-model) plus probes '
        'that put the centroid distance, normal angle or offset angle of two stacked residues at its '
        'threshold +- delta are annotated by extract_base_interactions; every residue pair with centroid '
        'distance <= 7 A is measured and Trace_Annot decides ParticipantsInModel, StackDistinct, StackSound, '
        'StackLabel, StackOrdered, StackOnce and StackComplete (83 cases, 871 stackings, 2478 candidates in '
        'quick). Sampled structures: exploration level. ').strip(),
        note=COMMON_NOTE + (
        'Centroids, normals and angles come from harness/measurer.py with the definitions stated in Annot.tla '
        '(three-atom normal, mean of base heavy atoms, first atom carrying a name); TLC re-checks flag '
        'coherence (MeasureCoherent). The direction of the centroid-centroid vector is read weakest for '
        'soundness and as the code reads it for completeness; direction-only candidates are counted as '
        'interpretation_sensitive, not judged. ').strip()),
    "C06": dict(
        category='model_checking', design='DESIGN.md §4/C06',
        technique=(
        'TLA+ spec (Mapping2D) + TLC: design-level model check of the Mapping2D3D pipeline (MC_Mapping2D), '
        'TLC-enumerated entry lists and structure shapes (Gen_Mapping2D, domain re-checked by TLC) replayed '
        'into the code, trace validation by Trace_Mapping2D ').strip(),
        text=(
        'MC_Mapping2D runs the pipeline action by action (lift, canonical filter, conflict loop, numbering, '
        'strands, render, extended rows) on every list of <= 3 cWW entries and <= 2 entries over {cWW, tHS} '
        'with absent residues and identifiers against file order (thorough: <= 3 entries over {cWW, tHS}, '
        'both orders), also with ANY conflict resolution, with the C06 clauses and lemmas as invariants; the '
        'as-implemented two-rows policy must violate InvExtEncodesEachOnce and InvExtRowsBalancedLen. '
        "Gen_Mapping2D enumerates family L (every entry list of the tier's bounds over a 5-residue 2-chain "
        'structure x gap detection: 14004 in quick) and family S (every 3-nucleotide structure shape: 4096); '
        "these, 12 / 300 seeded random lists per corpus structure and the library's own annotation go through "
        'Mapping2D3D, the adapter or the annotator, and Trace_Mapping2D decides Numbering, IndexMap, '
        'Symmetric, AtMostOnePartner, FromCanonical, KeepsUnconflicted, StrandsConcat, StrandsDecodeToBpseq, '
        'ExtRowsBalancedLen, ExtEncodesEachOnce. Exhaustive for L and S, sampled on the corpus. ').strip(),
        note=COMMON_NOTE + (
        "Which residues are nucleotides is taken from Residue3D.is_nucleotide; O3'-P bonding is re-measured "
        'by the harness. Not generated: entries between a residue and itself, over non-nucleotides, same pair '
        'and class with different Saenger labels, lists mixing label-only and auth-only references, more than '
        '7 pairs per class family. G-T cWW is left undecided; the survivor of a conflict is not prescribed. '
        'The repaired two-rows policy (fixed: cb3c6e6) is kept as MC negative control. ').strip()),
    "C08": dict(
        category='model_checking', design='DESIGN.md §4/C08',
        technique=(
        'TLA+ spec (AtomTable, AtomPalette) + TLC: design-level model check of the reader pipeline '
        '(MC_AtomTable), TLC-enumerated small files (Gen_AtomTable) and seeded tables written as PDB/mmCIF '
        'and read by the code, trace validation (Trace_AtomTable, Family C08) ').strip(),
        text=(
        'MC_AtomTable runs the reader machine (SeeModel, SeeAtom, Eof, dedupe, clash filter, model selection, '
        'grouping) over every well-formed file of <= 3 lines, 2 models and the null-marker palette (thorough: '
        '3 atom identities, <= 4 lines, residues 2 and 2A) for every request, with the AtomTable clauses as '
        'invariants; five as-implemented variants (dedup key without model, clash filter across models, '
        "occupancy '?', occupancy '.', icode '.') must violate RequestedModelReturned, CompleteInv or "
        'NullMarkersInv. Every well-formed file of <= 2 / 3 lines from Gen_AtomTable (456 in quick), 300 / '
        '4000 seeded tables over 9 model layouts x 14 atom features and corpus-derived windows are written as '
        'PDB and mmCIF and read by read_3d_structure (default and every present model) and parse_pdb / '
        'parse_cif; Trace_AtomTable decides NullMarkers, NeverAnotherModel, AtomsAsWritten, EveryAtomOnce, '
        'HighestOccupancyCopy, ClashKeepsBest, completeness, GroupingInFileOrder and LabelAsWritten (5474 '
        'cases in quick). ').strip(),
        note=COMMON_NOTE + (
        "The harness's own PDB (wwPDB 3.3 fixed columns) and mmCIF emitters are trusted to write the abstract "
        "table; coordinates carry three decimals and are read back as milli-Angstrom integers. The spec's "
        'InDomain guard skips (and counts) tables with a distance exactly 0.5 A, several clash partners or an '
        'absent requested model; occupancy ties are accepted either way. The five repaired reader defects '
        '(fixed: b6cb5df, 3ef2bb0) are kept as MC negative controls and are violations if they return. ').strip()),
    "C09": dict(
        category='model_checking', design='DESIGN.md §4/C09',
        technique=(
        'TLA+ spec (PdbText: column layout, record grammar, value-shape palettes) + TLC: design-level model '
        'check of write_pdb/write_cif/readers on the four paths (MC_PdbText); trace validation of real round '
        'trips and written PDB text (Trace_PdbText) ').strip(),
        text=(
        'MC_PdbText models write_pdb as a record machine (EmitModel, EmitAtom, EmitTer, EmitEndmdl, EmitEnd) '
        'with WriteCif, ReadCif, ReadPdb on the 4 paths over all tables of <= 4 / 5 atoms and the value '
        'shapes, with InvLayout80, InvModelBracketing, InvTerAfterEveryChain, InvStrictGrammar, InvReadBack '
        'and InvFieldIdentity as invariants; the as-implemented TER and charge variants must violate '
        "InvTerAfterEveryChain and InvFieldIdentity, and two 'exact' runs show the named deviations describe "
        'them precisely. 240 / 8000 seeded tables drawn from the palettes exported by Gen_PdbText '
        '(4-character and digit-leading names, 2-letter elements, charges, alt-locs, insertion codes, '
        'negative numbers, 1-3 models and chains; all value-shape pairs covered) go through pdb-pdb, cif-cif, '
        'pdb-cif-pdb, cif-pdb-cif and 40 / 1000 multi-model tables through splitter.main; Trace_PdbText '
        'slices every written line by the layout table and decides InputFaithful, RowCount, FieldIdentity, '
        'Layout80, ModelBracketing and TerAfterEveryChain (1120 cases in quick). ').strip(),
        note=COMMON_NOTE + (
        "The harness's PDB/mmCIF emitters are checked on every case by clause InputFaithful; projection of "
        'data frames to JSON (milli-units, centi-units, NA as empty) is trusted. Only tables fitting the PDB '
        'field widths are generated; mmCIF layout is never compared, only parsed values. The repaired TER and '
        'charge defects (fixed: a95525b, 83e5a15) are kept as MC negative controls. Seeded tables: sampled, '
        'not exhaustive. ').strip()),
    "C10": dict(
        category='model_checking', design='DESIGN.md §4/C10',
        technique=(
        'TLA+ spec (FitPdb over PdbText: limits, feasibility, renaming clauses) + TLC: design-level model '
        'check of fit_to_pdb with scaled limits (MC_FitPdb); trace validation with the real limits '
        '99999/9999/62 (Trace_FitPdb) ').strip(),
        text=(
        'MC_FitPdb runs fit_to_pdb step by step (CanWrite, Check1-3, RenameChains, RenumberResidues, '
        'RenumberSerial, RenameColumns) on every table of <= 4 atoms with limits scaled to serial 6, residue '
        '2, 2 chain ids (thorough: <= 5 atoms and a wider palette), checking the closed-form feasibility '
        'against the literal existence statement (LemmaExists, LemmaMustFit) and InvFitsOrValueError, '
        'InvIdentityWhenFits, InvFitted, InvTerSerialFree; the two as-implemented variants (categorical '
        'fillna TypeError, colliding column rename) must violate InvFitsOrValueError. 170 / 3000 seeded '
        'limit-hitting tables from 18 generators, 12 / 150 one-model files through splitter.main --format PDB '
        'and big tables (9999 / 10000 residues in a chain; thorough also 100000 and 99998 atoms) summarised '
        'as counts and digests are run through can_write_pdb, fit_to_pdb and write_pdb; Trace_FitPdb decides '
        'CanWriteExact, IdentityWhenFits, FitsOrValueError, OrderAndFieldsKept, RenamingBijective, '
        'SerialsDistinct and WriteReadBack. ').strip(),
        note=COMMON_NOTE + (
        'Emitters and frame projection are shared with C09. ValueError is accepted whenever no fit leaves a '
        'serial for the TER after every chain run (MustFit false). Big tables are judged on harness-computed '
        'summaries (counts, extrema, SHA-1 digests). unifier.main is not exercised. Since the repair of the '
        'mmCIF TypeError (fixed: 16b5c9f) the renaming clauses are decided on real fitted tables from every '
        'generator. ').strip()),
    "C11": dict(
        category='exploration', design='DESIGN.md §4/C11',
        technique=(
        'TLA+ spec (Annot: Saenger table, LW reverse, BPh/BR class table and merge rules) + TLC: design-level '
        'model check of merge_and_clean_bph_br and table laws (MC_Annot, Part bph); trace validation '
        "(Trace_Annot, Family C11) of real interaction lists, written CSV/JSON, the code's tables ").strip(),
        text=(
        'MC_Annot models merge_and_clean_bph_br as list surgery on an ordered set for every non-empty set of '
        'raw classes (equals the declarative MergedSet, one class left, class implied) and checks the table '
        'laws (Saenger functional, reverse law for 7x7 letters x 18 classes, LW reverse involution, table '
        'consistency). Annotations of the C03 structure variants (all reader models up to 3, model 1 / model '
        '2 of a two-model structure) and synthetic phosphate/ribose oxygens placed around every 1- and '
        '2-subset of the base donor atoms of each letter (5 / 100 per subset) are recorded with the written '
        'CSV/JSON parsed back; Trace_Annot decides ParticipantsInModel, NoSelf, NoRepeat, LowerFirst, Sorted, '
        'SaengerIffDefined, BphContact/BrContact, BphClassImplied/BrClassImplied, OneClassPerResiduePair, '
        'WritersFaithful, plus TableConforms, ReverseConforms and detect_saenger on all 882 combinations (799 '
        'cases, 2725 interactions in quick). Exploration level. ').strip(),
        note=COMMON_NOTE + (
        'The residue order key (rank of the chain string in Python string order, number, insertion code '
        "point) is built by the harness, the comparison is TLC's. Base-phosphate/ribose distances and class "
        'torsions come from harness/measurer.py; a class is forced only when neither atom has another '
        "possible contact (the code's greedy atom consumption is left open). CSV/JSON are parsed with "
        "Python's csv/json modules. ").strip()),
    "C14": dict(
        category='exploration', design='DESIGN.md §4/C14',
        technique=(
        'TLA+ spec (Determinism: table of 49 emission points, ordering kinds, static taint) + TLC: two-run '
        'model with the hash seed as adversary (MC_Determinism); trace validation (Trace_Determinism) of '
        'observations from fresh interpreters under different PYTHONHASHSEED values ').strip(),
        text=(
        "MC_Determinism performs the pipeline's emission points twice on the same input, the adversary "
        'choosing the permutation at every hashset point: under the Required assignment SameAcrossRuns, '
        'CleanIsFunction, SameMembers and the chain lemmas (MaxChain 4 / 6) hold; under AsImplemented the '
        'hash order is confined to all_dot_brackets, map_all_dot_brackets and cli_stdout_all, and '
        'SameAcrossRuns is violated (negative control). 15 / 96 fresh interpreters (PYTHONHASHSEED 0-3 / 0-10 '
        "plus 'random', x 3 / 8 shards) each observe every input twice: corpus files (4 / all) through the "
        'annotator CLI with all output options, the library API and parser_v2 write_pdb/write_cif, 120 / 1200 '
        'seeded knotted structures and 48 / 800 conflicting pair lists mapped onto 1ehz. Trace_Determinism '
        'compares sha-256 digests and list members per (input, artefact): AtLeastTwoProcesses, '
        'EveryProcessObserved, SameWithinProcess, SameAcrossRuns (740 cases, 20 artefacts in quick); '
        'deliberately corrupted traces must be judged as expected. ').strip(),
        note=COMMON_NOTE + (
        'Hash seeds are sampled, not enumerated: an order dependence needing a rarer seed or an id()-based '
        'collision pattern can be missed. Digests and the splitting of stdout into list members are harness '
        'projections. CBC is treated as a deterministic function of its LP; graphviz is observed through the '
        'DOT source. The repaired hash-ordered all_dot_brackets list (fixed: b55adbd) is kept as MC negative '
        'control. ').strip()),
    "C15": dict(
        category='model_checking', design='DESIGN.md §4/C15',
        technique=(
        'TLA+ spec (AtomTable part 4: ReadersAgree) + TLC: design-level model check of both reader '
        'generations action by action (MC_ReadersAgree); trace validation (Trace_AtomTable, Family C15) of '
        'four real readings per table ').strip(),
        text=(
        'MC_ReadersAgree runs the residue-level reader (V1Read, V1Connect) and the table-level reader '
        '(V2GroupBy, V2SortChain, V2SegmentStep, V2Flush) on every single-model single-conformer file of <= 4 '
        "/ 5 lines over a backbone palette (O3'/P at 1.6 A, 2.41 A, far) with SameResiduesInv, "
        'SameAtomsAndCoordsInv, SameConnectivityInv and ReadersAgree as invariants; two seeded design '
        'variants (chain sort ignoring the insertion code, bond threshold drifting to 2.415 A) must violate '
        'ReadersAgree. 300 / 5000 seeded backbones (1-2 chains, insertion-code successors, gaps, hetero '
        "tails; O3'-P at 1.600-2.399 A bonded, 2.401-7.0 A broken, P or O3' missing; null markers) and a "
        'window of 4 / 8 residues from 4 / 9 corpus files are written as PDB and mmCIF and read by '
        'read_3d_structure and parse_*_atoms + Structure; Trace_AtomTable decides NullMarkers, SameResidues, '
        'SameAtomsAndCoords, SameConnectivity and SameChiMagnitude (304 cases, 1021 |chi| comparisons in '
        'quick). ').strip(),
        note=COMMON_NOTE + (
        "The harness's emitters are trusted; coordinates are read back as milli-Angstrom integers, |chi| as "
        'micro-radians (tolerance 10). Scope decided by the spec (AgreeDomain): one model, no alternate '
        "locations, no atoms within 0.5 A, no O3'-P exactly 2.4 A, ascending numbers; cases outside are "
        'skipped and counted. Only |chi| is compared (the sign is C18); residue order is not compared. Seeded '
        'tables: sampled. ').strip()),
    "C17": dict(
        category='model_checking', design='DESIGN.md §4/C17',
        technique=(
        'TLA+ spec (Clash: radii, option filters, occupancy rule, declarative clash set, maxima) + TLC: '
        'design-level model check of find_clashes and main (MC_Clash), TLC-enumerated pair family '
        '(Gen_Clash), trace validation (Trace_Clash) of library results and CLI output ').strip(),
        text=(
        'MC_Clash runs find_clashes (collect, KD-tree query, filter cascade over pairs in any order) and '
        "main's aggregation, report and --csv for every 3-atom configuration on a line x 32 options "
        '(thorough: wider type, occupancy and gap palettes) with InvSearchRadiusCovers, InvKDTreeComplete, '
        'InvClashSetExact, InvEachPairOnce, InvResidueMaxima, InvChainMaxima and InvCsvListsSame; four '
        'variants (falsy occupancy default, chain fold, --csv path, carbon-only radius) must violate their '
        'invariant. Gen_Clash enumerates the pair family (10130 two-atom configurations at, just inside and '
        'just outside each radius sum; 600 sampled / all), plus 300 / 6000 random 3-5 atom palette '
        'configurations and 8 / 60 squashed corpus windows, each through find_clashes with all 32 options, '
        'and 100 / 1500 runs of clashfinder.main with and without --csv. Trace_Clash decides ResidueOfAtom, '
        'EachPairOnce, ClashSetExact, PrintedListsSame, PrintedGrouping, ResidueMaxima, ChainMaxima, '
        'CsvListsSame (29036 option results in quick). ').strip(),
        note=COMMON_NOTE + (
        'Atoms are typed by the first character of their name; an absent occupancy counts as 1. Palette '
        'distances are decided exactly by TLC; for corpus windows they come from an independent O(n^2) numpy '
        'measurer whose list of pairs nearer than 3 A is trusted; pairs within 2e-6 A of a threshold are not '
        'judged. main runs in-process; stdout/CSV are parsed by harness regexes. The three repaired defects '
        '(fixed: 2a3b7d3, dad41af, 1e13e7b) are kept as MC negative controls. ').strip()),
    "C18": dict(
        category='model_checking', design='DESIGN.md §4/C18',
        technique=(
        'TLA+ spec (TorsionLattice: exact integer classification of lattice 4-tuples into 16 angular cells) + '
        'TLC: step-by-step model of both torsion functions (MC_TorsionLattice), TLC-enumerated tuples '
        '(Gen_/Domain_TorsionLattice), trace validation (Trace_TorsionLattice) ').strip(),
        text=(
        "MC_TorsionLattice executes tertiary.py's and tertiary_v2's torsion step by step on every 4-tuple of "
        'lattice points with coordinates -1..1 (19683 tuples with p2 at the origin / all 531441, thorough '
        'also -2..2 slices), each as given, reversed and mirrored: tertiary.py satisfies LatticeOctant, '
        'ReversalKeeps and MirrorNegates, tertiary_v2 as implemented is exactly the negated cell '
        '(V2ExactlyNegated), the required m1 = b2 x n1 satisfies LatticeOctant, the oracle lemmas hold, and '
        'v2 as implemented violates LatticeOctant (negative control). Gen_TorsionLattice enumerates the non- '
        'degenerate tuples (14976 in quick; domain re-checked by Domain_TorsionLattice), thorough adds 60000 '
        'random tuples over -2..2; these, constructed-phi inputs (1-degree grid x 2 shapes plus 1500 / 120000 '
        'random, bond lengths 0.8-2.5 A, angles 20-160 degrees, rigid motion), backbone/chi torsions of 3 / '
        '13 corpus files and A-form chi tables go through both implementations; Trace_TorsionLattice decides '
        'Defined, InRange, LatticeOctant, ConstructedPhi, ReversalKeeps, MirrorNegates, ImplsAgree, '
        'CorpusTorsion, ChiTablesAgree, AFormChiAnti. ').strip(),
        note=COMMON_NOTE + (
        'Results are rounded to integer micro-radians, corpus coordinates to milli-A. Constructed-phi points '
        'are built by the harness in floating point and re-measured by its measurer, which TLC validates '
        'exactly on the lattice (MeasurerLatticeOctant, ConstructionSelfCheck) and then trusts for corpus '
        "coordinates. annotator.py's |angle| < 90 uses are not separately exercised. A tertiary_v2 value "
        'equal to the negated required angle is the open known finding V2TorsionSignFlipped (tests/test_v2.py '
        'pins the negated value, so it is recorded, not repaired); any other disagreement is a violation. ').strip()),
    "C19": dict(
        category='model_checking', design='DESIGN.md §4/C19',
        technique=(
        'TLA+ spec (Fr3dLabel grammar, ExternalImport line/unit-id/DSSR definitions) + TLC: design-level '
        'model check of the adapter (MC_ExternalImport), exhaustive label sweep and TLC-enumerated templates '
        '(Gen_ExternalImport) through the code, trace validation (Trace_ExternalImport) ').strip(),
        text=(
        'MC_ExternalImport models unify_classification (StripN, StripA, TryBR, TryBPh, TryStack, TryLW, '
        'FallThrough), parse_fr3d_output line by line and parse_dssr_output over the quick / thorough input '
        'spaces with LabelMapExact, Fr3dNeverRaises, LineYieldsExactlyOne, MalformedSkipped, '
        'UnknownKeptAsOther, DssrPairsExact and DssrStacksExact as invariants; the as-implemented `lw in '
        'dir(Enum)` test must violate DssrPairsExact and an uncontained IndexError must violate '
        'Fr3dNeverRaises. Every string over the 25-symbol FR3D alphabet up to length 4 / 6 (406901 in quick) '
        'goes through the real unify_classification and TLC compares the hits with the grammar map and checks '
        'that the blocks partition the domain. Every line, DSSR pair and stack template enumerated by '
        'Gen_ExternalImport (8072 / 1210 / 85 in quick) is materialised x1 / x3 (DSSR x1 / x8 over synthetic '
        'and corpus structures), plus every recognised label, unknown labels, the corpus listing and a sample '
        'through adapter.main; Trace_ExternalImport judges the raw text. ').strip(),
        note=COMMON_NOTE + (
        'A unit id number is an optionally signed decimal integer (Python-only spellings are not generated); '
        "a line starting with '#' is a comment. DSSR: stack members are taken pairwise in written order, a "
        "valid class is exactly one of the 18 LW names, residue names are distinct. The sweep's block counts "
        'come from the harness loop; TLC checks partition and totals. The repaired dir(Enum) membership test '
        '(fixed: c3ae606) is kept as MC negative control. ').strip()),
    "C20": dict(
        category='model_checking', design='DESIGN.md §4/C20',
        technique=(
        'TLA+ spec (CifEdit: abstract document, frame clauses, expected result) + TLC: design-level model '
        'check of transformer library + CLI with the frame condition as action property (MC_CifEdit), TLC- '
        'enumerated documents (Gen_CifEdit, domain re-checked), trace validation (Trace_CifEdit) ').strip(),
        text=(
        'MC_CifEdit runs the transformer (read, check, per-row copy / first-seen replace, write) and then the '
        'CLI on the same input for every small document and operation (2 values, <= 2 rows; thorough also the '
        'full by-standing category and 3 values x 3 rows) with MissingLeavesUntouched, the Frame invariants, '
        'InvCopyTargetEqualsSource, InvReplaceIsInjectiveFirstSeen, ModelMatchesExpected, '
        'ClausesRejectCorruption, CliEqualsLib and the action property FrameAction; the as-implemented CLI '
        '(path passed as content, tuple written) must violate CliEqualsLib. Every document x operation case '
        'of Gen_CifEdit (MaxItems 2 / 3, MaxRows 2 / 3, PalN 6; 1746 in quick), 600 / 8000 seeded random '
        "documents (quoted, multi-word, '?'/'.' values, punctuation alphabets) and operations on corpus files "
        'are run through copy_from_to / replace_value AND transformer.main; Trace_CifEdit decides '
        'FrameOtherCategories, FrameRowsAndOrder, FrameOtherItems, CopyTargetEqualsSource, '
        'ReplaceIsInjectiveFirstSeen, ExpectedDocument, MissingLeavesUntouched, OutputParses and CliEqualsLib '
        '(4732 cases in quick). ').strip(),
        note=COMMON_NOTE + (
        "The harness's own mmCIF emitter and CIF 1.1 tokenizer are trusted (every generated document must re- "
        'read identically). One data block per document; quoted null markers are not generated; alphabets '
        'have no repeated letter and enough letters. Text identity is compared through (length, SHA-256, '
        'first 2000 characters). The CLI is bound in-process with sys.argv set. The repaired CLI defects '
        "(fixed: 5a5cb46) are kept as MC negative control; '' re-written as '.' by the mmcif writer is the "
        'open known finding EmptyStringWrittenAsDot. ').strip()),
}

# Sentences appended to level_claimed.text after the checks were widened (seeded-change rounds, DESIGN 11.4)
ADDENDA = {
    "C01": "The converse direction also runs every bracket type alone and every ordered pair of types (nested and crossing). Multi-strand texts use higher bracket types and strands that begin with a closing bracket. Every seventh sequence carries placeholders and letters beyond ACGU (?, N, n, X, T, t) through the BPSEQ text round trip.",
    "C02": "Gen_StemFamily adds the stem-level family: every chord diagram of <= 4 (thorough 5) stems x a stem-length palette, and "
           "stars in which one stem is crossed by 10-16 others (optimality by brute force where feasible, stability always). MC_SecStruct proves lemma L7 (no swap of two levels of a component improves a MILP-optimal assignment) and the trace clause NoSwapImproves applies it to every recorded assignment, including 30-32 stem stars. Ladders of six and seven stems whose lengths do not descend (letter levels) are included.",
    "C03": "Structure variants also include base-only residues, residues that differ only by insertion code, residues listed in two "
           "blocks, and threshold probes at three scales (delta, delta/6, delta/60). Zero-occupancy base atoms, chains with longer names, and the DNA structure 6RS3 are among the quick inputs. Clause ContactTablesConform: the implementation's donor / acceptor / edge tables, as data, equal the tables of Annot.tla by which every measured contact is classified; variants zeronum and noring apply.",
    "C04": "Same widened variants and three-scale probes as C03. A two-model structure numbered 0 and 1 with model 0 analysed; every third structure was annotated before and the caller emptied the lists it got.",
    "C05": "Presentation.tla also has InsertCodes (order-preserving renumbering that introduces insertion codes); some bases carry "
           "unresolvable residue names so that base letters are detected from atoms; quick draws 140 behaviours. Every behaviour is extended by the format switches enabled at its end; a base with legacy atom names is included; presentations PDB cannot carry are marked undeliverable by the spec. Presentation.tla has the variable records / action ToggleRecords: a text format with and without the records that describe the polymer (MODRES; entity, entity_poly with the canonical sequence, pdbx_struct_mod_residue) must give the same annotation; one base carries 4-thiouridines. PDB texts use the layout of deposited files (TER closes the polymer, hetero groups follow); records may also be the modification records alone; one fixed tour per base visits every relabelling action in both text formats.",
    "C06": "Corpus variants with abasic nucleotides (base letter '?') are included. Every seventh case is a list merged from two sources (entries alternate between label+auth and auth-only naming). Every third mapping is asked for its extended rows first; entries that spell a blank insertion code the external tools' way are optional (the case must be in order for some reading of them); corpus variants with residues N and N^A alike in name. Lists whose two classifications disagree (cWW on complementary letters under a non-canonical Saenger class) are generated.",
    "C07": "The motif_extractor CLI is run plain and with --remove-isolated / --remove-pseudoknots in every combination; "
           "Trace_Elements derives the structure the tool must print and decompose. Clause SingleInteriorsUnpaired; the command-line tool also reads dot-bracket files whose levels are not the library's choice.",
    "C08": "Every third PDB rendering numbers its records from just below 10000 (five-digit serials). Three alternate locations with non-monotone occupancies, and model numbers that do not ascend in file order, are generated. Clash chains (falling / rising occupancies: the lower atom of a clashing pair is never kept), alternate conformers written as a block after the next residue, and handles already used by an earlier reader call are part of the domain. mmCIF tables may alternate between their models; every fifth case is written over a file the process read before with other content; every second PDB rendering puts TER before the hetero groups.",
    "C09": "Tables also use a blank chain identifier (PDB -> PDB paths, modelled in MC_PdbText with a negative control for the repaired "
           "TER column defect), model numbering from 0 and serials that end exactly at the limit (always through the splitter). Two of five generated mmCIF tables number their residues 1..n per chain in label_seq_id.",
    "C10": "Also: a 99 984-atom table with interleaved chains (serials run out during renumbering), row selections made after parsing, "
           "label_* names differing from the author names, and two-model files of which only one model exceeds the limits "
           "(one trace case per model through splitter.main). Residues distinguished only by insertion codes at the 9999/10000 boundary are included; read-back of occupancy/B tolerates the 0.01 of the PDB columns. Half of the row selections are made after the caller asked can_write_pdb about the whole table; multi-model tables whose models are not congruent are generated. unifier.main --format PDB (an observation point of the property) is run on pairs of mmCIF files that need fitting, one trace case per file. Atom ids that do not ascend (the largest one not last) are generated.",
    "C11": "Synthetic placements include three donors of one base in contact with one phosphate; the C03 variants (insertion codes, "
           "split residues, base-only residues) apply. Variants zeronum (a residue numbered 0 inside every chain) and noring (bases without the ring atoms behind the base-phosphate class); interactions touching a residue handed over in two blocks are judged for well-formedness and contact only. ContactTablesConform as in C03. Variant prefixchains (five-character chain names agreeing in their first four characters).",
    "C12": "A tenth operation, convert_to_dot_bracket(None), is part of the specification and of every history family; every second "
           "history runs after an unrelated sibling object (same pairs, other sequence and length) was solved in the same process; "
           "structures with 5 and 6 mutually crossing stems are included. Sequences carry letters beyond ACGU.",
    "C13": "Structures include one with 13 regions (two-digit indices in the MILP's constraint names) and sequences with letters "
           "beyond ACGU. A four-stem chain whose conflict edges are found out of order is among the fixed structures. Every third structure reaches the library as a dot-bracket text with non-canonical levels; a knot with a nested hairpin and a stem crossing both is among the fixed structures.",
    "C14": "Emission points v2_fit / v2_fit_write_pdb (the PDB text of a table that had to be fitted) are observed; alternate seeds meet "
           "their inputs in the opposite order and twin inputs (same component names, complete / without bases) share an interpreter. 4-thiouridines (base letter rests on a tie-break) are among the twin inputs. A structure with an 8-region conflict component and several hundred notations is observed; even repetitions ask a fresh mapping for its extended rows first.",
    "C15": "Consecutive residues exactly 2.4 A apart must be answered alike by all four readings (BoundaryAgree); tables with repeated "
           "atom records form a second domain (DupDomain) judged for agreement only (DupFailing). Clause ChiCoverage: a standard nucleotide holding its glycosidic atoms has a chi in every reading; free nucleotides in chains of their own and PDB renderings numbered from just below 10000 are generated. Sodium ions (names that read like a missing-value marker) and coordinates that fill their PDB columns are generated.",
    "C16": "For corpus structures the list rendered by Mapping2D3D.all_dot_brackets and the BpSeq's own list asked afterwards are "
           "validated too.",
    "C17": "CLI results are judged on an independent reading of the input file; generated mmCIF carries entity tables and nucleotide "
           "ligands in a non-polymer entity; the pair family has a distance class zero (coincident atoms) and residues N / N^A. Occupancy splits that are inexact in binary and symmetry mates that print alike in the CSV (trace kind csvcount) are included. Three-residue configurations with the middle residue in another chain give clashes between two chains in both orders. Crowds of twenty atoms within 2.5 A are part of the pair-palette family.",
    "C18": "Trace kind 'stem' binds the inter-stem torsion of Mapping2D3D.calculate_inter_stem_parameters (closest endpoints, IUPAC "
           "dihedral of the documented centroids, swapping the stems keeps the value); clauses SameAtomsBothPaths, "
           "ChiOnlyFromGlycosidicAtoms and TableRowPerResidue; quick corpus includes 1ehz, 4qln.pdb, 2HY9 and atom-drop variants. Corpus variants also rename residues to N and give residues a shared number with insertion codes. Every second structure has been annotated before its torsions are read; references are computed from the coordinate fields.",
    "C19": "Generated listings repeat lines and add coinciding lines (same residues, other label). DSSR documents with several models numbered off their positions are asked for by model number.",
    "C20": "The CLI is also run in place (output path = input path; MC_CifEdit models it, variant CliOpensOutputFirst is a negative "
           "control); documents with several data blocks and mixed-case data names are generated. Alphabets that look like ranges are among the --values pools. Alphabets shorter than the column's distinct values must be refused. Text values whose lines end in blanks are in the pools.",
}
