--------------------------- MODULE Gen_SecStruct ---------------------------
(* Generation mode: TLC enumerates the exhaustive input domain (every matching on
   1..n for n <= MaxN) and writes it as NDJSON for the harness to replay. *)
EXTENDS SecStruct, Json, IOUtils
CONSTANT MaxN
CasesOf(n) == { [n |-> n, pairs |-> SetToSeq(m)] : m \in Matchings(1..n) }
AllCases   == UNION { CasesOf(n) : n \in 0..MaxN }
ASSUME ndJsonSerialize(IOEnv.OUT_FILE, SetToSeq(AllCases))
ASSUME PrintT(<<"GENERATED", Cardinality(AllCases)>>)
=============================================================================
