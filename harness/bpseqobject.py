"""C12: replay call histories on real BpSeq objects and record every observable after each call."""
import json
import os
import random

from . import lib, secstruct as ss

OPS = ["str", "pairs", "sequence", "dot_bracket", "fcfs", "all", "elements",
       "without_pseudoknots", "without_isolated", "convert_none"]


def gen_histories(depth, maxobjs, scratch, n=8):
    """spec -> code: TLC enumerates every enabled history of `depth` calls (Gen_BpSeqObject)."""
    out = scratch.path("hist.ndjson")
    cfg = scratch.path("Gen_BpSeqObject.cfg")
    with open(cfg, "w") as f:
        f.write(f"CONSTANT N = {n}\nCONSTANT Depth = {depth}\nCONSTANT MaxObjs = {maxobjs}\n")
    r = lib.tlc("Gen_BpSeqObject", cfg, workers=1, env={"OUT_FILE": out}, scratch=scratch, xmx="8g", tag="gen")
    if not r["ok"] or not os.path.exists(out):
        raise lib.MachineryError("Gen_BpSeqObject failed:\n" + r["out"][-2000:])
    cases = []
    with open(out) as f:
        for k, line in enumerate(f):
            d = json.loads(line)
            cases.append({"id": f"h{depth}-{k}", "n": d["n"], "pairs": sorted(map(list, d["pairs"])),
                          "seq": [ss.LETTERS[(i + d["struct"]) % 4] for i in range(d["n"])],
                          "calls": [[c["recv"], c["op"]] for c in d["calls"]]})
    os.remove(out)
    return cases


def random_histories(count, length, seed, structs):
    rng = random.Random(seed * 977 + 11)
    cases = []
    for k in range(count):
        s = structs[k % len(structs)]
        calls, nobj = [], 1
        for _ in range(length):
            # bias towards the derivations and towards re-querying earlier objects afterwards
            op = rng.choice(OPS + ["without_isolated", "without_pseudoknots", "str", "elements"])
            calls.append([rng.randint(1, nobj), op])
            if op.startswith("without_") and nobj < 4:
                nobj += 1     # upper bound; the recorder clamps receivers to the objects that exist
        cases.append({"id": f"rh{seed}-{k}", "n": s["n"], "pairs": s["pairs"], "seq": s["seq"], "calls": calls})
    return cases


def _entries(b):
    return [[e.index_, e.sequence, e.pair] for e in b.entries]


def _text_entries(b):
    out = []
    for line in str(b).splitlines():
        f = line.split()
        out.append([int(f[0]), f[1], int(f[2])])
    return out


def _answer(b, op):
    """Call one public method and project its answer.  Returns (projection, returned object)."""
    if op == "str":
        return {"entries": _text_entries(b)}, None
    if op == "pairs":
        return {"pairs": sorted([i, j] for i, j in b.pairs.items())}, None
    if op == "sequence":
        return {"seq": list(b.sequence)}, None
    if op == "dot_bracket":
        d = b.dot_bracket
        return {"seq": list(d.sequence), "db": list(d.structure)}, None
    if op == "fcfs":
        d = b.fcfs
        return {"seq": list(d.sequence), "db": list(d.structure)}, None
    if op == "convert_none":
        d = b.convert_to_dot_bracket(None)
        return {"seq": list(d.sequence), "db": list(d.structure)}, None
    if op == "all":
        return {"list": sorted(list(d.structure) for d in b.all_dot_brackets)}, None
    if op == "elements":
        stems, singles, hairpins, loops = b.elements
        return {"stems": sorted([s.strand5p.first, s.strand5p.last, s.strand3p.first, s.strand3p.last] for s in stems),
                "hairpins": sorted([h.strand.first, h.strand.last] for h in hairpins),
                "full": [str(x) for x in list(stems) + list(singles) + list(hairpins) + list(loops)]}, None
    if op == "without_pseudoknots":
        nb = b.without_pseudoknots()
        return {"entries": _text_entries(nb), "seq": list(nb.sequence)}, nb
    if op == "without_isolated":
        nb = b.without_isolated()
        return {"entries": _text_entries(nb), "seq": list(nb.sequence)}, nb
    raise ValueError(op)


def _sibling_prelude(case):
    """Environment activity before the history starts: ANOTHER, unrelated BpSeq object with the same base
    pairs but a different sequence and two more (unpaired) nucleotides is created in the same process and
    asked for everything.  The property quantifies over all call histories of an object; what the process
    did with other objects before must not show in its answers (no process-wide state keyed by part of
    the input).  The sibling's own answers are not part of the trace."""
    n = case["n"] + 2
    sib = {"n": n, "pairs": case["pairs"],
           "seq": [ss.LETTERS[(ss.LETTERS.index(x) + 1) % 4] if x in ss.LETTERS else "G" for x in case["seq"]] + ["G", "A"]}
    b = ss._bpseq(sib)
    for op in ("dot_bracket", "fcfs", "elements", "all", "without_pseudoknots", "without_isolated", "str"):
        try:
            _answer(b, op)
        except Exception:
            pass


def record_history(case):
    from rnapolis.common import BpSeq
    c = dict(case)
    if case.get("prelude"):
        _sibling_prelude(case)
    first = ss._bpseq(case)
    objs = [first]
    orig_text = [str(first)]          # text of every object at its creation
    events = []
    for recv, op in case["calls"]:
        recv = min(recv, len(objs))
        b = objs[recv - 1]
        ev = {"op": op, "recv": recv, "err": "", "ans": {}, "fresh": {}, "new": 0, "recv_db": [], "live": []}
        try:
            ans, ret = _answer(b, op)
            ev["ans"] = ans
            if ret is not None:
                for k, o in enumerate(objs):
                    if o is ret:
                        ev["new"] = k + 1
                        break
                else:
                    objs.append(ret)
                    orig_text.append(str(ret))
                    ev["new"] = len(objs)
            fresh, _ = _answer(BpSeq.from_string(orig_text[recv - 1]), op)
            ev["fresh"] = fresh
        except Exception as e:
            ev["err"] = type(e).__name__
        d = b.__dict__.get("dot_bracket")
        ev["recv_db"] = list(d.structure) if d is not None else []
        ev["live"] = [{"entries": _entries(o), "pairs": sorted([i, j] for i, j in o.pairs.items()),
                       "seq": [e.sequence for e in o.entries]} for o in objs]
        ev["caches"] = [sorted(k for k in o.__dict__ if k not in ("entries", "pairs")) for o in objs]
        events.append(ev)
        if ev["err"]:
            break
    c["events"] = events
    return c
