SPECIFICATION Spec
CONSTANT NAtoms = 3
CONSTANT MTypes = {"C"}
CONSTANT MOccs = {100}
CONSTANT MGaps = {100}
CONSTANT MNuc1 = {TRUE}
CONSTANT MLastFixed = FALSE
CONSTANT MMidRes = {2}
CONSTANT OccDefault = "none_only"
CONSTANT ChainFoldReads = "chain_map"
CONSTANT CsvMetadataArg = "path"
CONSTANT MaxRadiusOver = "all"
INVARIANT InvCsvListsSame
CHECK_DEADLOCK FALSE
