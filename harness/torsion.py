"""Case generation and recording for C18 (torsion angles).  Materialise inputs, call the public
API of both implementations, project every result to integer micro-radians.  The measurer
`ref_torsion` is the harness's own independent torsion (projection formula); TLC validates it
exactly on the integer lattice before it is used as the oracle for corpus coordinates.
No judgement happens here."""
import json
import math
import os
import random

import numpy as np

from . import lib

CLAMP = 2_000_000_000          # |value| sentinel keeping recorded ints below 2^31
TORSION_DEF = {                # mirrors TorsionLattice!TorsionDef; the trace spec re-checks every case
    "alpha": [("O3'", -1), ("P", 0), ("O5'", 0), ("C5'", 0)],
    "beta": [("P", 0), ("O5'", 0), ("C5'", 0), ("C4'", 0)],
    "gamma": [("O5'", 0), ("C5'", 0), ("C4'", 0), ("C3'", 0)],
    "delta": [("C5'", 0), ("C4'", 0), ("C3'", 0), ("O3'", 0)],
    "epsilon": [("C4'", 0), ("C3'", 0), ("O3'", 0), ("P", 1)],
    "zeta": [("C3'", 0), ("O3'", 0), ("P", 1), ("O5'", 1)],
    "chiR": [("O4'", 0), ("C1'", 0), ("N9", 0), ("C4", 0)],
    "chiY": [("O4'", 0), ("C1'", 0), ("N1", 0), ("C2", 0)],
}
PURINES = ("A", "G", "DA", "DG")
PYRIMIDINES = ("C", "U", "T", "DC", "DT")
# corpus files (under $VERIF_REPO/tests): RNA structures with A-form stems, single model
CORPUS_QUICK = ["1E7K_1_C.cif", "1DFU_1_M-N.cif", "4WTI_1_T-P.cif", "1ehz-assembly-1.cif", "4qln.pdb", "2HY9.cif", "1E7K_1_C.cif#drop0",
                "1DFU_1_M-N.cif#drop1", "1E7K_1_C.cif#nname1", "1E7K_1_C.cif#icode2"]
CORPUS_THOROUGH = ["1E7K_1_C.cif", "1DFU_1_M-N.cif", "4WTI_1_T-P.cif", "1ehz-assembly-1.cif", "4qln.pdb",
                   "4qln.cif", "6FC9.cif", "184D.cif", "1JJP.cif", "1HMH_1_E.cif",
                   "4gqj-assembly1.cif", "8btk_B7.cif", "488d.pdb", "1E7K_1_C.cif#drop0", "1DFU_1_M-N.cif#drop1",
                   "1ehz-assembly-1.cif#drop2", "1JJP.cif#drop0", "1E7K_1_C.cif#nname1", "1JJP.cif#nname2", "1E7K_1_C.cif#icode2", "1ehz-assembly-1.cif#icode1"]
AFORM_QUICK = ["1E7K_1_C.cif"]
AFORM_THOROUGH = ["1E7K_1_C.cif", "1ehz-assembly-1.cif", "4qln.pdb", "4qln.cif"]


# ----------------------------------------------------------------------------- projection
def urad(x):
    return int(round(float(x) * 1e6))


def result(fn, *args):
    """Call fn and project its answer: exception type name, NaN flag, micro-radians."""
    try:
        v = fn(*args)
    except Exception as e:  # the code raising is data; the spec decides
        return {"err": type(e).__name__, "nan": False, "v": 0}
    try:
        v = float(v)
    except Exception as e:
        return {"err": "NotANumber:" + type(e).__name__, "nan": False, "v": 0}
    if math.isnan(v):
        return {"err": "", "nan": True, "v": 0}
    if math.isinf(v) or abs(v) * 1e6 > CLAMP:
        return {"err": "", "nan": False, "v": CLAMP if v > 0 else -CLAMP}
    return {"err": "", "nan": False, "v": urad(v)}


# ----------------------------------------------------------------------------- measurer
def ref_torsion(p1, p2, p3, p4):
    """Independent measurer: project p1-p2 and p4-p3 onto the plane perpendicular to p2->p3 and
    take the signed angle from the first to the second projection about that axis."""
    p1, p2, p3, p4 = (np.asarray(p, dtype=float) for p in (p1, p2, p3, p4))
    axis = p3 - p2
    la = math.sqrt(float(axis @ axis))
    if la == 0.0:
        return math.nan
    axis = axis / la
    u = p1 - p2
    w = p4 - p3
    u = u - (u @ axis) * axis
    w = w - (w @ axis) * axis
    if float(u @ u) == 0.0 or float(w @ w) == 0.0:
        return math.nan
    s = float(axis @ np.cross(u, w))
    c = float(u @ w)
    return math.atan2(s, c)


def _impls():
    from rnapolis import tertiary, tertiary_v2
    return tertiary.calculate_torsion_angle_coords, tertiary_v2.calculate_torsion_angle


def observe(fn, pts):
    """fn on the tuple as given, reversed, and mirrored (x -> -x)."""
    a = [np.array(p, dtype=float) for p in pts]
    m = [np.array([-p[0], p[1], p[2]], dtype=float) for p in pts]
    return {"o": result(fn, a[0], a[1], a[2], a[3]),
            "r": result(fn, a[3], a[2], a[1], a[0]),
            "m": result(fn, m[0], m[1], m[2], m[3])}


# ----------------------------------------------------------------------------- lattice cases
def gen_lattice(tier_cfg, scratch):
    """spec -> code: TLC enumerates the non-degenerate lattice tuples (Gen_TorsionLattice)."""
    out = scratch.path("lattice.ndjson")
    r = lib.tlc("Gen_TorsionLattice", tier_cfg, workers=1, env={"OUT_FILE": out}, scratch=scratch, xmx="8g", tag="gen")
    if not r["ok"] or not os.path.exists(out):
        raise lib.MachineryError("Gen_TorsionLattice failed:\n" + r["out"][-2000:])
    cases = []
    with open(out) as f:
        for line in f:
            d = json.loads(line)
            cases.append({"kind": "lat", "p": [list(map(int, q)) for q in d["p"]], "cell": int(d["cell"])})
    os.remove(out)
    cases.sort(key=lambda c: c["p"])
    for k, c in enumerate(cases):
        c["id"] = f"lat-{k}"
    return cases


def random_lattice(n, radius, seed):
    """Seeded random tuples over {-radius..radius}^3 (degenerate ones are skipped by the same
    integer test the spec applies again)."""
    rng = random.Random(f"{seed}-lat{radius}")
    cases, seen = [], set()
    while len(cases) < n:
        p = [[rng.randint(-radius, radius) for _ in range(3)] for _ in range(4)]
        key = tuple(map(tuple, p))
        if key in seen:
            continue
        seen.add(key)
        b1, b2, b3 = (np.subtract(p[i + 1], p[i]) for i in range(3))
        if not np.any(np.cross(b1, b2)) or not np.any(np.cross(b2, b3)):
            continue
        cases.append({"id": f"rl{radius}-{len(cases)}", "kind": "lat", "p": p})
    return cases


def record_lat(case):
    t1, v2 = _impls()
    c = dict(case)
    c["t1"] = observe(t1, case["p"])
    c["v2"] = observe(v2, case["p"])
    c["ref"] = observe(ref_torsion, case["p"])
    return c


# ----------------------------------------------------------------------------- constructed phi
def _rotation(rng):
    """Uniform random rotation matrix from a random unit quaternion."""
    q = np.array([rng.gauss(0, 1) for _ in range(4)])
    q = q / np.linalg.norm(q)
    w, x, y, z = q
    return np.array([[1 - 2 * (y * y + z * z), 2 * (x * y - z * w), 2 * (x * z + y * w)],
                     [2 * (x * y + z * w), 1 - 2 * (x * x + z * z), 2 * (y * z - x * w)],
                     [2 * (x * z - y * w), 2 * (y * z + x * w), 1 - 2 * (x * x + y * y)]])


def construct(gen):
    """Four points with torsion gen['phi'] (micro-radians), bond lengths gen['len'] (milli-A),
    bond angles gen['ang'] (micro-radians), then the rigid motion seeded by gen['rs'].
    p2 at the origin, p3 on +z; p1 in the xz half-plane x > 0; p4 rotated by phi about z."""
    phi = gen["phi"] * 1e-6
    l1, l2, l3 = (x * 1e-3 for x in gen["len"])
    a1, a2 = (x * 1e-6 for x in gen["ang"])
    p2 = np.zeros(3)
    p3 = np.array([0.0, 0.0, l2])
    p1 = l1 * np.array([math.sin(a1), 0.0, math.cos(a1)])
    p4 = p3 + l3 * np.array([math.sin(a2) * math.cos(phi), math.sin(a2) * math.sin(phi), -math.cos(a2)])
    rng = random.Random(gen["rs"])
    rot = _rotation(rng)
    tr = np.array([rng.uniform(-100, 100) for _ in range(3)]) if gen.get("move", True) else np.zeros(3)
    if not gen.get("move", True):
        rot = np.eye(3)
    return [rot @ p + tr for p in (p1, p2, p3, p4)]


def phi_cases(n_random, seed, grid_step_deg=1):
    """phi on a 1-degree grid (each grid angle with 2 random shapes) + seeded random phi, with the
    extremes of the stated shape domain mixed in."""
    rng = random.Random(f"{seed}-phi")
    cases = []

    def shape(extreme):
        if extreme:
            ln = [rng.choice([800, 2500]) for _ in range(3)]
            an = [rng.choice([349066, 2792527]) for _ in range(2)]          # 20 / 160 degrees
        else:
            ln = [rng.randint(800, 2500) for _ in range(3)]
            an = [rng.randint(349066, 2792527) for _ in range(2)]
        return ln, an

    for d in range(-180 + grid_step_deg, 181, grid_step_deg):
        phi = 3141592 if d == 180 else int(round(math.radians(d) * 1e6))
        for rep in range(2):
            ln, an = shape(rep == 1 and d % 15 == 0)
            cases.append({"phi": phi, "len": ln, "ang": an})
    for k in range(n_random):
        ln, an = shape(k % 10 == 0)
        cases.append({"phi": rng.randint(-3141592, 3141592), "len": ln, "ang": an})
    # tiny and near-pi angles: the sign and the branch cut
    for phi in (1, -1, 5, -5, 40, -40, 3141592, -3141592, 3141588, -3141588, 1570796, -1570796):
        ln, an = shape(False)
        cases.append({"phi": phi, "len": ln, "ang": an})
    for k, c in enumerate(cases):
        c["id"] = f"phi-{k}"
        c["kind"] = "phi"
        c["rs"] = rng.randint(0, 2 ** 30)
    return cases


def record_phi(case):
    t1, v2 = _impls()
    pts = construct(case)
    c = dict(case)
    c["t1"] = observe(t1, pts)
    c["v2"] = observe(v2, pts)
    c["ref"] = observe(ref_torsion, pts)
    return c


# ----------------------------------------------------------------------------- corpus
def _milli(v):
    return [int(round(float(x) * 1000)) for x in v]


def _absent(asked_res=None):
    """a path without the four atoms; asked_res = what the library answered when asked all the same"""
    d = {"present": False, "res": {"err": "", "nan": False, "v": 0}, "xyz": [],
         "ref": {"err": "", "nan": False, "v": 0}, "asked": asked_res is not None, "undef": True}
    if asked_res is not None:
        d["undef"] = bool(asked_res["nan"] and asked_res["err"] == "")
        d["res"] = asked_res
    return d


def _path(res, coords):
    return {"present": True, "res": res, "xyz": [_milli(x) for x in coords], "ref": result(ref_torsion, *coords),
            "asked": True, "undef": False}


GLYCO_ATOMS = ("N9", "N1", "C4", "C2")


def _variant_text(name):
    """'<file>#drop<k>': the corpus file re-emitted (own emitter) with ONE glycosidic atom (N9 | N1 | C4 | C2,
    in turn) removed from every third residue - a residue whose chi is not defined."""
    from . import atomtable, presentation
    base, var = name.split("#")
    lines = presentation.base_lines(base)
    if lines is None:
        raise lib.MachineryError(f"{base}: not usable for a variant")
    if var.startswith("nname"):
        # every fourth residue is called "N" (any nucleotide): its base letter is unknown to the library, its
        # glycosidic torsion is still the one about the bond its atoms show (N9-C4 when there is an N9)
        k = int(var[5:])
        out, idx, key = [], -1, None
        for ln in lines:
            kk = (ln["ch"], ln["num"], ln["ic"])
            if kk != key:
                key = kk
                idx += 1
            out.append(dict(ln, rn="N") if idx % 4 == k % 4 else ln)
        return atomtable.emit("cif", out)
    if var.startswith("icode"):
        # order-preserving renumbering with insertion codes: every fourth residue n+1 becomes n^A
        k = int(var[5:])
        keys = []
        for ln in lines:
            kk = (ln["ch"], ln["num"], ln["ic"])
            if not keys or keys[-1] != kk:
                keys.append(kk)
        ren = {}
        for i in range(1, len(keys)):
            a, b = keys[i - 1], keys[i]
            if i % 4 == k % 4 and a[0] == b[0] and a[2] == "" and b[2] == "" and b[1] == a[1] + 1 and (i - 1) not in ren:
                ren[i] = (a[1], "A")
        out, idx, key = [], -1, None
        for ln in lines:
            kk = (ln["ch"], ln["num"], ln["ic"])
            if kk != key:
                key = kk
                idx += 1
            out.append(dict(ln, num=ren[idx][0], ic=ren[idx][1]) if idx in ren else ln)
        return atomtable.emit("cif", out)
    k = int(var[4:])
    out, idx, key = [], -1, None
    for ln in lines:
        kk = (ln["ch"], ln["num"], ln["ic"])
        if kk != key:
            key = kk
            idx += 1
        if idx % 3 == k % 3 and ln["an"] == GLYCO_ATOMS[(idx // 3 + k) % 4]:
            continue
        out.append(ln)
    return atomtable.emit("cif", out)


def record_corpus_file(name):
    """Every backbone and chi torsion of every residue of one corpus file through both code
    paths: tertiary_v2.Structure.torsion_angles (table) and tertiary.torsion_angle /
    Residue3D.chi on the structure read by rnapolis.parser.  Residues are matched by
    (chain, number, insertion code); a path that has no value for a torsion is 'absent'."""
    import io
    from rnapolis import parser, parser_v2, tertiary, tertiary_v2
    if "#" in name:
        text, iscif = _variant_text(name), True
    else:
        with open(os.path.join(lib.REPO, "tests", name)) as f:
            text = f.read()
        iscif = name.endswith(".cif")
    import tempfile
    with tempfile.NamedTemporaryFile("w+", suffix=".cif" if iscif else ".pdb", delete=True) as f:
        f.write(text)
        f.flush()
        f.seek(0)
        s1 = parser.read_3d_structure(f)
    import zlib
    if "#" not in name and zlib.crc32(name.encode()) % 2 == 0:
        # environment action: every second structure (variants aside) has been annotated (secondary structure, inter-stem
        # parameters) before its torsions are asked for - reading geometry must not change it
        try:
            from rnapolis.annotator import extract_secondary_structure
            extract_secondary_structure(s1, None)
        except Exception:
            pass
    df = parser_v2.parse_cif_atoms(text) if iscif else parser_v2.parse_pdb_atoms(text)
    st = tertiary_v2.Structure(df)
    table = st.torsion_angles
    # atoms listed more than once inside the FIRST model (alternate locations, repeated names), from the raw rows:
    # for every other atom both code paths have exactly one candidate, so they must use the same coordinates
    if df.attrs.get("format") == "PDB":
        cols = ("chainID", "resSeq", "iCode", "name", "model")
    else:
        # (files written by other tools may lack the author columns: the label ones stand in, as in the library)
        pick = lambda *names: next((c for c in names if c in df.columns), None)     # noqa: E731
        cols = (pick("auth_asym_id", "label_asym_id"), pick("auth_seq_id", "label_seq_id"), pick("pdbx_PDB_ins_code"),
                pick("auth_atom_id", "label_atom_id"), pick("pdbx_PDB_model_num"))
    first_model = df[cols[4]].iloc[0] if len(df) and cols[4] else None
    seen_atoms, ambiguous = set(), set()
    series = [df[c] if c is not None else [None] * len(df) for c in cols]
    for ch, num, ic, an, mo in zip(*series):
        if mo != first_model:
            continue
        k = (str(ch), int(num), "" if ic is None or ic != ic or str(ic) in ("?", ".", "nan", "None") else str(ic), str(an))
        if k in seen_atoms:
            ambiguous.add(k)
        seen_atoms.add(k)
    # path 1 index
    idx1, dup1 = {}, set()
    for r in s1.residues:
        key = (r.auth.chain, r.auth.number, r.auth.icode or "") if r.auth else None
        if key is None:
            continue
        if key in idx1:
            dup1.add(key)
        idx1.setdefault(key, r)
    # path 2: table rows are emitted segment by segment, residue by residue
    seq2 = [(seg, i) for seg in st.connected_residues for i in range(len(seg))]
    if len(seq2) != len(table):
        # the table of the code under test does not have one row per residue of its own segments: data
        return {"file": name, "cases": [{"id": f"tor-{name}-table", "kind": "tor", "file": name, "res": "table",
                                         "angle": "rows", "single": False, "atoms": [], "cls": "none", "t1": _absent(), "v2": _absent()}],
                "rows1": [], "rows2": [], "skipped": 0}
    keys2 = [(seg[i].chain_id, seg[i].residue_number, seg[i].insertion_code or "") for seg, i in seq2]
    cases, rows1, rows2, skipped = [], [], [], 0
    for k, (seg, i) in enumerate(seq2):
        key = keys2[k]
        row = table.iloc[k]
        if (row["chain_id"], int(row["residue_number"]), row["insertion_code"] or "") != key:
            return {"file": name, "cases": [{"id": f"tor-{name}-table", "kind": "tor", "file": name, "res": "table",
                                             "angle": "rows", "single": False, "atoms": [], "cls": "none", "t1": _absent(), "v2": _absent()}],
                    "rows1": [], "rows2": [], "skipped": 0}
        if keys2.count(key) > 1 or key in dup1:
            skipped += 1
            continue
        r1 = idx1.get(key)
        n1 = [idx1.get(keys2[k + o]) if 0 <= i + o < len(seg) else None for o in (-1, 0, 1)]
        n1[1] = r1
        rname = seg[i].residue_name
        chi_name = "chiR" if rname in PURINES else "chiY" if rname in PYRIMIDINES else None
        if chi_name is None and r1 is not None:
            chi_name = "chiR" if r1.one_letter_name.upper() in ("A", "G") else \
                "chiY" if r1.one_letter_name.upper() in ("C", "U", "T") else None
        if chi_name is None and r1 is not None and r1.find_atom("C1'") is not None:
            # base letter unknown (e.g. residue name "N"): the glycosidic bond is the one the atoms show
            chi_name = "chiR" if r1.find_atom("N9") is not None else "chiY" if r1.find_atom("N1") is not None else None
        meas = {}
        for angle in ("alpha", "beta", "gamma", "delta", "epsilon", "zeta", chi_name):
            if angle is None:
                continue
            d = TORSION_DEF[angle]
            col = "chi" if angle.startswith("chi") else angle
            # ---- path 2: the table value + the coordinates v2 holds
            val = row[col]
            p2 = _absent()
            at2 = [seg[i + o].find_atom(a) if 0 <= i + o < len(seg) else None for a, o in d]
            if val is not None and not (isinstance(val, float) and math.isnan(val)) and all(a is not None for a in at2):
                p2 = _path(result(lambda v=val: v), [np.asarray(a.coordinates, dtype=float) for a in at2])
            elif angle.startswith("chi") and not all(a is not None for a in at2):
                # the glycosidic atoms are not all there: whatever the table holds for chi is recorded
                p2 = _absent(result(lambda v=val: float("nan") if v is None else v))
            # ---- path 1: tertiary.torsion_angle on Residue3D atoms / Residue3D.chi
            p1 = _absent()
            cls = "none"
            at1 = [n1[o + 1].find_atom(a) if n1[o + 1] is not None else None for a, o in d]
            if all(a is not None for a in at1):
                if angle.startswith("chi"):
                    res = result(lambda: r1.chi)
                    cc = r1.chi_class
                    cls = "none" if cc is None else cc.value
                else:
                    res = result(tertiary.torsion_angle, *at1)
                # reference from the coordinate FIELDS as read (not from any array the object may cache)
                p1 = _path(res, [np.array([a.x, a.y, a.z], dtype=float) for a in at1])
            elif angle.startswith("chi") and r1 is not None:
                p1 = _absent(result(lambda: r1.chi))
                cc = r1.chi_class
                cls = "none" if cc is None else cc.value
            if not p1["present"] and not p2["present"] and not (p1["asked"] or p2["asked"]):
                continue
            meas[col] = (p1, p2)
            single = all(0 <= i + o < len(seg) and (keys2[k + o] + (a,)) not in ambiguous for a, o in d)
            cases.append({"id": f"tor-{name}-{key[0]}.{key[1]}{key[2]}-{angle}", "kind": "tor", "file": name,
                          "res": f"{key[0]}.{rname}{key[1]}{key[2]}", "angle": angle, "single": bool(single),
                          "atoms": [[a, o] for a, o in d], "cls": cls, "t1": p1, "v2": p2})
        if "delta" in meas and "chi" in meas:
            for which, rows in ((0, rows1), (1, rows2)):
                dl, ch = meas["delta"][which], meas["chi"][which]
                if dl["present"] and ch["present"] and not dl["ref"]["nan"] and not ch["ref"]["nan"] \
                        and not ch["res"]["nan"] and ch["res"]["err"] == "":
                    rows.append([dl["ref"]["v"], ch["ref"]["v"], ch["res"]["v"]])
    return {"file": name, "cases": cases, "rows1": rows1, "rows2": rows2, "skipped": skipped}


STEM_FILES_QUICK = ["1ehz-assembly-1.cif", "4qln.pdb"]
STEM_FILES_THOROUGH = ["1ehz-assembly-1.cif", "4qln.pdb", "8btk_B7.cif", "6g90_1.cif", "1E7K_1_C.cif", "4gqj-assembly1.cif"]
STEM_TYPES = ("cs55", "cs53", "cs35", "cs33")


def _stem_points(kind, c1, c2):
    """the four centroids the inter-stem torsion is taken over, per closest-endpoint type (as documented in
    Mapping2D3D.calculate_inter_stem_parameters): second / first of stem 1's near end, first / second of stem 2's"""
    a = (c1[1], c1[0]) if kind[2] == "5" else (c1[-2], c1[-1])
    b = (c2[0], c2[1]) if kind[3] == "5" else (c2[-1], c2[-2])
    return [a[0], a[1], b[0], b[1]]


def record_stem_file(name):
    """Inter-stem torsions of one corpus structure: every pair of stems (>= 2 pairs each) through
    Mapping2D3D.calculate_inter_stem_parameters, in both argument orders, with the base-pair centroids the
    library itself reports (get_stem_coordinates) and the measurer's dihedral for each of the four possible
    endpoint types."""
    import itertools
    import tempfile
    from rnapolis import annotator, parser
    from rnapolis.tertiary import Mapping2D3D
    with open(os.path.join(lib.REPO, "tests", name)) as f:
        s3 = parser.read_3d_structure(f)
    bi = annotator.extract_base_interactions(s3)
    mapping = Mapping2D3D(s3, bi.basePairs, bi.stackings, False)
    stems = mapping.bpseq.elements[0]
    cases = []
    for i, j in itertools.combinations(range(len(stems)), 2):
        c1 = [np.asarray(x, dtype=float) for x in mapping.get_stem_coordinates(stems[i])]
        c2 = [np.asarray(x, dtype=float) for x in mapping.get_stem_coordinates(stems[j])]
        if len(c1) < 2 or len(c2) < 2:
            continue
        ends = {"cs55": (c1[0], c2[0]), "cs53": (c1[0], c2[-1]), "cs35": (c1[-1], c2[0]), "cs33": (c1[-1], c2[-1])}
        case = {"id": f"stem-{name}-{i}-{j}", "kind": "stem", "file": name, "i": i, "j": j,
                "dist": {k: int(round(float(np.linalg.norm(a - b)) * 1000)) for k, (a, b) in ends.items()},
                "ref": {k: result(ref_torsion, *_stem_points(k, c1, c2)) for k in STEM_TYPES},
                "fwd": {"err": "", "type": "", "res": {"err": "", "nan": False, "v": 0}},
                "rev": {"err": "", "type": "", "res": {"err": "", "nan": False, "v": 0}}}
        for key, (a, b) in (("fwd", (stems[i], stems[j])), ("rev", (stems[j], stems[i]))):
            try:
                r = mapping.calculate_inter_stem_parameters(a, b)
                if r is None:
                    case[key]["err"] = "None"
                else:
                    case[key]["type"] = str(r["type"])
                    case[key]["res"] = result(lambda v=r["torsion_angle"]: math.radians(v))
            except Exception as e:
                case[key]["err"] = type(e).__name__
        cases.append(case)
    return cases


def aform_case(rec):
    return {"id": f"aform-{rec['file']}", "kind": "aform", "file": rec["file"], "rows1": rec["rows1"],
            "rows2": rec["rows2"]}
