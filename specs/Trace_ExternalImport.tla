------------------------- MODULE Trace_ExternalImport -------------------------
(***************************************************************************)
(* Trace validation for C19.  One TLC state per recorded case; a case is   *)
(* what the real rnapolis.adapter returned for one input.  Every judgement *)
(* is made here, from the RAW input text carried by the case.              *)
(*                                                                         *)
(*  kind "labels"      one block { prefix \o w : Len(w) <= tail } of the   *)
(*                     exhaustive label sweep through unify_classification:*)
(*                     count of strings tried + every non-"other" result   *)
(*  kind "labeldomain" the list of blocks of one sweep (partition guard)   *)
(*  kind "listing"     raw FR3D lines + the interactions returned by       *)
(*                     parse_fr3d_output (via = "api") or written by       *)
(*                     adapter.main --json (via = "main")                  *)
(*  kind "dssr"        structure residues + raw DSSR pairs/stacks + the    *)
(*                     pairs/stackings returned (api) or written (main)    *)
(***************************************************************************)
EXTENDS ExternalImport, Json, IOUtils

Doc   == JsonDeserialize(IOEnv.TRACE_FILE)
Trace == Doc.cases

VARIABLES idx, cnt
vars == <<idx, cnt>>

DeviationNames == {"DssrLwDunderNameRaises"}

\* ------------------------------------------------------------------ labels
HitTriples(c) == { <<c.hits[k].label, c.hits[k].cat, c.hits[k].cls>> : k \in 1..Len(c.hits) }
GrammarTriples(p, t) == { <<l, LabelMap[l][1], LabelMap[l][2]>> : l \in LabelsInBlock(p, t) }

LabelsVerdict(c) ==
  IF RangeOf(c.alphabet) # Alphabet \/ Len(c.alphabet) # Cardinality(Alphabet)
  THEN <<"fail", "AlphabetIsFr3d", "harness">>
  ELSE IF \E k \in 1..Len(c.prefix) : c.prefix[k] \notin Alphabet THEN <<"fail", "AlphabetIsFr3d", "harness">>
  ELSE IF c.tail < 0 \/ c.tail > 6 \/ c.count # SumPow(25, c.tail) THEN <<"fail", "BlockEnumerated", "harness">>
  ELSE LET rec == HitTriples(c)  exp == GrammarTriples(c.prefix, c.tail) IN
       IF Cardinality(rec) # Len(c.hits) THEN <<"fail", "HitsDistinct", "harness">>
       ELSE IF rec # exp
       THEN LET x == CHOOSE y \in (rec \ exp) \cup (exp \ rec) : TRUE IN
            <<"fail", "LabelMapExact", Str(x[1])>>
       ELSE <<"ok">>

\* the blocks of one sweep partition all strings of length <= maxlen:
\* the short strings (prefix <<>>, tail 1) and one block per 2-symbol prefix (tail maxlen - 2)
RECURSIVE SumCounts(_)
SumCounts(bs) == IF bs = <<>> THEN 0 ELSE bs[1][3] + SumCounts(Tail(bs))
DomainVerdict(c) ==
  LET bs == c.blocks
      want == { << <<>>, 1 >> } \cup { << <<a, b>>, c.maxlen - 2 >> : a \in Alphabet, b \in Alphabet } IN
  IF c.maxlen < 2 \/ c.maxlen > 6 THEN <<"fail", "SweepBounds", "harness">>
  ELSE IF { <<bs[k][1], bs[k][2]>> : k \in 1..Len(bs) } # want \/ Len(bs) # Cardinality(want)
       THEN <<"fail", "BlocksPartitionDomain", "harness">>
  ELSE IF SumCounts(bs) # SumPow(25, c.maxlen) THEN <<"fail", "EveryStringTried", "harness">>
  ELSE <<"ok">>

\* ------------------------------------------------------------------ FR3D listing
TemplateAgrees(c, P) ==
  \/ Len(c.tmpl) = 0
  \/ /\ Len(c.tmpl) = Len(P)
     /\ \A k \in 1..Len(P) :
          /\ c.tmpl[k].kept = (P[k].kind = "data")
          /\ c.tmpl[k].kept => c.tmpl[k].cat = P[k].item.cat

ListingVerdict(c) ==
  IF c.result.err # "" THEN <<"fail", "Fr3dNeverRaises", c.result.err>>
  ELSE LET P == ParseAll(c.lines) IN
  IF ~ParsedInRange(P) THEN <<"fail", "InputRange", "harness">>
  ELSE IF ~TemplateAgrees(c, P) THEN <<"fail", "TemplateAgrees", "harness">>
  ELSE LET R == [k \in 1..Len(c.result.items) |-> ItemOf(c.result.items[k])]
           E == ExpectedOfParsed(P) IN
       IF ~EachLineYieldsOne(R, E) THEN <<"fail", "LineYieldsExactlyOne", c.via>>
       ELSE IF ~OthersKept(R, E) THEN <<"fail", "UnknownKeptAsOther", c.via>>
       ELSE IF ~NothingElse(R, E) \/ Len(R) # Len(E) THEN <<"fail", "MalformedSkipped", c.via>>
       ELSE <<"ok">>

\* ------------------------------------------------------------------ DSSR document
DssrTemplateAgrees(N, c) ==
  /\ \A k \in 1..Len(c.pairs) : c.pairs[k].tkept # "" => ((c.pairs[k].tkept = "yes") = PairKept(N, c.pairs[k]))
  /\ \A k \in 1..Len(c.stacks) : c.stacks[k].tsteps >= 0 => c.stacks[k].tsteps = Len(StackSteps(N, c.stacks[k]))

HasDunderLw(c) == \E k \in 1..Len(c.pairs) : c.pairs[k].lwkind = "str" /\ c.pairs[k].lw \in DunderNames

\* named deviation: exactly the understood defect (P13): match_dssr_lw tests `lw in dir(LeontisWesthof)`,
\* so a pair whose LW string is a class attribute name makes the whole import raise KeyError
ExplainedBy(c, clause, dev) ==
  /\ dev = "DssrLwDunderNameRaises" /\ clause = "DssrPairsExact"
  /\ c.result.err = "KeyError" /\ HasDunderLw(c)

DssrRequired(c) ==
  LET N == NameTable(c.residues) IN
  IF ~NamesDistinct(N) THEN <<"fail", "InputDistinct", "harness">>
  ELSE IF ~DssrTemplateAgrees(N, c) THEN <<"fail", "TemplateAgrees", "harness">>
  ELSE IF c.result.err # "" THEN <<"fail", "DssrPairsExact", c.result.err>>
  ELSE IF ~BagEq(c.result.bp, ExpectedPairs(N, c.pairs)) THEN <<"fail", "DssrPairsExact", c.via>>
  ELSE IF ~BagEq(c.result.st, ExpectedStackings(N, c.stacks)) THEN <<"fail", "DssrStacksExact", c.via>>
  ELSE <<"ok">>

DssrVerdict(c) ==
  LET v == DssrRequired(c) IN
  IF v[1] = "ok" \/ v[3] = "harness" THEN v
  ELSE IF \E dev \in DeviationNames : ExplainedBy(c, v[2], dev)
       THEN <<"deviation", CHOOSE dev \in DeviationNames : ExplainedBy(c, v[2], dev), v[3]>>
       ELSE v

\* ------------------------------------------------------------------ dispatch
Verdict(c) ==
  IF c.kind = "labels" THEN LabelsVerdict(c)
  ELSE IF c.kind = "labeldomain" THEN DomainVerdict(c)
  ELSE IF c.kind = "listing" THEN ListingVerdict(c)
  ELSE IF c.kind = "dssr" THEN DssrVerdict(c)
  ELSE <<"fail", "UnknownCaseKind", "harness">>

Init == idx = 0 /\ cnt = [ok |-> 0, deviation |-> 0, fail |-> 0]

Next ==
  /\ idx < Len(Trace)
  /\ idx' = idx + 1
  /\ LET c == Trace[idx']  v == Verdict(c) IN
     /\ cnt' = [cnt EXCEPT ![v[1]] = @ + 1]
     /\ (v[1] = "ok" \/ PrintT(<<"V", c.id>> \o v))
  /\ (idx' < Len(Trace) \/ PrintT(<<"SUMMARY", Len(Trace), cnt'.ok, cnt'.deviation, cnt'.fail, 0>>))

Spec == Init /\ [][Next]_vars
=============================================================================
