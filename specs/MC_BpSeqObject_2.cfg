SPECIFICATION Spec
CONSTANT N = 8
CONSTANT MaxObjs = 2
CONSTANT Aliasing = FALSE
PROPERTY FramePurity
INVARIANT TextIsOriginal
INVARIANT AnswerStability
INVARIANT RemovalSemantics
INVARIANT CachesFresh
CHECK_DEADLOCK FALSE
