"""C05: present one structure in many ways (rigid motion, atom order, relabelling, format),
run the real reader/annotator on each presentation, log the canonical annotation.
Behaviours (sequences of presentation steps) come from TLC -simulate on specs/Presentation.tla.
No judgement happens here."""
import dataclasses
import glob
import itertools
import os
import random
import re
import tempfile

import numpy as np

from . import atomtable, lib, measurer

BASES = ["1E7K_1_C.cif", "1A1T_1_B.cif", "6RS3.cif", "2HY9.cif", "1JJP.cif", "6FC9.cif", "4WTI_1_T-P.cif", "4qln.pdb",
         "1DFU_1_M-N.cif", "488d.pdb", "1ehz-assembly-1.cif", "6INQ.cif", "1HMH_1_E.cif"]

TRANSLATIONS = {1: (500, 0, 0), 2: (0, -500, 250), 3: (123, 77, -311), 4: (-500, -500, -500), 5: (1, 0, 0),
                6: (0, 0, -37)}
SHIFTS = {0: 0, 1: 7, 2: 1000, 3: -50}


def _axis_perms():
    out = []
    for perm in itertools.permutations(range(3)):
        for signs in itertools.product((1, -1), repeat=3):
            m = np.zeros((3, 3), dtype=int)
            for r in range(3):
                m[r, perm[r]] = signs[r]
            if round(np.linalg.det(m)) == 1 and not np.array_equal(m, np.eye(3, dtype=int)):
                out.append(m)
    out.sort(key=lambda m: m.flatten().tolist())
    return out


AXIS = _axis_perms()          # the 23 non-identity proper signed permutation matrices


def rotation(k):
    rs = np.random.RandomState(1000 + k)
    q, r = np.linalg.qr(rs.normal(size=(3, 3)))
    q = q * np.sign(np.diag(r))
    if np.linalg.det(q) < 0:
        q[:, 0] = -q[:, 0]
    return q


# ----------------------------------------------------------------------------- behaviours from TLC

_LASTOP = re.compile(r'lastop = <<"(\w+)", (\d+)>>')
_FMT = re.compile(r'fmt = "(\w+)"')


def simulate(num, depth, seed, scratch):
    """spec -> code: TLC -simulate writes one behaviour of Presentation per file."""
    d = scratch.path(f"sim-{seed}")
    os.makedirs(d, exist_ok=True)
    r = lib.tlc("Presentation", "Sim_Presentation.cfg", workers=1, scratch=scratch, tag="sim",
                simulate=f"file={d}/tr,num={num}", extra=("-depth", str(depth), "-seed", str(seed + 1)))
    files = sorted(glob.glob(os.path.join(d, "tr_*")))
    if not files:
        raise lib.MachineryError("Presentation simulation produced no behaviours:\n" + r["out"][-1500:])
    behaviours = []
    for f in files:
        text = open(f).read()
        ops = [(m.group(1), int(m.group(2))) for m in _LASTOP.finditer(text)]
        fm = _FMT.search(text)
        if not ops or ops[0][0] != "Deliver" or not fm:
            raise lib.MachineryError("unparsable behaviour file " + f)
        behaviours.append({"fmt0": fm.group(1), "steps": [list(o) for o in ops[1:]]})
        os.remove(f)
    return behaviours


# ----------------------------------------------------------------------------- base structures

def base_lines(name, perturb=None):
    """Abstract atom lines (atomtable format) of the first model of a corpus file; coordinates in
    integer milli-Angstrom.  perturb = (seed, sigma_milli) jitters every atom (a new base);
    perturb = ("anon", 0) gives every residue a name the reader cannot resolve ("N7"), so that the base
    letter of each residue has to be detected from its atoms (MD / modelling output looks like this);
    perturb = ("legacy", 0) writes the pre-2007 atom names (O1P, O2P, C5M, * for the prime) - whatever the
    library makes of them, it must make the same of them in both file formats;
    perturb = ("thio", 0) turns every uridine into a 4-thiouridine (a modified residue whose atoms fit two bases
    equally well: its letter rests on the name, or on the describing records)."""
    from rnapolis import parser
    with open(os.path.join(lib.REPO, "tests", name)) as f:
        s = parser.read_3d_structure(f)
    anon = bool(perturb) and perturb[0] == "anon"
    legacy = bool(perturb) and perturb[0] == "legacy"
    thio = bool(perturb) and perturb[0] == "thio"       # uridines become 4-thiouridines (4SU: S4 in place of O4)
    rng = random.Random(perturb[0]) if perturb and not anon and not legacy and not thio else None
    lines = []
    for r in s.residues:
        if r.auth is None or len(r.auth.chain) != 1 or not (-900 < r.auth.number < 8900) or len(r.auth.name) > 3:
            return None
        seen = set()
        for a in r.atoms:
            if a.name in seen or len(a.name) > 4:
                continue
            seen.add(a.name)
            xyz = [int(round(v * 1000)) for v in (a.x, a.y, a.z)]
            if rng:
                xyz = [v + int(round(rng.gauss(0, perturb[1]))) for v in xyz]
            is4su = thio and r.auth.name == "U"
            lines.append({"m": 1, "het": 0 if r.is_nucleotide else 1, "ch": r.auth.chain, "num": r.auth.number, "ic": r.auth.icode or "",
                          "rn": "N7" if anon else "4SU" if is4su else r.auth.name,
                          "an": {"OP1": "O1P", "OP2": "O2P", "C7": "C5M"}.get(a.name, a.name.replace("'", "*")) if legacy
                          else "S4" if is4su and a.name == "O4" else a.name, "alt": "", "occ": 100, "x": xyz[0], "y": xyz[1], "z": xyz[2]})
    return lines


def _read_text(fmt, text):
    from rnapolis import parser
    with tempfile.NamedTemporaryFile("w+", suffix="." + fmt, delete=True) as f:
        f.write(text)
        f.flush()
        f.seek(0)
        return parser.read_3d_structure(f)


def _groups(lines):
    out, key = [], None
    for ln in lines:
        k = (ln["ch"], ln["num"], ln["ic"])
        if k != key:
            out.append([])
            key = k
        out[-1].append(ln)
    return out


def chain_map(lines):
    names = sorted({ln["ch"] for ln in lines})
    pool = "KLMNOPQRSTUVWXYZ" if all(c.isalpha() for c in names) else "3456789"
    return {c: pool[i] for i, c in enumerate(names)}


def icode_pattern(lines, k):
    """k-th order-preserving renumbering that introduces insertion codes: for some residues n (no insertion
    code, followed in the same chain by n+1 without one) the residue n+1 becomes n^A.  Returns a map
    (chain, number, icode) -> (number, icode); identity where nothing changes.  k = 0: identity."""
    keys = []
    for ln in lines:
        key = (ln["ch"], ln["num"], ln["ic"])
        if not keys or keys[-1] != key:
            keys.append(key)
    out = {key: (key[1], key[2]) for key in keys}
    if k == 0:
        return out
    rng = random.Random(4242 + k)
    present = set(keys)
    i = 0
    while i + 1 < len(keys):
        a, b = keys[i], keys[i + 1]
        if (a[0] == b[0] and a[2] == "" and b[2] == "" and b[1] == a[1] + 1 and (a[0], a[1], "A") not in present
                and rng.random() < 0.35):
            out[b] = (a[1], "A")
            i += 2
        else:
            i += 1
    return out


STANDARD_NAMES = {"A", "C", "G", "U", "DA", "DC", "DG", "DT"}


def with_records(fmt, out, info, mode=1):
    """Text of the presented lines `out` (each carries "_k", the key of its residue in the base) together with
    the records that DESCRIBE the polymer: mmCIF - one polymer entity per chain with the canonical one-letter
    sequence, label_seq_id counting the nucleotides of the chain, non-nucleotides in a non-polymer entity,
    pdbx_struct_mod_residue rows for non-standard names; PDB - MODRES records.  info[key] = (is_nucleotide,
    letter) as the reader saw the base without any such record."""
    if fmt == "pdb":
        text = atomtable.emit_pdb(out, ter_before_het=True).split("\n")
        mod, seen = [], set()
        for ln in out:
            key = (ln["ch"], ln["num"], ln["ic"])
            nuc, letter = info[ln["_k"]]
            if key in seen or not nuc or ln["rn"] in STANDARD_NAMES:
                continue
            seen.add(key)
            std = ("D" + letter) if ln["rn"].startswith("D") and len(ln["rn"]) == 2 else letter
            mod.append(f"MODRES XXXX {ln['rn']:>3} {ln['ch']} {ln['num']:>4}{ln['ic'] or ' '} {std:>3}  MODIFIED NUCLEOTIDE".ljust(80))
        return "\n".join(text[:2] + mod + text[2:])
    chains, seqs, modrows = [], {}, []
    lines2 = []
    for ln in out:
        nuc, letter = info[ln["_k"]]
        n = dict(ln)
        if nuc:
            if ln["ch"] not in chains:
                chains.append(ln["ch"])
                seqs[ln["ch"]] = []
            key = (ln["num"], ln["ic"])
            if not seqs[ln["ch"]] or seqs[ln["ch"]][-1][0] != key:
                seqs[ln["ch"]].append((key, letter, ln["rn"]))
                if ln["rn"] not in STANDARD_NAMES:
                    modrows.append([str(len(modrows) + 1), ln["ch"], ln["rn"], str(len(seqs[ln["ch"]])), ln["ch"], ln["rn"],
                                    str(ln["num"]), ln["ic"] or "?", letter])
            n.update(lent=chains.index(ln["ch"]) + 1, lnum=len(seqs[ln["ch"]]), lch=ln["ch"])
        else:
            n.update(lent=0, lnum=0, lch=ln["ch"])
        lines2.append(n)
    nonpoly = len(chains) + 1
    for n in lines2:
        if n["lent"] == 0:
            n["lent"] = nonpoly
    text = atomtable.emit_cif(lines2)
    ext = []
    if mode == 1:       # mode 2: the modification records alone, no entity tables
        ext = ["loop_", "_entity.id", "_entity.type"] + [f"{k + 1} polymer" for k in range(len(chains))]
        if any(n["lent"] == nonpoly for n in lines2):
            ext.append(f"{nonpoly} non-polymer")
        ext += ["#", "loop_", "_entity_poly.entity_id", "_entity_poly.type", "_entity_poly.pdbx_seq_one_letter_code_can"]
        for k, ch in enumerate(chains):
            dna = sum(1 for _, _, rn in seqs[ch] if rn.startswith("D") and len(rn) == 2) * 2 > len(seqs[ch])
            ext.append(f"{k + 1} {'polydeoxyribonucleotide' if dna else 'polyribonucleotide'} {''.join(x for _, x, _ in seqs[ch])}")
        ext.append("#")
    if modrows:
        ext += ["loop_"] + ["_pdbx_struct_mod_residue." + c for c in
                            ("id", "label_asym_id", "label_comp_id", "label_seq_id", "auth_asym_id", "auth_comp_id",
                             "auth_seq_id", "PDB_ins_code", "parent_comp_id")]
        ext += [" ".join(r) for r in modrows] + ["#"]
    return text + "\n".join(ext) + "\n"


class Presenter:
    def __init__(self, lines):
        self.lines = lines
        # a modified residue whose atoms fit two bases equally well (4-thiouridine) gets its letter from its name or
        # from the canonical sequence; modification records ALONE make the library re-detect it from the atoms (it
        # marks the residue as modified and looks at the atoms), so that presentation is not offered for such a base
        self.ambiguous = any(ln["rn"] == "4SU" for ln in lines)
        self.cmap = chain_map(lines)
        self.base_obj = _read_text("cif", atomtable.emit("cif", lines))
        self.icp = {}
        # what the reader made of every residue WITHOUT describing records (the reference the records must agree
        # with); a base in which some nucleotide has no plain letter cannot be described by a canonical sequence
        self.info = {}
        for r in self.base_obj.residues:
            self.info[(r.auth.chain, r.auth.number, r.auth.icode or "")] = (bool(r.is_nucleotide), r.one_letter_name)
        self.describable = all(x in "ACGUT" for nuc, x in self.info.values() if nuc) and \
            len(self.info) == len(_groups(lines))

    def icodes(self, k):
        if k not in self.icp:
            self.icp[k] = icode_pattern(self.lines, k)
        return self.icp[k]

    def deliver(self, st):
        """st = dict(motion=[(kind,id)...], atomOrder, chains, shift, fmt) -> (Structure3D, inverse chain map)"""
        inv = {v: k for k, v in self.cmap.items()} if st["chains"] else {c: c for c in self.cmap}
        dn = SHIFTS[st["shift"]]
        icp = self.icodes(st.get("icodes", 0))
        if st["fmt"] in ("pdb", "cif"):
            out = []
            for g in _groups(self.lines):
                g = list(g)
                if st["atomOrder"]:
                    random.Random(st["atomOrder"] * 7919 + len(out)).shuffle(g)
                for ln in g:
                    v = np.array([ln["x"], ln["y"], ln["z"]], dtype=np.int64)
                    for kind, k in st["motion"]:
                        if kind == "AxisPerm":
                            v = AXIS[k - 1] @ v
                        elif kind == "Translate":
                            v = v + 1000 * np.array(TRANSLATIONS[k], dtype=np.int64)
                        else:
                            raise lib.MachineryError("random rotation cannot be delivered as text")
                    n = dict(ln)
                    num2, ic2 = icp[(ln["ch"], ln["num"], ln["ic"])]
                    n.update(x=int(v[0]), y=int(v[1]), z=int(v[2]), num=num2 + dn, ic=ic2,
                             ch=self.cmap[ln["ch"]] if st["chains"] else ln["ch"], _k=(ln["ch"], ln["num"], ln["ic"]))
                    out.append(n)
            if st.get("records") and self.describable:
                mode = 1 if (self.ambiguous and st["records"] == 2) else st["records"]
                return _read_text(st["fmt"], with_records(st["fmt"], out, self.info, mode)), inv
            # (PDB texts in the layout of deposited files: TER closes the polymer of a chain, its hetero groups follow)
            return _read_text(st["fmt"], atomtable.emit_pdb(out, ter_before_het=True) if st["fmt"] == "pdb"
                              else atomtable.emit(st["fmt"], out)), inv
        # in-memory object: exact float transformation of the base object
        from rnapolis.tertiary import Residue3D, Structure3D

        def move(v):
            for kind, k in st["motion"]:
                if kind == "Rotate":
                    v = rotation(k) @ v
                elif kind == "AxisPerm":
                    v = AXIS[k - 1].astype(float) @ v
                else:
                    v = v + np.array(TRANSLATIONS[k], dtype=float)
            return v

        def relabel(x):
            if x is None:
                return None
            num2, ic2 = icp[(x.chain, x.number, x.icode or "")]
            return dataclasses.replace(x, chain=self.cmap[x.chain] if st["chains"] else x.chain, number=num2 + dn,
                                       icode=ic2 or None)

        residues = []
        for ri, r in enumerate(self.base_obj.residues):
            atoms = []
            for a in r.atoms:
                v = move(np.array([a.x, a.y, a.z], dtype=float))
                lab = a.label
                # mmCIF label ids are not part of the renaming (only auth chain/number are what PDB can carry)
                atoms.append(dataclasses.replace(a, x=float(v[0]), y=float(v[1]), z=float(v[2]), auth=relabel(a.auth), label=lab))
            if st["atomOrder"]:
                random.Random(st["atomOrder"] * 7919 + ri).shuffle(atoms)
            residues.append(Residue3D(r.label, relabel(r.auth), r.model, r.one_letter_name, tuple(atoms)))
        return Structure3D(residues), inv


def canonical(s, inv, dn):
    """Run the real annotator and name every participant by its position in the structure."""
    from rnapolis import annotator
    pos = {}
    for i, r in enumerate(s.residues):
        pos[(r.auth.chain, r.auth.number, r.auth.icode or "")] = i
    s2d, dbs = annotator.extract_secondary_structure(s)
    bi = s2d.baseInteractions

    def p(nt):
        return pos[(nt.auth.chain, nt.auth.number, nt.auth.icode or "")]

    def v(x):
        return "-" if x is None else x.value
    out = [f"bp {p(b.nt1)} {p(b.nt2)} {v(b.lw)} {v(b.saenger)}" for b in bi.basePairs]
    out += [f"st {p(x.nt1)} {p(x.nt2)} {v(x.topology)}" for x in bi.stackings]
    out += sorted(f"bph {p(x.nt1)} {p(x.nt2)} {v(x.bph)}" for x in bi.basePhosphateInteractions)
    out += sorted(f"br {p(x.nt1)} {p(x.nt2)} {v(x.br)}" for x in bi.baseRiboseInteractions)

    def unname(text):
        return re.sub(r"strand_(\S+)", lambda m: "strand_" + inv.get(m.group(1), "?" + m.group(1)), text)

    def unnumber(text):     # BPSEQ carries no residue numbers; kept as is
        return text
    out.append("bpseq " + unnumber(s2d.bpseq).replace("\n", "|"))
    out.append("db " + unname(s2d.dotBracket).replace("\n", "|"))
    out.append("ext " + unname(s2d.extendedDotBracket).replace("\n", "|"))
    out.append("elements " + " ; ".join(str(e) for e in list(s2d.stems) + list(s2d.singleStrands) + list(s2d.hairpins) + list(s2d.loops)))
    return out


def _nano(v):
    if v is None:
        return 10 ** 9
    return int(min(10 ** 9, round(v * 1e9)))


_PRES = {}


def record(case):
    """case = dict(id, base, perturb, fmt0, steps) -> + states[{fmt, err, ann}], margin"""
    c = dict(case)
    key = (case["base"], tuple(case["perturb"]) if case["perturb"] else None)
    if key not in _PRES:
        lines = base_lines(case["base"], tuple(case["perturb"]) if case["perturb"] else None)
        pr = Presenter(lines)
        M = measurer.measure(pr.base_obj)
        _PRES[key] = (pr, [_nano(M["min_margin"]["distance"]), _nano(M["min_margin"]["angle"])])
    pr, margin = _PRES[key]
    c["margin"] = margin
    st = {"motion": [], "atomOrder": 0, "chains": 0, "shift": 0, "icodes": 0, "records": 0, "fmt": case["fmt0"]}
    states = []

    def snap():
        rec = {"fmt": st["fmt"], "err": "", "ann": []}
        try:
            s, inv = pr.deliver(st)
            rec["ann"] = canonical(s, inv, SHIFTS[st["shift"]])
        except lib.MachineryError as e:
            if "PDB field overflow" in str(e) and states:
                # the moved structure no longer fits the PDB coordinate columns: this presentation does not exist
                # as a PDB file; the state is carried as "undeliverable" with the reference annotation
                rec["ann"], rec["undeliverable"] = states[0]["ann"], True
            else:
                raise
        except Exception as e:
            rec["err"] = type(e).__name__
        states.append(rec)
    snap()
    for op, a in case["steps"]:
        if op in ("Rotate", "AxisPerm", "Translate"):
            st["motion"].append((op, a))
        elif op == "PermuteAtoms":
            st["atomOrder"] = a
        elif op == "RenameChains":
            st["chains"] = a
        elif op == "ShiftNumbers":
            st["shift"] = a
        elif op == "InsertCodes":
            st["icodes"] = a
        elif op == "SwitchFormat":
            st["fmt"] = ["obj", "pdb", "cif"][a]
        elif op == "ToggleRecords":
            st["records"] = a
        snap()
    c["states"] = states
    return c
