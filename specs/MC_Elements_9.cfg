SPECIFICATION Spec
CONSTANT N = 9
CONSTANT PairlessShortcut = FALSE
INVARIANT ClausesHold
INVARIANT NoDuplicateLoops
CHECK_DEADLOCK FALSE
