"""X03 - beyond the listed properties: rnapolis.splitter.main - the tool's protocol (refusals, exit status, one file
per model under its name, each file holding exactly its model's lines in input order, models that do not fit PDB
skipped and reported).  Steps of main() as a state machine: specs/Splitter.tla (TLC over every small world);
recorded runs: Trace_Splitter."""
from .. import lib, splitter as sp, atomtable as at

PID = "X03"
TIERS = {"quick": dict(n=400, cfg="MC_Splitter.cfg"), "thorough": dict(n=6000, cfg="MC_Splitter_4.cfg")}
ACTIONS = ("CheckExists", "Parse", "CheckEmpty", "CheckFormat", "MakeDir", "WriteModel", "Finish")


def run(tier):
    t = TIERS[tier]
    rep = lib.Report(PID, tier, "model_checking")
    with lib.Scratch(PID.lower()) as sc:
        at.set_tmpdir(sc.path("files"))
        r = lib.mc("Splitter", t["cfg"], sc)
        rep.add_mc(r, "the steps of splitter.main on every small world (input present / readable or not, both input "
                      "formats, every sequence of <= 3 (thorough 4) atom lines over 3 model numbers, 9 --format "
                      "spellings, every fits/does-not-fit assignment): the steps compute the function "
                      "(InvExit, InvFiles), a refusal leaves nothing (InvRefusalLeavesNothing), the files partition "
                      "the input in input order (InvPartition), skipped = reported = not fitting (InvSkipReported), "
                      "a written file is never touched again (FilesOnlyGrow)", min_actions=ACTIONS)
        r = lib.mc("Splitter", "MC_Splitter_neg_partial.cfg", sc, expect_violation="InvExitTellsCompleteness")
        rep.add_mc(r, "negative control (design weakness, not a defect against a listed property): a run that skipped "
                      "a model still exits 0", negative_control=True)
        cases = sp.cases(t["n"], lib.seed())
        rec = lib.pmap(sp.record, cases)
        res = lib.trace_validate("Trace_Splitter", "Trace_Splitter.cfg", rec, sc)
        rep.add_trace(res, {c["id"]: c for c in rec}, "X03")
        cov = rep.cov
        cov["exhaustive"] = False
        cov["rule"] = (f"{len(cases)} generated inputs run through splitter.main in-process: PDB / mmCIF, 1-4 models "
                       "(numbered 1.., 0.., or arbitrarily - 10 before 9 as text -, ascending or not, a model continued "
                       "after another one in mmCIF), chains with two-letter names (fit PDB after renaming) and models "
                       "with 63 chains (do not fit), 11 --format spellings, base names with dots / blanks / '_model_', "
                       "missing / unreadable / atom-less inputs, an output directory that exists already; the x "
                       "coordinate carries the identity of every atom line, outputs are read back with the harness's "
                       "tokenizers.  Non-trivial = a run that wrote files for >= 2 models.")
        cov["distinct_nontrivial"] = sum(1 for c in rec if len(c["files"]) >= 2)
        cov["runs_refused"] = sum(1 for c in rec if c["exit"] == 1)
        cov["runs_with_skipped_model"] = sum(1 for c in rec if c["reported"])
        s = dict(rec[0])
        s["rows"] = s["rows"][:6]
        s["files"] = [{"name": f["name"], "fmt": f["fmt"], "rows": f["rows"][:4]} for f in s["files"][:2]]
        cov["samples"] = [s]
        rep.assumptions += [
            "what is inside a written file beyond the identity and model of its atom lines (every atom field) is the "
            "business of C09 (paths split:*) and C10",
            "fits / does not fit is a construction fact of the generated input: a model does not fit PDB iff it has "
            "63 chains one of which has a two-letter name",
            "this area lies beyond the 20 listed properties: it is not claimed in MANIFEST.json",
        ]
    return rep.finish()


def replay(doc):
    case = doc.get("case")
    if not case:
        print(doc.get("tlc_output_tail", ""))
        return run("quick")
    rep = lib.Report(PID, "quick", "model_checking", evidence=False)
    with lib.Scratch("x03r") as sc:
        at.set_tmpdir(sc.path("files"))
        n = int(case["id"][1:])
        rec = sp.record(sp.cases(n + 1, lib.seed())[n])
        res = lib.trace_validate("Trace_Splitter", "Trace_Splitter.cfg", [rec], sc, chunks=1)
        rep.add_trace(res, {rec["id"]: rec}, "X03")
        rep.cov["samples"] = [{"id": rec["id"]}]
        rep.cov["distinct_nontrivial"] = 1
    return rep.finish()
