---------------------------- MODULE MC_CifEdit ----------------------------
(***************************************************************************)
(* Design-level model of rnapolis.transformer, action by action as the     *)
(* code performs it, explored for EVERY small document and operation:      *)
(*   LibCall                 copy_from_to / replace_value called with the  *)
(*                           file's text                                   *)
(*   CliCopy / CliReplace    transformer.main: which text is handed on     *)
(*                           (CliReadsFile = FALSE: the PATH, as coded)    *)
(*   ReadFile                adapter.readFile on a temp copy               *)
(*   ReturnUnchanged         no container / category / source item         *)
(*   BeginCopy, CopyRow      attributes.append(copy_to); per row           *)
(*                           row.append(row[i]) or row[j] = row[i]         *)
(*   BeginReplace, ReplaceRow  per row: mapping[v] = values[len(mapping)]  *)
(*   WriteFile               data[0].replace(...); adapter.writeFile       *)
(*   LibReturn               remember the library result                   *)
(*   CliWrite                f.write(output) (CliWritesText = FALSE: the   *)
(*                           (text, mapping) tuple, as coded -> TypeError) *)
(* Every behaviour is: library call on (file, op), then the CLI on the     *)
(* same (file, op).  Texts are abstract: <<"orig", f>> is the input file's *)
(* text, <<"pathtext">> the text of the path string, <<"rewritten", d>>    *)
(* the writer's serialisation of container d.                              *)
(***************************************************************************)
EXTENDS CifEdit, TLC

CONSTANTS Vals,            \* cell values
          MaxRows,
          QFull,           \* TRUE: the by-standing category q ranges over every category too
          CliReadsFile,    \* TRUE = required; FALSE = as implemented (P12)
          CliWritesText,   \* TRUE = required; FALSE = as implemented (P12)
          CliOpensOutputFirst  \* FALSE = required (read the input, then open the output); TRUE = design
                               \* variant: both files opened in one `with`, the output truncated first

VARIABLES file,     \* concrete input document: [category name -> [attrs, rows]]
          op,
          phase,    \* "lib" | "cli"
          pc,
          content,  \* the text passed as file_content
          doc,      \* data[0] being edited
          k,        \* row loop index
          mapping,  \* replace_value's dict
          ret,      \* what the library function returned
          libret,   \* result of the library phase
          outfile,  \* what the CLI wrote
          err,      \* exception escaping main
          inplace   \* the CLI's output path IS its input path (editing a file where it is)
vars == <<file, op, phase, pc, content, doc, k, mapping, ret, libret, outfile, err, inplace>>

Cats  == {"p", "q"}
AttrChoices == { <<"a">>, <<"a", "b">>, <<"b", "a">> }
RowsOf(at) == UNION { [1..r -> [1..Len(at) -> Vals]] : r \in 1..MaxRows }
CatChoices == UNION { { [attrs |-> at, rows |-> rw] : rw \in RowsOf(at) } : at \in AttrChoices }
\* the by-standing category q (frame witness): absent, or one of two fixed categories, or (QFull) any
QSmall == { [attrs |-> <<"a", "b">>, rows |-> << <<"u", "v">>, <<"v", "v">> >>],
            [attrs |-> <<"b">>, rows |-> << <<"u">> >>] }
QChoices == IF QFull THEN CatChoices ELSE QSmall
Files == {<<>>} \cup { ("p" :> c) : c \in CatChoices } \cup { ("q" :> d) : d \in QChoices }
         \cup { ("p" :> c) @@ ("q" :> d) : c \in CatChoices, d \in QChoices }
OpItems == {"a", "b", "c"}
Alphas == { <<"X", "Y", "Z">>, <<"v", "u", "w">> }
Ops == { [kind |-> "copy", cat |-> "p", from |-> f, to |-> t, alpha |-> <<>>] : f \in OpItems, t \in OpItems }
       \cup { [kind |-> "replace", cat |-> "p", from |-> i, to |-> i, alpha |-> al] : i \in OpItems, al \in Alphas }

ASSUME MaxRows <= 3   \* alphabets above have three letters

AbsDoc(d) == [n \in DOMAIN d |-> CatFun(d[n])]
NoRet == [text |-> <<"none">>, mapping |-> <<>>, kind |-> "none"]
RetKind == IF op.kind = "copy" THEN "str" ELSE "pair"
Parse(t) == IF t[1] \in {"pathtext", "empty"} THEN <<>> ELSE t[2]    \* the path / an empty file is no mmCIF: no container
\* what the CLI finds in the input file when it reads it: its content, unless the output path is the
\* same file and has already been opened for writing (truncated)
CliSees == IF CliOpensOutputFirst /\ inplace THEN <<"empty">> ELSE <<"orig", file>>

Init ==
  /\ file \in Files /\ op \in Ops
  /\ phase = "lib" /\ pc = "call" /\ content = <<"none">> /\ doc = <<>> /\ k = 0
  /\ mapping = <<>> /\ ret = NoRet /\ libret = NoRet /\ outfile = <<"absent">> /\ err = ""
  /\ inplace \in BOOLEAN

LibCall ==
  /\ pc = "call" /\ phase = "lib"
  /\ content' = <<"orig", file>> /\ pc' = "read"
  /\ UNCHANGED <<file, op, phase, doc, k, mapping, ret, libret, outfile, err, inplace>>

CliCopy ==
  /\ pc = "call" /\ phase = "cli" /\ op.kind = "copy"
  /\ content' = IF CliReadsFile THEN CliSees ELSE <<"pathtext">>
  /\ pc' = "read"
  /\ UNCHANGED <<file, op, phase, doc, k, mapping, ret, libret, outfile, err, inplace>>

CliReplace ==
  /\ pc = "call" /\ phase = "cli" /\ op.kind = "replace"
  /\ content' = IF CliReadsFile THEN CliSees ELSE <<"pathtext">>
  /\ pc' = "read"
  /\ UNCHANGED <<file, op, phase, doc, k, mapping, ret, libret, outfile, err, inplace>>

ReadFile ==
  /\ pc = "read"
  /\ doc' = Parse(content) /\ pc' = "check" /\ mapping' = <<>> /\ k' = 0
  /\ UNCHANGED <<file, op, phase, content, ret, libret, outfile, err, inplace>>

Present == op.cat \in DOMAIN doc /\ op.from \in Ran(doc[op.cat].attrs)

ReturnUnchanged ==
  /\ pc = "check" /\ ~Present
  /\ ret' = [text |-> content, mapping |-> <<>>, kind |-> RetKind]
  /\ pc' = "returned"
  /\ UNCHANGED <<file, op, phase, content, doc, k, mapping, libret, outfile, err, inplace>>

BeginCopy ==
  /\ pc = "check" /\ Present /\ op.kind = "copy"
  /\ doc' = IF op.to \in Ran(doc[op.cat].attrs) THEN doc
            ELSE [doc EXCEPT ![op.cat].attrs = Append(@, op.to)]
  /\ k' = 1 /\ pc' = "copyrows"
  /\ UNCHANGED <<file, op, phase, content, mapping, ret, libret, outfile, err, inplace>>

CopyRow ==
  /\ pc = "copyrows" /\ k <= Len(doc[op.cat].rows)
  /\ LET at  == doc[op.cat].attrs
         i   == Idx(at, op.from)
         j   == Idx(at, op.to)
         row == doc[op.cat].rows[k] IN
     doc' = [doc EXCEPT ![op.cat].rows[k] =
               IF j > Len(row) THEN Append(row, row[i]) ELSE [row EXCEPT ![j] = row[i]]]
  /\ k' = k + 1
  /\ UNCHANGED <<file, op, phase, pc, content, mapping, ret, libret, outfile, err, inplace>>

BeginReplace ==
  /\ pc = "check" /\ Present /\ op.kind = "replace"
  /\ k' = 1 /\ mapping' = <<>> /\ pc' = "replrows"
  /\ UNCHANGED <<file, op, phase, content, doc, ret, libret, outfile, err, inplace>>

ReplaceRow ==
  /\ pc = "replrows" /\ k <= Len(doc[op.cat].rows)
  /\ LET i  == Idx(doc[op.cat].attrs, op.to)
         v  == doc[op.cat].rows[k][i]
         m2 == IF v \in DOMAIN mapping THEN mapping
               ELSE mapping @@ (v :> op.alpha[Cardinality(DOMAIN mapping) + 1]) IN
     /\ mapping' = m2
     /\ doc' = [doc EXCEPT ![op.cat].rows[k][i] = m2[v]]
  /\ k' = k + 1
  /\ UNCHANGED <<file, op, phase, pc, content, ret, libret, outfile, err, inplace>>

WriteFile ==
  /\ pc \in {"copyrows", "replrows"} /\ k > Len(doc[op.cat].rows)
  /\ ret' = [text |-> <<"rewritten", doc>>, mapping |-> mapping, kind |-> RetKind]
  /\ pc' = "returned"
  /\ UNCHANGED <<file, op, phase, content, doc, k, mapping, libret, outfile, err, inplace>>

LibReturn ==
  /\ pc = "returned" /\ phase = "lib"
  /\ libret' = ret /\ phase' = "cli" /\ pc' = "call"
  /\ UNCHANGED <<file, op, content, doc, k, mapping, ret, outfile, err, inplace>>

CliWrite ==
  /\ pc = "returned" /\ phase = "cli"
  /\ IF ret.kind = "pair" /\ ~CliWritesText
     THEN err' = "TypeError" /\ outfile' = <<"empty">>      \* open(..., "w") happened, write() raised
     ELSE outfile' = ret.text /\ UNCHANGED err
  /\ pc' = "done"
  /\ UNCHANGED <<file, op, phase, content, doc, k, mapping, ret, libret, inplace>>

Next == LibCall \/ CliCopy \/ CliReplace \/ ReadFile \/ ReturnUnchanged \/ BeginCopy \/ CopyRow
        \/ BeginReplace \/ ReplaceRow \/ WriteFile \/ LibReturn \/ CliWrite
Spec == Init /\ [][Next]_vars

\* ------------------------------------------------------------ frame (action property)
\* while the rows are being edited, a step changes nothing but the target item
CellsKept(c, d) ==        \* c, d: concrete categories before / after one step
  /\ Len(d.rows) = Len(c.rows)
  /\ Ran(c.attrs) \subseteq Ran(d.attrs) /\ Ran(d.attrs) \subseteq Ran(c.attrs) \cup {op.to}
  /\ \A r \in DOMAIN c.rows : \A a \in Ran(c.attrs) \ {op.to} :
        /\ Idx(d.attrs, a) = Idx(c.attrs, a)
        /\ Idx(c.attrs, a) <= Len(c.rows[r]) =>
              /\ Idx(d.attrs, a) <= Len(d.rows[r])
              /\ d.rows[r][Idx(d.attrs, a)] = c.rows[r][Idx(c.attrs, a)]
Untouched ==
  pc \in {"check", "copyrows", "replrows"} =>
    /\ DOMAIN doc' = DOMAIN doc
    /\ \A n \in DOMAIN doc \ {op.cat} : doc'[n] = doc[n]
    /\ op.cat \in DOMAIN doc => CellsKept(doc[op.cat], doc'[op.cat])
FrameAction == [][Untouched]_doc

\* ------------------------------------------------------------ invariants (library phase)
LibDone == phase = "cli" /\ pc = "call"     \* libret is final from here on; judged once per behaviour
I == AbsDoc(file)
Rewritten == libret.text[1] = "rewritten"
O == AbsDoc(libret.text[2])
Edited == LibDone /\ ~Missing(I, op)

MissingLeavesUntouched ==
  LibDone /\ Missing(I, op) => libret.text = <<"orig", file>> /\ libret.mapping = <<>>
EditRewrites == Edited => Rewritten
InvFrameOtherCategories == Edited => FrameOtherCategories(I, O, op)
InvFrameRowsAndOrder    == Edited => FrameRowsAndOrder(I, O, op)
InvFrameOtherItems      == Edited => FrameOtherItems(I, O, op)
InvCopyTargetEqualsSource ==
  Edited /\ op.kind = "copy" => CopyTargetEqualsSource(I, O, op)
InvReplaceIsInjectiveFirstSeen ==
  Edited /\ op.kind = "replace" => ReplaceIsInjectiveFirstSeen(I, O, op, MapPairs(libret.mapping))
\* the step-by-step algorithm computes exactly the declarative expected document / mapping
ModelMatchesExpected ==
  Edited => O = Expected(I, op) /\ MapPairs(libret.mapping) = ExpectedMapPairs(I, op)
\* lemma: the declarative expectation used on traces satisfies every clause
ExpectedSatisfiesClauses ==
  pc = "read" /\ phase = "lib" /\ ~Missing(I, op) =>     \* judged once per behaviour, by a worker
     AllClauses(I, Expected(I, op), op, ExpectedMapPairs(I, op))
\* lemma: the clauses pin the document down: every one-cell corruption of the expected
\* document is rejected by some clause
CorruptCell(F, n, r, a) == [F EXCEPT ![n] = [@ EXCEPT ![r] = [@ EXCEPT ![a] = "#corrupt#"]]]
ClausesRejectCorruption ==
  pc = "read" /\ phase = "lib" /\ ~Missing(I, op) =>     \* judged once per behaviour, by a worker
     LET E == Expected(I, op) IN
     \A n \in DOMAIN E : \A r \in DOMAIN E[n] : \A a \in DOMAIN E[n][r] :
        ~AllClauses(I, CorruptCell(E, n, r, a), op, ExpectedMapPairs(I, op))

\* ------------------------------------------------------------ the CLI
CliEqualsLib == pc = "done" => err = "" /\ outfile = libret.text
=============================================================================
