SPECIFICATION Spec
CONSTANT Assignment = "AsImplemented"
CONSTANT MaxChain = 1
INVARIANT SameAcrossRuns
CHECK_DEADLOCK FALSE
