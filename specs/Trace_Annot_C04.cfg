SPECIFICATION Spec
CONSTANT Family = "C04"
CHECK_DEADLOCK FALSE
