#!/bin/bash
# seed sweep of all quick checks
for s in 1 2 3 7 12345; do
  for p in C01 C02 C03 C04 C05 C06 C07 C08 C09 C10 C11 C12 C13 C14 C15 C16 C17 C18 C19 C20 X01 X02 X03 X04 X05; do
    out=$(VERIF_SEED=$s ./check $p --tier quick 2>&1 | grep -v "^WARN"); rc=$?
    echo "seed=$s $(echo "$out" | tail -1 | cut -c1-160)"
    echo "$out" | grep -E "^VIOLATION|MachineryError|Traceback" | head -3
  done
done
