---------------------------- MODULE MC_Mapping2D ----------------------------
(***************************************************************************)
(* Design-level model of rnapolis.tertiary.Mapping2D3D, action by action   *)
(* as the code performs it, explored for EVERY list of up to MaxEntries    *)
(* base-pair entries over a five-residue, two-chain structure (one         *)
(* non-nucleotide, one chain gap), with and without gap detection, with    *)
(* the residue identifiers in file order and against it:                   *)
(*   LiftStep            base_pairs: find both residues, keep the pair and *)
(*                       its reverse unless already seen                   *)
(*   FilterCanonical     is_canonical and nt1 < nt2                        *)
(*   ResolveOneConflict  one turn of the `while True` loop of bpseq        *)
(*   NumberStep          __generate_bpseq: one residue per step, "?"       *)
(*                       placeholders where gap detection applies          *)
(*   WritePairs          result[j][2] = k; result[k][2] = j                *)
(*   SliceStrands        strands_sequences (its own loop and gap rule)     *)
(*   Render              dot_bracket: BPSEQ -> text -> per-strand slices   *)
(*   ExtPlace            extended_dot_bracket: rows of one class           *)
(*   ExtRender           each row -> fresh BPSEQ (last writer wins) -> text*)
(* RowPolicy = "two_rows" is the code as implemented (negative control:    *)
(* the second row need not be a matching), "until_placed" is the required  *)
(* behaviour.  Resolve = "as_code" removes the pair the code removes,      *)
(* "any" removes any pair at any conflicted nucleotide: the clauses hold   *)
(* for both, i.e. the survivor is not prescribed.                          *)
(***************************************************************************)
EXTENDS Mapping2D

CONSTANTS MaxEntries,   \* longest entry list
          Classes,      \* Leontis-Westhof classes used by the entries
          WithAbsent,   \* entries may name a residue that is not in the structure
          Oriented,     \* TRUE: only entries naming the lower file index first (smaller domain)
          Ords,         \* subset of BOOLEAN: TRUE = identifiers in file order, FALSE = against it
          RowPolicy,    \* "two_rows" | "until_placed"
          Resolve       \* "as_code" | "any"

VARIABLES entries, gaps, ord,          \* input: entry list, gap detection, identifiers in file order?
          pc, k,
          lifted, canon,               \* base_pairs, canonical (sequences of pairs)
          seq, ridx, prev,             \* numbering under construction
          partner,                     \* BPSEQ pair column
          strands, pieces,             \* strands_sequences, dot_bracket pieces
          rowsets, rows                \* extended rows as pair sequences / as texts
vars == <<entries, gaps, ord, pc, k, lifted, canon, seq, ridx, prev, partner, strands, pieces, rowsets, rows>>

\* the demonstration structure of Mapping2D; ord = FALSE: chain 1 is named "B" and chain 2 "A",
\* so the residue identifiers sort against the file order
Res == LET o == IF ord THEN <<1, 2, 3, 4, 5>> ELSE <<2, 3, 4, 5, 1>> IN
       [ j \in 1..Len(DemoShape) |-> [okey |-> o[j]] @@ DemoShape[j] ]
NucIdx == DemoNuc
Ends   == NucIdx \cup (IF WithAbsent THEN {0} ELSE {})
EntryDomain == { [a |-> x, b |-> y, lw |-> l, sa |-> ""] :
                   x \in Ends, y \in Ends, l \in Classes }
               \ { e \in [a : NucIdx, b : NucIdx, lw : Classes, sa : {""}] : e.a = e.b \/ (Oriented /\ e.a > e.b) }

Init == /\ entries \in UNION { [1..n -> EntryDomain] : n \in 0..MaxEntries }
        /\ gaps \in BOOLEAN /\ ord \in Ords
        /\ pc = "lift" /\ k = 1 /\ lifted = <<>> /\ canon = <<>>
        /\ seq = <<>> /\ ridx = <<>> /\ prev = 0 /\ partner = <<>>
        /\ strands = <<>> /\ pieces = <<>> /\ rowsets = <<>> /\ rows = <<>>

\* ------------------------------------------------------------------ base_pairs
LiftStep ==
  /\ pc = "lift"
  /\ IF k <= Len(entries)
     THEN lifted' = LiftOne(Res, lifted, entries[k]) /\ k' = k + 1 /\ UNCHANGED pc
     ELSE pc' = "filter" /\ UNCHANGED <<lifted, k>>
  /\ UNCHANGED <<entries, gaps, ord, canon, seq, ridx, prev, partner, strands, pieces, rowsets, rows>>

\* ------------------------------------------------------------------ canonical filter (as coded)
Sorted2(b) == LET x == Up(Res[b.a].letter)  y == Up(Res[b.b].letter) IN
              IF (CHOOSE i \in 1..26 : UpperSeq[i] = x) <= (CHOOSE i \in 1..26 : UpperSeq[i] = y) THEN <<x, y>> ELSE <<y, x>>
IsCanonicalAsCoded(b) ==
  IF b.sa # "" THEN b.sa \in CanonSaenger
  ELSE b.lw = "cWW" /\ Sorted2(b) \in { <<"A","U">>, <<"A","T">>, <<"C","G">>, <<"G","U">> }
FilterCanonical ==
  /\ pc = "filter"
  /\ canon' = SelectSeq(lifted, LAMBDA b : IsCanonicalAsCoded(b) /\ LowFirst(Res, b))
  /\ pc' = "resolve"
  /\ UNCHANGED <<entries, gaps, ord, k, lifted, seq, ridx, prev, partner, strands, pieces, rowsets, rows>>

\* ------------------------------------------------------------------ conflict loop
PairsAt(x)   == { canon[i] : i \in { j \in 1..Len(canon) : x \in {canon[j].a, canon[j].b} } }
Conflicted   == { x \in 1..Len(Res) : Cardinality(PairsAt(x)) > 1 }
\* dict insertion order of `matches`: nt1 then nt2 of every pair, in list order
FirstSeen(x) == Min({ 2 * i - (IF canon[i].a = x THEN 1 ELSE 0) : i \in { j \in 1..Len(canon) : x \in {canon[j].a, canon[j].b} } })
Score(b)     == IF b.sa # "" THEN (IF b.sa \in {"XIX", "XX"} THEN 0 ELSE 1)
                ELSE IF Sorted2(b) \in { <<"A","U">>, <<"A","T">>, <<"C","G">> } THEN 0 ELSE 1
KeyLess(b, c) == \/ Score(b) < Score(c)
                 \/ Score(b) = Score(c) /\ Res[b.a].okey < Res[c.a].okey
                 \/ Score(b) = Score(c) /\ Res[b.a].okey = Res[c.a].okey /\ Res[b.b].okey < Res[c.b].okey
Worst(S)     == CHOOSE b \in S : \A c \in S : c = b \/ KeyLess(c, b)
Without(s, b) == SelectSeq(s, LAMBDA c : c # b)
ResolveOneConflict ==
  /\ pc = "resolve"
  /\ IF Conflicted = {} THEN pc' = "number" /\ k' = 1 /\ UNCHANGED canon
     ELSE /\ UNCHANGED <<pc, k>>
          /\ IF Resolve = "as_code"
             THEN LET x == CHOOSE y \in Conflicted : \A z \in Conflicted : FirstSeen(y) <= FirstSeen(z)
                  IN canon' = Without(canon, Worst(PairsAt(x)))
             ELSE \E x \in Conflicted : \E b \in PairsAt(x) : canon' = Without(canon, b)
  /\ UNCHANGED <<entries, gaps, ord, lifted, seq, ridx, prev, partner, strands, pieces, rowsets, rows>>

\* ------------------------------------------------------------------ __generate_bpseq
NumberStep ==
  /\ pc = "number"
  /\ IF k <= Len(Res)
     THEN /\ IF Res[k].nuc
             THEN LET ph == IF gaps /\ prev # 0 /\ ~Res[prev].conn /\ Res[prev].chain = Res[k].chain
                            THEN Max0(Res[k].number - Res[prev].number - 1) ELSE 0
                      s  == seq \o Rep("?", ph) \o << Res[k].letter >>
                  IN seq' = s /\ ridx' = Append(ridx, Len(s)) /\ prev' = k
             ELSE ridx' = Append(ridx, 0) /\ UNCHANGED <<seq, prev>>
          /\ k' = k + 1 /\ UNCHANGED pc
     ELSE pc' = "pairs" /\ UNCHANGED <<seq, ridx, prev, k>>
  /\ UNCHANGED <<entries, gaps, ord, lifted, canon, partner, strands, pieces, rowsets, rows>>

WritePairs ==
  /\ pc = "pairs"
  /\ partner' = LastWriter(Len(seq), ridx, canon)
  /\ pc' = "strands"
  /\ UNCHANGED <<entries, gaps, ord, k, lifted, canon, seq, ridx, prev, strands, pieces, rowsets, rows>>

\* ------------------------------------------------------------------ strands_sequences
RECURSIVE StrandWalk(_, _, _)
StrandWalk(j, p, acc) ==       \* j = residue index, p = previous nucleotide, acc = strands so far
  IF j > Len(Res) THEN acc
  ELSE IF ~Res[j].nuc THEN StrandWalk(j + 1, p, acc)
  ELSE IF p = 0 \/ Res[j].chain # Res[p].chain
       THEN StrandWalk(j + 1, j, Append(acc, [chain |-> Res[j].chain, seq |-> << Res[j].letter >>]))
  ELSE LET ph == IF gaps /\ ~Res[p].conn THEN Max0(Res[j].number - Res[p].number - 1) ELSE 0 IN
       StrandWalk(j + 1, j, [acc EXCEPT ![Len(acc)].seq = @ \o Rep("?", ph) \o << Res[j].letter >>])
SliceStrands ==
  /\ pc = "strands"
  /\ strands' = StrandWalk(1, 0, <<>>)
  /\ pc' = "render"
  /\ UNCHANGED <<entries, gaps, ord, k, lifted, canon, seq, ridx, prev, partner, pieces, rowsets, rows>>

\* ------------------------------------------------------------------ text of a pair column
\* 5'->3' entries in index order, first-fit bracket level against earlier crossing entries
RECURSIVE SortedEntries(_)
SortedEntries(S) == IF S = {} THEN <<>> ELSE LET e == CHOOSE x \in S : \A y \in S : x[1] <= y[1] IN <<e>> \o SortedEntries(S \ {e})
RECURSIVE LevelsFrom(_, _, _)
LevelsFrom(es, i, lv) ==
  IF i > Len(es) THEN lv
  ELSE LET used == { lv[x] : x \in { y \in 1..(i - 1) : CrossP(es[y], es[i]) } }
       IN LevelsFrom(es, i + 1, Append(lv, CHOOSE l \in 0..Len(es) : l \notin used /\ \A m \in 0..(l - 1) : m \in used))
RenderText(n, f) ==
  LET es == SortedEntries(Entries5(f))
      lv == LevelsFrom(es, 1, <<>>)
      at(i) == lv[CHOOSE x \in 1..Len(es) : es[x][1] = i]
  IN [ p \in 1..n |->
         IF f[p] > p THEN Opening[at(p) + 1]
         ELSE IF \E i \in 1..(p - 1) : f[i] = p THEN Closing[at(Max({ i \in 1..(p - 1) : f[i] = p })) + 1]
         ELSE Dot ]
\* __generate_dot_bracket_per_strand
Slices(text) == [ s \in 1..Len(strands) |-> SubSeq(text, StrandStart(strands, s), StrandStart(strands, s) + Len(strands[s].seq) - 1) ]

Render ==
  /\ pc = "render"
  /\ pieces' = Slices(RenderText(Len(seq), partner))
  /\ pc' = "ext" /\ k' = 1
  /\ UNCHANGED <<entries, gaps, ord, lifted, canon, seq, ridx, prev, partner, strands, rowsets, rows>>

\* ------------------------------------------------------------------ extended_dot_bracket
\* `for lw in LeontisWesthof`: only classes that can occur (a class of Classes or its reverse)
ClassSeq == SelectSeq(LWSeq, LAMBDA l : l \in Classes \/ LWRev[l] \in Classes)
ExtPlace ==
  /\ pc = "ext"
  /\ IF k <= Len(ClassSeq)
     THEN /\ rowsets' = LET rs == RowsOfClass(RowPolicy, Res, lifted, ClassSeq[k]) IN
                        rowsets \o [ r \in 1..Len(rs) |-> [lw |-> ClassSeq[k], row |-> rs[r]] ]
          /\ k' = k + 1 /\ UNCHANGED pc
     ELSE pc' = "extrender" /\ UNCHANGED <<rowsets, k>>
  /\ UNCHANGED <<entries, gaps, ord, lifted, canon, seq, ridx, prev, partner, strands, pieces, rows>>

ExtRender ==
  /\ pc = "extrender"
  /\ rows' = [ r \in 1..Len(rowsets) |->
                 [lw |-> rowsets[r].lw, text |-> RenderText(Len(seq), LastWriter(Len(seq), ridx, rowsets[r].row))] ]
  /\ pc' = "done"
  /\ UNCHANGED <<entries, gaps, ord, k, lifted, canon, seq, ridx, prev, partner, strands, pieces, rowsets>>

Next == LiftStep \/ FilterCanonical \/ ResolveOneConflict \/ NumberStep \/ WritePairs \/ SliceStrands
        \/ Render \/ ExtPlace \/ ExtRender
Spec == Init /\ [][Next]_vars

\* ---------------------------------------------------------------- invariants (clauses of C06)
Done == pc = "done"
NB   == Numbering(Res, gaps)
E    == [ i \in 1..Len(seq) |-> <<i, seq[i], partner[i]>> ]

\* lemma: pair lifting yields exactly every found entry and its reverse, each once
LiftLemma == pc = "filter" =>
   /\ SeqSet(lifted) = UNION { {Bp(entries[i]), BpRev(entries[i])} : i \in { j \in 1..Len(entries) : Found(Res, entries[j]) } }
   /\ Cardinality(SeqSet(lifted)) = Len(lifted)
\* lemma: the numbering loop, the recursive definition and the closed form agree
NumberingLemma == pc = "pairs" =>
   /\ ridx = NB.ridx /\ seq = NB.seq
   /\ \A j \in 1..Len(Res) : ridx[j] = IndexDecl(Res, gaps, j)
\* lemma: the as-coded canonical test lies between the certain and the possible reading
CanonAsCoded == { NF(c) : c \in { b \in SeqSet(lifted) : IsCanonicalAsCoded(b) /\ LowFirst(Res, b) } }
CanonLemma == pc = "resolve" =>
   /\ SureCanon(Res, entries) \subseteq CanonAsCoded
   /\ CanonAsCoded \subseteq MaybeCanon(Res, entries)
   /\ { NF(canon[i]) : i \in 1..Len(canon) } \subseteq CanonAsCoded

InvNumbering        == Done => NumberingOK(NB, E) /\ PairRangeOK(E)
InvSymmetric        == Done => SymmetricOK(E)
InvAtMostOnePartner == Done => AtMostOnePartnerOK(E)
InvFromCanonical    == Done => FromCanonicalOK(Res, entries, NB, E)
InvKeepsUnconflicted == Done => KeepsUnconflictedOK(Res, entries, NB, E)
InvStrands          == Done => /\ StrandsConcatOK(NB, strands) /\ StrandChainsOK(Res, NB, strands)
                               /\ PiecesFitOK(strands, pieces) /\ TextEncodes(Concat(pieces), BpPairs(E))
InvExtRowsBalancedLen == Done => ExtRowsBalancedLenOK(Len(seq), rows)
InvExtEncodesEachOnce == Done => ExtEncodesEachOnceOK(Res, entries, NB, rows)
=============================================================================
