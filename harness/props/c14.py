"""C14 - outputs are a deterministic function of the input (fresh interpreters x hash seeds)."""
import os
import re
from concurrent.futures import ThreadPoolExecutor

from .. import determinism as det, lib

PID = "C14"
TIERS = {
    # gen: generated knotted structures; shards: interpreters per seed; max_comp: largest conflict component for
    # which the factorial enumeration behind all_dot_brackets is requested on corpus structures
    "quick":    dict(gen=120, maps=48, shards=3, max_comp=7, mc_required="MC_Determinism_Required.cfg"),
    "thorough": dict(gen=1200, maps=800, shards=8, max_comp=9, mc_required="MC_Determinism_Required_T.cfg"),
}


def tasks_for(tier, scratch=None):
    t = TIERS[tier]
    tasks = []
    paths = list(det.corpus(tier))
    twin = {}
    if scratch is not None:
        # a twin of 1ehz whose modified residues have lost their bases, in the same interpreter as the original
        src = os.path.join(lib.REPO, "tests", "1ehz-assembly-1.cif")
        if src in paths:
            dst = scratch.path("1ehz-nobase.cif")
            det.strip_modified_bases(src, dst)
            paths.append(dst)
            twin = {src: "twin-1ehz", dst: "twin-1ehz"}
        # ... and two copies of a PDB file with a few residues under an unresolvable component name, complete in
        # one copy, without base atoms in the other
        src = os.path.join(lib.REPO, "tests", "4qln.pdb")
        if src in paths:
            a, b = scratch.path("4qln-xyp.pdb"), scratch.path("4qln-xyp-nobase.pdb")
            det.make_pdb_twins(src, a, b)
            paths += [b, a]
            twin.update({a: "twin-4qln", b: "twin-4qln"})
    for path in paths:
        name = os.path.basename(path)
        # estimated seconds per repetition (only used to balance the shards)
        size = os.path.getsize(path) * (5 if name.endswith(".gz") else 1)
        tasks.append({"kind": "file", "name": name, "path": path, "max_comp": t["max_comp"],
                      "weight": 0.3 + size / 2e5 + (25 if name.startswith("1gid") else 0),
                      **({"group": twin[path]} if path in twin else {})})
        tasks.append({"kind": "v2", "name": name, "path": path, "weight": 0.2 + size / 1.5e5})
    gen = det.generated_cases(t["gen"], lib.seed())
    for g in gen:
        g["weight"] = 0.03
    # Mapping2D3D with generated conflicting pair lists on a carrier structure, one batch per shard
    lists = det.pairlist_cases(t["maps"], lib.seed())
    carrier = os.path.join(lib.REPO, "tests", "1ehz-assembly-1.cif")
    nb = t["shards"]
    for k in range(nb):
        part = lists[k::nb]
        if part:
            tasks.append({"kind": "map", "name": f"maps-{k}", "path": carrier, "lists": part, "weight": 0.2 + 0.06 * len(part)})
    return tasks + gen, gen + lists


def validate(cases, rep, sc, what="C14"):
    # ~10-25 observations per case, ~1000 cases/s per TLC process: a few chunks are enough
    res = lib.trace_validate("Trace_Determinism", "Trace_Determinism_C14.cfg", cases, sc,
                             chunks=max(1, min(lib.NCPU, len(cases) // 250)))
    rep.add_trace(res, {c["id"]: c for c in cases}, what)
    return res


def run(tier):
    t = TIERS[tier]
    rep = lib.Report(PID, tier, "exploration")
    with lib.Scratch("c14") as sc:
        # the fresh interpreters (real code) and the three design-model checks run side by side
        tasks, gen = tasks_for(tier, sc)
        seeds = det.seeds_for(tier)
        with ThreadPoolExecutor(max_workers=5) as ex:
            fut = ex.submit(det.run_children, tasks, seeds, t["shards"], sc)
            f1 = ex.submit(lib.mc, "MC_Determinism", t["mc_required"], sc, workers=1)
            f2 = ex.submit(lib.mc, "MC_Determinism", "MC_Determinism_AsImplemented_confined.cfg", sc, workers=1)
            f3 = ex.submit(lib.mc, "MC_Determinism", "MC_Determinism_AsImplemented.cfg", sc,
                           expect_violation="SameAcrossRuns", workers=1)
            f4 = ex.submit(det.selftest, sc)
            r1, r2, r3 = f1.result(), f2.result(), f3.result()
            ncorrupt = f4.result()
            grouped, nproc, slowest = fut.result()
        # ---- design-level model: the pipeline's emission points, two processes, the seed as adversary
        rep.add_mc(r1, "Required assignment (all_dot_brackets emitted sorted): two runs of the 49 emission points; "
                       "SameAcrossRuns, CleanIsFunction, SameMembers + chain/pipeline lemmas (function of the input "
                       "iff static taint is none)",
                   min_actions=("EmitSorted", "EmitList", "EmitBundle", "EmitGreedy", "EmitHashSet"))
        rep.add_mc(r2, "AsImplemented assignment: the hash order is confined to all_dot_brackets, "
                       "map_all_dot_brackets, cli_stdout_all; members equal; every other artefact deterministic",
                   min_actions=("EmitHashSet", "EmitGreedy"))
        rep.add_mc(r3, "AsImplemented (list(set(DotBracket)) at common.py:933-941) violates SameAcrossRuns",
                   negative_control=True)
        cases = det.cases_from(grouped, 2 * len(seeds))
        res = validate(cases, rep, sc)
        cov = rep.cov
        ok_cases = [c for c in cases if all(o["err"] == "" for o in c["obs"])]
        nontrivial = [c for c in ok_cases if (c["shape"] == "list" and c["obs"][0]["size"] >= 2)
                      or (c["shape"] == "text" and c["obs"][0]["size"] > 0 and c["obs"][0]["digest"] != "absent")]
        adb2 = [c for c in ok_cases if c["artefact"] in ("all_dot_brackets", "map_all_dot_brackets", "cli_stdout_all")
                and c["obs"][0]["size"] >= 2]
        # vacuity guard of the machinery (not a verdict): most cases must be real, error-free observations
        if len(nontrivial) < 0.8 * len(cases) or not adb2:
            raise lib.MachineryError(f"too few error-free observations: {len(nontrivial)} of {len(cases)} cases, "
                                     f"{len(adb2)} all-dot-brackets lists with >= 2 members")
        cov["exhaustive"] = False
        cov["rule"] = (f"{nproc} fresh interpreters = PYTHONHASHSEED in {seeds} x {t['shards']} shards; each observes every "
                       f"input twice (repeated call, fresh objects). Inputs: {len(det.corpus(tier))} structure files of "
                       f"$VERIF_REPO/tests (annotator CLI with --json --csv --bpseq --dot --extended --pml --inter-stem-csv "
                       f"--stems-csv, plain, --all-dot-brackets; library API; parser_v2 write_pdb/write_cif) + {t['gen']} "
                       "seeded knotted structures with a clique of 3..5 mutually crossing stems, components <= 6 stems "
                       f"(BpSeq.all_dot_brackets / fcfs / dot_bracket / elements) + {t['maps']} generated base-pair lists "
                       "with 1..3 conflicting canonical pairs and multi-partner non-canonical pairs mapped by Mapping2D3D "
                       "onto 1ehz (bpseq, dot_bracket, extended_dot_bracket, all_dot_brackets). One case = all observations of one "
                       "(input, artefact). Non-trivial = error-free case whose artefact is a non-empty text or a list "
                       "with >= 2 members.")
        cov["distinct_nontrivial"] = len({c["id"] for c in nontrivial})
        cov["corrupted_traces_judged_as_expected"] = ncorrupt
        cov["processes"] = nproc
        cov["observations"] = sum(len(c["obs"]) for c in cases)
        cov["slowest_child_s"] = round(slowest, 1)
        cov["error_free_cases"] = len(ok_cases)
        cov["all_dot_brackets_lists_with_2plus_members"] = len(adb2)
        cov["artefacts"] = sorted({c["artefact"] for c in cases})
        cov["consistently_failing_inputs"] = sorted({c["input"] + ":" + c["obs"][0]["err"] for c in cases
                                                     if c["obs"][0]["err"]})
        cov["samples"] = [_brief(c) for c in (adb2[:2] + [c for c in nontrivial if c["artefact"] == "cli_json"][:1]
                                             + [c for c in nontrivial if c["artefact"] == "v2_write_pdb"][:1])]
        rep.assumptions += [
            "sha-256 digests and the splitting of stdout into list members are computed by the harness (projection only)",
            "hash seeds are sampled (quick 4 fixed + random; thorough 11 fixed + random), not enumerated: an order "
            "dependence that needs a rarer seed or an id()-based hash collision pattern can be missed",
            "the MILP solver (CBC via pulp) is treated as a deterministic function of the LP it is given",
            "BpSeq.graphviz is observed through the DOT source it renders (Graph.gv); the rendered PDF is not compared",
            "a tool error that is the same in every process (5it9.cif is empty) counts as deterministic",
        ]
    return rep.finish()


def _brief(c):
    return {"id": c["id"], "shape": c["shape"],
            "obs": [{k: o[k] for k in ("proc", "rep", "err", "digest")} | ({"items": o["items"][:6]} if o["items"] else {})
                    for o in c["obs"][:4]]}


def replay(doc):
    """Re-observe the failing (input, artefact) on the current tree in fresh interpreters and re-validate."""
    case = doc.get("case")
    if not case:
        print(doc.get("tlc_output_tail", ""))
        return run("quick")
    rep = lib.Report(PID, "quick", "exploration", evidence=False)
    with lib.Scratch("c14r") as sc:
        inp = case["input"]
        m = re.match(r"^([gp])(\d+)-(\d+)$", inp)
        if m and m.group(1) == "g":      # generated structure: regenerate its family (name = g<seed>-<k>)
            mine = [g for g in det.generated_cases(int(m.group(3)) + 1, int(m.group(2))) if g["name"] == inp]
        elif m:                          # generated base-pair list (name = p<seed>-<k>)
            lists = [x for x in det.pairlist_cases(int(m.group(3)) + 1, int(m.group(2))) if x["name"] == inp]
            mine = [{"kind": "map", "name": "maps-replay", "lists": lists,
                     "path": os.path.join(lib.REPO, "tests", "1ehz-assembly-1.cif")}] if lists else []
        else:
            allt = tasks_for("thorough", sc)[0]
            mine = [t for t in allt if t["kind"] in ("file", "v2") and t["name"] == inp]
            # an input that has a twin is replayed together with it (the pair meets in one interpreter)
            groups = {t["group"] for t in mine if "group" in t}
            mine += [t for t in allt if t.get("group") in groups and t not in mine]
        if not mine:
            raise lib.MachineryError(f"cannot find input {inp} for replay")
        seeds = sorted({o["seed"] for o in case["obs"]}, key=lambda s: (s == "random", s.zfill(4)))
        grouped, _, _ = det.run_children(mine, seeds, 1, sc)
        cases = [c for c in det.cases_from(grouped, 2 * len(seeds)) if c["artefact"] == case["artefact"]]
        if not cases:
            raise lib.MachineryError(f"artefact {case['artefact']} not observed for {inp}")
        validate(cases, rep, sc)
        rep.cov["samples"] = [_brief(c) for c in cases]
        rep.cov["distinct_nontrivial"] = len(cases)
    return rep.finish()
