------------------------------- MODULE PoaSolver -------------------------------
(***************************************************************************)
(* The control automaton of BpSeq.dot_bracket / convert_to_dot_bracket:    *)
(* solver selection, the no-solver and empty-graph shortcuts, the solve    *)
(* call with every fault the back-end can show, the fall-back to first     *)
(* come first served, and the read-back of an optimal solution.            *)
(* Pure definitions (a transition function over a state record) so that    *)
(* MC_PoaSolver explores it as actions and Trace_PoaSolver replays the     *)
(* events recorded from the real code through the very same function.      *)
(***************************************************************************)
EXTENDS Naturals, Integers, Sequences, TLC

Configs == {"highs", "cbc", "none"}              \* which MILP back-end is available
Faults  == {"ok", "raises", "st0", "stm1", "stm2", "stm3"}   \* what it does when asked to solve
Entries == {"property", "explicit"}              \* BpSeq.dot_bracket | convert_to_dot_bracket(solver)

\* PuLP status codes: 1 optimal, 0 not solved, -1 infeasible, -2 unbounded, -3 undefined
StatusOf(f) == CASE f = "ok" -> 1 [] f = "st0" -> 0 [] f = "stm1" -> 0 - 1 [] f = "stm2" -> 0 - 2
                 [] f = "stm3" -> 0 - 3 [] OTHER -> 99

\* state: pc, solver chosen, status seen, result kind
\*   result: "none" | "fcfs" | "optimal" | "pkfree" | "TypeError"
Start(entry, cfg) ==
  IF entry = "property" THEN [pc |-> "start", solver |-> "unset", status |-> 99, result |-> "none"]
  ELSE [pc |-> "selected", solver |-> cfg, status |-> 99, result |-> "none"]   \* caller passes the solver

\* events: <<"HighsProbed", avail>>, <<"SolveCalled", kind>>, <<"SolveReturned", status>>, <<"SolveRaised">>
\* Observable steps (driven by a logged event)
OnEvent(s, ev, cfg) ==
  IF s.pc = "start" /\ ev[1] = "HighsProbed" /\ ev[2] = (cfg = "highs")
    THEN [s EXCEPT !.pc = "selected",
                   !.solver = IF ev[2] THEN "highs" ELSE IF cfg = "cbc" THEN "cbc" ELSE "none"]
  ELSE IF s.pc = "ready" /\ ev[1] = "SolveCalled" /\ ev[2] = s.solver
    THEN [s EXCEPT !.pc = "solving"]
  ELSE IF s.pc = "solving" /\ ev[1] = "SolveRaised"
    THEN [s EXCEPT !.pc = "fallback"]
  ELSE IF s.pc = "solving" /\ ev[1] = "SolveReturned"
    THEN [s EXCEPT !.status = ev[2], !.pc = IF ev[2] = 1 THEN "readback" ELSE "fallback"]
  ELSE [s EXCEPT !.pc = "reject"]

\* Silent steps (no event is logged): taken eagerly until an event is needed or the call ends.
\* callsCached = TRUE is the as-implemented variant: the fall-back sites CALL the cached FCFS
\* value (`self.fcfs()`), which raises TypeError.
Silent(s, knotted, callsCached) ==
  IF s.pc = "selected" THEN
       IF s.solver = "none" THEN [s EXCEPT !.pc = "fallback"]                     \* NoSolverFallback
       ELSE IF ~knotted THEN [s EXCEPT !.pc = "done", !.result = "pkfree"]        \* EmptyGraphShortcut
       ELSE [s EXCEPT !.pc = "ready"]                                            \* Build
  ELSE IF s.pc = "fallback" THEN
       [s EXCEPT !.pc = "done", !.result = IF callsCached THEN "TypeError" ELSE "fcfs"]   \* FallbackFcfs
  ELSE IF s.pc = "readback" THEN [s EXCEPT !.pc = "done", !.result = "optimal"]   \* ReadBack
  ELSE s
HasSilent(s) == s.pc \in {"selected", "fallback", "readback"}

RECURSIVE Settle(_, _, _)
Settle(s, knotted, cc) == IF HasSilent(s) THEN Settle(Silent(s, knotted, cc), knotted, cc) ELSE s

RECURSIVE RunEvents(_, _, _, _, _, _)
RunEvents(s, evs, i, cfg, knotted, cc) ==
  LET t == Settle(s, knotted, cc) IN
  IF i > Len(evs) THEN t
  ELSE IF t.pc \in {"done", "reject"} THEN [t EXCEPT !.pc = "reject"]     \* events after the call ended
  ELSE RunEvents(OnEvent(t, evs[i], cfg), evs, i + 1, cfg, knotted, cc)

\* final state after replaying the logged events of one call
Replay(entry, cfg, knotted, evs, cc) == RunEvents(Start(entry, cfg), evs, 1, cfg, knotted, cc)

\* what the environment (the back-end) does when asked to solve, given its fault behaviour
SolveOutcome(fault) == IF fault = "raises" THEN <<"SolveRaised">> ELSE <<"SolveReturned", StatusOf(fault)>>

\* the events a correct environment produces for one call (used to check the harness' fakes too)
ExpectedEvents(entry, cfg, fault, knotted) ==
  (IF entry = "property" THEN << <<"HighsProbed", cfg = "highs">> >> ELSE <<>>)
  \o (IF cfg # "none" /\ knotted THEN << <<"SolveCalled", cfg>>, SolveOutcome(fault) >> ELSE <<>>)

\* the result kind the property demands
RequiredResult(cfg, fault, knotted) ==
  IF cfg = "none" THEN "fcfs"
  ELSE IF ~knotted THEN "pkfree"
  ELSE IF fault = "ok" THEN "optimal" ELSE "fcfs"
=============================================================================
