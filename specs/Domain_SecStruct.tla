-------------------------- MODULE Domain_SecStruct --------------------------
(* Exhaustiveness guard: the inputs of the recorded cases are exactly the spec's
   enumeration domain (every matching on 1..n for n <= maxn), each once.  A harness
   that silently skips or repeats cases is caught here, by TLC, not by the harness. *)
EXTENDS SecStruct, Json, IOUtils
Doc   == JsonDeserialize(IOEnv.TRACE_FILE)
Items == Doc.items
OfN(n) == { k \in 1..Len(Items) : Items[k].n = n }
DomainOK ==
  /\ \A k \in 1..Len(Items) : Items[k].n \in 0..Doc.maxn
  /\ \A n \in 0..Doc.maxn :
       /\ { PairSet(Items[k].pairs) : k \in OfN(n) } = Matchings(1..n)
       /\ Cardinality(OfN(n)) = Cardinality(Matchings(1..n))
ASSUME PrintT(<<"DOMAIN", DomainOK, Len(Items)>>)
=============================================================================
