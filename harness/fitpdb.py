"""Case generation and recording for fit_to_pdb / can_write_pdb (C10).

Limit-hitting atom tables are materialised as mmCIF (any chain-id length, any number size) or PDB
text with the emitters of harness/pdbtext.py, read by the real readers, pushed through
can_write_pdb / fit_to_pdb / write_pdb / parse_pdb_atoms (and splitter.main), and projected into
small JSON values.  Big tables are summarised as counts / extrema / digests.  No judgement here."""
import contextlib
import hashlib
import io
import os
import random
import sys
import tempfile
import warnings

from . import lib
from . import pdbtext as pt

IDS62 = "ABCDEFGHIJKLMNOPQRSTUVWXYZabcdefghijklmnopqrstuvwxyz0123456789"


# ----------------------------------------------------------------------------- abstract tables

def _atom(rng, K, chain, resseq, icode, serial, model=1, kind=None, charge=None):
    kd = kind or rng.choice(K["atom_kinds"][:10])
    name, elem = pt._s(kd[0]), pt._s(kd[1])
    return {"rec": "ATOM", "name": name, "elem": elem, "alt": "", "resn": rng.choice(["A", "C", "G", "U"]),
            "chain": chain, "resseq": resseq, "icode": icode,
            "x": rng.randint(-99999, 99999), "y": rng.randint(-99999, 99999), "z": rng.randint(-99999, 99999),
            "occ": 100, "b": rng.randint(0, 9999), "charge": rng.choice([0, 0, 0, 1, -2]) if charge is None else charge,
            "model": model, "serial": serial}


def _build(rng, K, chains, residues_of, atoms_per_res=(1, 2), serial0=1, serial_step=1, models=(1,), interleave=False):
    """chains: list of chain ids; residues_of(chain) -> list of (resseq, icode)."""
    table = []
    serial = serial0
    for m in models:
        blocks = []
        for ch in chains:
            rows = []
            for (rs, ic) in residues_of(ch):
                resn = rng.choice(["A", "C", "G", "U"])
                for _ in range(rng.randint(*atoms_per_res)):
                    a = _atom(rng, K, ch, rs, ic, 0, m)
                    a["resn"] = resn
                    # mmCIF carries two naming families; in real files they differ (O1P vs OP1, GUA vs G): the
                    # label_* names of some atoms are made different from the author names the table is about
                    if rng.random() < 0.25:
                        a["lname"] = {"OP1": "O1P", "OP2": "O2P"}.get(a["name"], a["name"] + "L")
                    if rng.random() < 0.25:
                        a["lresn"] = {"A": "ADE", "C": "CYT", "G": "GUA", "U": "URA"}[resn]
                    rows.append(a)
            blocks.append(rows)
        if interleave:
            order = []
            while any(blocks):
                for b in blocks:
                    if b:
                        order.append(b.pop(0))
        else:
            order = [a for b in blocks for a in b]
        for a in order:
            a["serial"] = serial
            serial += serial_step
        table += order
    return table


def small_cases(count, seed, K):
    """Limit-hitting tables of <= ~80 atoms, each limit separately and in combination."""
    rng = random.Random(seed * 7717 + 10)
    long_ids = ["AA", "AB", "B1", "XYZ", "A-1", "chainA", "a1", "Ab", "ZZZZ"]
    gens = []

    def g(label, fmt="cif"):
        def deco(fn):
            gens.append((label, fmt, fn))
            return fn
        return deco

    def few(rng):
        n = rng.randint(1, 3)
        start = rng.choice([1, 5, 100, -3])
        return [(start + i, rng.choice(["", "", "A"])) for i in range(n)]

    @g("fits")
    def _():
        return _build(rng, K, rng.sample(list("ABCab12"), rng.randint(1, 3)), lambda ch: few(rng))

    @g("fits-pdb", "pdb")
    def _():
        return _build(rng, K, rng.sample(list("ABCab12"), rng.randint(1, 3)), lambda ch: few(rng))

    @g("fits-multimodel")
    def _():
        return _build(rng, K, rng.sample(list("ABC"), 2), lambda ch: [(1, ""), (2, "")], models=(1, 2), atoms_per_res=(1, 1))

    @g("long-chain")
    def _():
        chains = rng.sample(long_ids, rng.randint(1, 3)) + rng.sample(list("ABC"), rng.randint(0, 2))
        rng.shuffle(chains)
        return _build(rng, K, chains, lambda ch: few(rng))

    @g("big-resnum")
    def _():
        def res(ch):
            s = rng.choice([9999, 10000, 12345, 99999])
            return [(s + i, rng.choice(["", "", "A"])) for i in range(rng.randint(1, 3))]
        return _build(rng, K, rng.sample(list("ABC"), rng.randint(1, 2)), res)

    @g("big-serial")
    def _():
        return _build(rng, K, rng.sample(list("ABC"), rng.randint(1, 3)), lambda ch: few(rng),
                      serial0=rng.choice([99990, 99999, 100000, 123456]), serial_step=rng.choice([1, 3]))

    @g("serial-unsorted")
    def _():
        # unique atom ids that do not ascend: the largest (above the limit) is not the last one
        t = _build(rng, K, rng.sample(list("ABC"), rng.randint(1, 2)), lambda ch: few(rng), serial0=99997)
        ids = [a["serial"] for a in t]
        rng.shuffle(ids)
        if ids[-1] == max(ids):
            ids[0], ids[-1] = ids[-1], ids[0]
        if len(ids) > 2 and ids[-1] > 99999:
            k = ids.index(min(ids))
            ids[k], ids[-1] = ids[-1], ids[k]
        for a, i in zip(t, ids):
            a["serial"] = i
        return t

    @g("icodes")
    def _():
        def res(ch):
            base = rng.choice([1, 7, 10000])
            return [(base, ic) for ic in rng.sample(["", "A", "B", "C"], rng.randint(2, 4))] + [(base + 1, "")]
        return _build(rng, K, rng.sample(long_ids, 1) + rng.sample(list("AB"), rng.randint(0, 1)), res)

    @g("same-number-two-chains")
    def _():
        # the same (number, icode) in two chains must stay two residues
        return _build(rng, K, ["AA", "BB"], lambda ch: [(10000, ""), (10000, "A"), (5, "")])

    @g("combo")
    def _():
        chains = rng.sample(long_ids, 2) + ["A"]
        return _build(rng, K, chains, lambda ch: [(rng.choice([5, 10000, 20000]) + i, rng.choice(["", "B"])) for i in range(2)],
                      serial0=rng.choice([1, 100000]))

    @g("multimodel-unfit")
    def _():
        return _build(rng, K, ["AA", "B"], lambda ch: [(1, ""), (2, "A")], models=(1, 2, 3)[:rng.randint(2, 3)],
                      atoms_per_res=(1, 1))

    @g("multimodel-incongruent")
    def _():
        # the models do not list the same chains in the same order, and one of them lacks a residue or a chain
        t = _build(rng, K, ["AA", "BB", "C"][:rng.randint(2, 3)], lambda ch: [(2, ""), (3, ""), (4, "A")], models=(1, 2),
                   atoms_per_res=(1, 1))
        first = [a for a in t if a["model"] == 1]
        second = [a for a in t if a["model"] == 2]
        order = []
        for a in second:
            if a["chain"] not in order:
                order.append(a["chain"])
        order.reverse()
        second = [a for ch in order for a in second if a["chain"] == ch]
        how = rng.choice(["order", "residue", "chain"])
        if how == "residue":
            ch = order[-1]
            second = [a for a in second if not (a["chain"] == ch and a["resseq"] == 2)]
        elif how == "chain" and len(order) > 2:
            second = [a for a in second if a["chain"] != order[0]]
        return first + second

    @g("interleaved")
    def _():
        return _build(rng, K, ["AA", "B", "C"][:rng.randint(2, 3)], lambda ch: [(1, ""), (2, "")], interleave=True,
                      atoms_per_res=(1, 1))

    @g("negative-numbers")
    def _():
        return _build(rng, K, ["AA"], lambda ch: [(-5, ""), (-4, ""), (0, ""), (1, "")], atoms_per_res=(1, 1))

    @g("charges-unfit")
    def _():
        t = _build(rng, K, ["AA", "B"], lambda ch: [(1, ""), (2, "")], atoms_per_res=(1, 2))
        for a in t:
            a["charge"] = rng.choice([1, -2, 2, 0])
        return t

    @g("boundary")
    def _():
        # exactly at / just above the three limits
        over = rng.choice(["none", "none", "serial", "resseq"])
        t = _build(rng, K, ["A", "B"], lambda ch: [(9998, ""), (9999 if over != "resseq" else 10000, "")],
                   atoms_per_res=(1, 1), serial0=99996 if over != "serial" else 99997)
        return t

    @g("62-chains")
    def _():
        ids = [f"C{i}" for i in range(62)]
        return _build(rng, K, ids, lambda ch: [(1, "")], atoms_per_res=(1, 1))

    @g("63-chains")
    def _():
        ids = [f"C{i}" for i in range(rng.randint(63, 70))]
        return _build(rng, K, ids, lambda ch: [(1, "")], atoms_per_res=(1, 1))

    @g("63-single-char-chains-fit-limits")
    def _():
        # 63 one-character ids (incl. a non-alphanumeric one): the table already fits the three limits
        ids = list(IDS62) + ["-"]
        return _build(rng, K, ids, lambda ch: [(1, "")], atoms_per_res=(1, 1))

    @g("subset-fits")
    def _():
        # a table that does NOT fit (multi-character chain ids, a big number) of which only the rows of the
        # one-character chains are kept AFTER parsing: the selection fits, whatever the parsed columns remember
        keep = rng.sample(list("ABC"), rng.randint(1, 2))
        chains = keep + rng.sample(long_ids, rng.randint(1, 2))
        rng.shuffle(chains)
        return _build(rng, K, chains, lambda ch: few(rng) if ch in keep else [(rng.choice([3, 12345]), "")])

    cases = []
    k = 0
    while len(cases) < count:
        label, fmt, fn = gens[k % len(gens)]
        case = {"id": f"f{seed}-{k}-{label}", "kind": "small", "gen": label, "fmt": fmt, "atoms": fn()}
        if label == "subset-fits":
            case["keep"] = sorted({a["chain"] for a in case["atoms"] if len(a["chain"]) == 1})
        cases.append(case)
        k += 1
    return cases


def split_cases(count, seed, K):
    rng = random.Random(seed * 131 + 3)
    out = []
    for k in range(count):
        chains = ["AA"] + rng.sample(["BB", "C", "D9"], rng.randint(0, 2))
        atoms = _build(rng, K, chains, lambda ch: [(rng.choice([1, 10000]), ""), (rng.choice([2, 20000]), "A")])
        out.append({"id": f"fs{seed}-{k}", "kind": "split", "gen": "split", "fmt": "cif", "atoms": atoms})
    # a two-model file in which only ONE model exceeds the PDB limits: the tool writes one file per model, the
    # model that fits must come out as it is, the other one fitted
    for k in range(max(2, count // 3)):
        fits = _build(rng, K, rng.sample(list("BCD"), 2), lambda ch: [(rng.choice([1, 7]), ""), (rng.choice([8, 12]), "")],
                      models=(1,))
        wide = _build(rng, K, ["AA"] + rng.sample(list("BC"), 1),
                      lambda ch: [(rng.choice([1, 10000]), ""), (rng.choice([2, 20000]), "A")], models=(2,),
                      serial0=len(fits) + 1)
        pair = [fits, wide] if k % 2 == 0 else [[dict(a, model=1) for a in wide], [dict(a, model=2) for a in fits]]
        atoms = pair[0] + pair[1]
        for i, a in enumerate(atoms):
            a["serial"] = i + 1
        out.append({"id": f"fx{seed}-{k}", "kind": "split", "gen": "split-mixed", "fmt": "cif", "atoms": atoms})
    return out


UNIFY_ATOMS = {"pu": ["P", "OP1", "O5'", "C1'", "N9", "C4"], "py": ["P", "OP2", "C4'", "C1'", "N1", "C2"]}


def unify_cases(count, seed, K):
    """Pairs of mmCIF files of one molecule for unifier.main --format PDB: the same nucleotides (standard heavy
    atoms in component order, residues in listing order), other coordinates; the tables need fitting, so each
    output is fit_to_pdb's answer for its input - judged like a splitter output, one trace case per file."""
    rng = random.Random(seed * 613 + 29)
    out = []
    for k in range(count):
        chains = sorted(rng.sample(["AA", "AB", "B1", "XYZ", "a1", "C"], rng.randint(1, 3)))
        atoms, serial = [], 1
        for ch in chains:
            start = rng.choice([1, 7, 9998, 10000, 20000])
            for i in range(rng.randint(1, 3)):
                resn = rng.choice(["A", "C", "G", "U"])
                names = UNIFY_ATOMS["pu" if resn in "AG" else "py"]
                names = [n for n in names if rng.random() < 0.8] or names[:1]
                for n in names:
                    atoms.append({"rec": "ATOM", "name": n, "elem": n[0], "alt": "", "resn": resn, "chain": ch,
                                  "resseq": start + i, "icode": "", "x": rng.randint(-99999, 99999),
                                  "y": rng.randint(-99999, 99999), "z": rng.randint(-99999, 99999), "occ": 100,
                                  "b": rng.randint(0, 9999), "charge": 0, "model": 1, "serial": serial})
                    serial += 1
        out.append({"id": f"fu{seed}-{k}", "kind": "unify", "gen": "unify", "fmt": "cif", "atoms": atoms})
    return out


def _record_unify(case, rng):
    warnings.simplefilter("ignore")
    from rnapolis import parser_v2 as p2
    from rnapolis import unifier
    res = []
    with tempfile.TemporaryDirectory(prefix="verif-c10-unify-") as d:
        files = []
        for f in (1, 2):
            atoms = [dict(a, x=a["x"] + 1000 * (f - 1), b=(a["b"] + 7 * (f - 1)) % 10000) for a in case["atoms"]]
            text = pt.emit_cif(atoms, rng)
            src = os.path.join(d, f"in{f}.cif")
            with open(src, "w") as fh:
                fh.write(text)
            files.append((src, atoms, pt.project(p2.parse_cif_atoms(text))["rows"]))
        outdir = os.path.join(d, "out")
        argv = sys.argv
        sys.argv = ["unifier", "-o", outdir, "-f", "PDB"] + [x[0] for x in files]
        so, se = io.StringIO(), io.StringIO()
        err = ""
        try:
            with contextlib.redirect_stdout(so), contextlib.redirect_stderr(se):
                try:
                    unifier.main()
                except SystemExit as e:
                    if e.code not in (0, None):
                        err = "SystemExit"
                except Exception as e:
                    err = type(e).__name__
        finally:
            sys.argv = argv
        msg = se.getvalue()
        for f, (src, atoms, inp) in enumerate(files, 1):
            c = {"id": f"{case['id']}-f{f}", "kind": "split", "gen": "unify", "fmt": "cif", "can": False, "canerr": "",
                 "err": err, "same": False, "werr": "", "inp": inp, "out": [], "back": [], "errclass": "", "atoms": atoms}
            fn = os.path.join(outdir, f"in{f}.pdb")
            if not c["err"] and f"Error processing {src}" in msg:
                c["err"] = "ValueError"                   # the tool's own report of fit_to_pdb's refusal
            elif not c["err"] and not os.path.exists(fn):
                c["err"] = "NoOutputFile"
            if not c["err"]:
                with open(fn) as fh:
                    c["out"] = pt.project(p2.parse_pdb_atoms(fh.read()))["rows"]
                c["back"] = c["out"]
            res.append(c)
    return res


def big_cases(tier, seed, K):
    """Tables too big to log row by row."""
    specs = [("res-9999-in-chain", dict(nres=9999, chain="AA", start=10001)),
             ("res-10000-in-chain", dict(nres=10000, chain="AA", start=1)),
             # a residue is (number, insertion code): 5000 numbers, each with and without code A, are 10000 residues
             ("res-10000-via-icodes", dict(nres=5000, chain="AA", start=1, icodes=["", "A"])),
             ("res-9998-via-icodes", dict(nres=4999, chain="AA", start=1, icodes=["", "A"]))]
    # interleaved chains close to the serial limit: atoms + chains <= 99999 < atoms + chain runs (every chain
    # switch costs a TER serial), so the renumbering itself has to notice that the serials run out
    specs += [("atoms-99984-interleaved", dict(nres=1, chain="AA", start=1, atoms=5, blocks=["AA", "BB", "CC", "DD"] * 5,
                                              per_block=999, tail=84))]
    if tier == "thorough":
        specs += [("atoms-99990-interleaved-fits", dict(nres=1, chain="AA", start=1, atoms=5, blocks=["AA", "BB"] * 2,
                                                        per_block=4999, tail=10)),
                  ("atoms-100000", dict(nres=5000, chain="AA", start=1, atoms=20)),
                  ("atoms-99998-one-chain", dict(nres=5000, chain="A", start=1, atoms=20, drop=2, serial0=100001)),
                  ("res-9999-two-chains", dict(nres=9999, chain="AA", start=1, second="BBB"))]
    cases = [{"id": f"fb{seed}-{label}", "kind": "big", "gen": label, "fmt": "cif", "spec": s} for label, s in specs]
    corpus = corpus_files()
    for fn in (corpus if tier == "thorough" else corpus[:2]):
        cases.append({"id": f"fb{seed}-corpus-{fn}", "kind": "big", "gen": "corpus", "fmt": "cif",
                      "spec": {"corpus": fn, "suffix": "x"}})
    return cases


def corpus_files(max_bytes=1500000):
    """mmCIF files of the repository's test corpus, smallest first (read in place, never copied)."""
    d = os.path.join(lib.REPO, "tests")
    fs = [(os.path.getsize(os.path.join(d, f)), f) for f in sorted(os.listdir(d)) if f.endswith(".cif")]
    return [f for size, f in sorted(fs) if 1000 < size <= max_bytes]


def _big_atoms(spec):
    rng = random.Random(str(sorted(spec.items())))
    atoms = []
    serial = spec.get("serial0", 1)
    names = ["P", "OP1", "OP2", "O5'", "C5'", "C4'", "O4'", "C3'", "O3'", "C2'", "O2'", "C1'", "N9", "C8", "N7", "C5",
             "C6", "N6", "N1", "C2"]
    if spec.get("blocks"):
        # blocks of per_block residues x atoms atoms, chains taken in turn; `tail` extra atoms in the last residue
        nxt = {}
        for bi, ch in enumerate(spec["blocks"]):
            for r in range(spec["per_block"]):
                num = nxt.get(ch, spec["start"])
                nxt[ch] = num + 1
                extra = spec.get("tail", 0) if (bi == len(spec["blocks"]) - 1 and r == spec["per_block"] - 1) else 0
                for k in range(spec["atoms"] + extra):
                    nm = names[k % len(names)]
                    atoms.append({"rec": "ATOM", "name": nm, "elem": nm[0], "alt": "", "resn": "A", "chain": ch,
                                  "resseq": num, "icode": "", "x": rng.randint(-99999, 99999), "y": r, "z": k,
                                  "occ": 100, "b": 0, "charge": 0, "model": 1, "serial": serial})
                    serial += 1
        return atoms
    for ch in [spec["chain"]] + ([spec["second"]] if spec.get("second") else []):
        for r in range(spec["nres"]):
          for ic in spec.get("icodes", [""]):
            for k in range(spec.get("atoms", 1)):
                nm = names[k % len(names)]
                atoms.append({"rec": "ATOM", "name": nm, "elem": nm[0], "alt": "", "resn": "A", "chain": ch,
                              "resseq": spec["start"] + r, "icode": ic, "x": rng.randint(-99999, 99999), "y": r, "z": k,
                              "occ": 100, "b": 0, "charge": 0, "model": 1, "serial": serial})
                serial += 1
    if spec.get("drop"):
        atoms = atoms[:-spec["drop"]]
    return atoms


# ----------------------------------------------------------------------------- recording

def _digest(rows, fields):
    h = hashlib.sha1()
    for r in rows:
        h.update(repr([r[f] for f in fields]).encode())
    return h.hexdigest()[:16]


PAYLOAD = ("rec", "name", "alt", "resn", "x", "y", "z", "occ", "b", "elem", "model")
# written PDB text carries occupancy / B with two decimals: a table value with more decimals (corpus files) may
# come back one centi-unit off, so the read-back comparison digests the other fields and measures these two
PAYLOAD_RB = tuple(f for f in PAYLOAD if f not in ("occ", "b"))


def _charge_val(chars):
    """only used inside digests of big tables (charges there are always absent)"""
    return "".join(chars)


def _stats(inp, out, back):
    s = {"n": len(inp), "runs": sum(1 for i, r in enumerate(inp) if i == 0 or r["chain"] != inp[i - 1]["chain"]),
         "chains": len({tuple(r["chain"]) for r in inp}),
         "residues": len({(tuple(r["chain"]), r["resseq"], tuple(r["icode"])) for r in inp}),
         "in_max_serial": max(r["serial"] for r in inp), "in_max_resseq": max(r["resseq"] for r in inp),
         "in_max_chain_len": max(len(r["chain"]) for r in inp), "in_min_chain_len": min(len(r["chain"]) for r in inp),
         "payload_in": _digest(inp, PAYLOAD), "ids_in": _digest(inp, ("serial", "chain", "resseq", "icode"))}
    per = {}
    for r in inp:
        per.setdefault(tuple(r["chain"]), set()).add((r["resseq"], tuple(r["icode"])))
    s["max_res_per_chain"] = max(len(v) for v in per.values())
    z = {"out_n": 0, "out_max_serial": 0, "out_max_resseq": 0, "out_max_chain_len": 0, "out_min_chain_len": 0,
         "out_chains": 0, "out_residues": 0, "out_serial_distinct": 0, "chain_pairs": 0, "res_pairs": 0,
         "payload_out": "", "ids_out": "", "back_n": 0, "payload_back": "", "ids_back": "",
         "payload_out_rb": "", "back_ob_maxdiff": 0}
    s.update(z)
    if out:
        ids = ("serial", "chain", "resseq", "icode")
        s.update({"out_n": len(out), "out_max_serial": max(r["serial"] for r in out),
                  "out_max_resseq": max(r["resseq"] for r in out),
                  "out_max_chain_len": max(len(r["chain"]) for r in out),
                  "out_min_chain_len": min(len(r["chain"]) for r in out),
                  "out_chains": len({tuple(r["chain"]) for r in out}),
                  "out_residues": len({(tuple(r["chain"]), r["resseq"], tuple(r["icode"])) for r in out}),
                  "out_serial_distinct": len({r["serial"] for r in out}),
                  "payload_out": _digest(out, PAYLOAD), "ids_out": _digest(out, ids)})
        if len(out) == len(inp):
            s["chain_pairs"] = len({(tuple(a["chain"]), tuple(b["chain"])) for a, b in zip(inp, out)})
            s["res_pairs"] = len({(tuple(a["chain"]), a["resseq"], tuple(a["icode"]),
                                   tuple(b["chain"]), b["resseq"], tuple(b["icode"])) for a, b in zip(inp, out)})
        if back:
            s.update({"back_n": len(back), "payload_back": _digest(back, PAYLOAD_RB), "ids_back": _digest(back, ids),
                      "payload_out_rb": _digest(out, PAYLOAD_RB)})
            if len(back) == len(out):
                s["back_ob_maxdiff"] = max([0] + [max(abs(a["occ"] - b["occ"]), abs(a["b"] - b["b"]))
                                                  for a, b in zip(out, back)
                                                  if isinstance(a["occ"], int) and isinstance(b["occ"], int)
                                                  and isinstance(a["b"], int) and isinstance(b["b"], int)])
    return s


def record(case):
    """Push one table through can_write_pdb / fit_to_pdb / write_pdb / parse_pdb_atoms."""
    warnings.simplefilter("ignore")
    from rnapolis import parser_v2 as p2
    K = pt.CONSTS
    rng = random.Random(f"{case['id']}")
    if case["kind"] == "split":
        return _record_split(case, rng)
    if case["kind"] == "unify":
        return _record_unify(case, rng)
    atoms = case["atoms"] if case["kind"] == "small" else ([] if "corpus" in case["spec"] else _big_atoms(case["spec"]))
    c = {"id": case["id"], "kind": case["kind"], "gen": case["gen"], "fmt": case["fmt"], "can": False, "canerr": "",
         "err": "", "same": False, "werr": "", "inp": [], "out": [], "back": [], "errclass": ""}
    if case["kind"] == "small":
        c["atoms"] = case["atoms"]
    else:
        c["spec"] = case["spec"]
    if case["kind"] == "big" and "corpus" in case["spec"]:
        # a real mmCIF file of the repository's test corpus with its chain ids made multi-character
        with open(os.path.join(lib.REPO, "tests", case["spec"]["corpus"])) as f:
            df = p2.parse_cif_atoms(f.read())
        sfx = case["spec"]["suffix"]
        df["auth_asym_id"] = df["auth_asym_id"].cat.rename_categories(lambda ch: str(ch) + sfx)
        inp = pt.project(df)["rows"]
    else:
        if case["fmt"] == "pdb":
            df = p2.parse_pdb_atoms(pt.emit_pdb(atoms, K, rng))
        else:
            df = p2.parse_cif_atoms(pt.emit_cif(atoms, rng))
        if case.get("keep"):
            # a row selection made after parsing (the frame keeps whatever the parser attached to its columns)
            col = "chainID" if case["fmt"] == "pdb" else "auth_asym_id"
            if rng.random() < 0.5:
                # environment action: the caller asked about the whole table first (answers must not stick to the
                # frame and travel with its slices)
                try:
                    p2.can_write_pdb(df)
                except Exception:
                    pass
                c["asked_parent"] = True
            attrs = dict(df.attrs)
            df = df[df[col].isin(case["keep"])]
            df.attrs.update(attrs)
            atoms = [a for a in atoms if a["chain"] in case["keep"]]     # c["atoms"] stays the full table (replay)
            c["keep"] = case["keep"]
        inp = pt.project(df)["rows"]
        if len(inp) != len(atoms):
            # the table-level reader lost or invented rows: that is an answer of the code under test (the trace
            # spec rejects any error name it does not know), not a harness failure
            c["err"] = "ReaderRowCount"
            if case["kind"] == "big":
                c["stats"] = _stats(inp or [dict(a, chain=list(a["chain"]), icode=list(a["icode"])) for a in atoms[:1]], [], [])
            else:
                c["inp"] = inp
            return c
    out, back = [], []
    try:
        c["can"] = bool(p2.can_write_pdb(df))
    except Exception as e:
        c["canerr"] = type(e).__name__
    fitted = None
    try:
        fitted = p2.fit_to_pdb(df)
    except Exception as e:              # the error path is data
        c["err"] = type(e).__name__
    if fitted is not None:
        c["same"] = fitted is df
        try:
            out = pt.project(fitted)["rows"]
        except lib.MachineryError:
            raise
        except Exception as e:
            c["err"] = "Unprojectable" + type(e).__name__
        if not c["err"]:
            try:
                text = p2.write_pdb(fitted)
                back = pt.project(p2.parse_pdb_atoms(text))["rows"]
            except Exception as e:
                c["werr"] = type(e).__name__
    if case["kind"] == "big":
        c["stats"] = _stats(inp, out, back)
    else:
        c["inp"], c["out"], c["back"] = inp, out, back
    return c


def _record_split(case, rng):
    """splitter.main --format PDB on a one-model mmCIF file that needs fitting."""
    warnings.simplefilter("ignore")
    from rnapolis import parser_v2 as p2
    from rnapolis import splitter
    c = {"id": case["id"], "kind": "split", "gen": case["gen"], "fmt": "cif", "can": False, "canerr": "", "err": "",
         "same": False, "werr": "", "inp": [], "out": [], "back": [], "errclass": "", "atoms": case["atoms"]}
    with tempfile.TemporaryDirectory(prefix="verif-c10-split-") as d:
        text = pt.emit_cif(case["atoms"], rng)
        src = os.path.join(d, "in.cif")
        with open(src, "w") as f:
            f.write(text)
        c["inp"] = pt.project(p2.parse_cif_atoms(text))["rows"]
        outdir = os.path.join(d, "out")
        argv = sys.argv
        sys.argv = ["splitter", "-o", outdir, "-f", "PDB", src]
        so, se = io.StringIO(), io.StringIO()
        try:
            with contextlib.redirect_stdout(so), contextlib.redirect_stderr(se):
                try:
                    splitter.main()
                except SystemExit as e:
                    if e.code not in (0, None):
                        c["err"] = "SystemExit"
                except Exception as e:
                    c["err"] = type(e).__name__
        finally:
            sys.argv = argv
        msg = se.getvalue()
        models = sorted({a["model"] for a in case["atoms"]})
        if len(models) > 1:
            # one trace case per model: its rows in, the rows of its own output file out
            res = []
            for m in models:
                cm = dict(c, id=f"{case['id']}-m{m}", inp=[r for r in c["inp"] if r["model"] == m], out=[], back=[])
                fn = os.path.join(outdir, f"in_model_{m}.pdb")
                if not cm["err"] and "Error" in msg:
                    cm["err"] = "ValueError" if "Error fitting" in msg else "ToolReportedError"
                elif not cm["err"] and not os.path.exists(fn):
                    cm["err"] = "NoOutputFile"
                if not cm["err"]:
                    with open(fn) as f:
                        cm["out"] = pt.project(p2.parse_pdb_atoms(f.read()))["rows"]
                    cm["back"] = cm["out"]
                res.append(cm)
            return res
        fn = os.path.join(outdir, "in_model_1.pdb")
        if not c["err"] and "Error fitting" in msg:
            c["err"] = "ValueError"                       # the tool's own report of fit_to_pdb's refusal
        elif not c["err"] and "Error" in msg:
            c["err"] = "ToolReportedError"
            c["errclass"] = "categorical-setitem" if "Cannot setitem on a Categorical" in msg else "other"
        elif not c["err"] and not os.path.exists(fn):
            c["err"] = "NoOutputFile"
        if not c["err"]:
            with open(fn) as f:
                c["out"] = pt.project(p2.parse_pdb_atoms(f.read()))["rows"]
            c["back"] = c["out"]
    return c
