SPECIFICATION Spec
CONSTANT GeoTol = 2
CHECK_DEADLOCK FALSE
