"""Area Unifier (growth beyond the listed properties): generator of file sets, recorder of
rnapolis.unifier.main, projection of what it wrote.  The harness never judges: TLC does
(specs/Trace_Unifier.tla against specs/Unifier.tla)."""
import contextlib
import io
import os
import random
import shutil
import sys
import warnings

from . import lib, atomtable as at

HEAVY = {
    "A": ["N9", "C8", "N7", "C5", "C6", "N6", "N1", "C2", "N3", "C4"],
    "C": ["N1", "C2", "O2", "N3", "C4", "N4", "C5", "C6"],
    "G": ["N9", "C8", "N7", "C5", "C6", "O6", "N1", "C2", "N2", "N3", "C4"],
    "U": ["N1", "C2", "O2", "N3", "C4", "O4", "C5", "C6"],
}
BACKBONE = ["OP3", "P", "OP1", "OP2", "O5'", "C5'", "C4'", "O4'", "C3'", "O3'", "C2'", "O2'", "C1'"]
LEGACY = {"OP3": "O3P", "OP1": "O1P", "OP2": "O2P", "O5'": "O5*", "C5'": "C5*", "C4'": "C4*", "O4'": "O4*",
          "C3'": "C3*", "O3'": "O3*", "C2'": "C2*", "O2'": "O2*", "C1'": "C1*"}
HYDROGENS = ["H5'", "H5''", "H4'", "H1'", "HO2'", "H8", "H2", "H5", "H6", "1H5*", "2HO*", "H3T"]
FOREIGN = ["CM1", "S4", "O1A", "XX"]          # atoms no standard nucleotide has
OTHER_RES = ["HOH", "MG", "PSU", "5MC", "DA", "DG", "N"]


def component_tables():
    """What the repository's component_*.csv files hold (data, handed to TLC as Doc.table)."""
    import csv
    out = {}
    for rn in "ACGU":
        path = os.path.join(lib.REPO, "src", "rnapolis", f"component_{rn}.csv")
        with open(path, newline="") as f:
            rows = list(csv.DictReader(f))
        out[rn] = {"heavy": [r["atom_id"] for r in rows if not r["atom_id"].startswith("H")],
                   "alt": [[r["alt_atom_id"], r["atom_id"]] for r in rows]}
    return out


def _residue(rng, rn, *, full, legacy, hydrogens, foreign, drop, base=None):
    names = list(base) if base is not None else [n for n in BACKBONE[1:] + HEAVY.get(rn, [])] if full else \
        [n for n in BACKBONE[1:] + HEAVY.get(rn, []) if rng.random() < 0.45] or ["P"]
    if rn not in HEAVY:
        names = rng.sample(["O", "MG", "P", "C1'", "N1", "C2"], rng.choice([1, 2, 3]))
    for d in drop:
        if d in names:
            names.remove(d)
    if legacy:
        names = [LEGACY.get(n, n) for n in names]
    if hydrogens:
        names += rng.sample(HYDROGENS, rng.choice([1, 2, 3]))
    if foreign:
        names.append(rng.choice(FOREIGN))
    return names


def gen_case(rng, cid):
    """One set of 2-4 files showing the same short molecule, differently presented."""
    npos = rng.choice([1, 2, 2, 3, 4, 5])
    purines_only = rng.random() < 0.35           # every atom name in a file valid for one nucleotide type
    seq = [rng.choice(["A", "G"] if purines_only else ["A", "C", "G", "U"]) for _ in range(npos)]
    if purines_only and rng.random() < 0.6:
        seq = [seq[0]] * npos
    nfiles = rng.choice([2, 2, 3, 3, 4])
    full = rng.random() < 0.3
    kinds = ["plain", "plain", "count", "name", "allgone"]
    kind = kinds[rng.randrange(len(kinds))] if rng.random() < 0.3 else "plain"
    ref_ids = None
    files = []
    # the heavy atoms every file shows at a position (a file may then miss one or two of them)
    shared = [_residue(rng, rn, full=full, legacy=False, hydrogens=False, foreign=False, drop=[]) for rn in seq]
    k = 0
    for f in range(nfiles):
        fmt = rng.choice(["pdb", "cif"])
        legacy = rng.random() < 0.3
        hydrogens = (not purines_only or rng.random() < 0.3) and rng.random() < 0.4
        # identifiers: mostly shared with the first file, sometimes renumbered / another chain / insertion codes
        style = rng.choice(["same", "same", "chain", "offset", "icode", "two-chains"])
        if ref_ids is None or style != "same":
            ch = rng.choice(["A", "B", "R", "a", "1"])
            start = rng.choice([-2, 1, 1, 10, 997])
            ids = []
            for i in range(npos):
                if style == "icode" and i > 0 and rng.random() < 0.5:
                    prev = ids[-1]
                    ids.append((prev[0], prev[1], "A" if prev[2] == "" else chr(ord(prev[2]) + 1)))
                elif style == "two-chains" and i >= (npos + 1) // 2:
                    ids.append((chr(ord(ch) + 1) if ch not in "z9" else "0", start + i, ""))
                else:
                    ids.append((ch, (ids[-1][1] + 1) if ids else start, ""))
            if ref_ids is None:
                ref_ids = ids
        else:
            ids = list(ref_ids)
        # the listing order of the tool is (chain, number, icode with blank LAST): make the position order follow it
        ids = sorted(ids, key=lambda t: (t[0], t[1], t[2] == "", t[2]))
        residues = []
        for i, rn in enumerate(seq):
            drop = []
            if rng.random() < 0.12:
                drop = rng.sample(shared[i], min(len(shared[i]) - 1, rng.choice([1, 2]))) if len(shared[i]) > 1 else []
            names = _residue(rng, rn, full=full, legacy=legacy, hydrogens=hydrogens,
                             foreign=rng.random() < 0.1, drop=drop, base=shared[i])
            if kind == "allgone" and f == 1:
                names = names[:-1] if len(names) > 1 else names + ["C8" if rn in "AG" else "C6"]
            rng.shuffle(names) if rng.random() < 0.5 else None
            residues.append([ids[i], rn, names])
        if kind == "name" and f == nfiles - 1:
            j = rng.randrange(npos)
            residues[j][1] = "C" if residues[j][1] != "C" else "U"
            residues[j][2] = _residue(rng, residues[j][1], full=full, legacy=legacy, hydrogens=False, foreign=False, drop=[])
        if kind == "count" and f == nfiles - 1:
            last = residues[-1][0]
            residues.append([(last[0], last[1] + 1, ""), rng.choice("ACGU"), ["P", "C1'"]])
        # non-nucleotide residues: dropped by the tool wherever they stand
        for _ in range(rng.choice([0, 0, 1, 2])):
            last = max(r[0][1] for r in residues)
            rn = rng.choice(OTHER_RES)
            residues.append([(residues[0][0][0], last + rng.choice([1, 50]), ""), rn,
                             _residue(rng, rn, full=False, legacy=False, hydrogens=False, foreign=False, drop=[])])
        # file order need not be the listing order (blocks stay contiguous)
        if rng.random() < 0.4:
            rng.shuffle(residues)
        res = []
        for (ch, num, ic), rn, names in residues:
            atoms = []
            seen = set()
            for an in names:
                std = {v: k2 for k2, v in LEGACY.items()}.get(an, an)
                if std in seen:
                    continue
                seen.add(std)
                k += 1
                atoms.append({"an": an, "k": k})
            res.append({"ch": ch, "num": num, "ic": ic, "rn": rn, "atoms": atoms})
        files.append({"fmt": fmt, "res": res})
    return {"id": cid, "kind": kind, "opt": rng.choice(["keep", "keep", "PDB", "mmCIF"]), "files": files}


FIXED = [
    # two files that miss DIFFERENT atoms of one nucleotide (equal counts): kept, as designed
    {"id": "fixed-counts-not-names", "kind": "plain", "opt": "keep", "files": [
        {"fmt": "pdb", "res": [{"ch": "A", "num": 1, "ic": "", "rn": "G", "atoms": [{"an": "P", "k": 1}, {"an": "OP1", "k": 2}, {"an": "N9", "k": 3}]}]},
        {"fmt": "pdb", "res": [{"ch": "A", "num": 1, "ic": "", "rn": "G", "atoms": [{"an": "P", "k": 4}, {"an": "OP2", "k": 5}, {"an": "N9", "k": 6}]}]}]},
    # identifiers: 2 against 2 -> the first file's wins; insertion codes list before the blank one
    {"id": "fixed-tie-first-wins", "kind": "plain", "opt": "mmCIF", "files": [
        {"fmt": "cif", "res": [{"ch": "B", "num": 7, "ic": "", "rn": "A", "atoms": [{"an": "C1'", "k": 1}, {"an": "P", "k": 2}]},
                               {"ch": "B", "num": 7, "ic": "A", "rn": "U", "atoms": [{"an": "P", "k": 3}]}]},
        {"fmt": "pdb", "res": [{"ch": "B", "num": 7, "ic": "A", "rn": "U", "atoms": [{"an": "P", "k": 4}]},
                               {"ch": "B", "num": 7, "ic": "", "rn": "A", "atoms": [{"an": "P", "k": 5}, {"an": "C1*", "k": 6}]}]},
        {"fmt": "pdb", "res": [{"ch": "C", "num": 1, "ic": "", "rn": "U", "atoms": [{"an": "P", "k": 7}]},
                               {"ch": "C", "num": 2, "ic": "", "rn": "A", "atoms": [{"an": "P", "k": 8}, {"an": "C1'", "k": 9}]}]},
        {"fmt": "cif", "res": [{"ch": "C", "num": 1, "ic": "", "rn": "U", "atoms": [{"an": "P", "k": 10}]},
                               {"ch": "C", "num": 2, "ic": "", "rn": "A", "atoms": [{"an": "C1'", "k": 11}, {"an": "P", "k": 12}]}]}]},
    # every atom name of the file is an atom of adenosine, written backwards
    {"id": "fixed-poly-a-backwards", "kind": "plain", "opt": "keep", "files": [
        {"fmt": fmt, "res": [{"ch": "A", "num": n, "ic": "", "rn": "A",
                              "atoms": [{"an": an, "k": base + 30 * n + j}
                                        for j, an in enumerate(reversed(BACKBONE[1:] + HEAVY["A"]))]} for n in (1, 2)]}
        for fmt, base in (("pdb", 0), ("cif", 100), ("cif", 200))]},
]


def cases(count, seed):
    rng = random.Random(seed * 104729 + 17)
    return [dict(c) for c in FIXED] + [gen_case(rng, f"u{seed}-{n}") for n in range(count)]


# ----------------------------------------------------------------------------- materialise / record

def lines_of(file):
    lines, lnum = [], 0
    for r in file["res"]:
        lnum += 1
        het = 0 if r["rn"] in HEAVY else 1
        res = {"ch": r["ch"], "num": r["num"], "ic": r["ic"], "rn": r["rn"], "het": het, "lch": r["ch"], "lnum": lnum,
               "icn": "?", "ocn": "?"}
        for j, a in enumerate(r["atoms"]):
            # x carries the identity of the line (milli-Angstrom); y, z spread the atoms out
            lines.append(at._line(1, res, a["an"], (a["k"], 1500 * (j % 7) + 37 * lnum, -2100 * (j // 7) + 11 * lnum)))
    return lines


def _blocks(lines):
    res = []
    for ln in lines:
        key = (ln["ch"], ln["num"], ln["ic"], ln["rn"])
        if not res or res[-1][0] != key:
            res.append((key, []))
        res[-1][1].append({"an": ln["an"], "k": ln["x"]})
    return [{"ch": k[0], "num": k[1], "ic": k[2], "rn": k[3], "atoms": atoms} for k, atoms in res]


def read_cif_out(text):
    """The atom_site loop the tool wrote: the author's atom name where the loop has one (the name
    column of the table-level model), else the label name."""
    rows = text.splitlines()
    k = 0
    while k < len(rows) and not rows[k].startswith("_atom_site."):
        k += 1
    cols = []
    while k < len(rows) and rows[k].startswith("_atom_site."):
        cols.append(rows[k].strip()[len("_atom_site."):])
        k += 1
    lines = []
    while k < len(rows) and rows[k].strip() and not rows[k].startswith(("#", "_", "loop_")):
        tok = at._cif_tokens(rows[k])
        if len(tok) != len(cols):
            raise ValueError("row does not match the atom_site columns")
        d = dict(zip(cols, tok))
        ic = d.get("pdbx_PDB_ins_code", "?")
        lines.append({"ch": d.get("auth_asym_id", d.get("label_asym_id")), "num": int(d.get("auth_seq_id", d.get("label_seq_id"))),
                      "ic": "" if ic in "?." else ic, "rn": d.get("auth_comp_id", d.get("label_comp_id")),
                      "an": d.get("auth_atom_id", d.get("label_atom_id")), "x": at._dec_milli(d["Cartn_x"])})
        k += 1
    return lines


def record(case):
    warnings.simplefilter("ignore")
    import logging
    logging.disable(logging.CRITICAL)
    c = {k: case[k] for k in ("id", "kind", "opt", "files")}
    root = os.path.join(at._TMPDIR, f"uni-{os.getpid()}-{case['id']}")
    shutil.rmtree(root, ignore_errors=True)
    os.makedirs(os.path.join(root, "in"))
    paths = []
    for f, file in enumerate(case["files"]):
        p = os.path.join(root, "in", f"m{f + 1}.{'pdb' if file['fmt'] == 'pdb' else 'cif'}")
        with open(p, "w") as fh:
            fh.write(at.emit(file["fmt"], lines_of(file)))
        paths.append(p)
    outdir = os.path.join(root, "out")
    argv = ["unifier", "--output", outdir] + (["--format", case["opt"]] if case["opt"] != "keep" else []) + paths
    from rnapolis import unifier
    c["exit"], c["err"] = 0, ""
    old = sys.argv
    sys.argv = argv
    try:
        with contextlib.redirect_stdout(io.StringIO()), contextlib.redirect_stderr(io.StringIO()):
            unifier.main()
    except SystemExit as e:
        c["exit"] = 1 if e.code == 1 else (0 if e.code in (0, None) else 2)
        c["err"] = "" if c["exit"] < 2 else f"SystemExit({e.code})"
    except Exception as e:
        c["exit"], c["err"] = 2, type(e).__name__
    finally:
        sys.argv = old
    outs = []
    for f in range(len(paths)):
        o = {"present": False, "fmt": "", "res": []}
        for ext, fmt in ((".pdb", "pdb"), (".cif", "cif")):
            p = os.path.join(outdir, f"m{f + 1}{ext}")
            if os.path.exists(p):
                with open(p) as fh:
                    text = fh.read()
                try:
                    ls = at.tokenize_pdb(text) if fmt == "pdb" else read_cif_out(text)
                    o = {"present": True, "fmt": fmt, "res": _blocks(ls)}
                except Exception as e:      # an unreadable output is an answer of the tool, not a machinery failure
                    o = {"present": True, "fmt": "unreadable:" + type(e).__name__, "res": []}
        outs.append(o)
    c["outs"] = outs
    shutil.rmtree(root, ignore_errors=True)
    return c
