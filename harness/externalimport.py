"""Case generation and recording for the external-tool import family (C19).
Materialise abstract templates as FR3D lines / DSSR documents, call the public API of
rnapolis.adapter, project the answers into small JSON values.  No judgement happens here:
the trace spec (Trace_ExternalImport) judges every case from the RAW input text."""
import contextlib
import io
import itertools
import json
import os
import random
import sys

from . import lib

ALPHABET = "ctCTWHSwhsnaBPR0123456789"          # the 25-symbol FR3D label alphabet
LW18 = [a + b + c for a in "ct" for b in "WHS" for c in "WHS"]
DUNDER = ["__class__", "__contains__", "__doc__", "__getitem__", "__init_subclass__", "__iter__",
          "__len__", "__members__", "__module__", "__name__", "__qualname__"]
LISTS = [("basePairs", "base-pair", "lw"), ("stackings", "stacking", "topology"),
         ("baseRiboseInteractions", "base-ribose", "br"),
         ("basePhosphateInteractions", "base-phosphate", "bph"), ("otherInteractions", "other", None)]
_DIR = None         # scratch directory for materialised files (set by the driver before forking)


def set_scratch(path):
    global _DIR
    _DIR = path


def _tmp(name):
    return os.path.join(_DIR, f"{os.getpid()}-{name}")


# ------------------------------------------------------------------------- label sweep

def _value(x):
    return "" if x is None else str(getattr(x, "value", x))


def sweep_block(job):
    """Feed EVERY string prefix+w, len(w) <= tail, through the real unify_classification;
    record the number of strings tried and every result that is not 'other'."""
    from rnapolis.adapter import unify_classification
    prefix, tail = job
    hits, count = [], 0
    for ln in range(tail + 1):
        for tup in itertools.product(ALPHABET, repeat=ln):
            s = prefix + "".join(tup)
            count += 1
            try:
                r = unify_classification(s)
            except Exception as e:                      # the code raising is data
                hits.append({"label": list(s), "cat": "raised:" + type(e).__name__, "cls": ""})
                continue
            if not (isinstance(r, tuple) and len(r) == 2):
                hits.append({"label": list(s), "cat": "shape:" + type(r).__name__, "cls": ""})
            elif r[0] != "other":
                hits.append({"label": list(s), "cat": str(r[0]), "cls": _value(r[1])})
    return {"id": "L" + str(len(prefix) + tail) + "-" + (prefix or "short"), "kind": "labels", "prefix": list(prefix),
            "tail": tail, "count": count, "alphabet": list(ALPHABET), "hits": hits}


def sweep_jobs(maxlen):
    """Partition of all strings of length <= maxlen: the short ones, and one block per 2-symbol prefix."""
    return [("", 1)] + [(a + b, maxlen - 2) for a in ALPHABET for b in ALPHABET]


def label_domain_case(cases, maxlen):
    return {"id": f"L{maxlen}-domain", "kind": "labeldomain", "maxlen": maxlen,
            "blocks": [[c["prefix"], c["tail"], c["count"]] for c in cases]}


# ------------------------------------------------------------------------- spec -> code (Gen)

def gen_templates(tier, scratch):
    """TLC enumerates the abstract template domains with the spec's expected outcomes."""
    out = scratch.path("templates.ndjson")
    r = lib.tlc("Gen_ExternalImport", f"Gen_ExternalImport_{tier}.cfg", workers=1, env={"OUT_FILE": out},
                scratch=scratch, xmx="4g", tag="gen")
    if not r["ok"] or not os.path.exists(out) or '<<"GENERATED"' not in r["out"]:
        raise lib.MachineryError("Gen_ExternalImport failed:\n" + r["out"][-2000:])
    t = {"line": [], "pair": [], "stack": []}
    with open(out) as f:
        for line in f:
            d = json.loads(line)
            t[d["kind"]].append(d)
    os.remove(out)
    for k in t:
        t[k].sort(key=lambda d: json.dumps(d, sort_keys=True))
    if not t["line"] or not t["pair"] or not t["stack"]:
        raise lib.MachineryError("Gen_ExternalImport produced an empty template class")
    return t


# ------------------------------------------------------------------------- FR3D materialiser
CHAINS = ["A", "B", "A-2", "AA", "0", "b"]
NAMES = ["G", "C", "A", "U", "DG", "DC", "DT", "PSU", "5MC", "UR3", "H2U", "A23"]
NUMBERS = [1, 2, 7, 12, 76, 100, 1234, 0]
UNKNOWN = ["foo", "cWWW", "perp", "WW", "c", "tW", "s3", "s333", "11BR", "BPh", "cwx", "S35", "nn", "cWWaa",
           "ncWWan", "cWW ", "c-WW", "bif", "ncW", "nBR", "aBPh", "s34", "sWW", "nnsWW"]
NEAR = ["cWWn", "acWW", "s36", "s5", "xBPh", "0BP", "0BRR", "cW", "cWa", "na", "n", "a", "0bph", "0br", "S55", "ns5",
        "cXW", "nncWW", "cWWaa", "ans55", "0BPH", "0Br", "s3a", "ns3", "1BPha2", "nS33", "nna"]


def rand_case(rng, name3):
    return "".join(ch.upper() if rng.random() < 0.5 else ch.lower() for ch in name3)


def make_label(kind, rng):
    lw = rng.choice(LW18)
    st = rng.choice(["s33", "s35", "s53", "s55"])
    d = str(rng.randrange(10))
    return {"lw": lw, "lw_mixed": rand_case(rng, lw), "lw_n": "n" + rand_case(rng, lw), "lw_a": rand_case(rng, lw) + "a",
            "lw_na": "n" + rand_case(rng, lw) + "a", "stack": st, "stack_n": "n" + st, "br": d + "BR", "br_a": d + "BRa",
            "bph": d + "BPh", "bph_na": "n" + d + "BPha", "unknown": rng.choice(UNKNOWN), "near": rng.choice(NEAR),
            "empty": ""}[kind]


def make_unit(kind, rng):
    pdb = rng.choice(["XXXX", "1EHZ", "184D"])
    head = f"{pdb}|{rng.choice(['1', '2'])}|{rng.choice(CHAINS)}|{rng.choice(NAMES)}"
    num = str(rng.choice(NUMBERS))
    if kind == "plain":
        return f"{head}|{num}"
    if kind == "icode":
        return f"{head}|{num}|||{rng.choice('ABZ')}" + rng.choice(["", "|2_555"])
    if kind == "sym9":
        return f"{head}|{num}||||{rng.choice(['2_555', '6_765'])}"
    if kind == "alt7":
        return f"{head}|{num}|{rng.choice(['', 'N1'])}|{rng.choice('AB')}"
    if kind == "negative":
        return f"{head}|-{rng.choice([1, 5, 12])}"
    if kind == "plus":
        return f"{head}|+{rng.choice([1, 5, 12])}"
    if kind == "few4":
        return rng.choice([head, "|".join(head.split("|")[:3]), "|".join(head.split("|")[:2])])
    if kind == "few1":
        return rng.choice(["garbage", "A.G1", "XXXX", "7"])
    if kind == "empty":
        return ""
    if kind == "nonint":
        return f"{head}|{rng.choice(['12A', 'x', '1e3', '0x1F', '--5', 'A', '5-'])}" + rng.choice(["", "|||A"])
    if kind == "emptynum":
        return f"{head}|" + rng.choice(["", "|||A"])
    if kind == "decimal":
        return f"{head}|{rng.choice(['1.0', '2.5', '.5'])}"
    raise lib.MachineryError("unknown unit kind " + kind)


def make_line(t, rng):
    """One raw text line (no newline) for an abstract line template."""
    shape = t["shape"]
    if shape == "blank":
        body = ""
    elif shape == "spaces":
        body = rng.choice(["   ", "\t", " \t "])
    elif shape == "comment":
        body = rng.choice(["# FR3D basepairs", "#", "  # indented comment", "#\tunit\tlabel\tunit"])
    elif shape == "commented_data":
        body = rng.choice(["#", "# "]) + "\t".join([make_unit("plain", rng), make_label("lw", rng), make_unit("plain", rng)])
    else:
        u1, lab, u2 = make_unit(t["u1"], rng), make_label(t["label"], rng), make_unit(t["u2"], rng)
        tabs = t["tabs"]
        if tabs == "three":
            body = "\t".join([u1, lab, u2])
        elif tabs == "extra":
            body = "\t".join([u1, lab, u2, rng.choice(["0", "1", "0\t5.25", "x y"])])
        elif tabs == "two":
            body = "\t".join([u1, lab])
        else:
            body = " ".join([u1, lab, u2])
    w = t["wrap"]
    if w == "leadws":
        body = rng.choice(["  ", " "]) + body
    elif w == "trailws":
        body = body + rng.choice(["  ", " \t", "\t"])
    elif w == "crlf":
        body = body + "\r"
    return body


def listing_cases_from_templates(templates, rng, tag, copies, maxlines=10):
    """Every line template materialised `copies` times, shuffled into listings of 1..maxlines lines."""
    pool = []
    for _ in range(copies):
        for d in templates:
            pool.append((make_line(d["t"], rng), {"kept": d["kept"], "cat": d["cat"]}))
    rng.shuffle(pool)
    cases, i = [], 0
    while i < len(pool):
        n = rng.randint(1, maxlines)
        part = pool[i:i + n]
        i += n
        if rng.random() < 0.3:
            # concatenated listings overlap: a line may simply occur twice (each occurrence is a line of its own)
            part = part + [part[rng.randrange(len(part))]]
        cases.append({"id": f"{tag}-{len(cases)}", "kind": "listing", "via": "api",
                      "lines": [list(p[0]) for p in part], "tmpl": [p[1] for p in part],
                      "final_newline": rng.random() < 0.8})
    return cases


def label_listing_cases(labels, rng, tag, per=48):
    """Every given label inside an otherwise valid line (category filing of the whole language)."""
    cases = []
    for i in range(0, len(labels), per):
        lines = []
        for k, lab in enumerate(labels[i:i + per]):
            u1, u2 = make_unit(rng.choice(["plain", "icode"]), rng), make_unit("plain", rng)
            if k % 6 == 5 and lines:
                # the same two residues as the line before, under another label (e.g. cWW and cWWa, or two
                # different unknown labels): two lines, two interactions
                u1, _, u2 = lines[-1].split("\t")
            lines.append("\t".join([u1, lab, u2]))
        cases.append({"id": f"{tag}-{len(cases)}", "kind": "listing", "via": "api", "lines": [list(x) for x in lines],
                      "tmpl": [], "final_newline": True})
    return cases


def other_labels(rng, n):
    """Strings that are NOT produced by the grammar as such: random alphabet strings and near misses."""
    out = list(UNKNOWN) + list(NEAR)
    for _ in range(n):
        out.append("".join(rng.choice(ALPHABET) for _ in range(rng.randint(1, 6))))
    return [x for x in out if "\t" not in x and x.strip() == x]


def corpus_listing_case(name, via="api", struct=None):
    with open(os.path.join(lib.REPO, "tests", name), newline="") as f:
        text = f.read()
    lines = text.split("\n")
    final = lines[-1] == ""
    if final:
        lines = lines[:-1]
    c = {"id": f"corpus-{via}-{name}", "kind": "listing", "via": via, "lines": [list(x) for x in lines], "tmpl": [],
         "final_newline": final}
    if struct:
        c["struct"] = struct
    return c


def _write_lines(case, path):
    text = "\n".join("".join(l) for l in case["lines"]) + ("\n" if case.get("final_newline", True) else "")
    with open(path, "w", newline="") as f:
        f.write(text)


def _res(r):
    a = r.auth if r.auth is not None else r.label
    return a.chain, a.number, (getattr(a, "icode", None) or ""), a.name


def _project_interactions(bi):
    items = []
    for attr, cat, field in LISTS:
        for x in getattr(bi, attr):
            c1, n1, i1, r1 = _res(x.nt1)
            c2, n2, i2, r2 = _res(x.nt2)
            own = [f for f in ("lw", "topology", "br", "bph") if hasattr(x, f)]       # the object's own class field
            items.append({"list": attr, "cat": cat, "type": type(x).__name__, "cls": _value(getattr(x, own[0])) if own else "",
                          "c1": c1, "n1": n1, "i1": i1, "r1": r1, "c2": c2, "n2": n2, "i2": i2, "r2": r2})
    return items


_TYPE_BY_KEYS = {"lw": "BasePair", "topology": "Stacking", "br": "BaseRibose", "bph": "BasePhosphate"}


def _project_json_interactions(doc):
    """The same projection from the JSON file written by adapter.main --json."""
    items = []
    bi = doc["baseInteractions"]
    for attr, cat, field in LISTS:
        for x in bi.get(attr, []):
            def rr(r):
                a = r["auth"] if r.get("auth") is not None else r["label"]
                return a["chain"], a["number"], a.get("icode") or "", a["name"]
            c1, n1, i1, r1 = rr(x["nt1"])
            c2, n2, i2, r2 = rr(x["nt2"])
            keys = [k for k in _TYPE_BY_KEYS if k in x]
            typ = _TYPE_BY_KEYS[keys[0]] if len(keys) == 1 else ("OtherInteraction" if not keys else "ambiguous")
            items.append({"list": attr, "cat": cat, "type": typ, "cls": _value(x.get(field)) if field else "",
                          "c1": c1, "n1": n1, "i1": i1, "r1": r1, "c2": c2, "n2": n2, "i2": i2, "r2": r2})
    return items


def _run_main(argv):
    """Run adapter.main() in-process with the given argv; returns the exception type name ('' = none)."""
    from rnapolis import adapter
    old = sys.argv
    sys.argv = ["adapter"] + argv
    buf = io.StringIO()
    try:
        with contextlib.redirect_stdout(buf), contextlib.redirect_stderr(io.StringIO()):
            adapter.main()
        return ""
    except SystemExit as e:
        return "" if e.code in (0, None) else "SystemExit"
    except Exception as e:
        return type(e).__name__
    finally:
        sys.argv = old


def record_listing(case):
    """Call the real importer on the materialised listing; project what it returns."""
    from rnapolis.adapter import parse_fr3d_output
    c = {k: case[k] for k in ("id", "kind", "via", "lines", "tmpl", "final_newline", "struct") if k in case}
    path = _tmp("listing.txt")
    _write_lines(c, path)
    res = {"err": "", "items": []}
    try:
        if c["via"] == "api":
            bi = None
            try:
                bi = parse_fr3d_output(path)
            except Exception as e:                       # the code raising is data
                res["err"] = type(e).__name__
            if bi is not None:
                res["items"] = _project_interactions(bi)
        else:
            out = _tmp("main.json")
            res["err"] = _run_main([os.path.join(lib.REPO, "tests", c["struct"]), "--external", path, "--tool", "fr3d",
                                    "--json", out])
            if res["err"] == "":
                with open(out) as f:
                    res["items"] = _project_json_interactions(json.load(f))
            if os.path.exists(out):
                os.remove(out)
    finally:
        os.remove(path)
    c["result"] = res
    return c


# ------------------------------------------------------------------------- DSSR materialiser

def dssr_name(chain, name, number, icode):
    """The harness's own rendering of a DSSR residue id (used only to WRITE documents)."""
    s = f"{chain}.{name}"
    if name and name[-1].isdigit():
        s += "/"
    s += str(number)
    if icode:
        s += "^" + icode
    return s


def synthetic_structure(rng, n):
    """n distinct residues with varied chains, names (some ending in a digit), negative numbers,
    insertion codes and a label numbering that differs from the author numbering."""
    res, seen = [], set()
    while len(res) < n:
        chain = rng.choice(["A", "B", "AA", "b"])
        name = rng.choice(NAMES)
        number = rng.choice([-3, 0, 1, 2, 3, 10, 11, 12, 100])
        icode = rng.choice(["", "", "", "A", "B"])
        nm = dssr_name(chain, name, number, icode)
        if nm in seen:
            continue
        seen.add(nm)
        lnum = len(res) + 1 if rng.random() < 0.8 else -99999          # -99999: no label
        res.append({"chain": chain, "name": name, "number": number, "icode": icode, "lnumber": lnum})
    return {"src": "synthetic", "residues": res}


def build_structure(struct):
    """-> (Structure3D, list of residue records in structure order)."""
    from rnapolis.common import ResidueAuth, ResidueLabel
    from rnapolis.tertiary import Residue3D, Structure3D
    if struct["src"] == "synthetic":
        rs = []
        for r in struct["residues"]:
            label = None if r["lnumber"] == -99999 else ResidueLabel(r["chain"], r["lnumber"], r["name"])
            auth = ResidueAuth(r["chain"], r["number"], r["icode"] or None, r["name"])
            rs.append(Residue3D(label, auth, 1, r["name"][-1], tuple()))
        s3d = Structure3D(rs)
    else:
        from rnapolis.parser import read_3d_structure
        with open(os.path.join(lib.REPO, "tests", struct["file"])) as f:
            s3d = read_3d_structure(f, None)
    recs = []
    for r in s3d.residues:
        ch, num, ic, nm = _res(r)
        recs.append({"chain": ch, "name": nm, "number": num, "icode": ic})
    return s3d, recs


def make_name(kind, r, taken, rng):
    """Text of one DSSR residue name of the given kind for residue record r ('' with absent -> key omitted)."""
    ch, nm, num, ic = r["chain"], r["name"], r["number"], r["icode"]
    exact = dssr_name(ch, nm, num, ic)
    if kind == "exact":
        return exact
    if kind == "prefixed":
        return rng.choice(["1:", "2:", "10:"]) + exact
    if kind in ("empty", "absent"):
        return ""
    cands = {
        "wrongnumber": [dssr_name(ch, nm, num + d, ic) for d in (1000, 2000, 3000)],
        "wrongchain": [dssr_name(c, nm, num, ic) for c in ("Z", "Y", "Q")],
        "lowername": [dssr_name(ch, nm.lower(), num, ic), dssr_name(ch.swapcase(), nm, num, ic) + "x"],
        "nochain": [exact.split(".", 1)[1], "." + exact.split(".", 1)[1]],
        "labelnumber": [dssr_name(ch, nm, num + d, "") for d in (501, 502, 503)],
        "noslash": [(f"{ch}.{nm}{num}" if nm[-1].isdigit() else f"{ch}.{nm}/{num}") + (("^" + ic) if ic else "")],
        "extraicode": [dssr_name(ch, nm, num, (ic or "") + "Z"), exact + "^Q"],
    }[kind]
    for c in cands:
        if c not in taken and c.split(":")[-1] not in taken:
            return c
    raise lib.MachineryError(f"cannot build an unresolvable name of kind {kind} for {exact}")


def make_lw(kind, rng):
    """-> (lwkind, lw)"""
    if kind == "valid":
        return "str", rng.choice(LW18)
    if kind == "lower":
        return "str", rng.choice(LW18).lower()
    if kind == "dotted":
        return "str", rng.choice(["cW.", "t.H", "c.W", "tS.", "..."])
    if kind == "dashes":
        return "str", "--"
    if kind == "empty":
        return "str", ""
    if kind == "absent":
        return "absent", ""
    if kind == "null":
        return "null", ""
    if kind == "reverse":
        return "str", "reverse"
    if kind == "name":
        return "str", rng.choice(["name", "value", "_value_", "cWW ", "WC", "mro"])
    if kind == "dunder":
        return "str", rng.choice(DUNDER)
    raise lib.MachineryError("unknown LW kind " + kind)


def dssr_cases_from_templates(tpl, structs, rng, tag, copies):
    """Every pair template and stack template materialised `copies` times against the given structures,
    grouped into documents.  A template whose LW is a class-attribute name poisons its whole document
    (the known defect), so such templates get a document with few other pairs."""
    pool_p, pool_d, pool_s = [], [], []
    for _ in range(copies):
        for d in tpl["pair"]:
            (pool_d if d["t"]["lw"] == "dunder" else pool_p).append(d)
        pool_s += tpl["stack"]
    rng.shuffle(pool_p)
    rng.shuffle(pool_d)
    rng.shuffle(pool_s)
    cases = []

    def take(pool, n):
        part = pool[:n]
        del pool[:n]
        return part

    while pool_p or pool_d or pool_s:
        struct = rng.choice(structs)
        recs = struct["recs"]
        taken = {dssr_name(r["chain"], r["name"], r["number"], r["icode"]) for r in recs}
        if pool_d and (not pool_p or rng.random() < 0.12):
            pt = take(pool_p, rng.randint(0, 3)) + take(pool_d, 1)
            rng.shuffle(pt)
        else:
            pt = take(pool_p, rng.randint(1, 8))
        stt = take(pool_s, rng.randint(0, 3))
        pairs, stacks = [], []
        for d in pt:
            t = d["t"]
            lwkind, lw = make_lw(t["lw"], rng)
            pairs.append({"has1": t["n1"] != "absent", "has2": t["n2"] != "absent",
                          "nt1": list(make_name(t["n1"], rng.choice(recs), taken, rng)),
                          "nt2": list(make_name(t["n2"], rng.choice(recs), taken, rng)),
                          "lwkind": lwkind, "lw": lw, "tkept": "yes" if d["kept"] else "no"})
        for d in stt:
            if len(d["t"]) == 0:
                stacks.append({"has": False, "nts": [], "tsteps": d["steps"]})
            else:
                nts = ",".join(make_name(k, rng.choice(recs), taken, rng) for k in d["t"])
                stacks.append({"has": True, "nts": list(nts), "tsteps": d["steps"]})
        cases.append({"id": f"{tag}-{len(cases)}", "kind": "dssr", "via": "api", "struct": struct["struct"],
                      "wrapper": rng.choice(["flat", "flat", "models", "models-2-5", "models-0-1", "models-3-1"]),
                      "pairs": pairs, "stacks": stacks})
    return cases


def _dssr_document(case, rng_noise=0):
    pairs = []
    for k, p in enumerate(case["pairs"]):
        d = {"index": k + 1, "bp": "G-C", "name": "WC", "Saenger": "19-XIX", "DSSR": "cW-W"}
        if p["has1"]:
            d["nt1"] = "".join(p["nt1"])
        if p["has2"]:
            d["nt2"] = "".join(p["nt2"])
        if p["lwkind"] == "str":
            d["LW"] = p["lw"]
        elif p["lwkind"] == "null":
            d["LW"] = None
        pairs.append(d)
    stacks = []
    for k, s in enumerate(case["stacks"]):
        d = {"index": k + 1, "num_nts": 0, "nts_short": ""}
        if s["has"]:
            d["nts_long"] = "".join(s["nts"])
        stacks.append(d)
    body = {"num_pairs": len(pairs), "pairs": pairs, "stacks": stacks}
    if case["wrapper"] == "models":
        return {"models": [{"index": 1, "model": 1, "parameters": body}]}
    if case["wrapper"].startswith("models-"):
        # an ensemble whose model numbers are not their positions: the LAST entry holds this case's lines (and is
        # the one asked for by number), the first one holds another model's (no interactions at all)
        first, asked = (int(x) for x in case["wrapper"].split("-")[1:])
        empty = {"num_pairs": 0, "pairs": [], "stacks": []}
        if case.get("via", "api") != "api":
            # the command-line tool names no model: it reads the FIRST entry, which then holds this case's lines
            return {"models": [{"index": 1, "model": first, "parameters": body},
                               {"index": 2, "model": asked, "parameters": empty}]}
        return {"models": [{"index": 1, "model": first, "parameters": empty},
                           {"index": 2, "model": asked, "parameters": body}]}
    return body


def _dssr_model_arg(case):
    return int(case["wrapper"].split("-")[2]) if case["wrapper"].startswith("models-") else None


def record_dssr(case):
    """Call the real DSSR importer on the materialised document; project what it returns as
    indices (1-based, 0 = not a residue of the structure) into the structure's residue list."""
    from rnapolis.adapter import parse_dssr_output
    c = {k: case[k] for k in ("id", "kind", "via", "struct", "wrapper", "pairs", "stacks")}
    s3d, recs = build_structure(c["struct"])
    c["residues"] = [{"chain": list(r["chain"]), "name": list(r["name"]), "icode": list(r["icode"]), "number": r["number"]}
                     for r in recs]
    path = _tmp("dssr.json")
    with open(path, "w") as f:
        json.dump(_dssr_document(c), f)
    res = {"err": "", "bp": [], "st": []}

    def index_of(x):
        for k, r in enumerate(s3d.residues):
            if r is x:
                return k + 1
        for k, r in enumerate(s3d.residues):
            if r == x:
                return k + 1
        return 0

    try:
        if c["via"] == "api":
            bi = None
            try:
                bi = parse_dssr_output(path, s3d, _dssr_model_arg(c)) if _dssr_model_arg(c) is not None \
                    else parse_dssr_output(path, s3d)
            except Exception as e:                       # the code raising is data
                res["err"] = type(e).__name__
            if bi is not None:
                res["bp"] = [[index_of(x.nt1), index_of(x.nt2), _value(x.lw)] for x in bi.basePairs]
                res["st"] = [[index_of(x.nt1), index_of(x.nt2)] for x in bi.stackings]
        else:
            out = _tmp("main.json")
            res["err"] = _run_main([os.path.join(lib.REPO, "tests", c["struct"]["file"]), "--external", path,
                                    "--tool", "dssr", "--json", out])
            if res["err"] == "":
                with open(out) as f:
                    doc = json.load(f)
                keyed = {(r["chain"], r["number"], r["icode"], r["name"]): k + 1 for k, r in reversed(list(enumerate(recs)))}

                def jidx(r):
                    a = r["auth"] if r.get("auth") is not None else r["label"]
                    return keyed.get((a["chain"], a["number"], a.get("icode") or "", a["name"]), 0)
                bi = doc["baseInteractions"]
                res["bp"] = [[jidx(x["nt1"]), jidx(x["nt2"]), _value(x.get("lw"))] for x in bi["basePairs"]]
                res["st"] = [[jidx(x["nt1"]), jidx(x["nt2"])] for x in bi["stackings"]]
            if os.path.exists(out):
                os.remove(out)
    finally:
        os.remove(path)
    c["result"] = res
    return c


def record(case):
    return record_listing(case) if case["kind"] == "listing" else record_dssr(case)
