"""Area RfamLock (growth beyond the listed properties): runs the real workers of rnapolis.rfam_folder
(generate_consensus_secondary_structure directly in threads, or main() with its thread pool) with a recording
lock and stubs for what needs the network / Infernal (ensure_cm, cmsearch), and logs one event per step of
specs/RfamLock.tla.  Events are appended under the harness's own log mutex: Acquire right after the real lock
was obtained, Release right before it is given back, so the log order is a linearization.  No judgement here."""
import contextlib
import io
import os
import random
import sys
import threading
import time
import types

from . import lib

WORKDIR = None            # set by the property driver to a lib.Scratch directory
STARVE_AFTER = 1.5        # seconds a worker may wait for the lock before the harness logs "Starved" and lets it go


class RecordingLock:
    """Duck-typed threading.Lock: what rfam_folder uses (acquire / release, also as a context manager)."""

    def __init__(self, run):
        self._l = threading.Lock()
        self._run = run

    def acquire(self, *a, **k):
        if not self._l.acquire(timeout=STARVE_AFTER):
            self._run.log("Starved")
            raise TimeoutError("harness: worker starved waiting for the lock")
        self._run.log("Acquire")
        return True

    def release(self):
        self._run.log("Release")
        self._l.release()

    def locked(self):
        return self._l.locked()

    __enter__ = acquire

    def __exit__(self, *a):
        self.release()


class Run:
    def __init__(self, case):
        self.case = case
        self.events = []
        self.mutex = threading.Lock()
        self.tl = threading.local()
        self.rng = random.Random(case["id"])
        self.lock = None

    def log(self, ev):
        with self.mutex:
            self.events.append({"t": getattr(self.tl, "idx", 0), "ev": ev})

    def fake_ensure_cm(self, family=None):
        time.sleep(self.case["delays"][self.tl.idx - 1])
        if self.tl.idx in self.case["fails"]:
            self.log("EnsureFail")
            raise RuntimeError(f"Failed to find covariance model for {family} from Rfam.")
        self.log("EnsureOk")
        return "/nonexistent/Rfam.cm"


def gen_case(rng, cid, nmax):
    n = rng.choice([1, 2, 2, 3, 3, 4][:max(1, nmax + 2)])
    n = min(n, nmax)
    kind = rng.choice(["none", "none", "one", "one", "first", "last", "all", "some"])
    fails = {"none": [], "one": [rng.randint(1, n)], "first": [1], "last": [n], "all": list(range(1, n + 1)),
             "some": sorted(rng.sample(range(1, n + 1), rng.randint(1, n)))}[kind]
    return {"id": cid, "n": n, "fails": fails, "mode": rng.choice(["threads", "threads", "main"]),
            "nolock": False, "delays": [rng.choice([0, 0.001, 0.004, 0.01]) for _ in range(n)]}


def cases(count, seed, nmax=4):
    rng = random.Random(f"{seed}/rfamlock")
    return [gen_case(rng, f"k{n}", nmax) for n in range(count)]


_PATCH = threading.Lock()      # the module globals are patched per run: one run at a time per process


def record(case):
    from rnapolis import rfam_folder as rf
    run = Run(case)
    c = {"id": case["id"], "n": case["n"], "fails": case["fails"], "mode": case["mode"], "printed": [],
         "outcome": "", "locked": False}
    real = {k: getattr(rf, k) for k in ("ensure_cm", "generate_consensus_secondary_structure", "threading", "shutil",
                                        "subprocess")}
    with _PATCH:
        try:
            rf.ensure_cm = run.fake_ensure_cm
            rf.shutil = types.SimpleNamespace(which=lambda name: "/usr/bin/" + name)
            rf.subprocess = types.SimpleNamespace(
                run=lambda *a, **k: types.SimpleNamespace(stdout=b"", stderr=b""),
                CalledProcessError=real["subprocess"].CalledProcessError)
            gen = real["generate_consensus_secondary_structure"]

            def worker(fasta, *a):
                run.tl.idx = int(fasta.header[1:])
                try:
                    out = gen(fasta, *a)
                except BaseException:
                    run.log("Raise")
                    raise
                run.log("Return")
                return out

            if case["mode"] == "threads":
                run.lock = RecordingLock(run)
                ths = [threading.Thread(target=lambda k=k: _swallow(worker, rf.FASTA(f"s{k}", "ACGU"), None, False, 1,
                                                                     False, run.lock)) for k in range(1, case["n"] + 1)]
                for t in ths:
                    t.start()
                for t in ths:
                    t.join(STARVE_AFTER * (case["n"] + 2))
                c["outcome"] = "hung" if any(t.is_alive() for t in ths) else "joined"
            else:
                def make_lock():
                    run.lock = RecordingLock(run)
                    return run.lock
                rf.threading = types.SimpleNamespace(Lock=make_lock)
                rf.generate_consensus_secondary_structure = worker
                os.makedirs(WORKDIR, exist_ok=True)
                path = os.path.join(WORKDIR, f"rfam-{os.getpid()}-{case['id']}.fa")
                with open(path, "w") as fh:
                    fh.write("".join(f">s{k}\nACGU\n" for k in range(1, case["n"] + 1)))
                old = sys.argv
                sys.argv = ["rfam-folder", "--no-fold", path]
                so = io.StringIO()
                box = {}

                def call_main():
                    try:
                        with contextlib.redirect_stdout(so), contextlib.redirect_stderr(io.StringIO()):
                            rf.main()
                        box["outcome"] = "ok"
                    except BaseException as e:
                        box["outcome"] = "raised"
                mt = threading.Thread(target=call_main)
                mt.start()
                mt.join(STARVE_AFTER * (case["n"] + 3))
                c["outcome"] = box.get("outcome", "hung")
                sys.argv = old
                os.unlink(path)
                c["printed"] = [int(line[2:]) for line in so.getvalue().splitlines() if line.startswith(">s")]
        finally:
            for k, v in real.items():
                setattr(rf, k, v)
    c["locked"] = bool(run.lock.locked()) if run.lock is not None else False
    with run.mutex:
        c["events"] = list(run.events)
    return c


def _swallow(fn, *a):
    try:
        fn(*a)
    except BaseException:
        pass
