---------------------------- MODULE Trace_PdbText ----------------------------
(***************************************************************************)
(* Trace validation for C09.  One TLC state per recorded case.  A case is  *)
(* one abstract atom table (value shapes from PdbText) pushed through one  *)
(* path of the real code:                                                  *)
(*   pdb-pdb, cif-cif, pdb-cif-pdb, cif-pdb-cif     (library functions)    *)
(*   split:<in>:<out>                               (splitter.main)        *)
(* Recorded:                                                               *)
(*   atoms   the abstract table (charge as signed integer)                 *)
(*   frames  the projected data frames along the path, frames[1] = what    *)
(*           the reader made of the harness-emitted input text, the last   *)
(*           one = what came back; each [fmt, rows]                        *)
(*   texts   every PDB text the code wrote: [src, model, lines], written   *)
(*           from frames[src] (restricted to `model` unless model = -1); lines  *)
(*           are sequences of 1-character strings and are sliced HERE by   *)
(*           the layout table                                              *)
(*   err     exception type name ("" = none), errstep = where              *)
(* Every judgement is made below.                                          *)
(***************************************************************************)
EXTENDS PdbText, Json, IOUtils

Doc   == JsonDeserialize(IOEnv.TRACE_FILE)
Trace == Doc.cases

VARIABLES idx, cnt
vars == <<idx, cnt>>

\* ------------------------------------------------------------------ helpers
Conv(r, from, to) ==
  IF from = to THEN r
  ELSE [r EXCEPT !.charge = IF to = "pdb" THEN PdbCharge(ChargeVal(r.charge)) ELSE CifCharge(ChargeVal(r.charge))]
\* the row as write_pdb has to print it
LineRow(r) == [r EXCEPT !.charge = PdbCharge(ChargeVal(r.charge))]

LabelFieldSeq == << "lname", "lresn", "lchain", "lseq" >>
LabelDiff(r, s) ==
  LET bad == { k \in 1..Len(LabelFieldSeq) : r[LabelFieldSeq[k]] # s[LabelFieldSeq[k]] } IN
  IF bad = {} THEN "ok" ELSE LabelFieldSeq[Min(bad)]
\* (the written label_seq_id is the author's number unless the table gives the residue a label number of its own)
LabelsOf(q) == [lname |-> q.name, lresn |-> q.resn, lchain |-> q.chain,
                lseq |-> IF "lseq" \in DOMAIN q THEN q.lseq ELSE q.resseq]

First(c)   == c.frames[1]
Final(c)   == c.frames[Len(c.frames)]
\* does the path contain a hop that writes a PDB-derived frame as mmCIF?
HasPdbToCifHop(c) == \E k \in 1..(Len(c.frames) - 1) : c.frames[k].fmt = "pdb" /\ c.frames[k + 1].fmt = "cif"

\* ------------------------------------------------------------------ clauses
InputFaithful(c) ==
  LET F == First(c)  n == Len(c.atoms) IN
  IF Len(F.rows) # n THEN <<"fail", "InputFaithful", "rows">>
  ELSE LET d == TableDiff([k \in 1..n |-> AsRow(c.atoms[k], F.fmt)], F.rows) IN
       IF d[2] # "ok" THEN <<"fail", "InputFaithful", d[2]>>
       ELSE IF F.fmt = "cif" /\ \E k \in 1..n : LabelDiff(LabelsOf(c.atoms[k]), F.rows[k]) # "ok"
            THEN <<"fail", "InputFaithful", "label">>
       ELSE <<"ok">>

\* FieldIdentity[path][field]
FieldIdentity(c) ==
  LET S == First(c)  E == Final(c)  n == Len(S.rows) IN
  IF Len(E.rows) # n THEN <<"fail", "RowCount", c.path>>
  ELSE
  LET want   == [k \in 1..n |-> Conv(S.rows[k], S.fmt, E.fmt)]
      d      == TableDiff(want, E.rows)
      nocharge(R) == [k \in 1..n |-> [R[k] EXCEPT !.charge = <<>>]] IN
  IF d[2] = "ok" THEN
       \* (the label_* items survive only where no PDB text lies on the way: PDB has no columns for them)
       IF S.fmt = "cif" /\ E.fmt = "cif" /\ (\A f \in 1..Len(c.frames) : c.frames[f].fmt = "cif")
          /\ \E k \in 1..n : LabelDiff(S.rows[k], E.rows[k]) # "ok"
       THEN <<"fail", "FieldIdentity", "label">>
       ELSE <<"ok">>
  \* P8b exactly: a path through write_cif(PDB frame) loses every formal charge and nothing else
  ELSE IF /\ d[2] = "charge" /\ HasPdbToCifHop(c)
          /\ TableDiff(nocharge(want), nocharge(E.rows))[2] = "ok"
          /\ \A k \in 1..n : E.rows[k].charge = <<>>
       THEN <<"deviation", "ChargeLostOnCrossPath", c.path>>
  ELSE <<"fail", "FieldIdentity", d[2]>>

SrcRows(c, t) ==
  LET R == c.frames[t.src].rows IN
  \* t.model = -1: the text is the whole frame (0 is a model number a file may use)
  IF t.model = -1 THEN R ELSE SelectSeq(R, LAMBDA r : r.model = t.model)

\* rank of line k among the ATOM lines, for every line (prefix counts)
RECURSIVE Ranks(_, _, _)
Ranks(ks, i, n) == IF i > Len(ks) THEN <<>>
                   ELSE LET m == IF ks[i] = "ATOM" THEN n + 1 ELSE n IN <<m>> \o Ranks(ks, i + 1, m)

Layout80(c, t, ks) ==
  LET rows == SrcRows(c, t)  L == t.lines  nth == Ranks(ks, 1, 0) IN
  IF Cardinality(AtomIdxK(ks)) # Len(rows) THEN <<"fail", "Layout80", "atom-count">>
  ELSE LET why == [k \in 1..Len(L) |->
                     IF ks[k] = "ATOM" THEN AtomLineBad(L[k], LineRow(rows[nth[k]]))
                     ELSE IF ks[k] = "TER" THEN (IF nth[k] = 0 \/ ks[k - 1] # "ATOM" THEN "TER-placement"
                                                 ELSE LET w == TerLineBad(L[k], LineRow(rows[nth[k]])) IN
                                                      IF w = "ok" THEN "ok" ELSE "TER")
                     ELSE IF ks[k] = "OTHER" THEN "unknown-record" ELSE "ok"]
           bad == { k \in 1..Len(L) : why[k] # "ok" } IN
       IF bad = {} THEN <<"ok">> ELSE <<"fail", "Layout80", why[Min(bad)]>>

Bracketing(c, t, ks) ==
  IF ModelBracketingK(t.lines, ks, SrcRows(c, t)) THEN <<"ok">> ELSE <<"fail", "ModelBracketing", c.path>>

TerClause(c, t, ks) ==
  IF TerAfterEveryChainK(t.lines, ks) THEN <<"ok">>
  \* P8a exactly: only the last chain of a model that is followed by another model has no TER
  ELSE IF OnlyModelChangeLacksTerK(t.lines, ks) THEN <<"deviation", "NoTerBeforeEndmdl", c.path>>
  ELSE <<"fail", "TerAfterEveryChain", c.path>>

\* all findings of a case, in clause order (only evaluated when the sanity clauses hold)
Findings(c) ==
  LET K == [j \in 1..Len(c.texts) |-> Kinds(c.texts[j].lines)] IN
  << FieldIdentity(c) >>
  \o [j \in 1..Len(c.texts) |-> Layout80(c, c.texts[j], K[j])]
  \o [j \in 1..Len(c.texts) |-> Bracketing(c, c.texts[j], K[j])]
  \o [j \in 1..Len(c.texts) |-> TerClause(c, c.texts[j], K[j])]

Verdict(c) ==
  IF c.err # "" THEN <<"fail", "NoException", c.errstep>>
  ELSE IF \E k \in 1..Len(c.atoms) : ~InDomain(c.atoms[k]) THEN <<"fail", "InputInDomain", "harness">>
  ELSE IF Len(c.frames) < 2
          \/ \E j \in 1..Len(c.texts) : c.texts[j].src \notin 1..Len(c.frames) THEN <<"fail", "Recorded", "harness">>
  ELSE LET inp == InputFaithful(c) IN
  IF inp[1] # "ok" THEN inp
  ELSE LET F == Findings(c)
           fails == { k \in 1..Len(F) : F[k][1] = "fail" }
           devs  == { k \in 1..Len(F) : F[k][1] = "deviation" } IN
       IF fails # {} THEN F[Min(fails)]
       ELSE IF devs # {} THEN F[Min(devs)]
       ELSE <<"ok">>

\* ------------------------------------------------------------------ one state per case
Init == idx = 0 /\ cnt = [ok |-> 0, deviation |-> 0, fail |-> 0, lines |-> 0]

Next ==
  /\ idx < Len(Trace)
  /\ idx' = idx + 1
  /\ LET c == Trace[idx']  v == Verdict(c) IN
     /\ cnt' = [cnt EXCEPT ![v[1]] = @ + 1,
                           !.lines = @ + (IF c.err = "" THEN Len(c.texts) ELSE 0)]
     /\ (v[1] = "ok" \/ PrintT(<<"V", c.id>> \o v))
  /\ (idx' < Len(Trace) \/ PrintT(<<"SUMMARY", Len(Trace), cnt'.ok, cnt'.deviation, cnt'.fail, cnt'.lines>>))

Spec == Init /\ [][Next]_vars
=============================================================================
